package sa

import (
	"fmt"
	"go/token"
	"go/types"
	"strings"

	"golang.org/x/tools/go/ssa"
)

func init() {
	register(&PropertySpec{
		ID:        "C04",
		Technique: "key-normalisation value flow, lockset over handler-set state, snapshot-outside-lock and once-per-element path rules (static analysis)",
		Explain: "Decided for all histories and schedules: every handler-set map key is lower-cased; list/map state is read under the set's lock and written under it exclusively; no lock is re-acquired while held; handlers run without the lock on a snapshot freshly built under it; dispatch starts exactly one goroutine per snapshot element and every frame down to the handler invokes it on all paths. " +
			"Not decided: the linked-list algebra (append/unlink/drop-empty) over add/remove histories - a heap-shape property needing shape analysis.",
		Assume: []string{"sync.RWMutex semantics", "user handlers reach the set only through Handle/HandleBG/HandleFunc/Remove"},
		Run:    runC04,
	})
	register(&PropertySpec{
		ID:        "C15",
		Technique: "copy-per-invocation value-flow chain and type-driven deep-copy completeness of Line.Copy (static analysis)",
		Explain:   "Each handler invocation receives the result of its own Line.Copy call (or a forwarded parameter of a Handle wrapper), and Copy replaces every reference-typed field enumerated from go/types by a fresh element-wise copy on every path; equality of the copy with the source follows from the whole-struct copy plus element-wise fill.",
		Assume:    []string{"time.Time is immutable through its API", "element types of Args/Tags are strings (checked)"},
		Run:       runC15,
	})
}

func (c *Ctx) clientFuncs() []*ssa.Function {
	var out []*ssa.Function
	for _, f := range c.ModFuncs {
		if f.Package() == c.Client {
			out = append(out, f)
		}
	}
	return out
}

// normalised: every origin of v is a strings.ToLower result, a lower-case
// constant, or a load of a field all of whose stores are normalised.
func (c *Ctx) normalised(v ssa.Value, fieldMemo map[*types.Var]int) (bool, string) {
	for _, o := range c.Origins(v) {
		if call, ok := o.(*ssa.Call); ok && calleeName(&call.Call) == "strings.ToLower" {
			continue
		}
		if s, ok := constString(o); ok {
			if s == strings.ToLower(s) {
				continue
			}
			return false, "constant key " + s + " is not lower-case"
		}
		if fv, _ := loadedField(o); fv != nil {
			switch fieldMemo[fv] {
			case 1, 2:
				continue
			case 3:
				return false, "field " + fv.Name() + " may hold a non-normalised name"
			}
			fieldMemo[fv] = 1
			okAll := true
			why := ""
			nStores := 0
			for _, fn := range c.clientFuncs() {
				funcInstrs(fn, func(in ssa.Instruction) {
					if s, ok := in.(*ssa.Store); ok {
						if f2, _ := fieldOf(s.Addr); f2 == fv {
							nStores++
							if ok2, w := c.normalised(s.Val, fieldMemo); !ok2 {
								okAll, why = false, "store to "+fv.Name()+" at "+c.InstrPos(s)+": "+w
							}
						}
					}
				})
			}
			if okAll && nStores > 0 {
				fieldMemo[fv] = 2
				continue
			}
			fieldMemo[fv] = 3
			if nStores == 0 {
				why = "field " + fv.Name() + " has no stores"
			}
			return false, why
		}
		return false, "key derives from " + o.String() + " which is not lower-cased"
	}
	return true, "all origins lower-cased"
}

func runC04(c *Ctx) {
	r, a := c.R, c.A
	r.Rule("R1", "every map operation on the handler set uses a lower-cased key (strings.ToLower result, lower-case constant, or hNode.event whose stores are all normalised)")
	r.Rule("R2", "every read of hSet.set / hList.start,end / hNode.next,prev holds the set's lock (shared or exclusive), every write holds it exclusively; no function acquires the set's lock while it is already held")
	r.Rule("R3", "no handler invocation, go statement or WaitGroup.Wait executes while the set's lock is held; dispatch iterates over a slice freshly built by a function that holds the lock")
	r.Rule("R4", "dispatch starts exactly one goroutine per snapshot element, passing that element")
	r.Rule("R5", "every frame from the per-handler goroutine down to the handler invokes the next frame / the handler on every path (no path skips a registered handler)")

	setVar := c.FieldVar(c.Client, "hSet", "set")
	hl := c.Named(c.Client, "hList")
	r.Anchor("R1", "hSet.set, hList, hNode", setVar != nil && hl != nil)
	if setVar == nil {
		return
	}
	guarded := map[*types.Var]bool{setVar: true}
	// the link fields: every field of the list and node types that points to a node
	nodeT := c.Named(c.Client, "hNode")
	for _, tn := range []string{"hList", "hNode"} {
		nt := c.Named(c.Client, tn)
		if nt == nil {
			continue
		}
		st, _ := nt.Underlying().(*types.Struct)
		for i := 0; st != nil && i < st.NumFields(); i++ {
			if _, isPtr := st.Field(i).Type().Underlying().(*types.Pointer); isPtr && namedOf(st.Field(i).Type()) == nodeT && nodeT != nil {
				guarded[st.Field(i)] = true
			}
		}
	}
	r.Floor("R2", "guarded handler-set fields", len(guarded), 5)
	funcs := c.clientFuncs()
	ls := c.ComputeLocksets(funcs)
	lock := c.lockFieldName(c.Client, "hSet")
	memo := map[*types.Var]int{}
	nKeys, nAcc := 0, 0
	for _, fn := range funcs {
		funcInstrs(fn, func(in ssa.Instruction) {
			// ---- R1: map ops on set
			var m, key ssa.Value
			write := false
			switch t := in.(type) {
			case *ssa.Lookup:
				m, key = t.X, t.Index
			case *ssa.MapUpdate:
				m, key, write = t.Map, t.Key, true
			case *ssa.Call:
				if b, ok := t.Call.Value.(*ssa.Builtin); ok && b.Name() == "delete" {
					m, key, write = t.Call.Args[0], t.Call.Args[1], true
				}
			}
			if m != nil {
				if fv, base := loadedField(m); fv != nil && fv != setVar && c.isHSetStringMap(fv, base) {
					// any other string-keyed map of the handler set (caches, indexes) must use the same key normal form
					nKeys++
					ok, why := c.normalised(key, memo)
					r.Add("R1", "key:"+c.FuncKey(fn)+":"+fv.Name()+":"+opName(in), c.InstrPos(in), c.FuncKey(fn), "every event-name-keyed map of the handler set uses lower-cased keys", ok, why)
				}
				if fv, _ := loadedField(m); fv == setVar {
					nKeys++
					ok, why := c.normalised(key, memo)
					r.Add("R1", "key:"+c.FuncKey(fn)+":"+opName(in), c.InstrPos(in), c.FuncKey(fn), "handler-set key is lower-cased", ok, why)
					// R2 for the map content
					nAcc++
					held := ls.Held(in, lock)
					okL := held == 'W' || (!write && held == 'R')
					r.Add("R2", "map-op:"+c.FuncKey(fn)+":"+opName(in), c.InstrPos(in), c.FuncKey(fn), "handler-set map accessed under its lock", okL,
						fmt.Sprintf("write=%v lockset=%s", write, ls.At[in]))
				}
			}
			// ---- R2: field accesses
			if fa, ok := in.(*ssa.FieldAddr); ok {
				fv, base := fieldOf(fa)
				if !guarded[fv] {
					return
				}
				if c.allOriginsLocalAlloc(base, fn) {
					return // object under construction
				}
				for _, ref := range *fa.Referrers() {
					write := false
					switch t := ref.(type) {
					case *ssa.Store:
						write = t.Addr == fa
					case *ssa.UnOp:
					default:
						continue
					}
					nAcc++
					held := ls.Held(ref, lock)
					okL := held == 'W' || (!write && held == 'R')
					r.Add("R2", fmt.Sprintf("field:%s:%s:w=%v", c.FuncKey(fn), fv.Name(), write), c.InstrPos(ref), c.FuncKey(fn), "handler-set list state accessed under the set's lock", okL,
						fmt.Sprintf("lockset=%s", ls.At[ref]))
				}
			}
		})
	}
	r.Floor("R1", "handler-set map operations", nKeys, 4)
	r.Floor("R2", "guarded accesses", nAcc, 15)
	acq := c.Acquires(funcs)
	for _, ra := range ls.Reacquisitions(funcs, acq) {
		if ra.Lock != lock {
			continue
		}
		fn := ra.In.Parent()
		r.Add("R2", "reacquire:"+c.FuncKey(fn)+":"+ra.Via, c.InstrPos(ra.In), c.FuncKey(fn), "the set's lock is not acquired while already held (self-deadlock / writer-starvation deadlock)", false, ra.Via+" while "+ra.Lock+" is held")
	}
	r.Add("R2", "no-reacquire", "-", "", "no re-acquisition of the handler-set lock anywhere in package client", true, "checked all call sites against transitive acquire sets")
	c.c04Atomic(funcs, ls, lock, setVar, guarded)
	c.c04AllSets()

	// ---- R3
	c.noLockAcrossHandlers("R3", funcs, ls, lock)
	snap := c.snapshotRule("R3", ls, lock)

	// ---- R4
	nGo := 0
	funcInstrs(c.fanOut().Fn, func(in ssa.Instruction) {
		g, ok := in.(*ssa.Go)
		if !ok {
			return
		}
		nGo++
		ok2, why := c.goPerElement(g, snap)
		r.Add("R4", "one-go-per-element", c.InstrPos(g), c.FuncKey(a.SetDispatch), "exactly one goroutine per snapshot element, passing that element", ok2, why)
	})
	r.Exactly("R4", "go statements in hSet.dispatch", nGo, 1)

	// ---- R5
	region := c.Closure([]*ssa.Function{a.SetDispatch}, func(from *ssa.Function, e Edge) bool { return !e.Site.Common().IsInvoke() })
	n5 := 0
	for _, fn := range region.Order {
		if fn == a.SetDispatch || !c.InModuleFn(fn) {
			continue
		}
		var hcs []ssa.Instruction
		for _, hc := range c.HandlerCalls() {
			if hc.Site.Parent() == fn {
				hcs = append(hcs, hc.Site)
			}
		}
		if len(hcs) == 0 {
			continue
		}
		n5++
		ok, bad := AllPathsFromEntryPass(fn, func(in ssa.Instruction) bool {
			for _, h := range hcs {
				if h == in {
					return true
				}
			}
			return false
		})
		why := "every path from entry to return passes the handler call"
		if !ok {
			why = "return at " + c.InstrPos(bad) + " is reachable without invoking the handler"
		}
		r.Add("R5", "must-invoke:"+c.FuncKey(fn), c.Pos(fn.Pos()), c.FuncKey(fn), "frame invokes the handler on every path", ok, why)
	}
	// forwarders reached through the interface
	for _, hc := range c.HandlerCalls() {
		fn := hc.Site.Parent()
		if _, in := region.Funcs[fn]; in || !c.isHandleForwarder(fn) {
			continue
		}
		n5++
		ok, bad := AllPathsFromEntryPass(fn, func(in ssa.Instruction) bool { return in == hc.Site })
		why := "every path passes the call"
		if !ok {
			why = "return at " + c.InstrPos(bad) + " skips the call"
		}
		r.Add("R5", "must-invoke:"+c.FuncKey(fn), c.Pos(fn.Pos()), c.FuncKey(fn), "forwarder invokes the wrapped handler on every path", ok, why)
	}
	r.Floor("R5", "frames between dispatch and handler", n5, 3)
}

func opName(in ssa.Instruction) string {
	switch t := in.(type) {
	case *ssa.Lookup:
		return "lookup"
	case *ssa.MapUpdate:
		return "update"
	case *ssa.Call:
		if b, ok := t.Call.Value.(*ssa.Builtin); ok {
			return b.Name()
		}
	}
	return fmt.Sprintf("%T", in)
}

// allOriginsLocalAlloc: v is (only) an allocation made in fn.
func (c *Ctx) allOriginsLocalAlloc(v ssa.Value, fn *ssa.Function) bool {
	switch t := v.(type) {
	case *ssa.Alloc:
		return t.Parent() == fn
	case *ssa.FieldAddr:
		// a struct embedded by value in the object under construction
		return c.allOriginsLocalAlloc(t.X, fn)
	case *ssa.Phi:
		for _, e := range t.Edges {
			if !c.allOriginsLocalAlloc(e, fn) {
				return false
			}
		}
		return len(t.Edges) > 0
	}
	return false
}

// snapshotSource finds the call whose result hSet.dispatch ranges over.
// fanOutT describes where the per-handler goroutines are started: in the set's
// dispatch function itself, or in the one unexported helper it hands the
// snapshot to (called from nowhere else, never used as a value).
type fanOutT struct {
	Fn     *ssa.Function // the function with the loop and the go statement
	Snap   *ssa.Call     // the call that builds the snapshot (in the dispatch function)
	Ranged ssa.Value     // what Fn ranges over: Snap itself, or Fn's parameter that receives it
	Local  bool          // the snapshot is built in Fn itself (nil, then appends) rather than by a call
}

// localSnapshot: the slice fn ranges over when it is built in fn itself: every
// origin is nil, a make, or an append whose first argument is again such a
// value.
func (c *Ctx) localSnapshot(fn *ssa.Function) ssa.Value {
	var out ssa.Value
	funcInstrs(fn, func(in ssa.Instruction) {
		ia, ok := in.(*ssa.IndexAddr)
		if !ok || out != nil {
			return
		}
		if _, isSlice := ia.X.Type().Underlying().(*types.Slice); !isSlice {
			return
		}
		seen := map[ssa.Value]bool{}
		nApp := 0
		var built func(v ssa.Value) bool
		built = func(v ssa.Value) bool {
			if seen[v] {
				return true
			}
			seen[v] = true
			for _, o := range c.originsLocal(v) {
				switch t := o.(type) {
				case *ssa.Const:
					if t.Value != nil {
						return false
					}
				case *ssa.MakeSlice:
				case *ssa.Call:
					b, isB := t.Call.Value.(*ssa.Builtin)
					if !isB || b.Name() != "append" || !built(t.Call.Args[0]) {
						return false
					}
					nApp++
				default:
					return false
				}
			}
			return true
		}
		if _, isCall := ia.X.(*ssa.Call); !isCall && built(ia.X) && nApp > 0 {
			out = ia.X
		}
	})
	return out
}

func (c *Ctx) fanOut() fanOutT {
	d := c.A.SetDispatch
	hasGo := false
	funcInstrs(d, func(in ssa.Instruction) {
		if _, ok := in.(*ssa.Go); ok {
			hasGo = true
		}
	})
	if !hasGo {
		for _, cs := range CallSites(d) {
			call, ok := cs.(*ssa.Call)
			if !ok || call.Call.IsInvoke() {
				continue
			}
			h := call.Call.StaticCallee()
			if h == nil || !c.InModuleFn(h) || h.Package() != c.Client || (h.Object() != nil && h.Object().Exported()) || addrTaken(h) || len(c.staticCallers(h)) != 1 {
				continue
			}
			for i, arg := range call.Call.Args {
				sc, isC := arg.(*ssa.Call)
				if !isC || sc.Call.IsInvoke() || sc.Call.StaticCallee() == nil || i >= len(h.Params) {
					continue
				}
				if _, isSlice := sc.Type().Underlying().(*types.Slice); !isSlice {
					continue
				}
				ranges, spawns := false, false
				funcInstrs(h, func(in ssa.Instruction) {
					if ia, okI := in.(*ssa.IndexAddr); okI && ia.X == ssa.Value(h.Params[i]) {
						ranges = true
					}
					if _, okG := in.(*ssa.Go); okG {
						spawns = true
					}
				})
				if ranges && spawns {
					return fanOutT{Fn: h, Snap: sc, Ranged: h.Params[i]}
				}
			}
		}
	}
	snap := c.snapshotSourceIn(d)
	var ranged ssa.Value
	if snap != nil {
		ranged = snap
	} else if hasGo {
		if loc := c.localSnapshot(d); loc != nil {
			return fanOutT{Fn: d, Ranged: loc, Local: true}
		}
	}
	return fanOutT{Fn: d, Snap: snap, Ranged: ranged}
}

func (c *Ctx) snapshotSource(fn *ssa.Function) *ssa.Call {
	if fn == c.A.SetDispatch {
		return c.fanOut().Snap
	}
	return c.snapshotSourceIn(fn)
}

func (c *Ctx) snapshotSourceIn(fn *ssa.Function) *ssa.Call {
	var out *ssa.Call
	funcInstrs(fn, func(in ssa.Instruction) {
		ia, ok := in.(*ssa.IndexAddr)
		if !ok {
			return
		}
		if call, ok := ia.X.(*ssa.Call); ok && !call.Call.IsInvoke() && call.Call.StaticCallee() != nil {
			if _, isSlice := call.Type().Underlying().(*types.Slice); isSlice {
				out = call
			}
		}
	})
	return out
}

// goPerElement: g is in the loop ranging over snap, executes once per element
// load, and passes the element.
func (c *Ctx) goPerElement(g *ssa.Go, snapCall *ssa.Call) (bool, string) {
	if snapCall == nil && !c.fanOut().Local {
		return false, "no snapshot"
	}
	snap := c.fanOut().Ranged
	if snap == nil {
		return false, "no snapshot"
	}
	if c.LoopDepth(g.Block()) != 1 {
		return false, fmt.Sprintf("go statement at loop depth %d, want 1", c.LoopDepth(g.Block()))
	}
	// some argument (or closure binding) is the load of snap[i]
	var elem *ssa.UnOp
	check := func(v ssa.Value) {
		for _, o := range c.Origins(v) {
			if u, ok := o.(*ssa.UnOp); ok && u.Op == token.MUL {
				if ia, ok := u.X.(*ssa.IndexAddr); ok && ia.X == snap {
					elem = u
				}
			}
		}
	}
	for _, a := range g.Call.Args {
		check(a)
	}
	if mc, ok := g.Call.Value.(*ssa.MakeClosure); ok {
		for _, b := range mc.Bindings {
			check(b)
			// binding may be a cell holding the element
			if al, ok := b.(*ssa.Alloc); ok {
				for _, s := range cellStores(al) {
					check(s.Val)
				}
			}
		}
	}
	if elem == nil {
		return false, "the spawned goroutine does not receive the range element"
	}
	if !c.OncePer(elem, g) {
		return false, "go statement does not execute exactly once per element"
	}
	return true, "go once per element load at " + c.InstrPos(elem)
}

// ---------------- C15 ----------------

func runC15(c *Ctx) {
	r, a := c.R, c.A
	r.Rule("R1", "at every handler-invocation site the line argument is a forwarded parameter of a Handle wrapper, or the single-use result of a (*Line).Copy call evaluated once per invocation")
	r.Rule("R2", "(*Line).Copy starts from a whole-struct copy and, for every reference-typed field of Line (enumerated from go/types; time.Time exempt), stores a fresh allocation filled element-wise from the source on every path where the source field may be non-nil")
	r.Rule("R3", "the parsed line the copies are taken from is never reused: every value sent on the inbound queue is freshly allocated for that read by the parser, together with its argument slice and tag map (the detached background dispatch copies it later, while the receive goroutine is already parsing the next line)")
	r.Rule("R4", "an event is not edited once it has been dispatched: after a call of Conn.dispatch no store into the dispatched Line (a field, an element of its argument slice, an entry of its tag map) is reachable in the calling function - the detached background dispatch takes its copies later, so an edit for the next event would reach handlers of this one")
	c.dispatchedLineFrozenRule("R4")
	c.freshParsedLineRule("R3")
	copyFn := c.Func(c.Client, "(*Line).Copy")
	r.Anchor("R1", "(*Line).Copy", copyFn != nil)
	if copyFn == nil {
		return
	}
	c.perInvocationCopy("R1", copyFn)
	_ = a

	// R2
	r.Funcs[c.FuncKey(copyFn)] = true
	lineS := c.A.Line.Underlying().(*types.Struct)
	// the result: returned Alloc of Line
	var res *ssa.Alloc
	funcInstrs(copyFn, func(in ssa.Instruction) {
		if rt, ok := in.(*ssa.Return); ok && len(rt.Results) == 1 {
			if al, ok := rt.Results[0].(*ssa.Alloc); ok {
				res = al
			}
		}
	})
	if res == nil {
		r.Add("R2", "result", c.Pos(copyFn.Pos()), c.FuncKey(copyFn), "Copy returns a freshly allocated Line", false, "result is not a local allocation")
		return
	}
	fc := c.newFresh()
	if esc := fc.escapes(res, map[ssa.Value]bool{}); esc != "" {
		r.Add("R2", "result", c.Pos(copyFn.Pos()), c.FuncKey(copyFn), "Copy returns a freshly allocated Line", false, "result "+esc)
		return
	}
	// whole-struct copy from the receiver
	var whole *ssa.Store
	for _, ref := range *res.Referrers() {
		if s, ok := ref.(*ssa.Store); ok && s.Addr == res {
			if u, ok := s.Val.(*ssa.UnOp); ok && u.Op == token.MUL && u.X == copyFn.Params[0] {
				whole = s
			}
		}
	}
	r.Add("R2", "whole-struct-copy", c.InstrPos(whole), c.FuncKey(copyFn), "Copy starts from a whole-struct copy of the receiver (all value fields equal)", whole != nil, "nl := *l")
	if whole == nil {
		return
	}
	nref := 0
	for i := 0; i < lineS.NumFields(); i++ {
		f := lineS.Field(i)
		if !isRefType(f.Type()) {
			continue
		}
		if typeString(f.Type()) == "time.Time" {
			r.Add("R2", "field:"+f.Name(), "-", c.FuncKey(copyFn), "time.Time field is exempt (immutable through its API)", true, "exempt")
			continue
		}
		nref++
		ok, why := c.fieldDeepCopied(copyFn, res, whole, f, i)
		r.Add("R2", "field:"+f.Name(), c.Pos(copyFn.Pos()), c.FuncKey(copyFn), "reference field "+f.Name()+" is deep-copied on every path", ok, why)
	}
	r.Floor("R2", "reference-typed fields of Line", nref, 2)
}

// perInvocationCopy: at every handler-invocation site the line argument is a
// forwarded parameter of a Handle wrapper or a once-per-invocation Copy.
func (c *Ctx) perInvocationCopy(rule string, copyFn *ssa.Function) {
	r := c.R
	n := 0
	for _, hc := range c.HandlerCalls() {
		fn := hc.Site.Parent()
		cc := hc.Site.Common()
		var arg ssa.Value
		if cc.IsInvoke() {
			arg = cc.Args[1]
		} else if cc.StaticCallee() != nil {
			arg = cc.Args[2]
		} else {
			arg = cc.Args[1]
		}
		n++
		if pr, ok := arg.(*ssa.Parameter); ok && c.isHandleForwarder(fn) {
			r.Add(rule, "forwarded:"+c.FuncKey(fn), c.InstrPos(hc.Site), c.FuncKey(fn), "line is the forwarded parameter of a Handle wrapper", true, "parameter "+pr.Name())
			continue
		}
		ok, why := c.freshCopyArg(arg, hc.Site, copyFn)
		r.Add(rule, "copy-per-invocation:"+c.FuncKey(fn), c.InstrPos(hc.Site), c.FuncKey(fn), "handler receives its own Line.Copy", ok, why)
	}
	r.Floor(rule, "handler invocation sites", n, 3)
}

// freshCopyArg: arg derives (single use, once per site) from a Copy call.
func (c *Ctx) freshCopyArg(arg ssa.Value, site ssa.CallInstruction, copyFn *ssa.Function) (bool, string) {
	roots := c.Origins(arg)
	if len(roots) != 1 {
		return false, fmt.Sprintf("line argument has %d origins", len(roots))
	}
	call, ok := roots[0].(*ssa.Call)
	if !ok || call.Call.StaticCallee() != copyFn {
		return false, "line argument is not the result of (*Line).Copy: " + roots[0].String()
	}
	// the copy must be used exactly once
	uses := 0
	var user ssa.Instruction
	for _, ref := range *call.Referrers() {
		if _, ok := ref.(*ssa.DebugRef); ok {
			continue
		}
		uses++
		user = ref
	}
	if uses != 1 {
		return false, fmt.Sprintf("the copy has %d uses; it must belong to one invocation", uses)
	}
	if call.Parent() == site.Parent() {
		if user != ssa.Instruction(site) {
			return false, "the copy is not passed directly to the handler call"
		}
		if !c.OncePer(call, site) {
			return false, "Copy is not evaluated once per handler invocation (hoisted out of the loop?)"
		}
		return true, "Copy at " + c.InstrPos(call) + " evaluated once per invocation"
	}
	// copy evaluated in the spawner and handed over as an argument/binding
	if !c.OncePer(call, user) {
		return false, "Copy is not evaluated once per spawn"
	}
	// in the callee the parameter must be used once
	if pr, ok := arg.(*ssa.Parameter); ok {
		u := 0
		for _, ref := range *pr.Referrers() {
			if _, ok := ref.(*ssa.DebugRef); !ok {
				u++
			}
		}
		if u != 1 {
			return false, "the handed-over copy is used more than once in the goroutine"
		}
		if c.LoopDepth(site.Block()) != 0 {
			return false, "handler call in a loop shares one copy"
		}
		return true, "Copy evaluated once per spawn at " + c.InstrPos(call)
	}
	return false, "copy reaches the call through an unrecognised chain"
}

// fieldDeepCopied: on every path from the whole-struct copy to return, field
// idx of res is overwritten with a fresh allocation filled from the source,
// unless the path is one where the source field is nil.
func (c *Ctx) fieldDeepCopied(fn *ssa.Function, res *ssa.Alloc, whole *ssa.Store, f *types.Var, idx int) (bool, string) {
	recv := fn.Params[0]
	// candidate stores
	var stores []*ssa.Store
	for _, ref := range *res.Referrers() {
		fa, ok := ref.(*ssa.FieldAddr)
		if !ok || fa.Field != idx {
			continue
		}
		for _, r2 := range *fa.Referrers() {
			if s, ok := r2.(*ssa.Store); ok && s.Addr == fa {
				stores = append(stores, s)
			}
		}
	}
	if len(stores) == 0 {
		return false, "field is only copied by the whole-struct copy (shared with the source)"
	}
	fc := c.newFresh()
	for _, s := range stores {
		if !fc.fresh(s.Val, map[ssa.Value]bool{}) {
			return false, "value stored at " + c.InstrPos(s) + " is not a fresh allocation: " + fc.why
		}
		// element type must be a value type
		switch t := f.Type().Underlying().(type) {
		case *types.Slice:
			if isRefType(t.Elem()) {
				return false, "slice elements are references"
			}
		case *types.Map:
			if isRefType(t.Elem()) || isRefType(t.Key()) {
				return false, "map keys/values are references"
			}
		default:
			return false, "unsupported reference field kind " + f.Type().String()
		}
		if !c.filledFromSource(fn, s, res, recv, idx) {
			return false, "fresh value stored at " + c.InstrPos(s) + " is not filled element-wise from the source field"
		}
	}
	// path condition: every path whole -> return passes a store, or a false edge of `src.f != nil`
	isStore := func(in ssa.Instruction) bool {
		for _, s := range stores {
			if s == in {
				return true
			}
		}
		return false
	}
	// nil-guard: edges taken only when recv.f == nil are removed from the CFG
	type edge struct{ from, to *ssa.BasicBlock }
	nilEdge := map[edge]bool{}
	for _, b := range fn.Blocks {
		for _, s := range b.Succs {
			cnd, ok := edgeCond(b, s)
			if !ok {
				continue
			}
			cnd = unwrapNot(cnd)
			bo, ok := cnd.V.(*ssa.BinOp)
			if !ok || (bo.Op != token.NEQ && bo.Op != token.EQL) {
				continue
			}
			var other ssa.Value
			if isNilConst(bo.Y) {
				other = bo.X
			} else if isNilConst(bo.X) {
				other = bo.Y
			}
			if other == nil {
				continue
			}
			if fv, base := loadedField(other); fv == f && base == recv {
				if (bo.Op == token.EQL) == cnd.True {
					nilEdge[edge{b, s}] = true
				}
			}
		}
	}
	reach := ReachFromFiltered(whole, false, isStore, func(from, to *ssa.BasicBlock) bool { return nilEdge[edge{from, to}] })
	for in := range reach {
		if isReturn(in) {
			return false, "a path to the return at " + c.InstrPos(in) + " keeps the shared field (no fresh store, source not known nil)"
		}
	}
	return true, fmt.Sprintf("%d fresh store(s), filled from source; remaining paths have a nil source field", len(stores))
}

// filledFromSource: the fresh slice/map stored by s is filled from recv.f:
// builtin copy(dst, src) / append(fresh, src...) for slices, a range over
// the source map with updates of the new map for maps.
func (c *Ctx) filledFromSource(fn *ssa.Function, s *ssa.Store, res *ssa.Alloc, recv ssa.Value, idx int) bool {
	isSrc := func(v ssa.Value) bool {
		fv, base := loadedField(v)
		if fv == nil || base != recv {
			return false
		}
		st := derefStruct(recv.Type())
		return st != nil && st.Field(idx) == fv
	}
	isDst := func(v ssa.Value) bool {
		if v == s.Val {
			return true
		}
		if fv, base := loadedField(v); fv != nil && base == ssa.Value(res) {
			st := derefStruct(res.Type())
			return st != nil && st.Field(idx) == fv
		}
		return false
	}
	found := false
	// a module helper that returns a copy of its argument
	if call, ok := s.Val.(*ssa.Call); ok && !call.Call.IsInvoke() {
		if callee := call.Call.StaticCallee(); callee != nil && c.InModuleFn(callee) {
			for i, a := range call.Call.Args {
				if isSrc(a) && i < len(callee.Params) && c.helperCopies(callee, callee.Params[i]) {
					return true
				}
			}
		}
	}
	funcInstrs(fn, func(in ssa.Instruction) {
		switch t := in.(type) {
		case *ssa.Call:
			if b, ok := t.Call.Value.(*ssa.Builtin); ok {
				switch b.Name() {
				case "copy":
					if isDst(t.Call.Args[0]) && isSrc(t.Call.Args[1]) {
						// length of the fresh slice must be len(src)
						if ms, ok := s.Val.(*ssa.MakeSlice); ok {
							if lc, ok := ms.Len.(*ssa.Call); ok {
								if lb, ok := lc.Call.Value.(*ssa.Builtin); ok && lb.Name() == "len" && isSrc(lc.Call.Args[0]) {
									found = true
								}
							}
						}
					}
				case "append":
					if t == s.Val && len(t.Call.Args) == 2 && isSrc(t.Call.Args[1]) {
						found = true
					}
				}
			} else if n := calleeName(&t.Call); (n == "slices.Clone" || n == "maps.Clone") && t == s.Val && isSrc(t.Call.Args[0]) {
				found = true
			}
		case *ssa.MapUpdate:
			if isDst(t.Map) {
				// key and value come from a range over the source
				kOK, vOK := false, false
				for _, pair := range [][2]interface{}{{t.Key, &kOK}, {t.Value, &vOK}} {
					if ex, ok := pair[0].(ssa.Value).(*ssa.Extract); ok {
						if nx, ok := ex.Tuple.(*ssa.Next); ok {
							if rg, ok := nx.Iter.(*ssa.Range); ok && isSrc(rg.X) {
								*(pair[1].(*bool)) = true
							}
						}
					}
				}
				if kOK && vOK {
					found = true
				}
			}
		}
	})
	return found
}

// snapshotRule: dispatch iterates over a slice freshly built, under the
// set's lock, by the function it calls (shared by C04.R3 and C05.R5).
func (c *Ctx) snapshotRule(rule string, ls *Locksets, lock string) *ssa.Call {
	r, a := c.R, c.A
	// snapshot: the range in dispatch iterates over a fresh result
	snap := c.snapshotSource(a.SetDispatch)
	if fo := c.fanOut(); snap == nil && fo.Local {
		// the snapshot is built in the dispatch function itself: a fresh slice (nil, then appends), filled while
		// the set's lock is held
		okL, nApp := true, 0
		funcInstrs(fo.Fn, func(in ssa.Instruction) {
			if cc := callOf(in); cc != nil {
				if b, isB := cc.Value.(*ssa.Builtin); isB && b.Name() == "append" {
					nApp++
					if ls.Held(in, lock) == 0 {
						okL = false
					}
				}
			}
		})
		r.Add(rule, "snapshot-fresh", c.Pos(fo.Fn.Pos()), c.FuncKey(fo.Fn), "the handler snapshot is a fresh slice per dispatch", true, "built in the dispatch function from nil by appends")
		r.Add(rule, "snapshot-under-lock", c.Pos(fo.Fn.Pos()), c.FuncKey(fo.Fn), "the snapshot is filled while the set's lock is held", okL && nApp > 0, fmt.Sprintf("%d appends", nApp))
	} else if snap == nil {
		r.Add(rule, "snapshot", c.Pos(a.SetDispatch.Pos()), c.FuncKey(a.SetDispatch), "dispatch iterates over a call result (the snapshot)", false, "the ranged slice is not a call result")
	} else {
		callee := snap.Call.StaticCallee()
		fc := c.newFresh()
		ok := callee != nil && fc.funcFresh(callee)
		why := "every return of " + c.FuncKey(callee) + " is nil or a fresh slice"
		if !ok {
			why = fc.why
		}
		r.Add(rule, "snapshot-fresh", c.InstrPos(snap), c.FuncKey(a.SetDispatch), "the handler snapshot is a fresh slice per dispatch", ok, why)
		if callee != nil {
			r.Funcs[c.FuncKey(callee)] = true
			// appends happen under the lock
			okL, nApp := true, 0
			builders := c.Closure([]*ssa.Function{callee}, func(from *ssa.Function, e Edge) bool {
				return !e.Site.Common().IsInvoke() && e.Kind != EdgeGo && e.Callee.Package() == c.Client
			})
			for _, bf := range builders.Order {
				funcInstrs(bf, func(in ssa.Instruction) {
					if cc := callOf(in); cc != nil {
						if b, isB := cc.Value.(*ssa.Builtin); isB && b.Name() == "append" {
							nApp++
							if ls.Held(in, lock) == 0 {
								okL = false
							}
						}
					}
				})
			}
			r.Add(rule, "snapshot-under-lock", c.Pos(callee.Pos()), c.FuncKey(callee), "the snapshot is filled while the set's lock is held", okL && nApp > 0, fmt.Sprintf("%d appends", nApp))
		}
	}

	return snap
}

// helperCopies: every return of fn is either nil under `src == nil`, or a
// fresh map/slice filled element-wise from the parameter src.
func (c *Ctx) helperCopies(fn *ssa.Function, src *ssa.Parameter) bool {
	ok := true
	n := 0
	fc := c.newFresh()
	funcInstrs(fn, func(in ssa.Instruction) {
		rt, isR := in.(*ssa.Return)
		if !isR || len(rt.Results) != 1 {
			return
		}
		n++
		v := retVal(rt, 0)
		if isNilConst(v) {
			// only when the source is nil
			guard := false
			for _, cd := range CondsAt(rt.Block()) {
				cd = unwrapNot(cd)
				if bo, isB := cd.V.(*ssa.BinOp); isB && (bo.Op == token.EQL) == cd.True && (bo.Op == token.EQL || bo.Op == token.NEQ) {
					if (bo.X == ssa.Value(src) && isNilConst(bo.Y)) || (bo.Y == ssa.Value(src) && isNilConst(bo.X)) {
						guard = true
					}
				}
			}
			if !guard {
				ok = false
			}
			return
		}
		if !fc.fresh(v, map[ssa.Value]bool{}) {
			ok = false
			return
		}
		filled := false
		funcInstrs(fn, func(x ssa.Instruction) {
			switch t := x.(type) {
			case *ssa.MapUpdate:
				if t.Map == v {
					kOK, vOK := false, false
					for _, pair := range [][2]interface{}{{t.Key, &kOK}, {t.Value, &vOK}} {
						if ex, ok := pair[0].(ssa.Value).(*ssa.Extract); ok {
							if nx, ok := ex.Tuple.(*ssa.Next); ok {
								if rg, ok := nx.Iter.(*ssa.Range); ok && rg.X == ssa.Value(src) {
									*(pair[1].(*bool)) = true
								}
							}
						}
					}
					if kOK && vOK {
						filled = true
					}
				}
			case *ssa.Call:
				if b, isB := t.Call.Value.(*ssa.Builtin); isB {
					if b.Name() == "copy" && t.Call.Args[0] == v && t.Call.Args[1] == ssa.Value(src) {
						filled = true
					}
					if b.Name() == "append" && ssa.Value(t) == v && len(t.Call.Args) == 2 && t.Call.Args[1] == ssa.Value(src) {
						filled = true
					}
				}
			}
		})
		if !filled {
			ok = false
		}
	})
	return ok && n > 0
}

// isHSetStringMap: fv is a map[string]... field of the handler-set struct (or of hList).
func (c *Ctx) isHSetStringMap(fv *types.Var, base ssa.Value) bool {
	mt, ok := fv.Type().Underlying().(*types.Map)
	if !ok || !isStringType(mt.Key()) {
		return false
	}
	t := base.Type()
	if pt, ok := t.Underlying().(*types.Pointer); ok {
		t = pt.Elem()
	}
	n, ok := t.(*types.Named)
	return ok && n.Obj().Pkg() == c.Client.Pkg && (n.Obj().Name() == c.nm("hSet") || n.Obj().Name() == c.nm("hList"))
}

// noLockAcrossHandlers: no handler invocation, go statement or WaitGroup.Wait
// executes while the handler-set lock is held.
func (c *Ctx) noLockAcrossHandlers(rule string, funcs []*ssa.Function, ls *Locksets, lock string) {
	r := c.R
	n3 := 0
	for _, fn := range funcs {
		funcInstrs(fn, func(in ssa.Instruction) {
			what := ""
			if _, ok := in.(*ssa.Go); ok {
				what = "go"
			} else if _, ok := isWGMethod(in, "Wait"); ok {
				what = "Wait"
			}
			for _, hc := range c.HandlerCalls() {
				if hc.Site == in {
					what = "handler call"
				}
			}
			if what == "" {
				return
			}
			n3++
			held := ls.Held(in, lock)
			r.Add(rule, "unlocked:"+c.FuncKey(fn)+":"+what, c.InstrPos(in), c.FuncKey(fn), what+" runs without the handler-set lock", held == 0, fmt.Sprintf("lockset=%s", ls.At[in]))
		})
	}
	r.Floor(rule, "handler calls / go / Wait sites checked", n3, 6)
}

// freshParsedLineRule: values sent on the inbound queue are deep-fresh.
func (c *Ctx) freshParsedLineRule(rule string) {
	r, a := c.R, c.A
	n := 0
	for _, fn := range c.clientFuncs() {
		for _, op := range ChanOps(fn) {
			if op.Kind != "send" || !c.ChanMayBe(op.Chan, a.In) {
				continue
			}
			var v ssa.Value
			if s, ok := op.In.(*ssa.Send); ok {
				v = s.X
			} else if op.Sel != nil {
				v = op.Sel.States[op.State].Send
			}
			n++
			// a helper that enqueues the line it is given: the line is what its (only static) callers pass
			vals := []ssa.Value{v}
			for depth := 0; depth < 3; depth++ {
				var next []ssa.Value
				changed := false
				for _, x := range vals {
					pr, isP := x.(*ssa.Parameter)
					pf := (*ssa.Function)(nil)
					if isP {
						pf = pr.Parent()
					}
					if !isP || pf.Object() == nil || pf.Object().Exported() || addrTaken(pf) || len(c.staticCallers(pf)) == 0 {
						next = append(next, x)
						continue
					}
					idx := -1
					for i, q := range pf.Params {
						if q == pr {
							idx = i
						}
					}
					for _, cs := range c.staticCallers(pf) {
						if _, isGo := cs.(*ssa.Go); isGo || idx < 0 || idx >= len(cs.Common().Args) {
							next = append(next, x)
							continue
						}
						next = append(next, cs.Common().Args[idx])
						changed = true
					}
				}
				vals = next
				if !changed {
					break
				}
			}
			ok, why := true, "sent line and everything reachable from it is allocated for this read"
			for _, x := range vals {
				fc := c.newFresh()
				if !fc.deepFresh(x, 0) {
					ok, why = false, "sent line is not freshly allocated for this read: "+fc.why
				}
			}
			r.Add(rule, "fresh-line:"+c.FuncKey(fn), c.InstrPos(op.In), c.FuncKey(fn), "the line handed to the event loop is a new object", ok, why)
		}
	}
	r.Floor(rule, "sends on the inbound queue", n, 1)
}

// lockFieldName names the abstract lock of a module struct: the (first) field
// of type sync.Mutex / sync.RWMutex, embedded or named, as lockObj spells it.
func (c *Ctx) lockFieldName(pk *ssa.Package, typ string) string {
	nt := c.Named(pk, typ)
	if nt == nil {
		return pk.Pkg.Name() + "." + typ + ".?"
	}
	if st, ok := nt.Underlying().(*types.Struct); ok {
		for i := 0; i < st.NumFields(); i++ {
			switch typeString(st.Field(i).Type()) {
			case "sync.Mutex", "sync.RWMutex":
				return pk.Pkg.Name() + "." + nt.Obj().Name() + "." + st.Field(i).Name()
			}
		}
	}
	return pk.Pkg.Name() + "." + typ + ".?"
}

// dispatchedLineFrozenRule: C15.R4.
func (c *Ctx) dispatchedLineFrozenRule(rule string) {
	r, a := c.R, c.A
	n := 0
	for _, fn := range c.clientFuncs() {
		for _, cs := range CallSites(fn) {
			hit := false
			for _, e := range c.Callees(cs) {
				if e.Callee == a.ConnDispatch {
					hit = true
				}
			}
			args := cs.Common().Args
			if !hit || len(args) < 2 {
				continue
			}
			n++
			line := args[len(args)-1]
			lo := c.Origins(line)
			var into func(v ssa.Value, depth int) bool
			into = func(v ssa.Value, depth int) bool {
				if v == nil || depth > 8 {
					return false
				}
				if typeString(v.Type()) == typeString(line.Type()) && sameRoots(c.Origins(v), lo) {
					return true
				}
				switch t := v.(type) {
				case *ssa.FieldAddr:
					return into(t.X, depth+1)
				case *ssa.IndexAddr:
					return into(t.X, depth+1)
				case *ssa.Slice:
					return into(t.X, depth+1)
				case *ssa.UnOp:
					if t.Op == token.MUL {
						return into(t.X, depth+1)
					}
				case *ssa.Phi:
					for _, ed := range t.Edges {
						if into(ed, depth+1) {
							return true
						}
					}
				}
				return false
			}
			bad := ""
			for in := range ReachFrom(cs, false, nil) {
				switch t := in.(type) {
				case *ssa.Store:
					if into(t.Addr, 0) {
						bad = "store into the dispatched line at " + c.InstrPos(t)
					}
				case *ssa.MapUpdate:
					if into(t.Map, 0) {
						bad = "map update in the dispatched line at " + c.InstrPos(t)
					}
				}
			}
			r.Add(rule, "frozen-after-dispatch:"+c.FuncKey(fn), c.InstrPos(cs), c.FuncKey(fn), "the line handed to Conn.dispatch is not written afterwards in "+c.FuncKey(fn), bad == "", bad)
		}
	}
	r.Floor(rule, "call sites of Conn.dispatch", n, 3)
}

// underConstruction: the object whose field the address addr points into is
// one the enclosing function has just allocated - directly, or because the
// function is an unexported helper that only ever receives such an object
// from its static callers (a "fill in the defaults" helper of a constructor).
func (c *Ctx) underConstruction(addr ssa.Value, fn *ssa.Function, depth int) bool {
	if c.allOriginsLocalAlloc(addr, fn) {
		return true
	}
	if depth > 3 {
		return false
	}
	base := addr
	for {
		if fa, ok := base.(*ssa.FieldAddr); ok {
			base = fa.X
			continue
		}
		break
	}
	var vals []ssa.Value
	if ph, ok := base.(*ssa.Phi); ok {
		vals = append(vals, ph.Edges...)
	} else {
		vals = []ssa.Value{base}
	}
	for _, v := range vals {
		switch t := v.(type) {
		case *ssa.Alloc:
			if t.Parent() != fn {
				return false
			}
		case *ssa.Parameter:
			if fn.Object() == nil || fn.Object().Exported() || addrTaken(fn) {
				return false
			}
			idx := -1
			for i, q := range fn.Params {
				if q == t {
					idx = i
				}
			}
			sites := c.staticCallers(fn)
			if idx < 0 || len(sites) == 0 {
				return false
			}
			for _, cs := range sites {
				if _, isGo := cs.(*ssa.Go); isGo || idx >= len(cs.Common().Args) {
					return false
				}
				if !c.underConstruction(cs.Common().Args[idx], cs.Parent(), depth+1) {
					return false
				}
			}
		default:
			return false
		}
	}
	return len(vals) > 0
}
