package sa

import (
	"fmt"
	"go/token"
	"go/types"
	"strings"

	"golang.org/x/tools/go/ssa"
)

func init() {
	register(&PropertySpec{
		ID:        "C03",
		Technique: "goroutine-topology and awaited-call-chain rules over SSA (static analysis)",
		Explain: "Serial, in-order foreground delivery follows from Go's channel FIFO and WaitGroup semantics iff the pipeline has one ordered producer, one ordered consumer and an awaited chain from the consumer to every foreground/internal handler; the rules decide that topology for all schedules. " +
			"Not decided: correctness of bufio framing itself (trusted), REGISTER ordering (outside the claim).",
		Assume: []string{"Go channel FIFO / WaitGroup happens-before semantics", "bufio.Reader.ReadString/ReadBytes return whole delimiter-terminated lines", "user code reaches library state only through the exported API"},
		Run:    runC03,
	})
}

// consumer returns the member that receives from Conn.in and dispatches.
func (c *Ctx) inboundConsumers() (dispatching []*ssa.Function, recvOps []ChanOp) {
	seen := map[*ssa.Function]bool{}
	for _, fn := range c.ModFuncs {
		if fn.Package() != c.Client {
			continue
		}
		for _, op := range ChanOps(fn) {
			if op.Kind == "recv" && c.ChanMayBe(op.Chan, c.A.In) {
				recvOps = append(recvOps, op)
				if c.A.IsMember(fn) && !seen[fn] {
					seen[fn] = true
					dispatching = append(dispatching, fn)
				}
			}
		}
	}
	return
}

// recvValue returns the SSA value carrying what a receive op received.
func recvValue(op ChanOp) ssa.Value {
	if op.InSelect {
		return selectRecvValue(op.Sel, op.State)
	}
	if u, ok := op.In.(*ssa.UnOp); ok {
		if u.CommaOk {
			for _, r := range *u.Referrers() {
				if e, ok := r.(*ssa.Extract); ok && e.Index == 0 {
					return e
				}
			}
			return nil
		}
		return u
	}
	return nil
}

func valueUsed(v ssa.Value) bool {
	if v == nil {
		return false
	}
	refs := v.Referrers()
	if refs == nil {
		return false
	}
	for _, r := range *refs {
		if _, ok := r.(*ssa.DebugRef); ok {
			continue
		}
		return true
	}
	return false
}

// onlyReachedFromTeardownAfterClear: fn is started (call/go) only from the
// teardown function, at sites dominated by the store of false to the
// connected flag.
func (c *Ctx) onlyFromTeardownAfterClear(fn *ssa.Function) (bool, string) {
	sites := c.Callers(fn)
	if len(sites) == 0 {
		return false, "no caller"
	}
	for _, cs := range sites {
		par := cs.Parent()
		if par != c.A.TeardownCore {
			// allow a chain: parent itself only from teardown after clear
			if par == fn {
				continue
			}
			ok, why := c.onlyFromTeardownAfterClear(par)
			if !ok {
				return false, "started from " + c.FuncKey(par) + " (" + why + ")"
			}
			continue
		}
		if !SetDominates(par, func(in ssa.Instruction) bool { return c.isFlagClear(in) }, cs) {
			return false, "started at " + c.InstrPos(cs) + " before the connected flag is cleared"
		}
	}
	return true, "only started from the teardown after connected=false"
}

// isFlagClear: the connected flag becomes false here: a store of false, or a
// call of the trivial helper the teardown delegates that store to.
func (c *Ctx) isFlagClear(in ssa.Instruction) bool {
	if c.isFlagStore(in, false) {
		return true
	}
	if c.A.FlagClearer != nil {
		if cc := callOf(in); cc != nil && !cc.IsInvoke() && cc.StaticCallee() == c.A.FlagClearer {
			_, isGo := in.(*ssa.Go)
			return !isGo
		}
	}
	return false
}

// isFlagStore: store of the constant val to the connected flag.
func (c *Ctx) isFlagStore(in ssa.Instruction, val bool) bool {
	s, ok := in.(*ssa.Store)
	if !ok {
		return false
	}
	if fv, _ := fieldOf(s.Addr); fv != c.A.Connected {
		return false
	}
	k, ok := s.Val.(*ssa.Const)
	return ok && k.Value != nil && k.Value.String() == fmt.Sprint(val)
}

func runC03(c *Ctx) {
	r, a := c.R, c.A
	r.Rule("R1", "single ordered producer: sends on the inbound queue occur only in the receive goroutine's own body (not in a go/closure), which is spawned once outside loops and frames lines with bufio ReadString/ReadBytes('\\n') on the connection reader and hands each accepted line over with a blocking send before it reads the next")
	r.Rule("R2", "single ordered consumer: receives from the inbound queue occur only in one member goroutine (dispatching; one spawn site outside loops) and in discard-only drain code started by the teardown after the connected flag is cleared")
	r.Rule("R3", "awaited chain: from the consumer's receive to every handler invocation through the internal and foreground sets every edge is a call, a defer or a joined go; every call of Conn.dispatch with a received line is a plain call in the consumer")
	r.Rule("R4", "CONNECTED is dispatched only from the internal 001 handler, awaited, as a defer or after every tracker call / Config.Me store of that handler")
	r.Rule("R8", "DISCONNECTED waits for the event loop only if the WaitGroup count is right: Add constants equal the member spawns on every path and every member goroutine calls Done exactly once on each exit (shared with C06.R7) - a second Done lets the next connection's teardown stop waiting while a foreground handler is still running")
	c.wgAccounting("R8")
	r.Rule("R7", "one Connect at a time: the already-connected test, the store connected = true and the start of every connection goroutine lie in one uninterrupted hold of the connection mutex (a lock released around the dial lets two overlapping Connect calls both pass the test: two event loops then read one inbound queue)")
	c.connectAtomicRule("R7")
	r.Rule("R6", "event loops of successive connections never overlap: the teardown waits for the connection goroutines (Wait on the connection WaitGroup) while holding the connection mutex exclusively, and every go statement that starts a member goroutine runs with that mutex held exclusively, so a reconnect cannot start a second loop while the old one is still inside a handler")
	r.Rule("R5", "DISCONNECTED is dispatched only in the teardown, dominated by Wait on the connection WaitGroup; the consumer is a member and dispatches nothing after its Done")

	// ---- R1
	var sends []ChanOp
	for _, fn := range c.ModFuncs {
		if fn.Package() != c.Client {
			continue
		}
		r.Funcs[c.FuncKey(fn)] = true
		for _, op := range ChanOps(fn) {
			r.Sites++
			if op.Kind == "send" && c.ChanMayBe(op.Chan, a.In) {
				sends = append(sends, op)
			}
		}
	}
	r.Floor("R1", "send on the inbound queue", len(sends), 1)
	var producer *ssa.Function
	pfr := c.producerFrame()
	for _, op := range sends {
		fn := op.In.Parent()
		ok := a.IsMember(fn) && fn.Parent() == nil
		why := "send is in the body of member goroutine " + c.FuncKey(fn)
		if !ok && pfr != nil && pfr.Via != nil && fn == pfr.Frame {
			// the per-line helper of the receive goroutine: called by it alone, once per line, never used as a value
			fn, ok = pfr.Member, true
			why = "send is in " + c.FuncKey(pfr.Frame) + ", the per-line helper only " + c.FuncKey(pfr.Member) + " calls"
		}
		if !ok {
			why = "send on the inbound queue outside a connection goroutine's own body (in " + c.FuncKey(fn) + ")"
		} else {
			if producer != nil && producer != fn {
				ok, why = false, "second producer "+c.FuncKey(fn)+" besides "+c.FuncKey(producer)
			}
			producer = fn
		}
		r.Add("R1", "send-in:"+c.FuncKey(fn), c.InstrPos(op.In), c.FuncKey(fn), "inbound-queue send is in the single receive goroutine", ok, why)
	}
	if producer != nil {
		gs := c.GoSites(producer)
		ok := len(gs) == 1 && c.LoopDepth(gs[0].Block()) == 0 && len(c.Callers(producer)) == 1
		pos := "-"
		if len(gs) > 0 {
			pos = c.InstrPos(gs[0])
		}
		r.Add("R1", "spawn:"+c.FuncKey(producer), pos, c.FuncKey(producer), "producer is started by exactly one go statement outside any loop", ok,
			fmt.Sprintf("%d go sites, %d call sites in total", len(gs), len(c.Callers(producer))))
		// framing
		nGood := 0
		frameInstrs := func(f func(ssa.Instruction)) {
			funcInstrs(producer, f)
			for _, lr := range c.lineReads(producer) {
				if lr.Site != lr.Inner {
					funcInstrs(lr.Inner.Parent(), f)
				}
			}
		}
		frameInstrs(func(in ssa.Instruction) {
			cc := callOf(in)
			if cc == nil {
				return
			}
			n := calleeName(cc)
			if !strings.HasPrefix(n, "(*bufio.") && !strings.HasPrefix(n, "(net.Conn)") && !strings.HasPrefix(n, "(io.Reader)") {
				return
			}
			good := false
			switch n {
			case "(*bufio.Reader).ReadString", "(*bufio.Reader).ReadBytes":
				if k, ok := constInt(cc.Args[1]); ok && k == '\n' {
					// reader must derive from the connection's buffered I/O
					good = c.derivesFromIO(cc.Args[0])
				}
			}
			if good {
				nGood++
			}
			r.Add("R1", "framing:"+n, c.InstrPos(in), c.FuncKey(producer), "socket reads in the producer are ReadString/ReadBytes('\\n') on the connection's bufio reader", good, n)
		})
		r.Floor("R1", "delimiter-framed read in the producer", nGood, 1)
		// send must be in same function as framing read: guaranteed by producer identity above.
		c.handoverRule("R1", producer)
	}

	// ---- R2
	disp, recvs := c.inboundConsumers()
	r.Floor("R2", "receive from the inbound queue", len(recvs), 1)
	r.Exactly("R2", "dispatching consumer goroutine of the inbound queue", len(disp), 1)
	var consumer *ssa.Function
	if len(disp) == 1 {
		consumer = disp[0]
	}
	for _, op := range recvs {
		fn := op.In.Parent()
		if fn == consumer {
			r.Add("R2", "recv-in:"+c.FuncKey(fn), c.InstrPos(op.In), c.FuncKey(fn), "receive is in the single dispatching consumer", true, "member goroutine")
			continue
		}
		// must be discard-only drain started by teardown after clear
		v := recvValue(op)
		used := valueUsed(v)
		ok, why := c.onlyFromTeardownAfterClear(fn)
		if fn == a.TeardownCore {
			ok = SetDominates(fn, func(in ssa.Instruction) bool { return c.isFlagClear(in) }, op.In)
			why = "in the teardown itself after connected=false"
		}
		if used {
			ok, why = false, "received line is used (not discarded) outside the consumer"
		}
		r.Add("R2", "recv-in:"+c.FuncKey(fn), c.InstrPos(op.In), c.FuncKey(fn), "non-consumer receive only discards, in drain code started by the teardown after the flag is cleared", ok, why)
	}
	if consumer != nil {
		gs := c.GoSites(consumer)
		ok := len(gs) == 1 && c.LoopDepth(gs[0].Block()) == 0 && len(c.Callers(consumer)) == 1 && consumer.Parent() == nil
		pos := "-"
		if len(gs) > 0 {
			pos = c.InstrPos(gs[0])
		}
		r.Add("R2", "spawn:"+c.FuncKey(consumer), pos, c.FuncKey(consumer), "consumer is started by exactly one go statement outside any loop", ok, fmt.Sprintf("%d go sites, %d call sites", len(gs), len(c.Callers(consumer))))
	}

	// ---- R3
	c.connDispatchRule("R3", consumer, recvs)
	// (b) set dispatch sites
	nSet := 0
	for _, cs := range c.SetDispatchSites() {
		f := c.setFieldOf(cs)
		nSet++
		if f == nil {
			r.Add("R3", "set-dispatch:?:"+c.FuncKey(cs.Parent()), c.InstrPos(cs), c.FuncKey(cs.Parent()), "handler-set dispatch receiver resolves to one of the three sets", false, "receiver does not resolve to a Conn handler-set field")
			continue
		}
		if f == a.BG {
			continue // C16.R3
		}
		ok := kindName(cs) != "go" && cs.Parent() == a.ConnDispatch
		r.Add("R3", "set-dispatch:"+c.setName(f)+":"+c.FuncKey(cs.Parent()), c.InstrPos(cs), c.FuncKey(cs.Parent()),
			"dispatch on the "+c.setName(f)+" set is awaited (call/defer) inside Conn.dispatch", ok, kindName(cs)+" in "+c.FuncKey(cs.Parent()))
	}
	r.Floor("R3", "handler-set dispatch sites", nSet, 3)
	// (c) region below hSet.dispatch: every go is joined; handler invocations are calls
	region := c.Closure([]*ssa.Function{a.SetDispatch}, func(from *ssa.Function, e Edge) bool {
		// do not descend into handler bodies (built-in handlers are reached through the Handler interface)
		cc := e.Site.Common()
		if cc.IsInvoke() {
			return false
		}
		return true
	})
	nJoin := 0
	for _, fn := range region.Order {
		if !c.InModuleFn(fn) {
			continue
		}
		r.Funcs[c.FuncKey(fn)] = true
		funcInstrs(fn, func(in ssa.Instruction) {
			if g, ok := in.(*ssa.Go); ok {
				j, why := c.JoinedGo(g)
				if j {
					nJoin++
				}
				r.Add("R3", "go:"+c.FuncKey(fn), c.InstrPos(g), c.FuncKey(fn), "goroutine started on the dispatch path is joined before dispatch returns", j, why)
			}
		})
	}
	r.Floor("R3", "joined per-handler goroutine", nJoin, 1)
	nHC := 0
	for _, hc := range c.HandlerCalls() {
		fn := hc.Site.Parent()
		_, inRegion := region.Funcs[fn]
		ok := kindName(hc.Site) == "call" && (inRegion || c.isHandleForwarder(fn))
		if ok {
			nHC++
		}
		r.Add("R3", "handler-call:"+c.FuncKey(fn)+":"+hc.Kind, c.InstrPos(hc.Site), c.FuncKey(fn), "handler code is invoked by a plain call on the awaited dispatch path", ok, kindName(hc.Site)+"; "+hc.Kind)
	}
	r.Floor("R3", "handler invocation sites", nHC, 3)

	// ---- R4
	h001 := a.IntTable["001"]
	r.Anchor("R4", "internal handler registered for 001", h001 != nil)
	nConn := 0
	for _, fn := range c.ModFuncs {
		if fn.Package() != c.Client {
			continue
		}
		for _, e := range c.EventDispatches(fn, a) {
			if e.Cmd != "CONNECTED" {
				continue
			}
			nConn++
			ok := fn == h001 && kindName(e.Site) != "go"
			why := kindName(e.Site) + " in " + c.FuncKey(fn)
			if ok && kindName(e.Site) == "call" {
				// no tracker call or Config.Me store after it
				for x := range ReachFrom(e.Site, false, nil) {
					if c.isTrackerCall(x) || c.isFieldStore(x, a.CfgMe) || c.isStoreThroughField(x, a.CfgMe) {
						ok, why = false, "state is still updated at "+c.InstrPos(x)+" after CONNECTED is dispatched"
					}
				}
			}
			if ok {
				// every welcome gets its CONNECTED: the dispatch (or its registration as a deferred call) lies on every
				// path through the handler - no once-guard or counter can swallow the event of a later connection
				if all, bad := AllPathsFromEntryPass(fn, func(x ssa.Instruction) bool { return x == e.Site }); !all {
					ok, why = false, "the return at "+c.InstrPos(bad)+" is reached without CONNECTED having been dispatched"
				}
			}
			if ok && kindName(e.Site) == "defer" {
				// deferred calls run last-in-first-out: a deferred state update registered BEFORE the deferred dispatch
				// runs AFTER it. Every other defer of the handler that (transitively) touches the tracker or Config.Me
				// must therefore be registered after the dispatch, i.e. be dominated by it.
				seenE := map[*ssa.Function]*connEffects{}
				funcInstrs(fn, func(x ssa.Instruction) {
					d, isD := x.(*ssa.Defer)
					if !isD || x == e.Site {
						return
					}
					touches := false
					for _, ed := range c.Callees(d) {
						if ed.Callee == nil || !c.InModuleFn(ed.Callee) {
							continue
						}
						reach := c.Closure([]*ssa.Function{ed.Callee}, func(from *ssa.Function, e2 Edge) bool { return e2.Kind != EdgeGo })
						for _, f2 := range reach.Order {
							if !c.InModuleFn(f2) {
								continue
							}
							if c.connEffectsOf(f2, seenE).mutTrack {
								touches = true
							}
							funcInstrs(f2, func(y ssa.Instruction) {
								if c.isFieldStore(y, a.CfgMe) || c.isStoreThroughField(y, a.CfgMe) {
									touches = true
								}
							})
						}
					}
					if touches && !instrDominates(e.Site, x) {
						ok, why = false, "the deferred state update at "+c.InstrPos(x)+" is registered before the deferred dispatch, so it runs after CONNECTED has been delivered"
					}
				})
			}
			r.Add("R4", "connected:"+c.FuncKey(fn), c.InstrPos(e.Site), c.FuncKey(fn), "CONNECTED dispatched from the 001 internal handler after its state updates", ok, why)
		}
	}
	r.Floor("R4", "dispatch of CONNECTED", nConn, 1)

	// ---- R5
	nDis := 0
	for _, fn := range c.ModFuncs {
		if fn.Package() != c.Client {
			continue
		}
		for _, e := range c.EventDispatches(fn, a) {
			if e.Cmd != "DISCONNECTED" {
				continue
			}
			nDis++
			ok := fn == a.Teardown && kindName(e.Site) == "call"
			why := kindName(e.Site) + " in " + c.FuncKey(fn)
			if ok {
				ok, why = c.coreDominatesEvent(func(in ssa.Instruction) bool { return c.doesWait(in) }, e.Site)
				why = "Wait " + why
			}
			r.Add("R5", "disconnected:"+c.FuncKey(fn), c.InstrPos(e.Site), c.FuncKey(fn), "DISCONNECTED dispatched in the teardown only after Wait on the connection WaitGroup", ok, why)
		}
	}
	r.Floor("R5", "dispatch of DISCONNECTED", nDis, 1)
	c.loopExclusionRule("R6")
	if consumer != nil {
		// after Done no dispatch reachable
		bad := ""
		nDone := 0
		funcInstrs(consumer, func(in ssa.Instruction) {
			if c.isDoneLike(in) {
				nDone++
				if _, d := in.(*ssa.Defer); d {
					return
				}
				for x := range ReachFrom(in, false, nil) {
					if cc := callOf(x); cc != nil && cc.StaticCallee() == a.ConnDispatch {
						bad = c.InstrPos(x)
					}
				}
			}
		})
		r.Add("R5", "consumer-done:"+c.FuncKey(consumer), c.Pos(consumer.Pos()), c.FuncKey(consumer), "consumer leaves the WaitGroup only after its last dispatch", bad == "" && nDone > 0,
			fmt.Sprintf("%d Done sites; dispatch after Done: %q", nDone, bad))
	}
}

// derivesFromField: v is obtained from a load of field fv by field
// selections / loads / moves only (e.g. conn.io.Reader).
func (c *Ctx) derivesFromField(v ssa.Value, fv *types.Var) bool {
	return c.derivesFromFieldRec(v, fv, map[ssa.Value]bool{}, 0)
}

func (c *Ctx) derivesFromFieldRec(v ssa.Value, fv *types.Var, seen map[ssa.Value]bool, depth int) bool {
	if v == nil || seen[v] || depth > 12 {
		return false
	}
	seen[v] = true
	if f, _ := loadedField(v); f == fv {
		return true
	}
	switch t := v.(type) {
	case *ssa.UnOp:
		if t.Op != token.MUL {
			return false
		}
		if c.derivesFromFieldRec(t.X, fv, seen, depth+1) {
			return true
		}
	case *ssa.FieldAddr:
		if f, _ := fieldOf(t); f == fv {
			return true
		}
		return c.derivesFromFieldRec(t.X, fv, seen, depth+1)
	case *ssa.Field:
		return c.derivesFromFieldRec(t.X, fv, seen, depth+1)
	case *ssa.Const, *ssa.Alloc, *ssa.Call, *ssa.BinOp, *ssa.Global, *ssa.Function, *ssa.MakeClosure:
		return false
	}
	for _, o := range c.Origins(v) {
		if o != v && c.derivesFromFieldRec(o, fv, seen, depth+1) {
			return true
		}
	}
	return false
}

// isHandleForwarder: fn is a method named Handle whose body only forwards
// to another handler (HandlerFunc.Handle, hNode.Handle).
func (c *Ctx) isHandleForwarder(fn *ssa.Function) bool {
	return fn.Name() == "Handle" && fn.Signature.Recv() != nil && fn.Package() == c.Client
}

// isTrackerCall: in is an interface call on state.Tracker.
func (c *Ctx) isTrackerCall(in ssa.Instruction) bool {
	cc := callOf(in)
	if cc == nil || !cc.IsInvoke() {
		return false
	}
	n, ok := cc.Value.Type().(*types.Named)
	return ok && n.Obj().Pkg() == c.State.Pkg && n.Obj().Name() == "Tracker"
}

func (c *Ctx) isFieldStore(in ssa.Instruction, fv *types.Var) bool {
	s, ok := in.(*ssa.Store)
	if !ok {
		return false
	}
	f, _ := fieldOf(s.Addr)
	return f == fv
}

// isStoreThroughField: store to a field of the object loaded from field fv
// (e.g. conn.cfg.Me.Nick = x).
func (c *Ctx) isStoreThroughField(in ssa.Instruction, fv *types.Var) bool {
	s, ok := in.(*ssa.Store)
	if !ok {
		return false
	}
	fa, ok := s.Addr.(*ssa.FieldAddr)
	if !ok {
		return false
	}
	f, _ := loadedField(fa.X)
	return f == fv
}

// connDispatchRule: every call of Conn.dispatch with a server line is a plain
// call in the consumer goroutine, passing the value received from the
// inbound queue (shared by C03.R3 and C05.R4).
func (c *Ctx) connDispatchRule(rule string, consumer *ssa.Function, recvs []ChanOp) {
	r, a := c.R, c.A
	// (a) every call of Conn.dispatch
	nRecvDispatch := 0
	for _, cs := range c.Callers(a.ConnDispatch) {
		fn := cs.Parent()
		evs := c.EventDispatches(fn, a)
		isEvent := false
		for _, e := range evs {
			if e.Site == cs {
				isEvent = true
			}
		}
		if isEvent {
			continue // lifecycle pseudo-events: R4/R5 and C06
		}
		if c.eventHelperParam(fn, a.ConnDispatch, c.FieldVar(c.Client, "Line", "Cmd")) >= 0 {
			continue // the dispatch inside an event helper: its call sites are the lifecycle events
		}
		ok := fn == consumer && kindName(cs) == "call"
		why := kindName(cs) + " in " + c.FuncKey(fn)
		var arg ssa.Value
		if ok {
			arg = cs.Common().Args[1]
		}
		if !ok && kindName(cs) == "call" {
			// a per-line helper of the consumer: unexported, called (plainly) only from the consumer, dispatching
			// the line it is given - then the line is what the consumer passes
			if pr, isP := cs.Common().Args[1].(*ssa.Parameter); isP && fn.Object() != nil && !fn.Object().Exported() && !addrTaken(fn) {
				sites := c.staticCallers(fn)
				if len(sites) == 1 && sites[0].Parent() == consumer && kindName(sites[0]) == "call" {
					for i, q := range fn.Params {
						if q == pr && i < len(sites[0].Common().Args) {
							ok, arg = true, sites[0].Common().Args[i]
							why = "plain call in the consumer's per-line helper " + c.FuncKey(fn)
						}
					}
				}
			}
		}
		if ok {
			// argument is the received value
			okArg := false
			for _, op := range recvs {
				if op.In.Parent() == consumer && recvValue(op) != nil {
					for _, o := range c.Origins(arg) {
						if o == recvValue(op) {
							okArg = true
						}
					}
				}
			}
			if !okArg {
				ok, why = false, "dispatched line is not the value received from the inbound queue"
			} else {
				nRecvDispatch++
			}
		}
		r.Add(rule, "conn-dispatch:"+c.FuncKey(fn)+":"+kindName(cs), c.InstrPos(cs), c.FuncKey(fn), "a server line is dispatched only by a plain call in the consumer goroutine", ok, why)
	}
	r.Floor(rule, "dispatch of the received line in the consumer", nRecvDispatch, 1)
}

// loopExclusionRule: Wait on the connection WaitGroup and the member spawns
// are mutually exclusive through the connection mutex.
func (c *Ctx) loopExclusionRule(rule string) {
	r, a := c.R, c.A
	if !r.Anchor(rule, "connection mutex and WaitGroup fields", a.Mu != nil && a.WG != nil) {
		return
	}
	var funcs []*ssa.Function
	for _, f := range c.ModFuncs {
		if f.Package() == c.Client {
			funcs = append(funcs, f)
		}
	}
	ls := c.ComputeLocksets(funcs)
	lock := "client.Conn." + a.Mu.Name()
	nWait, nSpawn := 0, 0
	for _, fn := range funcs {
		if ls.Dead[fn] {
			continue
		}
		funcInstrs(fn, func(in ssa.Instruction) {
			if c.isWGCall(in, a.WG, "Wait") {
				nWait++
				held := ls.Held(in, lock)
				r.Add(rule, "wait-locked:"+c.FuncKey(fn), c.InstrPos(in), c.FuncKey(fn), "the wait for the connection goroutines holds the connection mutex exclusively", held == 'W', fmt.Sprintf("lockset=%s", ls.At[in]))
			}
			if g, ok := in.(*ssa.Go); ok {
				for _, e := range c.Callees(g) {
					if e.Callee != nil && a.IsMember(e.Callee) {
						nSpawn++
						held := ls.Held(in, lock)
						r.Add(rule, "spawn-locked:"+c.FuncKey(e.Callee), c.InstrPos(in), c.FuncKey(fn), "member goroutine "+c.FuncKey(e.Callee)+" is started with the connection mutex held exclusively", held == 'W', fmt.Sprintf("lockset=%s", ls.At[in]))
					}
				}
			}
		})
	}
	r.Floor(rule, "Wait sites on the connection WaitGroup", nWait, 1)
	r.Floor(rule, "member spawn sites", nSpawn, 3)
}

// connectAtomicRule: the test "already connected?", the store connected=true
// and the start of every connection goroutine lie in one uninterrupted hold of
// the connection mutex. Otherwise two overlapping Connect calls both pass the
// test and one Conn gets two event loops.
func (c *Ctx) connectAtomicRule(rule string) {
	r, a := c.R, c.A
	if !r.Anchor(rule, "connect routine, connected flag and connection mutex", a.Connect != nil && a.Connected != nil && a.Mu != nil) {
		return
	}
	funcs := c.clientFuncs()
	ls := c.ComputeLocksets(funcs)
	k := &critCtx{c: c, ls: ls, lock: "client.Conn." + a.Mu.Name(), flows: map[*ssa.Function]map[ssa.Instruction]acqState{}}
	type site struct {
		what string
		in   ssa.Instruction
		ctx  []ssa.CallInstruction
	}
	var sites []site
	// the connect routine and what it calls synchronously (one helper level per step, depth 3)
	var visit func(fn *ssa.Function, ctx []ssa.CallInstruction, depth int)
	seen := map[*ssa.Function]bool{}
	visit = func(fn *ssa.Function, ctx []ssa.CallInstruction, depth int) {
		if seen[fn] || depth > 3 {
			return
		}
		seen[fn] = true
		funcInstrs(fn, func(in ssa.Instruction) {
			switch t := in.(type) {
			case *ssa.UnOp:
				if t.Op == token.MUL {
					if fv, _ := fieldOf(t.X); fv == a.Connected {
						// only loads that decide a branch (the refusal test)
						for _, ref := range *t.Referrers() {
							if _, isIf := ref.(*ssa.If); isIf {
								sites = append(sites, site{"test of the connected flag", in, ctx})
							}
						}
					}
				}
			case *ssa.Store:
				if fv, _ := fieldOf(t.Addr); fv == a.Connected {
					if kc, ok := t.Val.(*ssa.Const); ok && kc.Value != nil && kc.Value.String() == "true" {
						sites = append(sites, site{"store connected = true", in, ctx})
					}
				}
			case *ssa.Go:
				for _, e := range c.Callees(t) {
					if e.Callee != nil && a.IsMember(e.Callee) {
						sites = append(sites, site{"start of " + c.FuncKey(e.Callee), in, ctx})
					}
				}
			case *ssa.Call:
				if cal := t.Call.StaticCallee(); cal != nil && !t.Call.IsInvoke() && c.InModuleFn(cal) && cal.Package() == c.Client && cal != a.Teardown && cal != a.TeardownCore {
					visit(cal, append(append([]ssa.CallInstruction{}, ctx...), t), depth+1)
				}
			}
		})
	}
	visit(a.Connect, nil, 0)
	first := ""
	nTest, nStore, nGo := 0, 0, 0
	for _, s := range sites {
		got := k.resolve(s.in, s.ctx)
		if got != "" && strings.HasPrefix(got, "entry:") {
			got = "" // held by some caller we did not come through: not an identified hold
		}
		switch {
		case strings.HasPrefix(s.what, "test"):
			nTest++
		case strings.HasPrefix(s.what, "store"):
			nStore++
		default:
			nGo++
		}
		ok, why := true, "critical section "+got
		if got == "" {
			ok, why = false, "not inside an identified hold of the connection mutex"
		} else if first == "" {
			first = got
		} else if got != first {
			ok, why = false, "critical section "+got+", but the connected flag was tested in "+first+": the mutex is released in between, so two overlapping Connect calls both proceed"
		}
		r.Add(rule, "connect-atomic:"+s.what, c.InstrPos(s.in), c.FuncKey(s.in.Parent()), s.what+" lies in the same uninterrupted hold of the connection mutex as the rest of the connect decision", ok, why)
	}
	r.Floor(rule, "tests of the connected flag in the connect routine", nTest, 1)
	r.Floor(rule, "stores of connected = true", nStore, 1)
	r.Floor(rule, "member goroutine starts in the connect routine", nGo, 3)
}
