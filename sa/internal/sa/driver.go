package sa

import (
	"fmt"
	"go/types"
	"golang.org/x/tools/go/ssa"
	"os"
	"path/filepath"
	"runtime/debug"
	"sort"
	"strconv"
	"time"
)

// Ctx is what a rule set sees.
type Ctx struct {
	*Prog
	A *Anchors
	R *Report

	madeMemo     map[*types.Var]bool
	portCover    [2]bool
	guardBusy    map[*ssa.Function]bool
	neverNilMemo map[*types.Var]int
	// argSubst: while the arguments of a tracker call made inside a helper are matched, what the handler passed
	// for each of the helper's parameters
	argSubst map[*ssa.Parameter]ssa.Value
}

// PropertySpec describes one property's rule set.
type PropertySpec struct {
	ID        string
	Technique string
	Explain   string
	Assume    []string
	Run       func(c *Ctx)
}

var Specs = map[string]*PropertySpec{}

func register(s *PropertySpec) { Specs[s.ID] = s }

// Options of one run.
type Options struct {
	Repo, VerifDir, Property, Tier string
	OutDir                         string // where evidence/ and reports/ go (default VerifDir)
	Quiet                          bool
}

// RunOne evaluates one property's rules on one load configuration.
func runConfig(spec *PropertySpec, lc LoadConfig, rep *Report) (npk int, err error) {
	defer func() {
		if x := recover(); x != nil {
			err = fmt.Errorf("analyser panic: %v\n%s", x, debug.Stack())
		}
	}()
	prog, err := Load(lc)
	if err != nil {
		return 0, err
	}
	a := prog.ResolveAnchors()
	rep.cfg = lc.String()
	for _, e := range a.Errs {
		rep.Anchor("A0", e, false)
	}
	for _, e := range a.Soft {
		rep.Note("anchor not resolved (rules that need it fail closed on their floors): %s", e)
	}
	if len(a.Errs) == 0 {
		rep.Anchor("A0", "anchor table (Conn fields by role, teardown, connect routine, members, handler tables)", true)
		spec.Run(&Ctx{Prog: prog, A: a, R: rep})
	}
	return prog.NPkgs, nil
}

// Main runs a property check and returns the process exit code.
func Main(opt Options) int {
	t0 := time.Now()
	spec := Specs[opt.Property]
	if opt.OutDir == "" {
		opt.OutDir = opt.VerifDir
	}
	if spec == nil {
		fmt.Fprintf(os.Stderr, "unknown property %q\n", opt.Property)
		return 2
	}
	seed, _ := strconv.ParseInt(os.Getenv("VERIF_SEED"), 10, 64)
	rep := NewReport(opt.Property)
	configs := []LoadConfig{{Dir: opt.Repo}}
	if opt.Tier == "thorough" {
		configs = append(configs,
			LoadConfig{Dir: opt.Repo, GOOS: "linux", GOARCH: "386"},
			LoadConfig{Dir: opt.Repo, GOOS: "windows", GOARCH: "amd64"},
			LoadConfig{Dir: opt.Repo, GOOS: "darwin", GOARCH: "amd64"},
			LoadConfig{Dir: opt.Repo, Tags: []string{"verif"}},
			LoadConfig{Dir: opt.Repo, Tags: []string{"race"}},
		)
	}
	npk := 0
	var cfgNames []string
	for _, lc := range configs {
		n, err := runConfig(spec, lc, rep)
		cfgNames = append(cfgNames, lc.String())
		if err != nil {
			rep.cfg = lc.String()
			rep.Obs = append(rep.Obs, Ob{Rule: "A0", Key: "load:" + lc.String(), Pos: "-", Desc: "program loads, type-checks and is analysed without error", OK: false, Why: err.Error(), Config: lc.String()})
		}
		if n > npk {
			npk = n
		}
	}
	// in thorough mode, identical obligations from several configs are kept
	// (they are evaluated per config) but violations are de-duplicated.
	fs, err := LoadFindings(filepath.Join(opt.VerifDir, "known_findings.json"))
	if err != nil {
		fmt.Fprintf(os.Stderr, "known_findings.json: %v\n", err)
		return 2
	}
	out := rep.Decide(fs)
	out.Violations = dedupObs(out.Violations)
	ex := EvidenceExtra{Tier: opt.Tier, Seed: seed, Packages: npk, Configs: cfgNames, Assume: spec.Assume, Explain: spec.Explain, Technique: spec.Technique}
	if opt.Tier == "thorough" {
		ex.Selftest = RunSelftest(opt, spec)
		if st, ok := ex.Selftest["failures"].([]string); ok && len(st) > 0 {
			for _, f := range st {
				o := Ob{Rule: "SELFTEST", Key: "selftest:" + f, Pos: "-", Desc: "checker self-test (mutant must fire / refactor must stay silent)", OK: false, Why: f}
				rep.Obs = append(rep.Obs, o)
				out.Violations = append(out.Violations, o)
			}
		}
		ex.CrossRef = CrossReference(opt, spec)
		if bce, missing := BCECrossCheck(opt, rep); bce != nil {
			ex.CrossRef["compiler_bounds_checks"] = bce
			for _, m := range missing {
				o := Ob{Rule: "COVERAGE", Key: "bce:" + m, Pos: m, Desc: "a bounds check the compiler kept has a matching obligation", OK: false, Why: "no obligation was generated for this line: the obligation enumerator missed an instruction class"}
				rep.Obs = append(rep.Obs, o)
				out.Violations = append(out.Violations, o)
			}
		}
	}
	ex.WallS = time.Since(t0).Seconds()
	if err := rep.WriteEvidence(filepath.Join(opt.OutDir, "evidence"), out, ex); err != nil {
		fmt.Fprintf(os.Stderr, "evidence: %v\n", err)
		return 2
	}
	seenK := map[string]bool{}
	for _, k := range out.Known {
		line := fmt.Sprintf("KNOWN-FINDING: property=%s %s [%s %s at %s]", opt.Property, k.F.What, k.Ob.Rule, k.Ob.Key, k.Ob.Pos)
		if !seenK[k.Ob.Rule+k.Ob.Key] {
			seenK[k.Ob.Rule+k.Ob.Key] = true
			fmt.Println(line)
		}
	}
	if !opt.Quiet {
		obl, dis := 0, 0
		for _, o := range rep.Obs {
			obl++
			if o.OK {
				dis++
			}
		}
		fmt.Printf("%s %s: %d obligations, %d discharged, %d known findings, %d violations, %d functions, %.1fs\n",
			opt.Property, opt.Tier, obl, dis, len(out.Known), len(out.Violations), len(rep.Funcs), time.Since(t0).Seconds())
	}
	if len(out.Violations) > 0 {
		path, _ := rep.WriteViolations(filepath.Join(opt.OutDir, "reports"), opt.Tier, out)
		for _, v := range out.Violations {
			fmt.Printf("  %s %s %s [%s] %s -- %s\n", v.Pos, v.Rule, v.Func, v.Key, v.Desc, v.Why)
		}
		fmt.Printf("VIOLATION property=%s replay=%s\n", opt.Property, path)
		return 1
	}
	return 0
}

func dedupObs(in []Ob) []Ob {
	seen := map[string]bool{}
	var out []Ob
	for _, o := range in {
		k := o.Rule + "|" + o.Key
		if seen[k] {
			continue
		}
		seen[k] = true
		out = append(out, o)
	}
	sort.SliceStable(out, func(i, j int) bool { return out[i].Rule < out[j].Rule })
	return out
}
