package sa

import (
	"fmt"
	"go/constant"
	"go/token"
	"go/types"
	"os"
	"sort"
	"strings"

	"golang.org/x/tools/go/ssa"
)

// ---------- terms ----------

type intTerm struct {
	v   ssa.Value
	ctx int // 0 = current values; >0 = stale copy inside sub-context ctx
}
type lenTerm struct {
	v   ssa.Value
	ctx int
}

// strTerm denotes the "code" of a string value: an integer that is K(k) when
// the string equals the constant k (distinct constants have distinct codes).
// Only equalities with constants are ever asserted about it.
type strTerm struct {
	v   ssa.Value
	ctx int
}

// Prover collects linear facts about integer SSA values and lengths of
// string/slice SSA values and decides entailment (see lin.go).
type Prover struct {
	c       *Ctx
	vars    map[interface{}]int
	names   []string
	mem     map[*ssa.Function]*memVN
	inv     map[*ssa.Function]map[*ssa.Phi][]invT // header phi -> proven invariants
	invBusy map[*ssa.Function]bool
	nextCtx int
	Queries int

	roMemo map[*ssa.Function]int // read-only functions: 1 in progress, 2 yes, 3 no

	lemmas    map[*ssa.Function][]lemmaT
	lemmaBusy map[*ssa.Function]bool

	strCodes map[string]int64
}

// strCode: the code of a string constant.
func (p *Prover) strCode(k string) int64 {
	if p.strCodes == nil {
		p.strCodes = map[string]int64{}
	}
	if c, ok := p.strCodes[k]; ok {
		return c
	}
	c := int64(len(p.strCodes) + 1)
	p.strCodes[k] = c
	return c
}

// sexpr: linear expression denoting the code of the string v.
func (fc *factCtx) sexpr(v ssa.Value) Lin {
	if s, ok := constString(v); ok {
		return constLin(fc.p.strCode(s))
	}
	v = fc.p.rep(v)
	t := strTerm{v, fc.ctxFor(v)}
	id := fc.p.varOf(t, "code("+v.Name()+")")
	if !fc.isDone(t) && fc.depth <= 18 {
		fc.done[t] = true
		if u, ok := v.(*ssa.UnOp); ok && u.Op == token.MUL {
			if st := fc.p.reachingStore(u); st != nil && isStringType(st.Val.Type()) {
				fc.eq(sub(newLin().add(id, 1), fc.sexpr(st.Val)))
			}
		}
	}
	return newLin().add(id, 1)
}

func (c *Ctx) NewProver() *Prover {
	return &Prover{c: c, vars: map[interface{}]int{}, mem: map[*ssa.Function]*memVN{}, inv: map[*ssa.Function]map[*ssa.Phi][]invT{}, invBusy: map[*ssa.Function]bool{}}
}

func (p *Prover) varOf(k interface{}, name string) int {
	if id, ok := p.vars[k]; ok {
		return id
	}
	id := len(p.names)
	p.vars[k] = id
	p.names = append(p.names, name)
	return id
}

// ---------- fact context ----------

type factCtx struct {
	p       *Prover
	base    []Lin
	clauses []Clause
	done    map[interface{}]bool
	parent  *factCtx
	// stale: terms defined inside loop `staleLoop` are renamed with ctx id
	staleHdr *ssa.BasicBlock
	staleID  int
	openFns  map[*ssa.Function]bool // callees being summarised (recursion guard)
	hyp      map[*ssa.Phi][]invT    // during invariant inference: hypotheses for header phis
	useHyp   bool
	depth    int
	nExec    int // facts added by executed()
}

func (p *Prover) newCtx() *factCtx {
	return &factCtx{p: p, done: map[interface{}]bool{}, openFns: map[*ssa.Function]bool{}}
}

func (fc *factCtx) child() *factCtx {
	n := &factCtx{p: fc.p, done: map[interface{}]bool{}, parent: fc, staleHdr: fc.staleHdr, staleID: fc.staleID, openFns: fc.openFns, hyp: fc.hyp, useHyp: fc.useHyp, depth: fc.depth + 1}
	return n
}

func (fc *factCtx) isDone(k interface{}) bool {
	for x := fc; x != nil; x = x.parent {
		if x.done[k] {
			return true
		}
	}
	return false
}

func (fc *factCtx) le(l Lin) { fc.base = append(fc.base, l) }
func (fc *factCtx) eq(l Lin) { fc.base = append(fc.base, l, negate(l)) }
func (fc *factCtx) or(cl Clause) {
	if len(cl) == 1 {
		fc.base = append(fc.base, cl[0]...)
		return
	}
	if len(cl) > 0 {
		fc.clauses = append(fc.clauses, cl)
	}
}

// negate returns -l (so that eq adds l<=0 and -l<=0).
func negate(l Lin) Lin {
	n := newLin()
	for k, v := range l.C {
		n.C[k] = -v
	}
	n.K = -l.K
	return n
}

// not returns the negation of l <= 0 over the integers: l >= 1.
func notLE(l Lin) Lin {
	n := negate(l)
	n.K += 1
	return n
}

// flatten turns the context into a list of conjunctions (bounded).
func (fc *factCtx) flatten(limit int) []Conj {
	out := []Conj{append(Conj{}, fc.base...)}
	for _, cl := range fc.clauses {
		if len(out)*len(cl) > limit {
			continue // dropping a fact is sound
		}
		var next []Conj
		for _, o := range out {
			for _, alt := range cl {
				next = append(next, append(append(Conj{}, o...), alt...))
			}
		}
		out = next
	}
	return out
}

// ---------- staleness ----------

func (fc *factCtx) ctxFor(v ssa.Value) int {
	if fc.staleHdr == nil {
		return 0
	}
	in, ok := v.(ssa.Instruction)
	if !ok || in.Block() == nil {
		return 0
	}
	li := fc.p.c.Loops(in.Parent())
	if in.Parent() == fc.staleHdr.Parent() && li.headers[in.Block()][fc.staleHdr] {
		return fc.staleID
	}
	return 0
}

// ---------- expressions ----------

func isIntType(t types.Type) bool {
	b, ok := t.Underlying().(*types.Basic)
	return ok && b.Info()&types.IsInteger != 0
}

func isStringType(t types.Type) bool {
	b, ok := t.Underlying().(*types.Basic)
	return ok && b.Info()&types.IsString != 0
}

func hasLen(t types.Type) bool {
	switch u := t.Underlying().(type) {
	case *types.Basic:
		return u.Info()&types.IsString != 0
	case *types.Slice:
		return true
	case *types.Pointer:
		_, ok := u.Elem().Underlying().(*types.Array)
		return ok
	case *types.Array:
		return true
	}
	return false
}

// iexpr: linear expression denoting integer value v.
func (fc *factCtx) iexpr(v ssa.Value) Lin {
	if k, ok := constInt(v); ok {
		l := newLin()
		l.K = k
		return l
	}
	v = fc.p.rep(v)
	t := intTerm{v, fc.ctxFor(v)}
	id := fc.p.varOf(t, v.Name())
	fc.defineInt(t)
	return newLin().add(id, 1)
}

// lexpr: linear expression denoting len(v).
func (fc *factCtx) lexpr(v ssa.Value) Lin {
	if s, ok := constString(v); ok {
		l := newLin()
		l.K = int64(len(s))
		return l
	}
	if isNilConst(v) {
		return newLin()
	}
	if n, ok := arrayLen(v.Type()); ok {
		l := newLin()
		l.K = n
		return l
	}
	v = fc.p.rep(v)
	t := lenTerm{v, fc.ctxFor(v)}
	id := fc.p.varOf(t, "len("+v.Name()+")")
	fc.defineLen(t)
	return newLin().add(id, 1)
}

func arrayLen(t types.Type) (int64, bool) {
	switch u := t.Underlying().(type) {
	case *types.Array:
		return u.Len(), true
	case *types.Pointer:
		if a, ok := u.Elem().Underlying().(*types.Array); ok {
			return a.Len(), true
		}
	}
	return 0, false
}

func sub(a, b Lin) Lin { return a.plus(b, -1) } // a - b

// leExpr: a <= b  as Lin (a - b <= 0)
func leExpr(a, b Lin) Lin { return sub(a, b) }

// ltExpr: a < b  ==> a - b + 1 <= 0
func ltExpr(a, b Lin) Lin { l := sub(a, b); l.K++; return l }

func constLin(k int64) Lin { l := newLin(); l.K = k; return l }

// ---------- definitions ----------

func (fc *factCtx) defineInt(t intTerm) {
	if fc.isDone(t) || fc.depth > 18 {
		return
	}
	fc.done[t] = true
	self := newLin().add(fc.p.varOf(t, t.v.Name()), 1)
	// the range of a narrow unsigned type is a fact about every value of it (a byte indexes a [256]T table safely)
	if b, ok := t.v.Type().Underlying().(*types.Basic); ok && b.Info()&types.IsUnsigned != 0 {
		if w := intWidth(t.v.Type()); w > 0 && w <= 16 {
			fc.le(leExpr(constLin(0), self))
			fc.le(leExpr(self, constLin(int64(1)<<uint(w)-1)))
		}
	}
	switch v := t.v.(type) {
	case *ssa.BinOp:
		if !isIntType(v.X.Type()) {
			return
		}
		if intWidth(v.Type()) < 64 && v.Op != token.REM {
			// narrow types wrap around: only the wrap-free pattern  k + (y % m)  (unsigned) is modelled
			if v.Op == token.ADD {
				var k int64
				var rem *ssa.BinOp
				if kk, ok := constInt(v.X); ok {
					k = kk
					rem, _ = v.Y.(*ssa.BinOp)
				} else if kk, ok := constInt(v.Y); ok {
					k = kk
					rem, _ = v.X.(*ssa.BinOp)
				}
				if rem != nil && rem.Op == token.REM {
					if m, ok := constInt(rem.Y); ok && m > 0 && k >= 0 {
						if b, ok := v.Type().Underlying().(*types.Basic); ok && b.Info()&types.IsUnsigned != 0 {
							max := int64(1)<<uint(intWidth(v.Type())) - 1
							if k+m-1 <= max {
								fc.le(leExpr(constLin(k), self))
								fc.le(leExpr(self, constLin(k+m-1)))
							}
						}
					}
				}
			}
			break
		}
		switch v.Op {
		case token.ADD:
			fc.eq(sub(self, fc.iexpr(v.X).plus(fc.iexpr(v.Y), 1)))
		case token.SUB:
			fc.eq(sub(self, sub(fc.iexpr(v.X), fc.iexpr(v.Y))))
		case token.MUL:
			if k, ok := constInt(v.Y); ok {
				fc.eq(sub(self, newLin().plus(fc.iexpr(v.X), k)))
			} else if k, ok := constInt(v.X); ok {
				fc.eq(sub(self, newLin().plus(fc.iexpr(v.Y), k)))
			}
		case token.REM:
			if k, ok := constInt(v.Y); ok && k > 0 {
				if b, ok := v.X.Type().Underlying().(*types.Basic); ok && b.Info()&types.IsUnsigned != 0 {
					fc.le(leExpr(constLin(0), self))
					fc.le(leExpr(self, constLin(k-1)))
				}
			}
		}
	case *ssa.Convert:
		if isIntType(v.X.Type()) && isIntType(v.Type()) && intWidth(v.Type()) >= intWidth(v.X.Type()) && sameSign(v.Type(), v.X.Type()) {
			fc.eq(sub(self, fc.iexpr(v.X)))
		}
	case *ssa.ChangeType:
		if isIntType(v.X.Type()) {
			fc.eq(sub(self, fc.iexpr(v.X)))
		}
	case *ssa.Call:
		fc.defineIntCall(self, v)
	case *ssa.Phi:
		fc.definePhi(v, self, false)
	case *ssa.UnOp:
		if v.Op == token.MUL {
			if st := fc.p.reachingStore(v); st != nil && isIntType(st.Val.Type()) {
				fc.eq(sub(self, fc.iexpr(st.Val)))
			}
		}
		if v.Op == token.SUB && isIntType(v.X.Type()) {
			fc.eq(self.clone().plus(fc.iexpr(v.X), 1))
		}
	case *ssa.Extract:
		fc.defineExtract(v, self, false)
	}
	// unsigned values are non-negative
	if b, ok := t.v.Type().Underlying().(*types.Basic); ok && b.Info()&types.IsUnsigned != 0 {
		fc.le(leExpr(constLin(0), self))
	}
}

func intWidth(t types.Type) int {
	b, _ := t.Underlying().(*types.Basic)
	if b == nil {
		return 0
	}
	switch b.Kind() {
	case types.Int8, types.Uint8:
		return 8
	case types.Int16, types.Uint16:
		return 16
	case types.Int32, types.Uint32:
		return 32
	case types.Int, types.Uint, types.Int64, types.Uint64, types.Uintptr:
		return 64
	}
	return 0
}

func sameSign(a, b types.Type) bool {
	ba, _ := a.Underlying().(*types.Basic)
	bb, _ := b.Underlying().(*types.Basic)
	if ba == nil || bb == nil {
		return false
	}
	return (ba.Info()&types.IsUnsigned != 0) == (bb.Info()&types.IsUnsigned != 0)
}

func (fc *factCtx) defineIntCall(self Lin, call *ssa.Call) {
	cc := &call.Call
	if b, ok := cc.Value.(*ssa.Builtin); ok {
		switch b.Name() {
		case "len":
			if hasLen(cc.Args[0].Type()) {
				fc.eq(sub(self, fc.lexpr(cc.Args[0])))
			}
			fc.le(leExpr(constLin(0), self))
		case "cap":
			if hasLen(cc.Args[0].Type()) {
				fc.le(leExpr(fc.lexpr(cc.Args[0]), self))
			}
		case "copy":
			fc.le(leExpr(constLin(0), self))
		}
		return
	}
	name := calleeName(cc)
	switch name {
	case "strings.Index", "strings.LastIndex", "strings.IndexByte", "strings.LastIndexByte", "strings.IndexAny", "strings.LastIndexAny", "strings.IndexRune":
		s := fc.lexpr(cc.Args[0])
		var sepLen Lin
		if name == "strings.Index" || name == "strings.LastIndex" {
			sepLen = fc.lexpr(cc.Args[1])
		} else {
			sepLen = constLin(1)
		}
		// r == -1  or  0 <= r <= len(s) - len(sep)
		notFound := Conj{leExpr(self, constLin(-1)), leExpr(constLin(-1), self)}
		found := Conj{leExpr(constLin(0), self), leExpr(self.clone().plus(sepLen, 1), s)}
		fc.or(Clause{notFound, found})
		// content axiom: s[0] == c on a dominating edge and the separator does not start with c => Index(s, sep) != 0
		if name == "strings.Index" || name == "strings.IndexByte" {
			var first byte
			have := false
			if sep, ok := constString(cc.Args[1]); ok && sep != "" {
				first, have = sep[0], true
			} else if k, ok := constInt(cc.Args[1]); ok && name == "strings.IndexByte" && k >= 0 && k < 256 {
				first, have = byte(k), true
			}
			if have && fc.p.firstByteNot(call, cc.Args[0], first, 0) {
				fc.or(Clause{Conj{leExpr(self, constLin(-1))}, Conj{leExpr(constLin(1), self)}})
			}
		}
		return
	}
	callee := cc.StaticCallee()
	if callee != nil && fc.p.c.InModuleFn(callee) && !cc.IsInvoke() {
		// lemmas about the result proved once in the callee's own frame (compositional; keeps nested helpers cheap)
		for _, lm := range fc.p.resultLemmas(callee) {
			rhs := constLin(lm.C)
			if lm.Param >= 0 && lm.Param < len(cc.Args) {
				if lm.IsLen {
					rhs = fc.lexpr(cc.Args[lm.Param]).plus(constLin(lm.C), 1)
				} else {
					rhs = fc.iexpr(cc.Args[lm.Param]).plus(constLin(lm.C), 1)
				}
			}
			if lm.Upper {
				fc.le(leExpr(self, rhs))
			} else {
				fc.le(leExpr(rhs, self))
			}
		}
		fc.summarise(callee, call, 0, self, false)
	}
}

// lemmaT: result <= bound (Upper) or result >= bound, where bound is C, or
// len(param)+C (IsLen), or param+C.
type lemmaT struct {
	Upper bool
	Param int // -1: constant bound
	IsLen bool
	C     int64
}

// resultLemmas proves, once per int-returning module function, which of a
// small set of bound templates hold at every return (in the function's own
// frame, for all arguments), and returns those that do.
func (p *Prover) resultLemmas(fn *ssa.Function) []lemmaT {
	if p.lemmas == nil {
		p.lemmas = map[*ssa.Function][]lemmaT{}
		p.lemmaBusy = map[*ssa.Function]bool{}
	}
	if l, ok := p.lemmas[fn]; ok {
		return l
	}
	if p.lemmaBusy[fn] || len(fn.Blocks) == 0 {
		return nil
	}
	res := fn.Signature.Results()
	if res.Len() != 1 || !isIntType(res.At(0).Type()) {
		p.lemmas[fn] = nil
		return nil
	}
	p.lemmaBusy[fn] = true
	defer delete(p.lemmaBusy, fn)
	var cands []lemmaT
	for _, k := range []int64{-1, 0, 1} {
		cands = append(cands, lemmaT{Upper: false, Param: -1, C: k})
	}
	for i, pr := range fn.Params {
		switch {
		case hasLen(pr.Type()):
			for _, k := range []int64{0, -1, -2} {
				cands = append(cands, lemmaT{Upper: true, Param: i, IsLen: true, C: k})
			}
		case isIntType(pr.Type()):
			for _, k := range []int64{0, -1, -2, -3} {
				cands = append(cands, lemmaT{Upper: true, Param: i, C: k})
			}
		}
	}
	var rets []*ssa.Return
	funcInstrs(fn, func(in ssa.Instruction) {
		if rt, ok := in.(*ssa.Return); ok && len(rt.Results) == 1 {
			rets = append(rets, rt)
		}
	})
	var out []lemmaT
	for _, lm := range cands {
		lm := lm
		ok := len(rets) > 0
		for _, rt := range rets {
			rv := retVal(rt, 0)
			good, _ := p.ProveAt(rt, func(fc *factCtx) []Lin {
				self := fc.iexpr(rv)
				rhs := constLin(lm.C)
				if lm.Param >= 0 {
					if lm.IsLen {
						rhs = fc.lexpr(fn.Params[lm.Param]).plus(constLin(lm.C), 1)
					} else {
						rhs = fc.iexpr(fn.Params[lm.Param]).plus(constLin(lm.C), 1)
					}
				}
				if lm.Upper {
					return []Lin{leExpr(self, rhs)}
				}
				return []Lin{leExpr(rhs, self)}
			})
			if !good {
				ok = false
				break
			}
		}
		if ok {
			out = append(out, lm)
		}
	}
	p.lemmas[fn] = out
	if os.Getenv("GOIRCSA_LEMMAS") != "" {
		fmt.Fprintf(os.Stderr, "lemmas %s: %+v\n", p.c.FuncKey(fn), out)
	}
	return out
}

// firstByteNot: it is known at `at` that s is non-empty and s[0] != x: a
// dominating branch edge fixes s[0] to another byte, or s is a parameter of an
// unexported function whose every call site passes an argument for which the
// same holds there.
func (p *Prover) firstByteNot(at ssa.Instruction, s ssa.Value, x byte, depth int) bool {
	if ch, ok := firstByteKnown(at, s); ok {
		return ch != x
	}
	pr, ok := s.(*ssa.Parameter)
	if !ok || depth > 2 {
		return false
	}
	fn := pr.Parent()
	if fn.Object() == nil || fn.Object().Exported() || addrTaken(fn) {
		return false
	}
	idx := -1
	for i, q := range fn.Params {
		if q == pr {
			idx = i
		}
	}
	sites := p.c.staticCallers(fn)
	if idx < 0 || len(sites) == 0 {
		return false
	}
	for _, cs := range sites {
		if _, isCall := cs.(*ssa.Call); !isCall || idx >= len(cs.Common().Args) {
			return false
		}
		if !p.firstByteNot(cs, cs.Common().Args[idx], x, depth+1) {
			return false
		}
	}
	return true
}

// firstByteKnown: a branch edge dominating `at` fixes s[0] == c.
func firstByteKnown(at ssa.Instruction, s ssa.Value) (byte, bool) {
	for _, cd := range CondsAt(at.Block()) {
		cd = unwrapNot(cd)
		bo, ok := cd.V.(*ssa.BinOp)
		if !ok || bo.Op != token.EQL || !cd.True {
			continue
		}
		var lx, li, k ssa.Value
		pick := func(v ssa.Value) bool {
			switch t := v.(type) {
			case *ssa.Lookup:
				lx, li = t.X, t.Index
				return true
			case *ssa.Index:
				lx, li = t.X, t.Index
				return true
			}
			return false
		}
		if pick(bo.X) {
			k = bo.Y
		} else if pick(bo.Y) {
			k = bo.X
		}
		if lx == nil || lx != s {
			continue
		}
		if i, ok := constInt(li); !ok || i != 0 {
			continue
		}
		if cv, ok := constInt(k); ok && cv >= 0 && cv < 256 {
			return byte(cv), true
		}
	}
	return 0, false
}

func (fc *factCtx) defineLen(t lenTerm) {
	if fc.isDone(t) || fc.depth > 18 {
		return
	}
	fc.done[t] = true
	self := newLin().add(fc.p.varOf(t, "len("+t.v.Name()+")"), 1)
	fc.le(leExpr(constLin(0), self))
	switch v := t.v.(type) {
	case *ssa.Slice:
		base := fc.lexpr(v.X)
		lo := constLin(0)
		if v.Low != nil {
			lo = fc.iexpr(v.Low)
		}
		hi := base
		if v.High != nil {
			hi = fc.iexpr(v.High)
		}
		fc.eq(sub(self, sub(hi, lo)))
		// the slice operation succeeded (v is defined): 0 <= lo <= hi <= len(base) (cap for slices: only lo<=hi, 0<=lo)
		fc.le(leExpr(constLin(0), lo))
		fc.le(leExpr(lo, hi))
		if _, isSlice := v.X.Type().Underlying().(*types.Slice); !isSlice {
			fc.le(leExpr(hi, base))
		}
	case *ssa.BinOp:
		if v.Op == token.ADD && isStringType(v.Type()) {
			fc.eq(sub(self, fc.lexpr(v.X).plus(fc.lexpr(v.Y), 1)))
		}
	case *ssa.Convert:
		if hasLen(v.X.Type()) && isByteSliceOrString(v.X.Type()) && isByteSliceOrString(v.Type()) {
			fc.eq(sub(self, fc.lexpr(v.X)))
		}
	case *ssa.ChangeType:
		if hasLen(v.X.Type()) {
			fc.eq(sub(self, fc.lexpr(v.X)))
		}
	case *ssa.MakeSlice:
		fc.eq(sub(self, fc.iexpr(v.Len)))
	case *ssa.Call:
		fc.defineLenCall(self, v)
	case *ssa.Phi:
		fc.definePhi(v, self, true)
	case *ssa.UnOp:
		if v.Op == token.MUL {
			if st := fc.p.reachingStore(v); st != nil && hasLen(st.Val.Type()) {
				fc.eq(sub(self, fc.lexpr(st.Val)))
			} else if lo, hi, ok := fc.p.c.constTableLens(v); ok {
				fc.le(leExpr(constLin(lo), self))
				fc.le(leExpr(self, constLin(hi)))
			}
		}
	case *ssa.Extract:
		fc.defineExtract(v, self, true)
	case *ssa.Index:
		// an element of an array literal loaded by value: t = *alloc; t[i]
		if ld, ok := v.X.(*ssa.UnOp); ok && ld.Op == token.MUL {
			if al, isAl := ld.X.(*ssa.Alloc); isAl {
				if lo, hi, okL := fc.p.c.arrayLiteralLens(al); okL {
					fc.le(leExpr(constLin(lo), self))
					fc.le(leExpr(self, constLin(hi)))
				}
			}
		}
	}
}

func isByteSliceOrString(t types.Type) bool {
	if isStringType(t) {
		return true
	}
	if s, ok := t.Underlying().(*types.Slice); ok {
		b, ok := s.Elem().Underlying().(*types.Basic)
		return ok && (b.Kind() == types.Byte || b.Kind() == types.Uint8)
	}
	return false
}

func (fc *factCtx) defineLenCall(self Lin, call *ssa.Call) {
	cc := &call.Call
	if b, ok := cc.Value.(*ssa.Builtin); ok {
		if b.Name() == "append" {
			l := fc.lexpr(cc.Args[0])
			if len(cc.Args) > 1 {
				l = l.plus(fc.lexpr(cc.Args[1]), 1)
			}
			fc.eq(sub(self, l))
		}
		return
	}
	switch calleeName(cc) {
	case "strings.SplitN":
		if sep, ok := constString(cc.Args[1]); ok && sep != "" {
			if n, ok := constInt(cc.Args[2]); ok && n > 0 {
				fc.le(leExpr(constLin(1), self))
				fc.le(leExpr(self, constLin(n)))
			}
		}
	case "strings.Split":
		if sep, ok := constString(cc.Args[1]); ok && sep != "" {
			fc.le(leExpr(constLin(1), self))
		}
	case "fmt.Sprintln":
		fc.le(leExpr(constLin(1), self))
	case "strings.TrimSpace", "strings.Trim", "strings.TrimLeft", "strings.TrimRight", "strings.TrimPrefix", "strings.TrimSuffix":
		fc.le(leExpr(self, fc.lexpr(cc.Args[0])))
	}
	callee := cc.StaticCallee()
	if callee != nil && fc.p.c.InModuleFn(callee) && !cc.IsInvoke() {
		fc.summarise(callee, call, 0, self, true)
	}
}

func (fc *factCtx) defineExtract(ex *ssa.Extract, self Lin, isLen bool) {
	call, ok := ex.Tuple.(*ssa.Call)
	if !ok || call.Call.IsInvoke() {
		return
	}
	callee := call.Call.StaticCallee()
	if callee != nil && fc.p.c.InModuleFn(callee) {
		fc.summarise(callee, call, ex.Index, self, isLen)
	}
}

// summarise adds: OR over return sites j of callee: result == ret_j /\ facts at ret_j.
func (fc *factCtx) summarise(callee *ssa.Function, call *ssa.Call, idx int, self Lin, isLen bool) {
	if fc.openFns[callee] || fc.depth > 10 {
		return
	}
	fc.openFns[callee] = true
	defer delete(fc.openFns, callee)
	// bind parameters
	for i, a := range call.Call.Args {
		if i >= len(callee.Params) {
			break
		}
		pr := callee.Params[i]
		switch {
		case isIntType(pr.Type()):
			fc.eq(sub(newLin().add(fc.p.varOf(intTerm{pr, 0}, pr.Name()), 1), fc.iexpr(a)))
			fc.done[intTerm{pr, 0}] = true
		case hasLen(pr.Type()):
			lv := newLin().add(fc.p.varOf(lenTerm{pr, 0}, "len("+pr.Name()+")"), 1)
			fc.eq(sub(lv, fc.lexpr(a)))
			fc.le(leExpr(constLin(0), lv))
			fc.done[lenTerm{pr, 0}] = true
		}
	}
	var cl Clause
	funcInstrs(callee, func(in ssa.Instruction) {
		rt, ok := in.(*ssa.Return)
		if !ok || idx >= len(rt.Results) {
			return
		}
		sc := fc.child()
		sc.staleHdr = nil
		sc.condsAt(rt.Block())
		sc.executed(rt.Block(), rt)
		rv := retVal(rt, idx)
		if isLen {
			sc.eq(sub(self, sc.lexpr(rv)))
		} else {
			sc.eq(sub(self, sc.iexpr(rv)))
		}
		cl = append(cl, sc.flatten(48)...)
	})
	if len(cl) > 0 && len(cl) <= 160 {
		fc.or(cl)
	}
}

// definePhi: non-header phi = case split over incoming edges; header phi =
// selection-phi sources or inferred invariants.
func (fc *factCtx) definePhi(phi *ssa.Phi, self Lin, isLen bool) {
	b := phi.Block()
	c := fc.p.c
	operand := func(sc *factCtx, v ssa.Value) Lin {
		if isLen {
			return sc.lexpr(v)
		}
		return sc.iexpr(v)
	}
	if !c.IsLoopHeader(b) {
		var cl Clause
		for i, e := range phi.Edges {
			sc := fc.child()
			sc.condsAt(b.Preds[i])
			if cd, ok := edgeCond(b.Preds[i], b); ok {
				sc.cond(cd)
			}
			sc.eq(sub(self, operand(sc, e)))
			cl = append(cl, sc.flatten(48)...)
		}
		if len(cl) <= 160 {
			fc.or(cl)
		}
		return
	}
	// header phi
	if fc.useHyp {
		for _, iv := range fc.hyp[phi] {
			fc.le(iv.lin(fc, self))
		}
		return
	}
	if _, ok := c.selectionSources(phi); ok {
		var cl Clause
		okAll := true
		for i, e := range phi.Edges {
			pred := b.Preds[i]
			if e == ssa.Value(phi) {
				continue
			}
			if !blockDom(b, pred) {
				// loop-entry edge: its operand and path facts concern values defined before the loop
				sc := fc.child()
				sc.condsAt(pred)
				if cd, okc := edgeCond(pred, b); okc {
					sc.cond(cd)
				}
				sc.eq(sub(self, operand(sc, e)))
				cl = append(cl, sc.flatten(48)...)
				continue
			}
			// back edge: the value is one of the (stale) sources reachable through inner phis
			var srcs []ssa.Value
			if ip, isPhi := e.(*ssa.Phi); isPhi {
				ss, ok2 := c.selectionSourcesExcluding(ip, phi)
				if !ok2 {
					okAll = false
					break
				}
				srcs = ss
			} else {
				srcs = []ssa.Value{e}
			}
			for _, s := range srcs {
				sc := fc.child()
				fc.p.nextCtx++
				sc.staleHdr, sc.staleID = b, fc.p.nextCtx
				sc.eq(sub(self, operand(sc, s)))
				cl = append(cl, sc.flatten(48)...)
			}
		}
		if okAll && len(cl) <= 160 {
			fc.or(cl)
		}
		return
	}
	if !isLen {
		for _, iv := range fc.p.invariants(phi.Parent())[phi] {
			fc.le(iv.lin(fc, self))
		}
	}
}

// selectionSources: the phi's value is always one of the returned non-phi
// values (its cycle contains only phis), none of which depends on the cycle.
func (c *Ctx) selectionSources(phi *ssa.Phi) ([]ssa.Value, bool) {
	cyc := map[ssa.Value]bool{}
	var srcs []ssa.Value
	seenSrc := map[ssa.Value]bool{}
	var walk func(v ssa.Value)
	walk = func(v ssa.Value) {
		if p, ok := v.(*ssa.Phi); ok {
			if cyc[p] {
				return
			}
			cyc[p] = true
			for _, e := range p.Edges {
				walk(e)
			}
			return
		}
		if !seenSrc[v] {
			seenSrc[v] = true
			srcs = append(srcs, v)
		}
	}
	walk(phi)
	// sources must not depend on the cycle
	for _, s := range srcs {
		seen := map[ssa.Value]bool{}
		var dep func(v ssa.Value) bool
		dep = func(v ssa.Value) bool {
			if cyc[v] {
				return true
			}
			if seen[v] {
				return false
			}
			seen[v] = true
			in, ok := v.(ssa.Instruction)
			if !ok {
				return false
			}
			for _, op := range in.Operands(nil) {
				if *op != nil && dep(*op) {
					return true
				}
			}
			return false
		}
		if dep(s) {
			return nil, false
		}
	}
	return srcs, len(srcs) > 0 && len(srcs) <= 6
}

// selectionSourcesExcluding: non-phi sources of p's phi-closure, not
// walking through (or returning) the header phi hdr itself.
func (c *Ctx) selectionSourcesExcluding(p *ssa.Phi, hdr *ssa.Phi) ([]ssa.Value, bool) {
	seen := map[ssa.Value]bool{hdr: true}
	var srcs []ssa.Value
	var walk func(v ssa.Value)
	walk = func(v ssa.Value) {
		if seen[v] {
			return
		}
		seen[v] = true
		if ph, ok := v.(*ssa.Phi); ok {
			for _, e := range ph.Edges {
				walk(e)
			}
			return
		}
		srcs = append(srcs, v)
	}
	walk(p)
	return srcs, len(srcs) <= 6
}

// constTableLens: v is a load of an element of a local array whose every
// store is a string constant: bounds on len(v).
func (c *Ctx) constTableLens(v *ssa.UnOp) (int64, int64, bool) {
	ia, ok := v.X.(*ssa.IndexAddr)
	if !ok {
		return 0, 0, false
	}
	var al *ssa.Alloc
	switch b := ia.X.(type) {
	case *ssa.Slice:
		al, _ = b.X.(*ssa.Alloc)
	case *ssa.Alloc:
		al = b
	}
	if al == nil {
		// a package-level table: a global slice assigned once, in the package initialiser, from an array literal,
		// whose elements no function of the module ever stores to
		if ld, isLd := ia.X.(*ssa.UnOp); isLd && ld.Op == token.MUL {
			if g, isG := ld.X.(*ssa.Global); isG {
				al = c.globalTableArray(g)
			}
		}
	}
	if al == nil {
		return 0, 0, false
	}
	return c.arrayLiteralLens(al)
}

// arrayLiteralLens: al is an array allocation all of whose element stores are
// string constants and which is otherwise only read (indexed, sliced, loaded
// whole): the minimum and maximum element length.
func (c *Ctx) arrayLiteralLens(al *ssa.Alloc) (int64, int64, bool) {
	if _, ok := arrayLen(al.Type()); !ok {
		return 0, 0, false
	}
	lo, hi := int64(1<<40), int64(-1)
	n := 0
	okAll := true
	for _, ref := range *al.Referrers() {
		switch r := ref.(type) {
		case *ssa.IndexAddr:
			for _, r2 := range *r.Referrers() {
				switch s := r2.(type) {
				case *ssa.Store:
					if s.Addr != r {
						okAll = false
						continue
					}
					str, ok := constString(s.Val)
					if !ok {
						okAll = false
						continue
					}
					n++
					if int64(len(str)) < lo {
						lo = int64(len(str))
					}
					if int64(len(str)) > hi {
						hi = int64(len(str))
					}
				case *ssa.UnOp, *ssa.DebugRef:
				default:
					okAll = false
				}
			}
		case *ssa.Slice, *ssa.DebugRef:
		case *ssa.UnOp:
			if r.Op != token.MUL {
				okAll = false
			} // the whole array loaded by value (range over an array literal)
		default:
			okAll = false
		}
	}
	if !okAll || n == 0 {
		return 0, 0, false
	}
	if al, okL := arrayLen(al.Type()); okL && int64(n) < al {
		lo = 0 // unset elements are ""
	}
	return lo, hi, true
}

// globalTableArray: g is a package-level slice variable of the module that is
// stored exactly once (in its package initialiser, a slice of an array
// allocated there), never has its address taken otherwise, and whose elements
// are never stored to through a load of g anywhere in the module. Returns the
// backing array allocation.
func (c *Ctx) globalTableArray(g *ssa.Global) *ssa.Alloc {
	if g.Pkg == nil || (g.Pkg != c.Client && g.Pkg != c.State) {
		return nil
	}
	var al *ssa.Alloc
	nStore, bad := 0, false
	scan := func(fn *ssa.Function) {
		funcInstrs(fn, func(in ssa.Instruction) {
			for _, op := range in.Operands(nil) {
				if op == nil || *op != ssa.Value(g) {
					continue
				}
				switch t := in.(type) {
				case *ssa.Store:
					if t.Addr == ssa.Value(g) && fn.Name() == "init" && fn.Package() == g.Pkg {
						nStore++
						if sl, ok := t.Val.(*ssa.Slice); ok {
							al, _ = sl.X.(*ssa.Alloc)
						}
					} else {
						bad = true
					}
				case *ssa.UnOp:
					if t.Op != token.MUL {
						bad = true
						break
					}
					// the loaded slice: only indexed for reading, ranged over, measured
					for _, ref := range *t.Referrers() {
						switch r := ref.(type) {
						case *ssa.IndexAddr:
							for _, r2 := range *r.Referrers() {
								if st, isSt := r2.(*ssa.Store); isSt && st.Addr == ssa.Value(r) {
									bad = true
								}
							}
						case *ssa.DebugRef, *ssa.Range:
						case *ssa.Call:
							if b, isB := r.Call.Value.(*ssa.Builtin); !isB || (b.Name() != "len" && b.Name() != "cap") {
								bad = true
							}
						default:
							bad = true
						}
					}
				default:
					bad = true
				}
			}
		})
	}
	for _, fn := range c.ModFuncs {
		scan(fn)
	}
	if bad || nStore != 1 || al == nil {
		return nil
	}
	return al
}

// ---------- conditions ----------

// condsAt adds the branch conditions dominating block b.
func (fc *factCtx) condsAt(b *ssa.BasicBlock) {
	for _, cd := range CondsAt(b) {
		fc.cond(cd)
	}
	fc.joinConds(b)
	for d := b.Idom(); d != nil; d = d.Idom() {
		fc.executed(d, nil)
	}
}

// executed adds what the index operations of block b that precede upto (all
// of them when upto is nil) established by not panicking: 0 <= i < len(x).
// Sound wherever b dominates the point the facts are used at: the operands
// are SSA values, so they still denote what the operation saw.
func (fc *factCtx) executed(b *ssa.BasicBlock, upto ssa.Instruction) {
	if fc.nExec > 60 {
		return
	}
	for _, in := range b.Instrs {
		if in == upto {
			return
		}
		var x, idx ssa.Value
		switch t := in.(type) {
		case *ssa.IndexAddr:
			x, idx = t.X, t.Index
		case *ssa.Index:
			x, idx = t.X, t.Index
		default:
			continue
		}
		if !isIntType(idx.Type()) {
			continue
		}
		var n Lin
		if k, ok := arrayLen(x.Type()); ok {
			n = constLin(k)
		} else if hasLen(x.Type()) {
			n = fc.lexpr(x)
		} else {
			continue
		}
		i := fc.iexpr(idx)
		fc.le(leExpr(constLin(0), i))
		fc.le(ltExpr(i, n))
		fc.nExec++
	}
}

// joinConds adds, for the blocks with several predecessors on the dominator
// chain of b (the body of "case A, B:", the join of an ||), the disjunction of
// what holds along each incoming edge since the immediate dominator.
func (fc *factCtx) joinConds(b *ssa.BasicBlock) {
	if fc.depth > 10 {
		return
	}
	n := 0
	for x := b; x != nil && n < 4; x = x.Idom() {
		if len(x.Preds) < 2 || len(x.Preds) > 6 {
			continue
		}
		d := x.Idom()
		if d == nil {
			continue
		}
		var cl Clause
		ok := true
		for _, p := range x.Preds {
			var cds []Cond
			if cd, okE := edgeCond(p, x); okE {
				cds = append(cds, cd)
			}
			y := p
			for steps := 0; y != d; steps++ {
				if y == nil || len(y.Preds) != 1 || steps > 32 {
					ok = false
					break
				}
				if cd, okE := edgeCond(y.Preds[0], y); okE {
					cds = append(cds, cd)
				}
				y = y.Preds[0]
			}
			if !ok || len(cds) == 0 {
				ok = false
				break
			}
			sc := fc.child()
			for _, cd := range cds {
				sc.cond(cd)
			}
			if len(sc.base) == 0 && len(sc.clauses) == 0 {
				ok = false // nothing known on this edge: the disjunction says nothing
				break
			}
			cl = append(cl, sc.flatten(6)...)
		}
		if ok && len(cl) >= 2 && len(cl) <= 24 {
			fc.or(cl)
			n++
		}
	}
}

func (fc *factCtx) cond(cd Cond) {
	cd = unwrapNot(cd)
	switch v := cd.V.(type) {
	case *ssa.BinOp:
		x, y := v.X, v.Y
		op := v.Op
		if !cd.True {
			switch op {
			case token.LSS:
				op = token.GEQ
			case token.LEQ:
				op = token.GTR
			case token.GTR:
				op = token.LEQ
			case token.GEQ:
				op = token.LSS
			case token.EQL:
				op = token.NEQ
			case token.NEQ:
				op = token.EQL
			default:
				return
			}
		}
		if isIntType(x.Type()) && isIntType(y.Type()) {
			a, b := fc.iexpr(x), fc.iexpr(y)
			switch op {
			case token.LSS:
				fc.le(ltExpr(a, b))
			case token.LEQ:
				fc.le(leExpr(a, b))
			case token.GTR:
				fc.le(ltExpr(b, a))
			case token.GEQ:
				fc.le(leExpr(b, a))
			case token.EQL:
				fc.eq(sub(a, b))
			case token.NEQ:
				fc.or(Clause{Conj{ltExpr(a, b)}, Conj{ltExpr(b, a)}})
			}
			return
		}
		if isStringType(x.Type()) {
			var other ssa.Value
			var k string
			if s, ok := constString(y); ok {
				other, k = x, s
			} else if s, ok := constString(x); ok {
				other, k = y, s
			} else {
				return
			}
			l := fc.lexpr(other)
			switch op {
			case token.EQL:
				fc.eq(sub(l, constLin(int64(len(k)))))
				fc.eq(sub(fc.sexpr(other), constLin(fc.p.strCode(k))))
			case token.NEQ:
				if k == "" {
					fc.le(leExpr(constLin(1), l))
				}
			}
			return
		}
		if hasLen(x.Type()) && (isNilConst(x) || isNilConst(y)) {
			other := x
			if isNilConst(x) {
				other = y
			}
			if op == token.EQL {
				fc.eq(fc.lexpr(other))
			}
		}
	case *ssa.Call:
		switch calleeName(&v.Call) {
		case "strings.HasPrefix", "strings.HasSuffix":
			if cd.True {
				fc.le(leExpr(fc.lexpr(v.Call.Args[1]), fc.lexpr(v.Call.Args[0])))
			}
			return
		}
		// a read-only module predicate: what its own branches establish on the paths that return this answer
		if callee := v.Call.StaticCallee(); callee != nil && !v.Call.IsInvoke() && fc.p.c.InModuleFn(callee) && fc.p.readOnlyFn(callee) {
			if res := callee.Signature.Results(); res.Len() == 1 {
				if b, ok := res.At(0).Type().Underlying().(*types.Basic); ok && b.Kind() == types.Bool {
					fc.predicate(callee, v, cd.True)
				}
			}
		}
	}
}

// readOnlyFn: fn (and everything it calls) performs no store, map update,
// send, go or closure creation and calls only builtins, pure externals,
// logging and other read-only module functions.
func (p *Prover) readOnlyFn(fn *ssa.Function) bool {
	if p.roMemo == nil {
		p.roMemo = map[*ssa.Function]int{}
	}
	switch p.roMemo[fn] {
	case 2:
		return true
	case 1, 3: // recursion is not analysed: conservatively not read-only
		return false
	}
	p.roMemo[fn] = 1
	ok := len(fn.Blocks) > 0
	funcInstrs(fn, func(in ssa.Instruction) {
		switch t := in.(type) {
		case *ssa.Store:
			// stores to the function's own non-escaping cells are invisible outside
			if al, isAl := t.Addr.(*ssa.Alloc); isAl && !isStructAlloc(al) && !al.Heap {
				return
			}
			ok = false
		case *ssa.MapUpdate, *ssa.Send, *ssa.Go, *ssa.MakeClosure, *ssa.Defer, *ssa.Panic:
			ok = false
		case *ssa.Call:
			if _, isB := t.Call.Value.(*ssa.Builtin); isB {
				if n := t.Call.Value.(*ssa.Builtin).Name(); n == "copy" || n == "delete" || n == "close" || n == "append" {
					ok = false
				}
				return
			}
			name := calleeName(&t.Call)
			if isPureExternal(name) || strings.HasPrefix(name, modPath+"/logging.") {
				return
			}
			if callee := t.Call.StaticCallee(); callee != nil && !t.Call.IsInvoke() && p.c.InModuleFn(callee) && p.readOnlyFn(callee) {
				return
			}
			ok = false
		}
	})
	if ok {
		p.roMemo[fn] = 2
	} else {
		p.roMemo[fn] = 3
	}
	return ok
}

// truthPaths: the lists of branch conditions under which the boolean v has
// the value want (a disjunction of conjunctions).
func truthPaths(v ssa.Value, want bool, depth int) [][]Cond {
	if depth > 6 {
		return [][]Cond{{{V: v, True: want}}}
	}
	switch t := v.(type) {
	case *ssa.Const:
		if t.Value != nil && t.Value.Kind() == constant.Bool {
			if constant.BoolVal(t.Value) == want {
				return [][]Cond{{}}
			}
			return nil
		}
	case *ssa.UnOp:
		if t.Op == token.NOT {
			return truthPaths(t.X, !want, depth+1)
		}
	case *ssa.Phi:
		var out [][]Cond
		for i, e := range t.Edges {
			pred := t.Block().Preds[i]
			cds := append([]Cond{}, CondsAt(pred)...)
			if cd, ok := edgeCond(pred, t.Block()); ok {
				cds = append(cds, cd)
			}
			for _, path := range truthPaths(e, want, depth+1) {
				out = append(out, append(append([]Cond{}, cds...), path...))
			}
		}
		return out
	}
	return [][]Cond{{{V: v, True: want}}}
}

// predicate adds, as one disjunction, what the read-only boolean function
// callee establishes on each of its paths that return want, with its
// parameters bound to the arguments and its loads of fields of pointer
// parameters identified with the caller's loads of the same locations.
func (fc *factCtx) predicate(callee *ssa.Function, call *ssa.Call, want bool) {
	if fc.openFns[callee] || fc.depth > 6 || call.Parent() == nil {
		return
	}
	fc.openFns[callee] = true
	defer delete(fc.openFns, callee)
	for i, a := range call.Call.Args {
		if i >= len(callee.Params) {
			break
		}
		pr := callee.Params[i]
		switch {
		case isIntType(pr.Type()):
			fc.eq(sub(newLin().add(fc.p.varOf(intTerm{pr, 0}, pr.Name()), 1), fc.iexpr(a)))
			fc.done[intTerm{pr, 0}] = true
		case hasLen(pr.Type()):
			lv := newLin().add(fc.p.varOf(lenTerm{pr, 0}, "len("+pr.Name()+")"), 1)
			fc.eq(sub(lv, fc.lexpr(a)))
			fc.le(leExpr(constLin(0), lv))
			fc.done[lenTerm{pr, 0}] = true
		}
	}
	// memory: callee loads of param.field == caller loads of arg.field with nothing modifying in between
	cm, km := fc.p.memOf(callee), fc.p.memOf(call.Parent())
	var cloads []*ssa.UnOp
	for u := range cm.key {
		if cm.rep[u] == nil {
			cloads = append(cloads, u)
		}
	}
	sort.Slice(cloads, func(i, j int) bool { return cloads[i].Pos() < cloads[j].Pos() })
	var kloads []*ssa.UnOp
	for u := range km.key {
		kloads = append(kloads, u)
	}
	sort.Slice(kloads, func(i, j int) bool { return kloads[i].Pos() < kloads[j].Pos() })
	for _, u := range cloads {
		k := cm.key[u]
		ai := cm.info[k]
		if ai == nil || ai.field == nil || ai.isIndex {
			continue
		}
		pr, ok := ai.root.(*ssa.Parameter)
		if !ok || k != "p:"+pr.Name()+"."+ai.field.Name() {
			continue
		}
		idx := -1
		for i, q := range callee.Params {
			if q == pr {
				idx = i
			}
		}
		if idx < 0 || idx >= len(call.Call.Args) {
			continue
		}
		bk, _ := km.ptrKey(call.Call.Args[idx])
		if bk == "" {
			continue
		}
		ck := bk + "." + ai.field.Name()
		for _, L := range kloads {
			if km.key[L] != ck {
				continue
			}
			same := false
			if km.reachFrom(call)[L] && !km.clobbered(fc.p, call, L, ck) {
				same = true
			} else if km.reachFrom(L)[call] && !km.clobbered(fc.p, L, call, ck) {
				same = true
			}
			if !same {
				continue
			}
			if isStringType(u.Type()) {
				fc.eq(sub(fc.sexpr(u), fc.sexpr(L)))
			}
			switch {
			case hasLen(u.Type()):
				fc.eq(sub(fc.lexpr(u), fc.lexpr(L)))
			case isIntType(u.Type()):
				fc.eq(sub(fc.iexpr(u), fc.iexpr(L)))
			}
		}
	}
	var cl Clause
	funcInstrs(callee, func(in ssa.Instruction) {
		rt, ok := in.(*ssa.Return)
		if !ok || len(rt.Results) != 1 {
			return
		}
		for _, path := range truthPaths(retVal(rt, 0), want, 0) {
			sc := fc.child()
			sc.staleHdr = nil
			sc.condsAt(rt.Block())
			sc.executed(rt.Block(), rt)
			for _, cd := range path {
				sc.cond(cd)
			}
			cl = append(cl, sc.flatten(48)...)
		}
	})
	if len(cl) > 0 && len(cl) <= 160 {
		fc.or(cl)
	}
}

// ---------- loop invariants (Houdini over lower-bound templates) ----------

// invT is an invariant template for an integer loop-header phi:
// phi >= C (ge) or phi <= len(LenOf) + C.
type invT struct {
	ge    bool
	C     int64
	LenOf ssa.Value
	Val   ssa.Value // with Val: phi >= Val + C (ge) or phi <= Val + C (Val defined outside the loop)
}

func (iv invT) lin(fc *factCtx, self Lin) Lin {
	if iv.ge {
		if iv.Val != nil {
			lb := fc.iexpr(iv.Val)
			lb.K += iv.C
			return leExpr(lb, self)
		}
		return leExpr(constLin(iv.C), self)
	}
	if iv.Val != nil {
		ub := fc.iexpr(iv.Val)
		ub.K += iv.C
		return leExpr(self, ub)
	}
	ub := fc.lexpr(iv.LenOf)
	ub.K += iv.C
	return leExpr(self, ub)
}

func (p *Prover) invariants(fn *ssa.Function) map[*ssa.Phi][]invT {
	if r, ok := p.inv[fn]; ok {
		return r
	}
	if p.invBusy[fn] {
		return nil
	}
	p.invBusy[fn] = true
	defer delete(p.invBusy, fn)
	cand := map[*ssa.Phi][]invT{}
	var phis []*ssa.Phi
	var lens []ssa.Value
	for _, pr := range fn.Params {
		if hasLen(pr.Type()) {
			lens = append(lens, pr)
		}
	}
	for _, b := range fn.Blocks {
		if !p.c.IsLoopHeader(b) {
			continue
		}
		for _, in := range b.Instrs {
			ph, ok := in.(*ssa.Phi)
			if !ok {
				break
			}
			if isIntType(ph.Type()) {
				cs := []invT{{ge: true, C: -1}, {ge: true, C: 0}, {ge: true, C: 1}}
				for _, x := range lens {
					cs = append(cs, invT{LenOf: x, C: 0}, invT{LenOf: x, C: -1}, invT{LenOf: x, C: -2})
				}
				// phi >= its entry value (monotone counters)
				for i, e := range ph.Edges {
					if blockDom(b, b.Preds[i]) {
						continue // back edge
					}
					if _, isC := e.(*ssa.Const); isC {
						continue
					}
					if def, ok := e.(ssa.Instruction); ok && def.Block() != nil && p.c.Loops(fn).headers[def.Block()][b] {
						continue
					}
					cs = append(cs, invT{ge: true, Val: e}, invT{Val: e})
				}
				cand[ph] = cs
				phis = append(phis, ph)
			}
		}
	}
	for changed := true; changed; {
		changed = false
		for _, ph := range phis {
			var keep []invT
			for _, iv := range cand[ph] {
				ok := true
				for i, e := range ph.Edges {
					pred := ph.Block().Preds[i]
					fc := p.newCtx()
					fc.hyp, fc.useHyp = cand, true
					fc.condsAt(pred)
					fc.executed(pred, nil)
					if cd, okc := edgeCond(pred, ph.Block()); okc {
						fc.cond(cd)
					}
					goal := iv.lin(fc, fc.iexpr(e))
					if !fc.entails(goal) {
						ok = false
						break
					}
				}
				if ok {
					keep = append(keep, iv)
				} else {
					changed = true
				}
			}
			cand[ph] = keep
		}
	}
	p.inv[fn] = cand
	return cand
}

// entails: facts |= goal (goal: l <= 0).
func (fc *factCtx) entails(goal Lin) bool {
	fc.p.Queries++
	base := append(append([]Lin{}, fc.base...), notLE(goal))
	budget := 20000
	return unsatCNF(base, fc.clauses, &budget)
}

// ---------- public queries ----------

// Goal builds a goal at instruction `at` and proves it.
type GoalFn func(fc *factCtx) []Lin // conjunction of goals, each l <= 0

// ProveAt proves every goal produced by g from the facts valid just before
// instruction at.
func (p *Prover) ProveAt(at ssa.Instruction, g GoalFn) (bool, string) {
	fc := p.newCtx()
	fc.condsAt(at.Block())
	fc.executed(at.Block(), at)
	goals := g(fc)
	for _, goal := range goals {
		if !fc.entails(goal) {
			if os.Getenv("GOIRCSA_DEBUG") != "" {
				fmt.Fprintf(os.Stderr, "FAIL at %s goal %s\n", p.c.InstrPos(at), p.show(goal))
				for _, b := range fc.base {
					fmt.Fprintf(os.Stderr, "   base %s\n", p.show(b))
				}
				for _, cl := range fc.clauses {
					fmt.Fprintf(os.Stderr, "   clause:\n")
					for _, cj := range cl {
						fmt.Fprintf(os.Stderr, "      alt:")
						for _, l := range cj {
							fmt.Fprintf(os.Stderr, " [%s]", p.show(l))
						}
						fmt.Fprintln(os.Stderr)
					}
				}
			}
			return false, "cannot prove " + p.show(goal) + " from " + fmt.Sprintf("%d facts, %d case splits", len(fc.base), len(fc.clauses))
		}
	}
	return true, fmt.Sprintf("proved %d goal(s) from %d facts, %d case splits", len(goals), len(fc.base), len(fc.clauses))
}

func (p *Prover) show(l Lin) string {
	var parts []string
	for v, c := range l.C {
		parts = append(parts, fmt.Sprintf("%+d*%s", c, p.names[v]))
	}
	// deterministic
	sortStrings(parts)
	return strings.Join(parts, " ") + fmt.Sprintf(" %+d <= 0", l.K)
}

func sortStrings(s []string) {
	for i := 1; i < len(s); i++ {
		for j := i; j > 0 && s[j] < s[j-1]; j-- {
			s[j], s[j-1] = s[j-1], s[j]
		}
	}
}
