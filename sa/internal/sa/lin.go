package sa

import (
	"fmt"
	"sort"
	"strings"
)

// Lin is the linear constraint  sum(C[v]*v) + K <= 0  over integer variables.
type Lin struct {
	C map[int]int64
	K int64
}

func newLin() Lin { return Lin{C: map[int]int64{}} }

func (l Lin) clone() Lin {
	n := Lin{C: make(map[int]int64, len(l.C)), K: l.K}
	for k, v := range l.C {
		n.C[k] = v
	}
	return n
}

func (l Lin) add(v int, c int64) Lin {
	if c == 0 {
		return l
	}
	l.C[v] += c
	if l.C[v] == 0 {
		delete(l.C, v)
	}
	return l
}

// plus returns l + m (as constraints' left sides).
func (l Lin) plus(m Lin, scale int64) Lin {
	n := l.clone()
	for k, v := range m.C {
		n = n.add(k, v*scale)
	}
	n.K += m.K * scale
	return n
}

func gcd(a, b int64) int64 {
	if a < 0 {
		a = -a
	}
	if b < 0 {
		b = -b
	}
	for b != 0 {
		a, b = b, a%b
	}
	return a
}

func floorDiv(a, b int64) int64 {
	q := a / b
	if (a%b != 0) && ((a < 0) != (b < 0)) {
		q--
	}
	return q
}

// normalize divides by the gcd of the coefficients and tightens the constant
// (integer variables): g*x + K <= 0  ==>  x + ceil(K/g) <= 0.
func (l Lin) normalize() Lin {
	var g int64
	for _, c := range l.C {
		g = gcd(g, c)
	}
	if g > 1 {
		for k := range l.C {
			l.C[k] /= g
		}
		// K/g rounded up
		l.K = -floorDiv(-l.K, g)
	}
	return l
}

func (l Lin) isConst() bool { return len(l.C) == 0 }

func (l Lin) key() string {
	var ks []int
	for k := range l.C {
		ks = append(ks, k)
	}
	sort.Ints(ks)
	var sb strings.Builder
	for _, k := range ks {
		fmt.Fprintf(&sb, "%d*%d,", l.C[k], k)
	}
	fmt.Fprintf(&sb, "|%d", l.K)
	return sb.String()
}

// unsatFM decides (soundly: true means definitely unsatisfiable over the
// integers) whether the conjunction of constraints has no solution, by
// Fourier-Motzkin elimination with integer tightening. A blow-up limit makes
// it answer false (unknown) rather than run long.
func unsatFM(cons []Lin) bool {
	cur := make([]Lin, 0, len(cons))
	seen := map[string]bool{}
	for _, c := range cons {
		c = c.clone().normalize()
		if c.isConst() {
			if c.K > 0 {
				return true
			}
			continue
		}
		k := c.key()
		if !seen[k] {
			seen[k] = true
			cur = append(cur, c)
		}
	}
	for rounds := 0; rounds < 200; rounds++ {
		if len(cur) == 0 {
			return false
		}
		// choose the variable with the fewest pos*neg combinations
		cnt := map[int][2]int{}
		for _, c := range cur {
			for v, co := range c.C {
				x := cnt[v]
				if co > 0 {
					x[0]++
				} else {
					x[1]++
				}
				cnt[v] = x
			}
		}
		best, bestCost := -1, 1<<62
		var vars []int
		for v := range cnt {
			vars = append(vars, v)
		}
		sort.Ints(vars)
		for _, v := range vars {
			x := cnt[v]
			cost := x[0]*x[1] - x[0] - x[1]
			if cost < bestCost {
				best, bestCost = v, cost
			}
		}
		if best < 0 {
			return false
		}
		var pos, neg, rest []Lin
		for _, c := range cur {
			co := c.C[best]
			switch {
			case co > 0:
				pos = append(pos, c)
			case co < 0:
				neg = append(neg, c)
			default:
				rest = append(rest, c)
			}
		}
		if len(pos)*len(neg) > 4000 {
			return false
		}
		next := rest
		seen = map[string]bool{}
		for _, c := range next {
			seen[c.key()] = true
		}
		for _, p := range pos {
			for _, n := range neg {
				a, b := p.C[best], -n.C[best]
				// b*p + a*n eliminates best
				r := newLin()
				for k, v := range p.C {
					r = r.add(k, v*b)
				}
				r.K = p.K * b
				for k, v := range n.C {
					r = r.add(k, v*a)
				}
				r.K += n.K * a
				delete(r.C, best)
				r = r.normalize()
				if r.isConst() {
					if r.K > 0 {
						return true
					}
					continue
				}
				k := r.key()
				if !seen[k] {
					seen[k] = true
					next = append(next, r)
				}
			}
		}
		cur = next
		if len(cur) > 6000 {
			return false
		}
	}
	return false
}

// Formula is a conjunction of clauses; each clause is a disjunction of
// conjunctions of linear constraints.
type Conj []Lin
type Clause []Conj

// unsatCNF: the conjunction of base constraints and clauses is unsatisfiable.
// Clauses are expanded by case splitting, with a budget.
func unsatCNF(base []Lin, clauses []Clause, budget *int) bool {
	if unsatFM(base) {
		return true
	}
	if len(clauses) == 0 {
		return false
	}
	// pick the smallest clause first
	bi := 0
	for i, c := range clauses {
		if len(c) < len(clauses[bi]) {
			bi = i
		}
	}
	cl := clauses[bi]
	rest := append(append([]Clause{}, clauses[:bi]...), clauses[bi+1:]...)
	for _, cj := range cl {
		*budget--
		if *budget < 0 {
			return false
		}
		nb := append(append([]Lin{}, base...), cj...)
		if !unsatCNF(nb, rest, budget) {
			return false
		}
	}
	return true
}
