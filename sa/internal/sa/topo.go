package sa

import (
	"fmt"
	"go/token"
	"go/types"
	"sort"

	"golang.org/x/tools/go/ssa"
)

// ---------- handler invocation sites ----------

// HandlerCall is a call site that runs (possibly user-supplied) handler code.
type HandlerCall struct {
	Site ssa.CallInstruction
	Kind string // "invoke Handler.Handle" | "call HandlerFunc value" | "static (*hNode).Handle"
}

func (c *Ctx) isHandlerIface(t types.Type) bool {
	n, ok := t.(*types.Named)
	return ok && n.Obj().Pkg() == c.Client.Pkg && n.Obj().Name() == "Handler"
}

func (c *Ctx) isHandlerFuncType(t types.Type) bool {
	n, ok := t.(*types.Named)
	return ok && n.Obj().Pkg() == c.Client.Pkg && n.Obj().Name() == "HandlerFunc"
}

// HandlerCalls enumerates every site in package client that invokes handler
// code: interface calls of Handler.Handle, calls of a HandlerFunc-typed
// value, and static calls of a module method named Handle with the handler
// signature.
func (c *Ctx) HandlerCalls() []HandlerCall {
	var out []HandlerCall
	for _, fn := range c.ModFuncs {
		if fn.Package() != c.Client {
			continue
		}
		for _, cs := range CallSites(fn) {
			cc := cs.Common()
			switch {
			case cc.IsInvoke() && c.isHandlerIface(cc.Value.Type()) && cc.Method.Name() == "Handle":
				out = append(out, HandlerCall{cs, "invoke Handler.Handle"})
			case !cc.IsInvoke() && cc.StaticCallee() == nil && c.isHandlerFuncType(cc.Value.Type()):
				out = append(out, HandlerCall{cs, "call HandlerFunc value"})
			case !cc.IsInvoke() && cc.StaticCallee() != nil && cc.StaticCallee().Name() == "Handle" && c.InModuleFn(cc.StaticCallee()) && c.hasHandlerSig(cc.StaticCallee()):
				out = append(out, HandlerCall{cs, "static " + c.FuncKey(cc.StaticCallee())})
			}
		}
	}
	return out
}

// hasHandlerSig: method with parameters (*Conn, *Line) and no results.
func (c *Ctx) hasHandlerSig(fn *ssa.Function) bool {
	sig := fn.Signature
	if sig.Recv() == nil || sig.Params().Len() != 2 || sig.Results().Len() != 0 {
		return false
	}
	return typeString(sig.Params().At(0).Type()) == "*"+modPath+"/client.Conn" &&
		typeString(sig.Params().At(1).Type()) == "*"+modPath+"/client.Line"
}

// ---------- WaitGroup joins ----------

func sameRoots(a, b []ssa.Value) bool {
	if len(a) == 0 || len(a) != len(b) {
		return false
	}
	m := map[ssa.Value]bool{}
	for _, x := range a {
		m[x] = true
	}
	for _, x := range b {
		if !m[x] {
			return false
		}
	}
	return true
}

func isWGMethod(in ssa.Instruction, m string) (recv ssa.Value, ok bool) {
	cc := callOf(in)
	if cc == nil || cc.IsInvoke() || len(cc.Args) == 0 {
		return nil, false
	}
	if calleeName(cc) == "(*sync.WaitGroup)."+m {
		return cc.Args[0], true
	}
	return nil, false
}

// wgKey identifies a WaitGroup object: a field var or the allocation roots.
func (p *Prog) wgSame(a, b ssa.Value) bool {
	fa, _ := fieldOf(a)
	fb, _ := fieldOf(b)
	if fa != nil || fb != nil {
		return fa != nil && fa == fb
	}
	return sameRoots(p.Origins(a), p.Origins(b))
}

// JoinedGo decides whether the goroutine started at g is joined in its
// spawner: Add(k>=1) once per spawn before it, Done on every exit of the
// goroutine after all its other calls, Wait on every path from the spawn to
// a return of the spawner.
func (p *Prog) JoinedGo(g *ssa.Go) (bool, string) {
	sp := g.Parent()
	callee := g.Call.StaticCallee()
	if callee == nil || callee.Blocks == nil {
		return false, "spawned function is not statically known"
	}
	var adds []ssa.Instruction
	funcInstrs(sp, func(in ssa.Instruction) {
		if _, ok := isWGMethod(in, "Add"); ok {
			if _, isDefer := in.(*ssa.Defer); !isDefer {
				adds = append(adds, in)
			}
		}
	})
	for _, add := range adds {
		recv, _ := isWGMethod(add, "Add")
		k, okc := constInt(callOf(add).Args[1])
		if (!okc || k < 1) && !p.isLenCall(callOf(add).Args[1]) {
			continue
		}
		if !p.OncePer(add, g) {
			// alternative: Add(len(S)) once before a range over S that spawns exactly once per element
			if !p.addLenBeforeRange(add, g) {
				continue
			}
		}
		// Wait post-dominates g
		okWait, _ := AllPathsPass(g, false, func(in ssa.Instruction) bool {
			r, ok := isWGMethod(in, "Wait")
			return ok && p.wgSame(r, recv)
		})
		if !okWait {
			return false, "no Wait on the same WaitGroup on every path from the spawn to return"
		}
		// Done on every exit of callee, and nothing but Done after it
		isDone := func(in ssa.Instruction) bool {
			r, ok := isWGMethod(in, "Done")
			return ok && p.wgSameAcross(r, recv)
		}
		deferred := false
		funcInstrs(callee, func(in ssa.Instruction) {
			if _, ok := in.(*ssa.Defer); ok && isDone(in) {
				deferred = true
			}
		})
		if deferred {
			return true, "Add once per spawn; deferred Done; Wait post-dominates"
		}
		okDone, bad := AllPathsFromEntryPass(callee, isDone)
		if !okDone {
			return false, fmt.Sprintf("goroutine can return without Done (return at %s)", p.InstrPos(bad))
		}
		// after Done, no further calls
		late := ""
		funcInstrs(callee, func(in ssa.Instruction) {
			if isDone(in) {
				for x := range ReachFrom(in, false, nil) {
					if cc := callOf(x); cc != nil && !isDone(x) {
						late = p.InstrPos(x)
					}
				}
			}
		})
		if late != "" {
			return false, "call at " + late + " runs after Done"
		}
		return true, "Add once per spawn; Done last on every exit; Wait post-dominates"
	}
	return false, "no WaitGroup.Add(k>=1) once-per-spawn before the go statement"
}

// wgSameAcross compares a WaitGroup value inside a spawned closure with one
// in the spawner (through free-variable bindings / arguments).
func (p *Prog) wgSameAcross(inCallee, inSpawner ssa.Value) bool {
	return p.wgSame(inCallee, inSpawner)
}

// ---------- spawn sites ----------

// GoSites returns all `go` statements in module functions that start fn.
func (p *Prog) GoSites(fn *ssa.Function) []*ssa.Go {
	var out []*ssa.Go
	for _, cs := range p.Callers(fn) {
		if g, ok := cs.(*ssa.Go); ok {
			out = append(out, g)
		}
	}
	sort.Slice(out, func(i, j int) bool { return out[i].Pos() < out[j].Pos() })
	return out
}

// IsMember reports whether fn is one of the connection goroutines.
func (a *Anchors) IsMember(fn *ssa.Function) bool {
	for _, m := range a.Members {
		if m == fn {
			return true
		}
	}
	return false
}

// setFieldOfDispatch returns the handler-set field the receiver of a call to
// (*hSet).dispatch is loaded from.
func (c *Ctx) setFieldOf(cs ssa.CallInstruction) *types.Var {
	cc := cs.Common()
	if len(cc.Args) == 0 {
		return nil
	}
	fields, other := c.OriginFields(cc.Args[0])
	if len(other) != 0 || len(fields) != 1 {
		return nil
	}
	for f := range fields {
		return f
	}
	return nil
}

func (c *Ctx) setName(f *types.Var) string {
	switch f {
	case c.A.FG:
		return "fg"
	case c.A.BG:
		return "bg"
	case c.A.Int:
		return "internal"
	}
	return "?"
}

// SetDispatchSites lists all calls (any kind) of (*hSet).dispatch in client.
func (c *Ctx) SetDispatchSites() []ssa.CallInstruction {
	var out []ssa.CallInstruction
	for _, cs := range c.Callers(c.A.SetDispatch) {
		out = append(out, cs)
	}
	sort.Slice(out, func(i, j int) bool { return out[i].Pos() < out[j].Pos() })
	return out
}

func kindName(in ssa.Instruction) string {
	switch in.(type) {
	case *ssa.Go:
		return "go"
	case *ssa.Defer:
		return "defer"
	}
	return "call"
}

func (p *Prog) isLenCall(v ssa.Value) bool {
	call, ok := v.(*ssa.Call)
	if !ok {
		return false
	}
	b, ok := call.Call.Value.(*ssa.Builtin)
	return ok && b.Name() == "len"
}

// addLenBeforeRange: add is wg.Add(len(S)), dominates g, lies outside the loop
// that contains g, and g executes exactly once per element of a range over S.
func (p *Prog) addLenBeforeRange(add ssa.Instruction, g *ssa.Go) bool {
	arg := callOf(add).Args[1]
	if !p.isLenCall(arg) {
		return false
	}
	S := arg.(*ssa.Call).Call.Args[0]
	if !instrDominates(add, g) || p.LoopDepth(add.Block()) != p.LoopDepth(g.Block())-1 {
		return false
	}
	ok := false
	funcInstrs(g.Parent(), func(in ssa.Instruction) {
		u, isU := in.(*ssa.UnOp)
		if !isU || u.Op != token.MUL {
			return
		}
		ia, isIA := u.X.(*ssa.IndexAddr)
		if !isIA || ia.X != S {
			return
		}
		// range index: phi(-1, phi+1) + 1, compared with len(S)
		bo, isB := ia.Index.(*ssa.BinOp)
		if !isB || bo.Op != token.ADD {
			return
		}
		ph, isPh := bo.X.(*ssa.Phi)
		if k, okk := constInt(bo.Y); !isPh || !okk || k != 1 {
			return
		}
		init := false
		for _, e := range ph.Edges {
			if k, okk := constInt(e); okk && k == -1 {
				init = true
			}
		}
		if init && p.OncePer(u, g) {
			ok = true
		}
	})
	return ok
}
