package sa

import (
	"encoding/json"
	"fmt"
	"os"
	"os/exec"
	"path/filepath"
	"sort"
	"strings"
	"sync"
)

// Variant is one entry of selftest/variants.json: a textual edit of the
// current tree that must make a rule fire, or a behaviour-preserving
// refactor that must leave every rule of the property silent.
type Variant struct {
	ID       string `json:"id"`
	Property string `json:"property"`
	Rule     string `json:"rule"`
	Expect   string `json:"expect"` // fire | silent
	File     string `json:"file"`
	Old      string `json:"old"`
	New      string `json:"new"`
	Note     string `json:"note"`
	Suite    string `json:"suite_on_pinned_tree,omitempty"`
	Patch    string `json:"patch,omitempty"` // path (relative to /verif) of a diff to apply instead of old/new
	Edits    []struct {
		File string `json:"file"`
		Old  string `json:"old"`
		New  string `json:"new"`
	} `json:"edits,omitempty"`
}

type VariantResult struct {
	ID      string   `json:"id"`
	Expect  string   `json:"expect"`
	Outcome string   `json:"outcome"` // fired | silent | skipped | error
	Rules   []string `json:"rules_fired,omitempty"`
	OK      bool     `json:"ok"`
	Detail  string   `json:"detail,omitempty"`
}

func copyTree(src, dst string) error {
	return filepath.Walk(src, func(path string, info os.FileInfo, err error) error {
		if err != nil {
			return err
		}
		rel, _ := filepath.Rel(src, path)
		if rel == ".git" || strings.HasPrefix(rel, ".git"+string(filepath.Separator)) {
			if info.IsDir() {
				return filepath.SkipDir
			}
			return nil
		}
		if info.IsDir() {
			return os.MkdirAll(filepath.Join(dst, rel), 0o755)
		}
		if !info.Mode().IsRegular() {
			return nil
		}
		b, err := os.ReadFile(path)
		if err != nil {
			return err
		}
		return os.WriteFile(filepath.Join(dst, rel), b, 0o644)
	})
}

func applyEdit(root, file, old, neu string) (bool, error) {
	path := filepath.Join(root, file)
	b, err := os.ReadFile(path)
	if err != nil {
		return false, nil
	}
	s := string(b)
	if strings.Count(s, old) != 1 {
		return false, nil
	}
	return true, os.WriteFile(path, []byte(strings.Replace(s, old, neu, 1)), 0o644)
}

// LoadVariants reads selftest/variants.json and seeded/*/meta.json.
func LoadVariants(verif string) ([]Variant, error) {
	var vs []Variant
	b, err := os.ReadFile(filepath.Join(verif, "selftest", "variants.json"))
	if err == nil {
		if err := json.Unmarshal(b, &vs); err != nil {
			return nil, fmt.Errorf("variants.json: %v", err)
		}
	}
	// behaviour-preserving refactorings: every property's check must stay silent on each
	refs, _ := filepath.Glob(filepath.Join(verif, "selftest", "refactors", "*.diff"))
	sort.Strings(refs)
	for _, rf := range refs {
		rel, _ := filepath.Rel(verif, rf)
		base := strings.TrimSuffix(filepath.Base(rf), ".diff")
		// <id>.limits.json: properties for which this refactoring is beyond the rules' idioms - a documented
		// false alarm (fail closed), reported as LIMIT, never counted as caught or as silent
		var lim struct {
			FalseAlarms map[string]string `json:"false_alarms"`
		}
		if lb, err := os.ReadFile(strings.TrimSuffix(rf, ".diff") + ".limits.json"); err == nil {
			if err := json.Unmarshal(lb, &lim); err != nil {
				return nil, fmt.Errorf("%s.limits.json: %v", base, err)
			}
		}
		for i := 1; i <= 20; i++ {
			pid := fmt.Sprintf("C%02d", i)
			exp, note := "silent", "behaviour-preserving refactoring "+base
			if why, ok := lim.FalseAlarms[pid]; ok {
				exp, note = "limit", note+" - documented false alarm: "+why
			}
			vs = append(vs, Variant{ID: "REF-" + base + "-" + pid, Property: pid, Rule: "*", Expect: exp, Patch: rel, Note: note})
		}
	}
	metas, _ := filepath.Glob(filepath.Join(verif, "seeded", "*", "meta.json"))
	sort.Strings(metas)
	for _, m := range metas {
		b, err := os.ReadFile(m)
		if err != nil {
			continue
		}
		var meta struct {
			ID       string `json:"id"`
			Property string `json:"property"`
			Expect   string `json:"expect_static"` // fire | miss (documented miss)
			Rule     string `json:"caught_by_rule"`
			Note     string `json:"what"`
		}
		if json.Unmarshal(b, &meta) != nil || meta.Expect != "fire" {
			continue
		}
		rel, _ := filepath.Rel(verif, filepath.Join(filepath.Dir(m), "patch.diff"))
		vs = append(vs, Variant{ID: "seed-" + meta.ID, Property: meta.Property, Rule: meta.Rule, Expect: "fire", Patch: rel, Note: meta.Note})
	}
	return vs, nil
}

// RunVariant applies v to a scratch copy of the current tree and runs the
// quick check of its property there, in a subprocess.
func RunVariant(opt Options, v Variant) VariantResult {
	res := VariantResult{ID: v.ID, Expect: v.Expect}
	tmp, err := os.MkdirTemp("", "goircsa-var-")
	if err != nil {
		res.Outcome, res.Detail = "error", err.Error()
		return res
	}
	defer os.RemoveAll(tmp)
	scratch := filepath.Join(tmp, "repo")
	outDir := filepath.Join(tmp, "out")
	if err := copyTree(opt.Repo, scratch); err != nil {
		res.Outcome, res.Detail = "error", err.Error()
		return res
	}
	if v.Patch != "" {
		cmd := exec.Command("git", "apply", "--whitespace=nowarn", filepath.Join(opt.VerifDir, v.Patch))
		cmd.Dir = scratch
		if out, err := cmd.CombinedOutput(); err != nil {
			res.Outcome, res.Detail, res.OK = "skipped", "patch no longer applies: "+strings.TrimSpace(string(out)), true
			return res
		}
	} else {
		edits := v.Edits
		if v.File != "" {
			edits = append(edits, struct {
				File string `json:"file"`
				Old  string `json:"old"`
				New  string `json:"new"`
			}{v.File, v.Old, v.New})
		}
		for _, e := range edits {
			ok, err := applyEdit(scratch, e.File, e.Old, e.New)
			if err != nil {
				res.Outcome, res.Detail = "error", err.Error()
				return res
			}
			if !ok {
				res.Outcome, res.Detail, res.OK = "skipped", "old text not found exactly once in "+e.File, true
				return res
			}
		}
	}
	self, _ := os.Executable()
	cmd := exec.Command(self, "-property", v.Property, "-tier", "quick", "-repo", scratch, "-verif", opt.VerifDir, "-out", outDir)
	out, _ := cmd.CombinedOutput()
	code := cmd.ProcessState.ExitCode()
	txt := string(out)
	switch code {
	case 0:
		res.Outcome = "silent"
	case 1:
		res.Outcome = "fired"
		// read rules from report
		b, err := os.ReadFile(filepath.Join(outDir, "reports", v.Property+"-quick.json"))
		if err == nil {
			var rep struct {
				Violations []Ob `json:"violations"`
			}
			if json.Unmarshal(b, &rep) == nil {
				seen := map[string]bool{}
				for _, o := range rep.Violations {
					if !seen[o.Rule] {
						seen[o.Rule] = true
						res.Rules = append(res.Rules, o.Rule)
					}
					if len(res.Detail) < 600 {
						res.Detail += fmt.Sprintf("[%s %s %s: %s] ", o.Rule, o.Pos, o.Key, o.Why)
					}
				}
			}
		}
	default:
		res.Outcome = "error"
		res.Detail = lastLines(txt, 5)
	}
	switch v.Expect {
	case "fire":
		res.OK = res.Outcome == "fired"
		if res.OK && strings.Contains(res.Detail, "load:") && strings.Contains(res.Detail, "errors") {
			res.OK = false
			res.Detail = "variant does not compile: " + res.Detail
		}
	case "silent":
		res.OK = res.Outcome == "silent"
	case "limit":
		// a documented false alarm: must still be an alarm (if it went silent the limits file is out of date)
		res.OK = res.Outcome == "fired"
		if !res.OK {
			res.Detail = "listed as a documented false alarm but the check is " + res.Outcome + ": remove it from the limits file. " + res.Detail
		}
	}
	return res
}

func lastLines(s string, n int) string {
	ls := strings.Split(strings.TrimSpace(s), "\n")
	if len(ls) > n {
		ls = ls[len(ls)-n:]
	}
	return strings.Join(ls, " | ")
}

// RunSelftest applies the stored variants for the property (thorough tier).
func RunSelftest(opt Options, spec *PropertySpec) map[string]interface{} {
	vs, err := LoadVariants(opt.VerifDir)
	if err != nil {
		return map[string]interface{}{"failures": []string{err.Error()}}
	}
	var mine []Variant
	for _, v := range vs {
		if v.Property == spec.ID {
			mine = append(mine, v)
		}
	}
	results := make([]VariantResult, len(mine))
	sem := make(chan struct{}, 4)
	var wg sync.WaitGroup
	for i := range mine {
		wg.Add(1)
		go func(i int) {
			defer wg.Done()
			sem <- struct{}{}
			defer func() { <-sem }()
			results[i] = RunVariant(opt, mine[i])
		}(i)
	}
	wg.Wait()
	var failures []string
	var limits []string
	fired, silent, skipped := 0, 0, 0
	for _, r := range results {
		if r.Expect == "limit" && r.OK {
			limits = append(limits, r.ID)
		}
		switch r.Outcome {
		case "fired":
			fired++
		case "silent":
			silent++
		case "skipped":
			skipped++
		}
		if !r.OK {
			failures = append(failures, fmt.Sprintf("%s expected %s got %s %s", r.ID, r.Expect, r.Outcome, r.Detail))
		}
	}
	return map[string]interface{}{
		"variants": len(mine), "fired": fired, "silent": silent, "skipped": skipped,
		"results": results, "failures": failures, "documented_false_alarms": limits,
		"rule": "each stored mutant/seeded patch is applied to a scratch copy of the current tree and must make the static check fire; each stored refactor must leave it silent; entries whose text no longer occurs are skipped",
	}
}

// BCECrossCheck compares the compiler's list of bounds checks it could not
// eliminate (-d=ssa/check_bce) inside the analysed functions with the
// obligations the checker generated: a compiler-reported check on a line
// with no obligation means the obligation enumerator missed an instruction.
func BCECrossCheck(opt Options, rep *Report) (map[string]interface{}, []string) {
	if len(rep.RegionSpans) == 0 {
		return nil, nil
	}
	cmd := exec.Command("go", "build", "-gcflags=-d=ssa/check_bce/debug=1", "./client", "./state")
	cmd.Dir = opt.Repo
	cmd.Env = append(os.Environ(), "GOFLAGS=-mod=mod", "GOPROXY=off", "GOSUMDB=off", "GOTOOLCHAIN=local", "GOWORK=off")
	b, _ := cmd.CombinedOutput()
	total, inRegion, matched := 0, 0, 0
	var missing []string
	seen := map[string]bool{}
	for _, l := range strings.Split(string(b), "\n") {
		if !strings.Contains(l, "Found IsInBounds") && !strings.Contains(l, "Found IsSliceInBounds") {
			continue
		}
		parts := strings.SplitN(strings.TrimPrefix(l, "./"), ":", 4)
		if len(parts) < 3 {
			continue
		}
		file := parts[0]
		var line int
		fmt.Sscanf(parts[1], "%d", &line)
		total++
		// which package dir? compiler prints paths relative to the package directory or to cwd
		cands := []string{file, "client/" + file, "state/" + file}
		for _, sp := range rep.RegionSpans {
			hit := false
			for _, cf := range cands {
				if cf == sp.File && line >= sp.Start && line <= sp.End {
					hit = true
					key := fmt.Sprintf("%s:%d", sp.File, line)
					if seen[key] {
						break
					}
					seen[key] = true
					inRegion++
					if rep.ObLines[key] {
						matched++
					} else {
						missing = append(missing, key+" ("+sp.Func+")")
					}
				}
			}
			if hit {
				break
			}
		}
	}
	sort.Strings(missing)
	return map[string]interface{}{
		"rule":                  "every bounds check the Go compiler could not eliminate inside an analysed function must coincide (by line) with an obligation of the checker",
		"compiler_checks_total": total, "lines_in_analysed_functions": inRegion, "matched_by_obligations": matched, "unmatched": missing,
	}, missing
}

// CrossReference records generic-lint output (information only).
func CrossReference(opt Options, spec *PropertySpec) map[string]interface{} {
	out := map[string]interface{}{"note": "generic lints give no verdict; recorded as information only"}
	run := func(name string, args ...string) {
		cmd := exec.Command(name, args...)
		cmd.Dir = opt.Repo
		cmd.Env = append(os.Environ(), "GOFLAGS=-mod=mod", "GOPROXY=off", "GOSUMDB=off", "GOTOOLCHAIN=local", "GOWORK=off")
		b, _ := cmd.CombinedOutput()
		ls := strings.Split(strings.TrimSpace(string(b)), "\n")
		n := 0
		var keep []string
		for _, l := range ls {
			if strings.TrimSpace(l) == "" || strings.Contains(l, "_test.go") {
				continue
			}
			n++
			if len(keep) < 8 {
				keep = append(keep, l)
			}
		}
		out[name] = map[string]interface{}{"lines": n, "first": keep}
	}
	run("go", "vet", "./client", "./state", "./logging")
	if _, err := exec.LookPath("staticcheck"); err == nil {
		run("staticcheck", "./client", "./state", "./logging")
	}
	return out
}
