package sa

import (
	"fmt"
	"go/token"
	"go/types"
	"sort"

	"golang.org/x/tools/go/ssa"
)

func init() {
	register(&PropertySpec{
		ID:        "C05",
		Technique: "dominance of the internal dispatch phase; who-may-mutate-the-tracker call-graph rule (static analysis)",
		Explain: "The tracker reflects a line before user handlers see it iff the internal set (which holds every state handler) is dispatched, awaited, before the background and foreground sets, and the tracker is mutated only synchronously from internal handlers and lifecycle functions. " +
			"This property is purely an ordering property; with C03.R3 (awaited chain, serial consumer) the second sentence follows.",
		Assume: []string{"C03's rules hold (checked separately)", "user code reaches the tracker only through StateTracker()'s exported interface"},
		Run:    runC05,
	})
	register(&PropertySpec{
		ID:        "C16",
		Technique: "defer-dominance per handler frame; joined/detached goroutine edges (static analysis)",
		Explain: "A panicking handler cannot stop delivery iff every handler invocation happens in a frame that has deferred the configured recovery hook and invokes exactly one handler, each handler of an event has its own joined goroutine, and the default hook calls recover() directly; a blocked background handler cannot delay foreground delivery iff the background dispatch is a detached go. " +
			"Not decided: custom Recover functions that do not recover; a nil Recover in a hand-built Config.",
		Assume: []string{"Config.Recover is non-nil and recovers (true for NewConfig's default, which is checked)", "Go defer/recover semantics"},
		Run:    runC16,
	})
}

var trackerReadOnly = map[string]bool{"GetNick": true, "GetChannel": true, "Me": true, "IsOn": true, "String": true}

func runC05(c *Ctx) {
	r, a := c.R, c.A
	r.Rule("R1", "in every function that dispatches on the background or foreground set, an awaited dispatch of the same line on the internal set dominates both")
	r.Rule("R2", "every state handler (stHandlers table) is registered only through the internal-set registration wrapper")
	r.Rule("R4", "every dispatch of a server line is a plain call in the single consumer goroutine (no second, concurrent dispatcher can run user handlers while later lines are applied)")
	r.Rule("R5", "each handler-set dispatch iterates over a snapshot freshly built under the set's lock (a cached or stale list would skip a state handler registered since)")
	r.Rule("R3", "every mutating state.Tracker call in package client lies in a function reachable only by awaited edges from internal-table handlers or lifecycle functions (Enable/DisableStateTracking, connect initialisation)")
	r.Rule("R6", "event loops of successive connections never overlap (shared with C03.R6): the teardown waits for the connection goroutines with the connection mutex held, member goroutines are started with it held - so the new session's state updates cannot run beneath a foreground handler of the old one")
	r.Rule("R7", "no event is dispatched on a detached goroutine: every call of Conn.dispatch anywhere in package client is a plain or deferred call, never a go statement (a user handler running beside the event loop would see the tracker change under it)")
	r.Rule("R8", "the tracker applies a line completely before its method returns: no go statement anywhere in package state (work left to a background goroutine is state a user handler can observe half-applied)")
	r.Rule("R9", "the tracker user code holds is the tracker the state handlers update: Conn's tracker field is stored only by construction and by functions outside the connection life cycle (Enable/DisableStateTracking), never by anything reachable from the connect routine, the teardown, a connection goroutine or a handler")
	r.Rule("R10", "each state handler applies its own line: for every state-changing verb the handler registered in the state table calls the prescribed tracker method with the line's own parameters under listed guards only, and the 353 handler associates every name it is given (shared with C13.R1) - an update put aside for a later line (a NAMES listing buffered until 366, say) is not there when this line's user handlers run")
	if n := c.effectsRule("R10", nil); true {
		r.Floor("R10", "tracker effect call sites checked", n, 13)
	}
	c.namesRuleAs("R10", a.StTable["353"])
	r.Rule("R11", "every line reaches the event loop, in order: in the receive goroutine each accepted line is handed over by a blocking send before the next read (shared with C03.R1) - overflow lines parked in helper goroutines arrive out of order, and a state handler cannot apply a line whose predecessor has not been applied")
	if pf := c.producerFrame(); r.Anchor("R11", "the receive goroutine that feeds the inbound queue", pf != nil) {
		c.handoverRule("R11", pf.Member)
	}
	r.Rule("R12", "a line that removes a channel or a nick removes it: the tracker's tables are indexed by names exactly as given (shared with C12.R17), so the entry a PART / KICK / QUIT names is the entry that was filed")
	c.rawKeysRule("R12")
	c.loopExclusionRule("R6")
	{
		nGo, nFn := 0, 0
		for _, fn := range c.ModFuncs {
			if fn.Package() != c.State {
				continue
			}
			nFn++
			for _, cs := range CallSites(fn) {
				if g, isGo := cs.(*ssa.Go); isGo {
					nGo++
					r.Add("R8", "state-go:"+c.FuncKey(fn), c.InstrPos(g), c.FuncKey(fn), "the tracker does its work synchronously", false, "go statement in "+c.FuncKey(fn))
				}
			}
		}
		r.Add("R8", "no-go-in-state", "-", "", fmt.Sprintf("none of the %d functions of package state starts a goroutine", nFn), nGo == 0, fmt.Sprintf("%d go statements", nGo))
		r.Floor("R8", "functions of package state", nFn, 40)
	}
	{
		roots := []*ssa.Function{a.Connect, a.Teardown, a.TeardownCore}
		roots = append(roots, a.Members...)
		for _, f := range a.IntTable {
			roots = append(roots, f)
		}
		for _, f := range a.StTable {
			roots = append(roots, f)
		}
		for _, f := range c.clientFuncs() {
			// callers of the connect routine belong to the life cycle too
			for _, cs := range CallSites(f) {
				if cs.Common().StaticCallee() == a.Connect && f != a.Connect {
					roots = append(roots, f)
				}
			}
		}
		reach := c.Closure(roots, nil)
		nSt, nBad := 0, 0
		for _, fn := range c.clientFuncs() {
			funcInstrs(fn, func(in ssa.Instruction) {
				st, ok := in.(*ssa.Store)
				if !ok {
					return
				}
				fv, base := fieldOf(st.Addr)
				if fv != a.St || c.allOriginsLocalAlloc(base, fn) {
					return
				}
				nSt++
				_, inLife := reach.Funcs[fn]
				if inLife {
					nBad++
				}
				r.Add("R9", "tracker-store:"+c.FuncKey(fn), c.InstrPos(st), c.FuncKey(fn), "the tracker field changes only outside the connection life cycle", !inLife, "store to the tracker field in "+c.FuncKey(fn)+", reachable from the connection life cycle: "+c.ChainString(reach.Funcs[fn]))
			})
		}
		r.Floor("R9", "stores to the tracker field of an existing Conn", nSt, 1)
	}
	{
		n := 0
		for _, fn := range c.clientFuncs() {
			for _, cs := range CallSites(fn) {
				for _, e := range c.Callees(cs) {
					if e.Callee != a.ConnDispatch {
						continue
					}
					n++
					r.Add("R7", "dispatch-awaited:"+c.FuncKey(fn), c.InstrPos(cs), c.FuncKey(fn), "events are dispatched by an awaited call", e.Kind != EdgeGo, kindName(cs)+" of Conn.dispatch in "+c.FuncKey(fn))
				}
			}
		}
		r.Floor("R7", "call sites of Conn.dispatch", n, 3)
	}

	// R1
	byFn := map[*ssa.Function][]ssa.CallInstruction{}
	for _, cs := range c.SetDispatchSites() {
		byFn[cs.Parent()] = append(byFn[cs.Parent()], cs)
	}
	n := 0
	for fn, sites := range byFn {
		r.Funcs[c.FuncKey(fn)] = true
		var intSites []ssa.CallInstruction
		for _, cs := range sites {
			if c.setFieldOf(cs) == a.Int && kindName(cs) == "call" {
				intSites = append(intSites, cs)
			}
		}
		for _, cs := range sites {
			f := c.setFieldOf(cs)
			if f != a.FG && f != a.BG {
				continue
			}
			n++
			ok := false
			why := "no awaited internal-set dispatch of the same line dominates this dispatch"
			for _, is := range intSites {
				if instrDominates(is, cs) && sameRoots(c.Origins(is.Common().Args[2]), c.Origins(cs.Common().Args[2])) {
					ok, why = true, "dominated by awaited internal dispatch at "+c.InstrPos(is)+" of the same line"
				}
			}
			r.Add("R1", "phase:"+c.setName(f)+":"+c.FuncKey(fn), c.InstrPos(cs), c.FuncKey(fn), "internal phase precedes the "+c.setName(f)+" dispatch", ok, why)
		}
	}
	r.Floor("R1", "fg/bg dispatch sites", n, 2)

	// R2: stHandlers global is only ranged over, and the values go to (*Conn).handle
	handle := c.Func(c.Client, "(*Conn).handle")
	r.Anchor("R2", "(*Conn).handle registration wrapper", handle != nil)
	if handle != nil {
		// handle must call add on the internal set
		ok := false
		funcInstrs(handle, func(in ssa.Instruction) {
			if cc := callOf(in); cc != nil && cc.StaticCallee() != nil && cc.StaticCallee().Name() == c.nm("add") {
				if fv, _ := loadedField(cc.Args[0]); fv == a.Int {
					ok = true
				}
			}
		})
		r.Add("R2", "wrapper-target", c.Pos(handle.Pos()), c.FuncKey(handle), "the wrapper adds to the internal set", ok, "receiver of add")
	}
	g, _ := c.Client.Members[c.nm("stHandlers")].(*ssa.Global)
	r.Anchor("R2", "stHandlers table", g != nil && len(a.StTable) > 0)
	r.Floor("R2", "state-handler table entries", len(a.StTable), 13)
	if g != nil {
		ranges, badUses := c.tableUses(g)
		for i, tr := range ranges {
			okFlow, why := c.rangeValuesOnlyTo(tr.Range, handle)
			r.Add("R2", fmt.Sprintf("table-use:%s#%d", c.FuncKey(tr.Fn), i+1), c.InstrPos(tr.Range), c.FuncKey(tr.Fn), "values ranged from the state-handler table flow only into the internal registration wrapper", okFlow, why)
		}
		for i, b := range badUses {
			r.Add("R2", fmt.Sprintf("table-use:other#%d", i+1), "-", "", "state-handler table is only ranged over (directly or in a helper it is passed to)", false, b)
		}
		r.Floor("R2", "range loops over the state-handler table", len(ranges), 1)
	}
	// state handler functions are not referenced elsewhere (the entries as written: a forwarder's delegate has the
	// forwarder as its one caller by construction)
	for k, fn := range a.StTableRaw {
		bad := ""
		for _, cs := range c.Callers(fn) {
			if cs.Parent().Synthetic == "" {
				bad = c.InstrPos(cs)
			}
		}
		r.Add("R2", "st-handler-ref:"+k, c.Pos(fn.Pos()), c.FuncKey(fn), "state handler is reachable only through the table", bad == "", "direct call at "+bad)
	}

	// R3
	allowed := map[*ssa.Function]bool{}
	for _, fn := range a.IntTable {
		allowed[fn] = true
	}
	for _, fn := range a.StTable {
		allowed[fn] = true
	}
	for _, nme := range []string{"(*Conn).EnableStateTracking", "(*Conn).DisableStateTracking", "(*Conn).Me", "(*Conn).String"} {
		if f := c.Func(c.Client, nme); f != nil {
			allowed[f] = true
		}
	}
	allowed[a.Connect] = true
	nm := 0
	var okChain func(fn *ssa.Function, depth int) (bool, string)
	okChain = func(fn *ssa.Function, depth int) (bool, string) {
		if allowed[fn] {
			return true, "root " + c.FuncKey(fn)
		}
		if depth > 6 {
			return false, "call chain too deep"
		}
		if fn.Parent() != nil {
			// a closure: it must only ever be called (or deferred) by its parent, never handed to something that
			// runs it later (time.AfterFunc, a stored callback)
			esc := ""
			funcInstrs(fn.Parent(), func(in ssa.Instruction) {
				mc, isMC := in.(*ssa.MakeClosure)
				if !isMC || mc.Fn != ssa.Value(fn) {
					return
				}
				var uses func(v ssa.Value, depth int)
				uses = func(v ssa.Value, depth int) {
					if depth > 4 {
						esc = "is used in a way that is not followed"
						return
					}
					for _, ref := range *v.Referrers() {
						switch t := ref.(type) {
						case *ssa.DebugRef:
						case *ssa.Call:
							if t.Call.Value != v {
								esc = "is passed to " + calleeName(&t.Call) + " at " + c.InstrPos(t) + ", which runs it later"
							}
						case *ssa.Defer:
							if t.Call.Value != v {
								esc = "is passed to a deferred " + calleeName(&t.Call)
							}
						case *ssa.Go:
							esc = "is started with go at " + c.InstrPos(t)
						case *ssa.Phi:
							uses(t, depth+1)
						case *ssa.Store:
							// a local variable holding the closure: follow its loads
							if al, isAl := t.Addr.(*ssa.Alloc); isAl && t.Val == v {
								for _, r2 := range *al.Referrers() {
									if ld, isLd := r2.(*ssa.UnOp); isLd && ld.Op == token.MUL {
										uses(ld, depth+1)
									}
								}
							} else {
								esc = "is stored at " + c.InstrPos(t)
							}
						default:
							esc = "escapes at " + c.InstrPos(ref)
						}
					}
				}
				uses(mc, 0)
			})
			if esc != "" {
				return false, "closure " + c.FuncKey(fn) + " " + esc
			}
		}
		sites := c.Callers(fn)
		if len(sites) == 0 {
			return false, "function " + c.FuncKey(fn) + " has no caller among internal handlers / lifecycle functions"
		}
		for _, cs := range sites {
			if kindName(cs) == "go" {
				return false, "reached through a go statement at " + c.InstrPos(cs)
			}
			if ok, why := okChain(cs.Parent(), depth+1); !ok {
				return false, why
			}
		}
		return true, "all callers awaited from allowed roots"
	}
	for _, fn := range c.ModFuncs {
		if fn.Package() != c.Client {
			continue
		}
		for _, cs := range CallSites(fn) {
			if !c.isTrackerCall(cs) {
				continue
			}
			m := cs.Common().Method.Name()
			if trackerReadOnly[m] {
				continue
			}
			nm++
			ok, why := kindName(cs) != "go", "go statement"
			if ok {
				ok, why = okChain(fn, 0)
			}
			r.Add("R3", "tracker-mut:"+c.FuncKey(fn)+":"+m, c.InstrPos(cs), c.FuncKey(fn), "tracker mutation "+m+" happens synchronously inside the internal phase or a lifecycle function", ok, why)
		}
	}
	r.Floor("R3", "mutating tracker call sites", nm, 13)
	r.Sites += nm

	// R4 / R5 (shared with C03.R3 and C04.R3)
	disp, recvs := c.inboundConsumers()
	if len(disp) == 1 {
		c.connDispatchRule("R4", disp[0], recvs)
	} else {
		r.Exactly("R4", "dispatching consumer goroutine of the inbound queue", len(disp), 1)
	}
	ls := c.ComputeLocksets(c.clientFuncs())
	c.snapshotRule("R5", ls, c.lockFieldName(c.Client, "hSet"))
	// R1 also needs the internal dispatch to have joined its handlers when it returns (shared with C03.R3)
	c.dispatchJoinRule("R1")
}

// dispatchJoinRule: every goroutine started below hSet.dispatch is joined before dispatch returns.
func (c *Ctx) dispatchJoinRule(rule string) {
	r, a := c.R, c.A
	region := c.Closure([]*ssa.Function{a.SetDispatch}, func(from *ssa.Function, e Edge) bool { return !e.Site.Common().IsInvoke() })
	nJoin := 0
	for _, fn := range region.Order {
		if !c.InModuleFn(fn) {
			continue
		}
		funcInstrs(fn, func(in ssa.Instruction) {
			if g, ok := in.(*ssa.Go); ok {
				j, why := c.JoinedGo(g)
				if j {
					nJoin++
				}
				r.Add(rule, "go:"+c.FuncKey(fn), c.InstrPos(g), c.FuncKey(fn), "goroutine started on the dispatch path is joined before dispatch returns", j, why)
			}
		})
	}
	r.Floor(rule, "joined per-handler goroutine", nJoin, 1)
}

// rangeValuesOnlyTo: every value extracted from the range iterator flows
// (through conversions) only into calls of target, as the handler argument.
func (c *Ctx) rangeValuesOnlyTo(rg *ssa.Range, target *ssa.Function) (bool, string) {
	for _, ref := range *rg.Referrers() {
		nx, ok := ref.(*ssa.Next)
		if !ok {
			continue
		}
		for _, r2 := range *nx.Referrers() {
			ex, ok := r2.(*ssa.Extract)
			if !ok || ex.Index != 2 {
				continue
			}
			// follow the value
			var bad string
			var follow func(v ssa.Value, d int)
			follow = func(v ssa.Value, d int) {
				if d > 6 {
					bad = "flow too deep"
					return
				}
				for _, u := range *v.Referrers() {
					switch t := u.(type) {
					case *ssa.DebugRef:
					case *ssa.ChangeType, *ssa.MakeInterface, *ssa.ChangeInterface, *ssa.Phi:
						follow(t.(ssa.Value), d+1)
					case *ssa.Store:
						if al, ok := t.Addr.(*ssa.Alloc); ok {
							// local cell: follow loads
							for _, lr := range *al.Referrers() {
								if ld, ok := lr.(*ssa.UnOp); ok && ld.Op == token.MUL {
									follow(ld, d+1)
								}
							}
						} else {
							bad = "stored at " + c.InstrPos(t)
						}
					case ssa.CallInstruction:
						if t.Common().StaticCallee() != target || kindName(t) == "go" {
							bad = "passed to " + calleeName(t.Common()) + " at " + c.InstrPos(t)
						}
					default:
						bad = fmt.Sprintf("used by %T at %s", u, c.InstrPos(u))
					}
				}
			}
			follow(ex, 0)
			if bad != "" {
				return false, bad
			}
		}
	}
	return true, "only passed to " + c.FuncKey(target)
}

// ---------------- C16 ----------------

// recoverDeferIn returns the Defer instructions in fn whose callee value is
// loaded from Config.Recover.
func (c *Ctx) recoverDefers(fn *ssa.Function) []*ssa.Defer {
	var out []*ssa.Defer
	funcInstrs(fn, func(in ssa.Instruction) {
		d, ok := in.(*ssa.Defer)
		if !ok || d.Call.IsInvoke() {
			return
		}
		if fv, _ := loadedField(d.Call.Value); fv == c.A.CfgRecover {
			out = append(out, d)
		}
	})
	return out
}

// handlerFrames evaluates C02.R2 / C16.R1: every invocation of possibly
// user-supplied handler code is protected by the recovery hook.
func (c *Ctx) handlerFrameRule(rule string) {
	r := c.R
	n := 0
	for _, hc := range c.HandlerCalls() {
		fn := hc.Site.Parent()
		if hc.Kind[:6] == "static" {
			continue // callee frame is checked at its own invocation sites
		}
		n++
		cc := hc.Site.Common()
		// pure forwarder: a Handle method calling its own receiver value
		if !cc.IsInvoke() && len(fn.Params) > 0 && cc.Value == fn.Params[0] && c.isHandleForwarder(fn) {
			r.Add(rule, "forwarder:"+c.FuncKey(fn), c.InstrPos(hc.Site), c.FuncKey(fn), "handler invocation is a pure forwarder inside a Handle method", true, "calls its own receiver; protected at its caller")
			continue
		}
		defs := c.recoverDefers(fn)
		ok := false
		why := "no defer of Config.Recover dominates the handler call in this frame"
		for _, d := range defs {
			if instrDominates(d, hc.Site) {
				ok, why = true, "defer of Config.Recover at "+c.InstrPos(d)+" dominates the call"
			}
		}
		if ok {
			// exactly one handler call in the frame
			cnt := 0
			for _, h2 := range c.HandlerCalls() {
				if h2.Site.Parent() == fn {
					cnt++
				}
			}
			if cnt != 1 || c.LoopDepth(hc.Site.Block()) != 0 {
				ok, why = false, fmt.Sprintf("%d handler calls share one recovered frame (or the call is in a loop): a panic would skip siblings", cnt)
			}
			// deferred calls run last-in-first-out: anything deferred BEFORE the hook runs AFTER it has returned, with
			// nothing left to recover a panic there - only calls that cannot panic may be registered first
			for _, d := range defs {
				if !instrDominates(d, hc.Site) {
					continue
				}
				funcInstrs(fn, func(x ssa.Instruction) {
					d2, isD := x.(*ssa.Defer)
					if !isD || d2 == d || instrDominates(d, d2) {
						return
					}
					switch calleeName(&d2.Call) {
					case "(*sync.WaitGroup).Done", "(*sync.Mutex).Unlock", "(*sync.RWMutex).Unlock", "(*sync.RWMutex).RUnlock":
						return
					}
					if fv, _ := loadedField(d2.Call.Value); fv == c.A.CfgRecover {
						return
					}
					ok, why = false, "the call deferred at "+c.InstrPos(d2)+" is registered before the recovery hook, so it runs after the hook has returned: a panic in it kills the process"
				})
			}
		}
		r.Add(rule, "protected:"+c.FuncKey(fn), c.InstrPos(hc.Site), c.FuncKey(fn), "handler code is invoked under a deferred call of the configured recovery hook, one handler per frame", ok, why)
	}
	r.Floor(rule, "handler invocation sites (interface / function value)", n, 2)
	// every hook the library itself installs: each store to Config.Recover anywhere in package client stores a
	// function that calls recover() directly in its own body (a wrapper closure around a hook puts the hook's
	// recover() one frame too deep, where it returns nil), or a value the caller supplied
	found := false
	for _, fn := range c.clientFuncs() {
		funcInstrs(fn, func(in ssa.Instruction) {
			s, ok := in.(*ssa.Store)
			if !ok {
				return
			}
			if fv, _ := fieldOf(s.Addr); fv != c.A.CfgRecover {
				return
			}
			callerSupplied := true
			for _, o := range c.Origins(s.Val) {
				if _, isP := o.(*ssa.Parameter); !isP {
					callerSupplied = false
				}
			}
			if callerSupplied {
				return
			}
			found = true
			hooks := c.dynamicTargets(s.Val, fn, 0)
			if h := c.funcValue(s.Val); h != nil && len(hooks) == 0 {
				hooks = []*ssa.Function{h}
			}
			ok2 := len(hooks) > 0
			why := "stored hook not resolved to library functions"
			for _, hook := range hooks {
				direct := false
				funcInstrs(hook, func(x ssa.Instruction) {
					if cc := callOf(x); cc != nil {
						if b, ok := cc.Value.(*ssa.Builtin); ok && b.Name() == "recover" {
							if _, isCall := x.(*ssa.Call); isCall {
								direct = true
							}
						}
					}
				})
				if direct {
					why = "hook " + c.FuncKey(hook) + " calls recover() directly"
				} else {
					ok2, why = false, "hook "+c.FuncKey(hook)+" does not call recover() in its own body (a recover() further down the call chain returns nil and the panic continues)"
				}
			}
			key := "default-hook"
			if fn.Name() != "NewConfig" {
				key = "installed-hook:" + c.FuncKey(fn)
			}
			r.Add(rule, key, c.InstrPos(s), c.FuncKey(fn), "a recovery hook installed by the library recovers", ok2, why)
		})
	}
	r.Floor(rule, "store of the default recovery hook in NewConfig", map[bool]int{true: 1}[found], 1)
	if hook := c.Func(c.Client, "(*Conn).LogPanic"); hook != nil {
		// no interface method is invoked on the recovered value
		bad := ""
		funcInstrs(hook, func(in ssa.Instruction) {
			cs, ok := in.(ssa.CallInstruction)
			if !ok || !cs.Common().IsInvoke() {
				return
			}
			for _, o := range c.originsThroughAsserts(cs.Common().Value) {
				if call, ok := o.(*ssa.Call); ok {
					if b, ok := call.Call.Value.(*ssa.Builtin); ok && b.Name() == "recover" {
						bad = c.InstrPos(in)
					}
				}
			}
		})
		r.Add(rule, "hook-no-callback", c.Pos(hook.Pos()), c.FuncKey(hook), "the default hook does not invoke methods of the recovered value itself (a panicking Error()/String() would escape the hook)", bad == "", "method of the recovered value invoked at "+bad)
	}
}

func runC16(c *Ctx) {
	r, a := c.R, c.A
	r.Rule("R1", "every invocation of handler code is under a deferred call of Config.Recover, one handler per recovered frame; the default hook calls recover() directly")
	r.Rule("R2", "each handler of an event runs on its own joined goroutine whose Done is reached after a recovered panic (the recovering frame is a callee of the goroutine, or Done is deferred)")
	r.Rule("R3", "every dispatch on the background set is a detached go (not joined, not awaited)")
	r.Rule("R4", "no handler runs, and no dispatcher waits for handlers, while the handler-set lock is held (shared with C04.R3): a handler that never returns would otherwise block every registration and removal on that set, and with them the event loop")
	r.Rule("R5", "a panic recovered by the hook leaves no library lock behind: wherever a lock of package client or state is released by an explicit Unlock rather than a deferred one, every potentially panicking instruction executed while it is held (in that function and its callees) is proved safe")
	{
		funcs := c.clientFuncs()
		c.noLockAcrossHandlers("R4", funcs, c.ComputeLocksets(funcs), c.lockFieldName(c.Client, "hSet"))
	}
	c.panicSafeLocksRule("R5")
	r.Rule("R6", "built-in handlers do not move work out of the recovered frame: every go statement in code reachable from a handler of the internal or state table by plain calls starts the dispatch machinery, a function that defers the recovery hook first, or a function in which nothing can panic (all panic obligations proved, no calls into code the library does not own)")
	c.handlerSpawnsRule("R6")
	r.Rule("R7", "the recovery hook the library installs can always return: nothing it reaches inside the module takes a lock the teardown holds while it waits, performs a blocking channel operation, waits for a WaitGroup or calls the teardown - it runs in every handler's frame, also while Close holds the connection mutex waiting for the event loop that waits for that handler (a hook that asks Connected() deadlocks the disconnect)")
	c.hookNeverBlocksRule("R7")
	r.Rule("R8", "the other handlers for the event are still delivered: in the function that fans a line out, every path from entry dispatches on the internal, the background and the foreground set - no result of one set's handlers (a count of recovered panics, say) guards the dispatch on another")
	c.fanOutCompleteRule("R8")
	r.Rule("R9", "a recovered panic in a built-in handler does not swallow the event that handler owes: wherever a handler of the internal or state table dispatches an event (CONNECTED from the 001 handler), the dispatch is deferred before any instruction of the handler that may panic, or every potentially panicking instruction of the handler's body that can run before the call is proved safe for every line")
	c.owedEventsRule("R9")
	r.Rule("R10", "the recovery hook the application configures is the hook that runs: the Conn keeps the caller's own Config object (shared with C10.R6) - a client working on a private copy never sees a Recover installed through the application's *Config after Client() returned")
	c.configIdentityRule("R10")
	c.handlerFrameRule("R1")
	// R2
	n := 0
	funcInstrs(c.fanOut().Fn, func(in ssa.Instruction) {
		g, ok := in.(*ssa.Go)
		if !ok {
			return
		}
		n++
		j, why := c.JoinedGo(g)
		callee := g.Call.StaticCallee()
		if j && callee != nil {
			// the goroutine body must not itself be the recovering frame unless Done is deferred
			if len(c.recoverDefers(callee)) > 0 {
				deferredDone := false
				funcInstrs(callee, func(x ssa.Instruction) {
					if _, d := x.(*ssa.Defer); d {
						if _, ok := isWGMethod(x, "Done"); ok {
							deferredDone = true
						}
					}
				})
				if !deferredDone {
					j, why = false, "goroutine recovers in its own frame but Done is not deferred: a panic would skip Done"
				}
			}
			if c.LoopDepth(g.Block()) < 1 {
				j, why = false, "handlers of an event are not started one goroutine per handler (go is outside the loop)"
			}
		}
		r.Add("R2", "per-handler-go:"+c.FuncKey(a.SetDispatch), c.InstrPos(g), c.FuncKey(a.SetDispatch), "one joined goroutine per handler", j, why)
	})
	r.Floor("R2", "per-handler goroutine spawn", n, 1)
	r.Funcs[c.FuncKey(a.SetDispatch)] = true
	// R3
	nb := 0
	for _, cs := range c.SetDispatchSites() {
		if c.setFieldOf(cs) != a.BG {
			continue
		}
		nb++
		ok := kindName(cs) == "go"
		why := kindName(cs)
		if ok {
			if j, _ := c.JoinedGo(cs.(*ssa.Go)); j {
				ok, why = false, "background dispatch goroutine is joined by its spawner"
			}
			// nothing in the spawner waits on a channel the goroutine signals: the callee is (*hSet).dispatch itself (no extra params)
			if cs.Common().StaticCallee() != a.SetDispatch {
				ok, why = false, "background dispatch goes through a wrapper: "+calleeName(cs.Common())
			}
		}
		r.Add("R3", "bg-dispatch:"+c.FuncKey(cs.Parent()), c.InstrPos(cs), c.FuncKey(cs.Parent()), "background dispatch is a detached go", ok, why)
	}
	r.Floor("R3", "background dispatch sites", nb, 1)
	// the spawner must not block on anything the background goroutine controls
	nBlock := 0
	for _, op := range ChanOps(a.ConnDispatch) {
		if op.Kind != "close" && op.Blocking {
			nBlock++
			r.Add("R3", "spawner-blocks:"+op.Kind, c.InstrPos(op.In), c.FuncKey(a.ConnDispatch), "Conn.dispatch performs no blocking channel operation (a slot/semaphore held by a stuck background handler would stall foreground delivery)", false, op.Kind+" on "+op.Chan.Name())
		}
	}
	r.Add("R3", "spawner-does-not-block", c.Pos(a.ConnDispatch.Pos()), c.FuncKey(a.ConnDispatch), "Conn.dispatch has no blocking channel operations", nBlock == 0, fmt.Sprintf("%d blocking channel operations", nBlock))
	// nothing outside hSet.dispatch waits on a WaitGroup that handler dispatch signs in to
	c.noWaitOnDispatchGroups("R3")
}

// noWaitOnDispatchGroups: a WaitGroup stored in a struct field and Add/Done'd
// inside the handler-dispatch region (which also runs background handlers)
// must not be waited on anywhere: a never-returning background handler would
// block the waiter (the per-dispatch join uses a local WaitGroup).
func (c *Ctx) noWaitOnDispatchGroups(rule string) {
	r, a := c.R, c.A
	region := c.Closure([]*ssa.Function{a.SetDispatch}, func(from *ssa.Function, e Edge) bool { return !e.Site.Common().IsInvoke() })
	groups := map[*types.Var]bool{}
	for _, fn := range region.Order {
		if !c.InModuleFn(fn) {
			continue
		}
		funcInstrs(fn, func(in ssa.Instruction) {
			for _, m := range []string{"Add", "Done"} {
				if recv, ok := isWGMethod(in, m); ok {
					if fv, _ := fieldOf(recv); fv != nil && fv != a.WG {
						groups[fv] = true
					}
				}
			}
		})
	}
	n := 0
	for _, fn := range c.clientFuncs() {
		funcInstrs(fn, func(in ssa.Instruction) {
			if recv, ok := isWGMethod(in, "Wait"); ok {
				if fv, base := fieldOf(recv); fv != nil && groups[fv] {
					// a field of a record the waiting function has just allocated is that function's own, per-call
					// WaitGroup (the per-dispatch join kept in a struct with the connection and the line)
					if c.allOriginsLocalAlloc(base, fn) {
						return
					}
					n++
					r.Add(rule, "waits-for-dispatch:"+c.FuncKey(fn)+":"+fv.Name(), c.InstrPos(in), c.FuncKey(fn), "no one waits for background handlers to finish", false, "Wait on "+fv.Name()+", which handler dispatch (including background handlers) adds itself to")
				}
			}
		})
	}
	r.Add(rule, "no-wait-on-dispatch-groups", "-", "", "no WaitGroup joined by handler dispatch is waited on outside the per-dispatch join", n == 0, fmt.Sprintf("%d field WaitGroups used by dispatch, %d waits on them", len(groups), n))
}

var _ = types.Typ

// libraryHooks: the recovery hooks the library itself installs (functions
// stored to Config.Recover anywhere in package client, other than values the
// caller supplied).
func (c *Ctx) libraryHooks() []*ssa.Function {
	var out []*ssa.Function
	seen := map[*ssa.Function]bool{}
	for _, fn := range c.clientFuncs() {
		funcInstrs(fn, func(in ssa.Instruction) {
			s, ok := in.(*ssa.Store)
			if !ok {
				return
			}
			if fv, _ := fieldOf(s.Addr); fv != c.A.CfgRecover {
				return
			}
			hooks := c.dynamicTargets(s.Val, fn, 0)
			if h := c.funcValue(s.Val); h != nil && len(hooks) == 0 {
				hooks = []*ssa.Function{h}
			}
			for _, h := range hooks {
				if !seen[h] && c.InModuleFn(h) {
					seen[h] = true
					out = append(out, h)
				}
			}
		})
	}
	return out
}

// hookNeverBlocksRule: C16.R7. The hook runs in the frame of every handler,
// also while the teardown waits (holding the connection mutex) for the event
// loop that is waiting for that handler. A hook the library installs
// therefore takes no lock of the library and waits for nothing: no Lock /
// RLock, channel operation, WaitGroup wait or teardown call in anything it
// reaches by calls inside the module.
func (c *Ctx) hookNeverBlocksRule(rule string) {
	r, a := c.R, c.A
	hooks := c.libraryHooks()
	if !r.Anchor(rule, "recovery hook installed by the library", len(hooks) > 0) {
		return
	}
	reach := c.Closure(hooks, func(from *ssa.Function, e Edge) bool {
		return c.InModuleFn(e.Callee) && e.Callee.Package() != c.Logging
	})
	// the locks that matter are those the teardown holds while it waits (a lock that is only ever held for the
	// length of a method - the tracker's - is free again by the time the hook runs: deeper frames unwind first)
	var held LockSet
	if tf := c.teardownFacts(c.ComputeLocksets(c.clientFuncs())); tf != nil {
		held = tf.heldAtWait
	}
	n := 0
	for _, fn := range reach.Order {
		if !c.InModuleFn(fn) {
			continue
		}
		n++
		bad := ""
		funcInstrs(fn, func(in ssa.Instruction) {
			if op, ok := c.lockOpOf(in); ok && (op.Method == "Lock" || op.Method == "RLock") && (held == nil || held[op.Obj] != 0) {
				bad = "takes " + op.Obj + ", which the teardown holds while it waits, at " + c.InstrPos(in)
			}
			if _, ok := isWGMethod(in, "Wait"); ok {
				bad = "waits for a WaitGroup at " + c.InstrPos(in)
			}
			if cc := callOf(in); cc != nil {
				if sc := cc.StaticCallee(); sc != nil && (sc == a.Teardown || sc == a.TeardownCore) {
					bad = "calls the teardown at " + c.InstrPos(in)
				}
			}
		})
		for _, op := range ChanOps(fn) {
			if op.Kind != "close" && op.Blocking {
				bad = "blocking channel " + op.Kind + " at " + c.InstrPos(op.In)
			}
		}
		r.Add(rule, "hook-never-blocks:"+c.FuncKey(fn), c.Pos(fn.Pos()), c.FuncKey(fn), "code run by the library's recovery hook takes no library lock and waits for nothing", bad == "", bad+" [reached via "+c.ChainString(reach.Funcs[fn])+"] - a handler that panics while the teardown waits for the event loop would never return")
	}
	r.Floor(rule, "functions run by the library's recovery hook", n, 1)
}

// fanOutCompleteRule: C16.R8. In the function that fans a line out to the
// handler sets, every path from entry reaches the dispatch on each of the
// three sets: what one set's handlers did (a recovered panic included) never
// decides whether the other sets see the line.
func (c *Ctx) fanOutCompleteRule(rule string) {
	r, a := c.R, c.A
	byFn := map[*ssa.Function][]ssa.CallInstruction{}
	for _, cs := range c.SetDispatchSites() {
		byFn[cs.Parent()] = append(byFn[cs.Parent()], cs)
	}
	n := 0
	for fn, sites := range byFn {
		has := map[*types.Var]bool{}
		for _, cs := range sites {
			has[c.setFieldOf(cs)] = true
		}
		if !has[a.FG] && !has[a.BG] {
			continue
		}
		for _, fv := range []*types.Var{a.Int, a.BG, a.FG} {
			n++
			isSite := func(in ssa.Instruction) bool {
				cs, ok := in.(ssa.CallInstruction)
				if !ok {
					return false
				}
				for _, s := range sites {
					if s == cs && c.setFieldOf(cs) == fv {
						return true
					}
				}
				return false
			}
			all, bad := AllPathsFromEntryPass(fn, isSite)
			why := "every path dispatches on the " + c.setName(fv) + " set"
			if !all {
				why = "a path from entry reaches " + c.InstrPos(bad) + " without dispatching on the " + c.setName(fv) + " set"
			}
			r.Add(rule, "fan-out-complete:"+c.setName(fv)+":"+c.FuncKey(fn), c.Pos(fn.Pos()), c.FuncKey(fn), "every line is dispatched on the "+c.setName(fv)+" set whatever the other sets' handlers did", all, why)
		}
	}
	r.Floor(rule, "set dispatches required on every path of the fan-out function", n, 3)
}

// owedEventsRule: C16.R9. An event a built-in handler owes (CONNECTED from
// the 001 handler) is delivered even when that handler panics and the panic
// is recovered: the dispatch is deferred before anything in the handler can
// panic, or - when it is a plain call - every potentially panicking
// instruction of the handler's own body that can run before it is proved
// safe for every line.
func (c *Ctx) owedEventsRule(rule string) {
	r, a := c.R, c.A
	var hs []*ssa.Function
	seen := map[*ssa.Function]bool{}
	for _, tbl := range []map[string]*ssa.Function{a.IntTable, a.StTable} {
		var keys []string
		for k := range tbl {
			keys = append(keys, k)
		}
		sort.Strings(keys)
		for _, k := range keys {
			if h := tbl[k]; !seen[h] {
				seen[h] = true
				hs = append(hs, h)
			}
		}
	}
	p := c.NewProver()
	n := 0
	for _, h := range hs {
		for _, cs := range CallSites(h) {
			if cs.Common().StaticCallee() != a.ConnDispatch {
				continue
			}
			if _, isGo := cs.(*ssa.Go); isGo {
				continue
			}
			n++
			before := ReachFromEntry(h, func(in ssa.Instruction) bool { return in == ssa.Instruction(cs) })
			bad := ""
			for _, ob := range c.panicObligations(h) {
				if !before[ob.In] || ob.In == ssa.Instruction(cs) {
					continue
				}
				if ok, why := c.discharge(p, ob); !ok {
					bad = ob.Kind + " at " + c.InstrPos(ob.In) + " can panic before the event is " + map[bool]string{true: "registered for delivery", false: "dispatched"}[kindName(cs) == "defer"] + ": " + why
				}
			}
			r.Add(rule, fmt.Sprintf("owed-event:%s#%d", c.FuncKey(h), n), c.InstrPos(cs), c.FuncKey(h), "the event a built-in handler dispatches is delivered even if the handler panics", bad == "", bad)
		}
	}
	r.Floor(rule, "events dispatched by built-in handlers", n, 1)
}
