package sa

import (
	"fmt"
	"go/token"
	"go/types"
	"sort"
	"strings"

	"golang.org/x/tools/go/ssa"
)

func init() {
	register(&PropertySpec{
		ID:        "C06",
		Technique: "exactly-once path rules, atomic test-and-clear under the connection mutex, write-after-refusal dominance (static analysis)",
		Explain: "Decided for all fault moments and schedules: REGISTER is dispatched once, only where the connect routine's error is nil; DISCONNECTED is dispatched only after the connected flag was tested and cleared under one uninterrupted hold of the connection mutex (so one closer proceeds per true->false transition); the flag is set only under that mutex with only success returns after it; every connection goroutine that consumes a queue or does socket I/O calls the teardown on every exit; every write to per-connection state, tracker wipe and goroutine start in the connect routine is after both refusals; a Close on a disconnected client does nothing. " +
			"Not decided: the REGISTER/DISCONNECTED race the property itself excludes.",
		Assume: []string{"sync.RWMutex semantics", "dial/handshake functions return a non-nil error on failure"},
		Run:    runC06,
	})
	register(&PropertySpec{
		ID:        "C07",
		Technique: "blocking-operation census with release classes over the region Close waits for; stale-teardown typestate; WaitGroup accounting (static analysis)",
		Explain: "Liveness itself is undecidable; decided is the release discipline it needs: every blocking operation that a goroutine awaited by Close can execute before leaving the WaitGroup (members, awaited callees, built-in handlers and the command API that opaque handlers call) is releasable by what Close does before it waits - context cancellation, socket close, a bounded timer, an inner join, a drainer that keeps receiving until after Wait, or a lock Close does not hold while waiting. Also: no member calls the identity-less teardown after its Done (stale Close), queue consumers call the teardown on every exit, a successful connect always makes fresh queues and wipes the tracker, and WaitGroup Add/Done/spawn counts balance on every path. " +
			"Not decided: a numeric time bound; opaque handler code (assumed to return when library calls return).",
		Assume: []string{"user handlers return when the library calls they make return", "logging, fmt, strings, time.Now, runtime, base64 and the SASL client do not block", "closing the socket unblocks pending socket I/O"},
		Run:    runC07,
	})
}

// mustDo: every path through fn (entry to return) performs `kind`
// ("done": Done on the connection WaitGroup; "teardown": a call of the
// teardown), directly or through an awaited call of a function that must.
func (c *Ctx) mustDo(fn *ssa.Function, kind string, seen map[*ssa.Function]bool) bool {
	if fn == nil || fn.Blocks == nil || !c.InModuleFn(fn) || seen[fn] {
		return false
	}
	seen[fn] = true
	defer delete(seen, fn)
	ok, _ := AllPathsFromEntryPass(fn, func(in ssa.Instruction) bool { return c.doesKind(in, kind, seen) })
	return ok
}

func (c *Ctx) doesKind(in ssa.Instruction, kind string, seen map[*ssa.Function]bool) bool {
	if _, isGo := in.(*ssa.Go); isGo {
		return false
	}
	switch kind {
	case "done":
		if c.isWGCall(in, c.A.WG, "Done") {
			return true
		}
	case "teardown":
		if cc := callOf(in); cc != nil && !cc.IsInvoke() && cc.StaticCallee() == c.A.Teardown {
			return true
		}
	}
	cc := callOf(in)
	if cc == nil || cc.IsInvoke() {
		return false
	}
	callee := cc.StaticCallee()
	if callee == nil || callee == c.A.Teardown || callee == c.A.TeardownCore || callee.Package() != c.Client {
		return false
	}
	if _, isDefer := in.(*ssa.Defer); isDefer && kind == "teardown" {
		return false
	}
	return c.mustDo(callee, kind, seen)
}

// isDoneLike: in leaves the connection WaitGroup (directly or via a wrapper).
func (c *Ctx) isDoneLike(in ssa.Instruction) bool {
	return c.doesKind(in, "done", map[*ssa.Function]bool{})
}

// isTeardownCall: in is a (non-go) call of the teardown function, or of a
// wrapper all of whose paths call it.
func (c *Ctx) isTeardownCall(in ssa.Instruction) bool {
	return c.doesKind(in, "teardown", map[*ssa.Function]bool{})
}

// coreDominatesEvent: the event dispatch at site happens only after an
// instruction satisfying pred has executed in the teardown core. When the
// teardown is split (event function calls the core), the dispatch must be
// guarded by a boolean result of the core that is non-false only on paths
// dominated by pred.
func (c *Ctx) coreDominatesEvent(pred func(ssa.Instruction) bool, site ssa.Instruction) (bool, string) {
	a := c.A
	core, ev := a.TeardownCore, site.Parent()
	if core == ev {
		if SetDominates(ev, pred, site) {
			return true, "dominates the dispatch"
		}
		if SameGuardDominates(ev, pred, site) {
			return true, "executes on every path to the dispatch (both are guarded by the same flag value)"
		}
		return false, "does not dominate the dispatch"
	}
	for _, cd := range CondsAt(site.Block()) {
		cd = unwrapNot(cd)
		ex, ok := cd.V.(*ssa.Extract)
		var call *ssa.Call
		idx := 0
		if ok {
			call, _ = ex.Tuple.(*ssa.Call)
			idx = ex.Index
		} else if cl, isCall := cd.V.(*ssa.Call); isCall {
			call = cl
		}
		if call == nil || call.Call.StaticCallee() != core || !cd.True {
			continue
		}
		good := true
		funcInstrs(core, func(in ssa.Instruction) {
			rt, isR := in.(*ssa.Return)
			if !isR || idx >= len(rt.Results) {
				return
			}
			v := retVal(rt, idx)
			if k, isC := v.(*ssa.Const); isC && k.Value != nil && k.Value.String() == "false" {
				return
			}
			if !SetDominates(core, pred, rt) {
				good = false
			}
		})
		if good {
			return true, "dispatch guarded by a result of " + c.FuncKey(core) + " that is non-false only after it"
		}
		return false, "a non-false result of " + c.FuncKey(core) + " is returned on a path that skips it"
	}
	return false, "the dispatch is not guarded by a result of " + c.FuncKey(core)
}

// queueOrIOMember: member directly operates on a Conn queue or the socket.
func (c *Ctx) queueOrIOMember(m *ssa.Function) (bool, string) {
	a := c.A
	for _, op := range ChanOps(m) {
		if c.ChanMayBe(op.Chan, a.In) || c.ChanMayBe(op.Chan, a.Out) {
			return true, op.Kind + " on a connection queue"
		}
	}
	io := false
	funcInstrs(m, func(in ssa.Instruction) {
		if cc := callOf(in); cc != nil {
			for _, arg := range cc.Args {
				if c.derivesFromIO(arg) || c.derivesFromField(arg, a.Sock) {
					io = true
				}
			}
		}
	})
	return io, "socket I/O"
}

// membersCallTeardown: rule shared by C06.R3 and C07.R3.
func (c *Ctx) membersCallTeardown(rule string) {
	r, a := c.R, c.A
	n := 0
	for _, m := range a.Members {
		is, what := c.queueOrIOMember(m)
		if !is {
			continue
		}
		n++
		r.Funcs[c.FuncKey(m)] = true
		ok, bad := AllPathsFromEntryPass(m, c.isTeardownCall)
		why := "every exit of " + c.FuncKey(m) + " (" + what + ") calls the teardown"
		if !ok {
			why = "exit at " + c.InstrPos(bad) + " leaves without calling the teardown"
		}
		r.Add(rule, "exit-calls-teardown:"+c.FuncKey(m), c.Pos(m.Pos()), c.FuncKey(m), "connection goroutine calls the teardown on every exit path", ok, why)
	}
	r.Floor(rule, "connection goroutines that consume a queue or do socket I/O", n, 3)
}

func runC06(c *Ctx) {
	r, a := c.R, c.A
	r.Rule("R1", "REGISTER is dispatched at exactly one site, a plain call outside loops, in the caller of the connect routine, dominated by the test that the routine's error result is nil")
	r.Rule("R2", "DISCONNECTED is dispatched only after: Lock(Conn.mu); load flag; branch on it; store false - with the mutex held throughout and no Unlock between load and store; the flag is stored true only in the connect routine under the same lock, and only success returns follow that store")
	r.Rule("R3", "every connection goroutine that consumes a queue or does socket I/O calls the teardown on every exit path (read error/EOF, write error, cancellation)")
	r.Rule("R4", "store false dominates the DISCONNECTED dispatch; store true dominates every success return of the connect routine")
	r.Rule("R5", "in the connect routine every write to per-connection state (socket, buffered I/O, queues, cancel func; directly or through callees), every tracker mutation and every go statement is dominated by the not-already-connected and server-non-empty edges; no dispatch is reachable from it")
	r.Rule("R6", "on the flag-false path of the teardown there are no stores and no calls other than the unlock")
	r.Rule("R8", "the wait that precedes DISCONNECTED is not blocked by the library itself (the release discipline of C07.R1, a necessary condition of 'each established connection ends with exactly one DISCONNECTED'): every blocking operation in the region Close waits for is released by something the teardown does before waiting; in particular nothing there acquires a lock the teardown holds across the wait")
	r.Rule("R9", "a read or write error ends the connection: in every connection goroutine, on the control-flow graph without the edges that imply 'the error is nil', no path leads from an error-returning socket I/O call to a return, or round the loop to the same call, without passing a call of the teardown")
	r.Rule("R10", "no function the event loop awaits on behalf of a built-in handler (internal and state tables, and all they call) calls the teardown: it would wait for its own event loop and the connection would end with no DISCONNECTED")
	r.Rule("R7", "the wait that precedes DISCONNECTED terminates as far as accounting goes: WaitGroup.Add constants equal the member spawns on every path and every member goroutine calls Done exactly once on each of its exits (a missed Done means DISCONNECTED is never delivered, a double Done panics)")
	funcs := c.clientFuncs()
	ls := c.ComputeLocksets(funcs)
	mu := "client.Conn.mu"
	if a.Mu != nil {
		mu = "client.Conn." + a.Mu.Name()
	}

	// ---- R1
	nReg := 0
	for _, fn := range funcs {
		for _, e := range c.EventDispatches(fn, a) {
			if e.Cmd != "REGISTER" {
				continue
			}
			nReg++
			ok := kindName(e.Site) == "call" && c.LoopDepth(e.Site.Block()) == 0
			why := kindName(e.Site)
			if ok {
				ok, why = false, "not dominated by a test that the connect routine returned a nil error"
				for _, cd := range CondsAt(e.Site.Block()) {
					cd = unwrapNot(cd)
					bo, isB := cd.V.(*ssa.BinOp)
					if !isB || (bo.Op != token.EQL && bo.Op != token.NEQ) {
						continue
					}
					var other ssa.Value
					if isNilConst(bo.Y) {
						other = bo.X
					} else if isNilConst(bo.X) {
						other = bo.Y
					}
					if call, isC := other.(*ssa.Call); isC && call.Call.StaticCallee() == a.Connect && (bo.Op == token.EQL) == cd.True {
						ok, why = true, "dominated by err == nil of "+c.FuncKey(a.Connect)
						// ... and once the connect routine has succeeded nothing can skip it: on the CFG without the
						// "error is not nil" edges every path from the call to a return passes the dispatch
						skipErr := func(from, to *ssa.BasicBlock) bool {
							ec, okE := edgeCond(from, to)
							if !okE {
								return false
							}
							ec = unwrapNot(ec)
							b2, isB2 := ec.V.(*ssa.BinOp)
							if !isB2 || !((b2.X == ssa.Value(call) && isNilConst(b2.Y)) || (b2.Y == ssa.Value(call) && isNilConst(b2.X))) {
								return false
							}
							return (b2.Op == token.NEQ && ec.True) || (b2.Op == token.EQL && !ec.True)
						}
						for x := range ReachFromFiltered(call, false, func(y ssa.Instruction) bool { return y == e.Site }, skipErr) {
							if _, isR := x.(*ssa.Return); isR {
								ok, why = false, "after the connect routine succeeded the return at "+c.InstrPos(x)+" is reached without REGISTER: an established connection that never registers"
							}
						}
					}
				}
			}
			r.Add("R1", "register:"+c.FuncKey(fn), c.InstrPos(e.Site), c.FuncKey(fn), "REGISTER dispatched once, only on success", ok, why)
			r.Funcs[c.FuncKey(fn)] = true
		}
	}
	r.Exactly("R1", "dispatch sites of REGISTER", nReg, 1)

	// ---- R2 / R4
	td := a.TeardownCore
	r.Funcs[c.FuncKey(td)] = true
	var loads, clears []ssa.Instruction
	funcInstrs(td, func(in ssa.Instruction) {
		if u, ok := in.(*ssa.UnOp); ok && u.Op == token.MUL {
			if fv, _ := fieldOf(u.X); fv == a.Connected {
				loads = append(loads, in)
			}
		}
		if c.isFlagClear(in) {
			clears = append(clears, in)
		}
	})
	r.Exactly("R2", "loads of the connected flag in the teardown", len(loads), 1)
	r.Exactly("R2", "stores of false to the connected flag in the teardown", len(clears), 1)
	for _, e := range c.EventDispatches(a.Teardown, a) {
		if e.Cmd != "DISCONNECTED" || len(loads) != 1 || len(clears) != 1 {
			continue
		}
		L, S := loads[0], clears[0]
		ok, why := true, "Lock; load; branch; store false with the mutex held and no Unlock in between; store dominates the dispatch"
		domOK, domWhy := c.coreDominatesEvent(func(in ssa.Instruction) bool { return in == S }, e.Site)
		switch {
		case !domOK:
			ok, why = false, "store of false "+domWhy
		case !instrDominates(L, S):
			ok, why = false, "the flag is cleared without being tested first"
		case ls.Held(L, mu) != 'W' || ls.Held(S, mu) != 'W':
			ok, why = false, fmt.Sprintf("mutex not held exclusively at the test (%s) or the clear (%s)", ls.At[L], ls.At[S])
		default:
			// S must be control-dependent on the loaded flag being true
			dep := false
			for _, cd := range CondsAt(S.Block()) {
				cd = unwrapNot(cd)
				if cd.V == L.(ssa.Value) && cd.True {
					dep = true
				}
			}
			if !dep {
				ok, why = false, "the clear is not guarded by the flag having been true"
			}
			// no unlock between L and S
			between := ReachFrom(L, false, func(in ssa.Instruction) bool { return in == S })
			for x := range between {
				if op, isL := c.lockOpOf(x); isL && op.Obj == mu && !op.Deferred && (op.Method == "Unlock" || op.Method == "RUnlock") {
					if ReachFrom(x, false, nil)[S] {
						ok, why = false, "the mutex is released at "+c.InstrPos(x)+" between testing and clearing the flag"
					}
				}
			}
		}
		r.Add("R2", "test-and-clear:"+c.FuncKey(td), c.InstrPos(S), c.FuncKey(td), "flag is tested and cleared atomically before DISCONNECTED", ok, why)
		r.Add("R4", "clear-dominates-event:"+c.FuncKey(td), c.InstrPos(e.Site), c.FuncKey(a.Teardown), "Connected() is false whenever DISCONNECTED handlers run", domOK, "store false "+domWhy)
	}
	// flag set true
	nTrue := 0
	for _, fn := range funcs {
		funcInstrs(fn, func(in ssa.Instruction) {
			if !c.isFlagStore(in, true) {
				return
			}
			nTrue++
			if a.FlagSetter != nil && fn == a.FlagSetter {
				// the trivial setter: judged at its call in the connect routine
				fn, in = a.Connect, a.ConnectSet
			}
			ok := fn == a.Connect && ls.Held(in, mu) == 'W'
			why := fmt.Sprintf("in %s lockset=%s", c.FuncKey(fn), ls.At[in])
			if ok {
				for x := range ReachFrom(in, false, nil) {
					if rt, isR := x.(*ssa.Return); isR {
						for ri := range rt.Results {
							res := retVal(rt, ri)
							if types.Identical(rt.Results[ri].Type(), types.Universe.Lookup("error").Type()) && !isNilConst(res) {
								ok, why = false, "error return at "+c.InstrPos(rt)+" is reachable after the flag was set: a failed Connect would leave Connected() true"
							}
						}
					}
				}
			}
			r.Add("R2", "set-flag:"+c.FuncKey(fn), c.InstrPos(in), c.FuncKey(fn), "flag set only in the connect routine, under the mutex, with only success returns after it", ok, why)
			if fn == a.Connect {
				// R4: every nil return dominated by the store
				funcInstrs(fn, func(x ssa.Instruction) {
					if rt, isR := x.(*ssa.Return); isR && len(rt.Results) == 1 && isNilConst(retVal(rt, 0)) {
						r.Add("R4", "set-dominates-success:"+c.FuncKey(fn), c.InstrPos(rt), c.FuncKey(fn), "Connected() is true whenever Connect reports success", instrDominates(in, rt), "store true dominates the success return")
					}
				})
			}
		})
	}
	r.Exactly("R2", "stores of true to the connected flag", nTrue, 1)

	// ---- R3
	c.membersCallTeardown("R3")
	// Connected() is the flag
	r.Rule("R14", "a refused Connect leaves an existing connection fully working: no function from which the connect routine is reachable by plain calls (Connect, ConnectTo, their context variants), and nothing they call on the caller's goroutine short of the event dispatch, calls the teardown")
	c.connectNeverTearsDownRule("R14")
	r.Rule("R13", "handlers can ask: every event (DISCONNECTED included) is dispatched with no library lock held - the must-lockset at every call of the fan-out function and of a handler-set dispatch is empty (shared with C07.R7), so Connected(), Connect and Close called from a handler return")
	c.noLocksAtDispatchRule("R13")
	r.Rule("R12", "Connected() agrees with the events because it IS the flag: every return of Connected() returns the connected flag loaded under a blocking acquisition of the connection mutex - no constant answer (a TryLock that gives up says 'false' while REGISTER or CONNECTED handlers run)")
	if cf := c.followForward(c.Func(c.Client, "(*Conn).Connected")); r.Anchor("R12", "(*Conn).Connected", cf != nil) {
		nRet := 0
		funcInstrs(cf, func(in ssa.Instruction) {
			rt, isR := in.(*ssa.Return)
			if !isR || len(rt.Results) != 1 {
				return
			}
			nRet++
			okR, whyR := true, "returns the flag, loaded with the mutex held"
			for _, o := range c.originsLocal(retVal(rt, 0)) {
				fv, _ := loadedField(o)
				if fv != a.Connected {
					okR, whyR = false, "returns "+o.String()+", not the connected flag"
				} else if ld, isI := o.(ssa.Instruction); isI && ls.Held(ld, mu) == 0 {
					okR, whyR = false, "the flag is read without the connection mutex"
				}
			}
			r.Add("R12", fmt.Sprintf("connected-answer#%d", nRet), c.InstrPos(rt), c.FuncKey(cf), "Connected() answers with the flag itself", okR, whyR)
		})
		// the acquisition is a blocking one
		funcInstrs(cf, func(in ssa.Instruction) {
			if cc := callOf(in); cc != nil {
				switch calleeName(cc) {
				case "(*sync.RWMutex).TryRLock", "(*sync.RWMutex).TryLock", "(*sync.Mutex).TryLock":
					r.Add("R12", "connected-trylock", c.InstrPos(in), c.FuncKey(cf), "Connected() waits for the mutex", false, calleeName(cc)+": the answer depends on who else holds the mutex")
				}
			}
		})
		r.Floor("R12", "returns of Connected()", nRet, 1)
	}

	// ---- R5
	c.connectInertRule("R5")
	c.wgAccounting("R7")
	c.releaseCensus("R8")
	c.ioErrorsEndRule("R9")
	c.handlersNeverTeardown("R10")
	r.Rule("R11", "a Connect on a connected (or connecting) client is refused: the already-connected test, the store connected = true and the start of the connection goroutines lie in one uninterrupted hold of the connection mutex (shared with C03.R7)")
	c.connectAtomicRule("R11")

	// ---- R6
	if len(loads) == 1 {
		L := loads[0]
		n := 0
		bad := ""
		// everything reachable from the test when the flag was false: the CFG without the edges that say it was true
		// (the flag is one SSA value, so a later branch on it goes the same way)
		skipTrue := func(from, to *ssa.BasicBlock) bool {
			cd, ok := edgeCond(from, to)
			if !ok {
				return false
			}
			cd = unwrapNot(cd)
			return cd.V == L.(ssa.Value) && cd.True
		}
		for in := range ReachFromFiltered(L, false, nil, skipTrue) {
			n++
			switch t := in.(type) {
			case *ssa.Store:
				if _, local := t.Addr.(*ssa.Alloc); !local {
					bad = "store at " + c.InstrPos(in)
				}
			case *ssa.MapUpdate, *ssa.Send, *ssa.Go, *ssa.Defer:
				bad = "side effect at " + c.InstrPos(in)
			case *ssa.Call:
				if op, ok := c.lockOpOf(t); !ok || (op.Method != "Unlock" && op.Method != "RUnlock") {
					bad = "call of " + calleeName(&t.Call) + " at " + c.InstrPos(in)
				}
			}
		}
		r.Add("R6", "noop-when-disconnected:"+c.FuncKey(td), c.InstrPos(L), c.FuncKey(td), "Close on a disconnected client only unlocks and returns", bad == "" && n > 0, fmt.Sprintf("%d instructions on the flag-false path; %s", n, bad))
	}
}

// perConnFields: the per-connection state fields of Conn.
func (c *Ctx) perConnFields() map[*types.Var]string {
	a := c.A
	m := map[*types.Var]string{a.Sock: "sock", a.In: "in", a.Out: "out", a.Die: "die"}
	for _, fv := range a.IOFields {
		m[fv] = "io"
	}
	return m
}

// effects summarises (transitively, over call/defer edges) what a function
// does to connection state.
type connEffects struct {
	stores                   map[*types.Var]bool
	mutTrack                 bool
	spawns                   bool
	dispatch                 bool
	makesIn, makesOut, wipes bool
}

func (c *Ctx) connEffectsOf(fn *ssa.Function, seen map[*ssa.Function]*connEffects) *connEffects {
	if e, ok := seen[fn]; ok {
		return e
	}
	e := &connEffects{stores: map[*types.Var]bool{}}
	seen[fn] = e
	pc := c.perConnFields()
	funcInstrs(fn, func(in ssa.Instruction) {
		switch t := in.(type) {
		case *ssa.Store:
			if fv, _ := fieldOf(t.Addr); fv != nil {
				if _, ok := pc[fv]; ok {
					e.stores[fv] = true
					if c.freshChan(t.Val, 0) {
						if fv == c.A.In {
							e.makesIn = true
						}
						if fv == c.A.Out {
							e.makesOut = true
						}
					}
				}
			}
		case *ssa.Go:
			e.spawns = true
		}
		if c.isTrackerCall(in) {
			m := callOf(in).Method.Name()
			if !trackerReadOnly[m] {
				e.mutTrack = true
			}
			if m == "Wipe" {
				e.wipes = true
			}
		}
		if cs, ok := in.(ssa.CallInstruction); ok {
			if _, isGo := in.(*ssa.Go); isGo {
				return
			}
			callee := cs.Common().StaticCallee()
			if callee == nil || !c.InModuleFn(callee) {
				return
			}
			if callee == c.A.ConnDispatch {
				e.dispatch = true
				return
			}
			sub := c.connEffectsOf(callee, seen)
			for k := range sub.stores {
				e.stores[k] = true
			}
			e.mutTrack = e.mutTrack || sub.mutTrack
			e.spawns = e.spawns || sub.spawns
			e.dispatch = e.dispatch || sub.dispatch
			e.makesIn = e.makesIn || sub.makesIn
			e.makesOut = e.makesOut || sub.makesOut
			e.wipes = e.wipes || sub.wipes
		}
	})
	return e
}

// mustMakeQueue: on every path from entry to a return fn stores a newly made
// channel to the queue field fv (directly or in a callee that must).
func (c *Ctx) mustMakeQueue(fn *ssa.Function, fv *types.Var, seen map[*ssa.Function]bool) bool {
	if seen[fn] || !c.InModuleFn(fn) {
		return false
	}
	seen[fn] = true
	defer delete(seen, fn)
	ok, _ := AllPathsFromEntryPass(fn, func(in ssa.Instruction) bool { return c.makesQueueAt(in, fv, seen) })
	return ok
}

func (c *Ctx) makesQueueAt(in ssa.Instruction, fv *types.Var, seen map[*ssa.Function]bool) bool {
	if s, ok := in.(*ssa.Store); ok {
		if f, _ := fieldOf(s.Addr); f == fv && c.freshChan(s.Val, 0) {
			return true
		}
		return false
	}
	if cs, ok := in.(*ssa.Call); ok {
		if callee := cs.Call.StaticCallee(); callee != nil && c.InModuleFn(callee) {
			return c.mustMakeQueue(callee, fv, seen)
		}
	}
	return false
}

// freshQueuesRule: every success return of the connect routine is preceded,
// on every path, by the creation of a new inbound and a new outbound queue.
func (c *Ctx) freshQueuesRule(rule string) {
	r, a := c.R, c.A
	cn := a.Connect
	for _, q := range []struct {
		fv   *types.Var
		name string
	}{{a.In, "inbound"}, {a.Out, "outbound"}} {
		bad := ""
		n := 0
		reach := ReachFromEntry(cn, func(in ssa.Instruction) bool {
			if c.makesQueueAt(in, q.fv, map[*ssa.Function]bool{}) {
				n++
				return true
			}
			return false
		})
		for in := range reach {
			if rt, ok := in.(*ssa.Return); ok && len(rt.Results) == 1 && isNilConst(retVal(rt, 0)) {
				bad = c.InstrPos(rt)
			}
		}
		r.Add(rule, "fresh-queues:"+q.name, c.Pos(cn.Pos()), c.FuncKey(cn), "every success path makes a new "+q.name+" queue (on every path of the helper that does it)", bad == "" && n > 0,
			"success return reachable without an unconditional make of the "+q.name+" queue: "+bad+" (a kept queue carries lines of the previous connection into the new one)")
	}
}

func (c *Ctx) connectInertRule(rule string) {
	r, a := c.R, c.A
	cn := a.Connect
	r.Funcs[c.FuncKey(cn)] = true
	// a refusal reports an error (a nil result would make the caller fire REGISTER)
	nRef := 0
	scan := func(fn *ssa.Function) {
		funcInstrs(fn, func(in ssa.Instruction) {
			rt, ok := in.(*ssa.Return)
			if !ok || len(rt.Results) == 0 {
				return
			}
			refusal := ""
			for _, cd := range CondsAt(rt.Block()) {
				cd = unwrapNot(cd)
				if fv, _ := loadedField(cd.V); fv == a.Connected && cd.True {
					refusal = "already connected"
				}
				if bo, ok := cd.V.(*ssa.BinOp); ok && (bo.Op == token.EQL || bo.Op == token.NEQ) {
					var other ssa.Value
					if s, okk := constString(bo.Y); okk && s == "" {
						other = bo.X
					} else if s, okk := constString(bo.X); okk && s == "" {
						other = bo.Y
					}
					if other != nil {
						if fv, _ := loadedField(other); fv == a.CfgServer && (bo.Op == token.EQL) == cd.True {
							refusal = "no server configured"
						}
					}
					// the connect routine passing on the verdict of a check helper: return on its "error" edge
					var errV ssa.Value
					if isNilConst(bo.Y) {
						errV = bo.X
					} else if isNilConst(bo.X) {
						errV = bo.Y
					}
					if call, isC := errV.(*ssa.Call); isC && fn == cn && (bo.Op == token.NEQ) == cd.True {
						if h := c.checkHelper(call); h != nil {
							if hc, hs := c.checkHelperFacts(h, 1); hc || hs {
								refusal = "verdict of " + h.Name()
							}
						}
					}
				}
			}
			if refusal == "" {
				return
			}
			nRef++
			v := retVal(rt, len(rt.Results)-1)
			okV := !isNilConst(v)
			r.Add(rule, "refusal-returns-error:"+refusal, c.InstrPos(rt), c.FuncKey(fn), "a refused Connect ("+refusal+") returns an error, so no event fires", okV, "returned "+v.String())
		})
	}
	scan(cn)
	for _, cs := range CallSites(cn) {
		if call, ok := cs.(*ssa.Call); ok {
			if h := c.checkHelper(call); h != nil {
				if hc, hs := c.checkHelperFacts(h, 1); hc || hs {
					r.Funcs[c.FuncKey(h)] = true
					scan(h)
				}
			}
		}
	}
	r.Floor(rule, "refusal returns in the connect routine", nRef, 2)
	seen := map[*ssa.Function]*connEffects{}
	pc := c.perConnFields()
	n := 0
	funcInstrs(cn, func(in ssa.Instruction) {
		what := ""
		switch t := in.(type) {
		case *ssa.Store:
			if fv, _ := fieldOf(t.Addr); fv != nil {
				if nm, ok := pc[fv]; ok {
					what = "store to " + nm
				}
			}
		case *ssa.Go:
			what = "go statement"
		}
		if c.isTrackerCall(in) && !trackerReadOnly[callOf(in).Method.Name()] {
			what = "tracker mutation " + callOf(in).Method.Name()
		}
		if cs, ok := in.(ssa.CallInstruction); ok && what == "" {
			callee := cs.Common().StaticCallee()
			if callee != nil && c.InModuleFn(callee) {
				if callee == a.ConnDispatch {
					what = "dispatch"
				} else {
					e := c.connEffectsOf(callee, seen)
					var parts []string
					for fv := range e.stores {
						parts = append(parts, pc[fv])
					}
					sort.Strings(parts)
					if e.mutTrack {
						parts = append(parts, "tracker")
					}
					if e.spawns {
						parts = append(parts, "go")
					}
					if e.dispatch {
						parts = append(parts, "dispatch")
					}
					if len(parts) > 0 {
						what = "call of " + callee.Name() + " (writes " + strings.Join(parts, ",") + ")"
					}
				}
			}
		}
		if what == "" {
			return
		}
		n++
		ok, why := c.connectGuards(in)
		if strings.Contains(what, "dispatch") {
			ok, why = false, "an event dispatch inside the connect routine can fire on a failing connect"
		}
		key := what
		if i := strings.Index(key, " ("); i >= 0 {
			key = key[:i]
		}
		r.Add(rule, "after-refusals:"+key, c.InstrPos(in), c.FuncKey(cn), what+" happens only after both refusals", ok, why)
	})
	r.Floor(rule, "state-changing steps in the connect routine", n, 4)
	// method calls on the live socket / buffered I/O inside the connect routine or closures it defers or
	// calls (e.g. a deferred "close on error" clean-up) must not be able to run on a refusal exit
	for _, fx := range AnonClosure(cn) {
		funcInstrs(fx, func(in ssa.Instruction) {
			cc := callOf(in)
			if cc == nil || !cc.IsInvoke() {
				return
			}
			fv, _ := loadedField(cc.Value)
			if fv != a.Sock && !a.isIO(fv) {
				if !c.derivesFromField(cc.Value, a.Sock) {
					return
				}
			}
			var anchor ssa.Instruction = in
			if fx != cn {
				// where is the closure registered / called in the connect routine?
				anchor = nil
				funcInstrs(cn, func(x ssa.Instruction) {
					if xc := callOf(x); xc != nil {
						if mc, ok := xc.Value.(*ssa.MakeClosure); ok && mc.Fn == fx {
							anchor = x
						}
					}
				})
				if anchor == nil {
					return
				}
			}
			ok, why := c.connectGuards(anchor)
			r.Add(rule, "socket-use:"+c.FuncKey(fx)+":"+cc.Method.Name(), c.InstrPos(in), c.FuncKey(fx), "the existing socket is not touched by a Connect that is refused", ok, why)
		})
	}
}

// ---------------- C07 ----------------

type blockingOp struct {
	In    ssa.Instruction
	Fn    *ssa.Function
	What  string
	Class string // a..f, or "" if unreleasable
	Why   string
}

// connCtxOK: ctx value derives from the WithCancel whose cancel is stored in Conn.die.
func (c *Ctx) isConnContext(v ssa.Value) bool {
	for _, o := range c.Origins(v) {
		ex, ok := o.(*ssa.Extract)
		if !ok || ex.Index != 0 {
			return false
		}
		call, ok := ex.Tuple.(*ssa.Call)
		if !ok || !c.isCancelPair(call) {
			return false
		}
		stored := false
		for _, ref := range *call.Referrers() {
			if e2, ok := ref.(*ssa.Extract); ok && e2.Index == 1 {
				for _, r2 := range *e2.Referrers() {
					if s, ok := r2.(*ssa.Store); ok {
						if fv, _ := fieldOf(s.Addr); fv == c.A.Die {
							stored = true
						}
					}
				}
			}
		}
		if !stored {
			return false
		}
	}
	return true
}

// isCancelPair: call yields (context, its cancel function): context.WithCancel
// itself, or a module helper every return of which hands back both results
// of one WithCancel call in that order.
func (c *Ctx) isCancelPair(call *ssa.Call) bool {
	if calleeName(&call.Call) == "context.WithCancel" {
		return true
	}
	cal := call.Call.StaticCallee()
	if cal == nil || call.Call.IsInvoke() || !c.InModuleFn(cal) || cal.Blocks == nil || cal.Signature.Results().Len() != 2 {
		return false
	}
	n, ok := 0, true
	funcInstrs(cal, func(in ssa.Instruction) {
		rt, isR := in.(*ssa.Return)
		if !isR {
			return
		}
		n++
		e0, ok0 := retVal(rt, 0).(*ssa.Extract)
		e1, ok1 := retVal(rt, 1).(*ssa.Extract)
		if !ok0 || !ok1 || e0.Tuple != e1.Tuple || e0.Index != 0 || e1.Index != 1 {
			ok = false
			return
		}
		inner, isC := e0.Tuple.(*ssa.Call)
		if !isC || calleeName(&inner.Call) != "context.WithCancel" {
			ok = false
		}
	})
	return ok && n > 0
}

// isCtxDoneChan: ch is the result of Done() on the connection context.
func (c *Ctx) isCtxDoneChan(ch ssa.Value) bool {
	call, ok := ch.(*ssa.Call)
	if !ok || !call.Call.IsInvoke() || call.Call.Method.Name() != "Done" {
		return false
	}
	if typeString(call.Call.Value.Type()) != "context.Context" {
		return false
	}
	return c.isConnContext(call.Call.Value)
}

func isTimerChan(ch ssa.Value) bool {
	if ct, ok := ch.(*ssa.ChangeType); ok {
		return isTimerChan(ct.X) // converted to a receive-only channel
	}
	if pr, ok := ch.(*ssa.Parameter); ok {
		// a tick channel handed to an unexported loop helper: a timer channel at every call
		fn := pr.Parent()
		if fn == nil || fn.Object() == nil || fn.Object().Exported() || fn.Prog == nil {
			return false
		}
		idx := -1
		for i, q := range fn.Params {
			if q == pr {
				idx = i
			}
		}
		n := 0
		okAll := true
		for _, pkgFn := range paramCallers(fn) {
			n++
			if idx < 0 || idx >= len(pkgFn.Common().Args) || !isTimerChan(pkgFn.Common().Args[idx]) {
				okAll = false
			}
		}
		return okAll && n > 0
	}
	if call, ok := ch.(*ssa.Call); ok {
		n := calleeName(&call.Call)
		return n == "time.After" || n == "time.Tick"
	}
	if u, ok := ch.(*ssa.UnOp); ok && u.Op == token.MUL {
		if fa, ok := u.X.(*ssa.FieldAddr); ok {
			if fv, _ := fieldOf(fa); fv != nil && fv.Name() == "C" && fv.Pkg() != nil && fv.Pkg().Path() == "time" {
				return true
			}
		}
	}
	return false
}

// teardownFacts: what the teardown does before waiting.
type teardownFacts struct {
	wait         ssa.Instruction
	cancels      bool // calls the loaded cancel func before Wait
	closesSock   bool
	heldAtWait   LockSet
	drains       map[*types.Var]bool // queue fields drained until after Wait
	drainerGo    *ssa.Go
	drainerStops bool
}

// waitFrame: the function in which the teardown waits for the connection
// goroutines: the teardown core itself, or the one unexported function it
// calls (plainly, from nowhere else) that contains the Wait.
func (c *Ctx) waitFrame() *ssa.Function {
	a := c.A
	td := a.TeardownCore
	has := func(fn *ssa.Function) bool {
		found := false
		funcInstrs(fn, func(in ssa.Instruction) {
			if c.isWGCall(in, a.WG, "Wait") {
				found = true
			}
		})
		return found
	}
	if td == nil || has(td) {
		return td
	}
	for _, cs := range CallSites(td) {
		call, ok := cs.(*ssa.Call)
		if !ok || call.Call.IsInvoke() {
			continue
		}
		h := call.Call.StaticCallee()
		if h == nil || !c.InModuleFn(h) || h.Package() != c.Client || (h.Object() != nil && h.Object().Exported()) || addrTaken(h) || len(c.staticCallers(h)) != 1 {
			continue
		}
		if has(h) {
			return h
		}
	}
	return td
}

// doesWait: in waits for the connection goroutines: the Wait itself, or the
// plain call of the wait frame (which waits on every path).
func (c *Ctx) doesWait(in ssa.Instruction) bool {
	a := c.A
	if c.isWGCall(in, a.WG, "Wait") && kindName(in) == "call" {
		return true
	}
	wf := c.waitFrame()
	if wf == nil || wf == a.TeardownCore {
		return false
	}
	call, ok := in.(*ssa.Call)
	if !ok || call.Call.IsInvoke() || call.Call.StaticCallee() != wf {
		return false
	}
	all, _ := AllPathsFromEntryPass(wf, func(x ssa.Instruction) bool { return c.isWGCall(x, a.WG, "Wait") && kindName(x) == "call" })
	return all
}

func (c *Ctx) teardownFacts(ls *Locksets) *teardownFacts {
	a := c.A
	td := c.waitFrame()
	tf := &teardownFacts{drains: map[*types.Var]bool{}}
	funcInstrs(td, func(in ssa.Instruction) {
		if c.isWGCall(in, a.WG, "Wait") {
			tf.wait = in
		}
	})
	if tf.wait == nil {
		return tf
	}
	tf.heldAtWait = ls.At[tf.wait]
	funcInstrs(td, func(in ssa.Instruction) {
		cc := callOf(in)
		if cc == nil {
			return
		}
		if _, isGo := in.(*ssa.Go); !isGo && !cc.IsInvoke() && cc.StaticCallee() == nil {
			// call of the stored cancel func: before Wait, conditional only on it being non-nil
			if fv, _ := loadedField(cc.Value); fv == a.Die && ReachFrom(in, false, nil)[tf.wait] && !ReachFrom(tf.wait, false, nil)[in] {
				only := true
				for _, cd := range CondsAt(in.Block()) {
					cd = unwrapNot(cd)
					good := false
					if bo, ok := cd.V.(*ssa.BinOp); ok && (bo.Op == token.NEQ || bo.Op == token.EQL) {
						var other ssa.Value
						if isNilConst(bo.Y) {
							other = bo.X
						} else if isNilConst(bo.X) {
							other = bo.Y
						}
						if f2, _ := loadedField(other); f2 == a.Die && (bo.Op == token.NEQ) == cd.True {
							good = true
						}
					}
					if f2, _ := loadedField(cd.V); f2 == a.Connected && cd.True {
						good = true
					}
					if !good && !instrDominatesBlock(cd.If, tf.wait) {
						only = false
					}
				}
				if only {
					tf.cancels = true
				}
			}
		}
		if !instrDominates(in, tf.wait) {
			return
		}
		if _, isGo := in.(*ssa.Go); !isGo {
			// a helper, called before Wait, that calls the stored cancel func whenever there is one
			if h := cc.StaticCallee(); h != nil && !cc.IsInvoke() && c.InModuleFn(h) && h.Package() == c.Client && h.Blocks != nil && h != a.Teardown && c.onlyConnectedGuards(in) {
				funcInstrs(h, func(x ssa.Instruction) {
					xc := callOf(x)
					if xc == nil || xc.IsInvoke() || xc.StaticCallee() != nil {
						return
					}
					if _, isCall := x.(*ssa.Call); !isCall {
						return
					}
					if fv, _ := loadedField(xc.Value); fv != a.Die {
						return
					}
					only := true
					for _, cd := range CondsAt(x.Block()) {
						cd = unwrapNot(cd)
						good := false
						if bo, ok := cd.V.(*ssa.BinOp); ok && (bo.Op == token.NEQ || bo.Op == token.EQL) {
							var other ssa.Value
							if isNilConst(bo.Y) {
								other = bo.X
							} else if isNilConst(bo.X) {
								other = bo.Y
							}
							if f2, _ := loadedField(other); f2 == a.Die && (bo.Op == token.NEQ) == cd.True {
								good = true
							}
						}
						if !good {
							only = false
						}
					}
					if only {
						tf.cancels = true
					}
				})
			}
			if cc.IsInvoke() && cc.Method.Name() == "Close" {
				if fv, _ := loadedField(cc.Value); fv == a.Sock {
					tf.closesSock = true
				}
			}
			return
		}
		// a drainer started directly: go f(queues..., done)
		c.drainerAt(tf, in.(*ssa.Go), in)
	})
	if tf.drainerGo == nil {
		// ... or by a helper the teardown calls before Wait, which starts it on every path
		funcInstrs(td, func(in ssa.Instruction) {
			call, ok := in.(*ssa.Call)
			if !ok || tf.drainerGo != nil || !instrDominates(in, tf.wait) {
				return
			}
			h := call.Call.StaticCallee()
			if h == nil || call.Call.IsInvoke() || !c.InModuleFn(h) || h.Package() != c.Client {
				return
			}
			funcInstrs(h, func(x ssa.Instruction) {
				g, isGo := x.(*ssa.Go)
				if !isGo || tf.drainerGo != nil {
					return
				}
				if all, _ := AllPathsFromEntryPass(h, func(y ssa.Instruction) bool { return y == x }); all {
					c.drainerAt(tf, g, in)
				}
			})
		})
	}
	return tf
}

// drainerAt examines the goroutine started at g (in the teardown itself or in
// a helper the teardown calls at start, before Wait): a loop around a blocking
// select that keeps receiving from the connection queues and leaves on a stop
// channel, which the teardown signals only after Wait and on every path.
func (c *Ctx) drainerAt(tf *teardownFacts, g *ssa.Go, start ssa.Instruction) {
	a := c.A
	td := c.waitFrame()
	callee := g.Call.StaticCallee()
	if callee == nil || callee.Blocks == nil {
		return
	}
	var sel *ssa.Select
	funcInstrs(callee, func(x ssa.Instruction) {
		if s, ok := x.(*ssa.Select); ok && s.Blocking && c.LoopDepth(s.Block()) >= 1 {
			sel = s
		}
	})
	if sel == nil {
		return
	}
	drains := map[*types.Var]bool{}
	var doneCh ssa.Value // the stop token: a channel made by the teardown, or its context.WithCancel call
	for i, st := range sel.States {
		if st.Dir != types.RecvOnly {
			continue
		}
		fields, other := c.OriginFields(st.Chan)
		if len(other) == 0 {
			for fv := range fields {
				if fv == a.In || fv == a.Out {
					// the case must loop back (keep receiving)
					if blk := selectCaseBlock(sel, i); blk != nil {
						for x := range ReachFrom(blk.Instrs[0], true, nil) {
							if x == ssa.Instruction(sel) {
								drains[fv] = true
							}
						}
					}
				}
			}
			continue
		}
		// a channel made by the teardown (or its start helper): the stop signal
		for _, o := range other {
			var mk ssa.Value
			if m0, ok := o.(*ssa.MakeChan); ok && (m0.Parent() == td || m0.Parent() == g.Parent()) {
				mk = m0
			}
			// ... or Done() of a context the teardown made with context.WithCancel and handed to the drainer
			if dc, ok := o.(*ssa.Call); ok && mk == nil && dc.Call.IsInvoke() && dc.Call.Method.Name() == "Done" {
				if pr, isP := dc.Call.Value.(*ssa.Parameter); isP && pr.Parent() == callee {
					for pi, q := range callee.Params {
						if q != pr || pi >= len(g.Call.Args) {
							continue
						}
						if ex, isE := g.Call.Args[pi].(*ssa.Extract); isE && ex.Index == 0 {
							if wc, isW := ex.Tuple.(*ssa.Call); isW && calleeName(&wc.Call) == "context.WithCancel" && (wc.Parent() == td || wc.Parent() == g.Parent()) {
								mk = wc
							}
						}
					}
				}
			}
			if mk == nil {
				continue
			}
			if blk := selectCaseBlock(sel, i); blk != nil {
				for x := range ReachFrom(blk.Instrs[0], true, func(y ssa.Instruction) bool { return y == ssa.Instruction(sel) }) {
					if isReturn(x) {
						doneCh = mk
					}
				}
			}
		}
	}
	if len(drains) == 0 || doneCh == nil {
		return
	}
	// stop events in the teardown: close/send on the stop channel, or a call of a stop function the start
	// helper returned (a closure that closes the channel on every path)
	closesDone := func(fn *ssa.Function, ch ssa.Value) bool {
		ok, _ := AllPathsFromEntryPass(fn, func(x ssa.Instruction) bool {
			for _, op := range ChanOps(fn) {
				if op.In == x && (op.Kind == "close" || op.Kind == "send") {
					for _, o := range c.Origins(op.Chan) {
						if o == ch {
							return true
						}
					}
				}
			}
			return false
		})
		return ok
	}
	isStop := func(x ssa.Instruction) bool {
		if wc, isW := doneCh.(*ssa.Call); isW {
			// the cancel function of that WithCancel call
			if call, ok := x.(*ssa.Call); ok && !call.Call.IsInvoke() && call.Call.StaticCallee() == nil {
				for _, o := range c.Origins(call.Call.Value) {
					if ex, isE := o.(*ssa.Extract); isE && ex.Tuple == ssa.Value(wc) && ex.Index == 1 {
						return true
					}
				}
			}
			return false
		}
		for _, op := range ChanOps(td) {
			if op.In == x && (op.Kind == "close" || op.Kind == "send") {
				for _, o := range c.Origins(op.Chan) {
					if o == doneCh {
						return true
					}
				}
			}
		}
		call, ok := x.(*ssa.Call)
		if !ok || call.Call.IsInvoke() || call.Call.StaticCallee() != nil {
			return false
		}
		if _, isB := call.Call.Value.(*ssa.Builtin); isB {
			return false
		}
		// dynamic call of a value produced by the start helper
		for _, o := range c.Origins(call.Call.Value) {
			var hc *ssa.Call
			idx := 0
			switch t := o.(type) {
			case *ssa.Call:
				hc = t
			case *ssa.Extract:
				hc, _ = t.Tuple.(*ssa.Call)
				idx = t.Index
			}
			if hc == nil || ssa.Instruction(hc) != start {
				return false
			}
			h := hc.Call.StaticCallee()
			good := h != nil
			if h != nil {
				funcInstrs(h, func(y ssa.Instruction) {
					rt, isR := y.(*ssa.Return)
					if !isR || idx >= len(rt.Results) {
						return
					}
					mc, isMC := retVal(rt, idx).(*ssa.MakeClosure)
					if !isMC {
						good = false
						return
					}
					if f, isF := mc.Fn.(*ssa.Function); !isF || !closesDone(f, doneCh) {
						good = false
					}
				})
			}
			if !good {
				return false
			}
		}
		return true
	}
	tf.drainerGo = g
	stopAfter, stopBefore := false, false
	funcInstrs(td, func(x ssa.Instruction) {
		if isStop(x) {
			if instrDominates(tf.wait, x) {
				stopAfter = true
			} else {
				stopBefore = true
			}
		}
	})
	if stopAfter && !stopBefore {
		tf.drains = drains
		ok, _ := AllPathsPass(start, false, isStop)
		tf.drainerStops = ok
	}
}

// releaseCensus is the release discipline of the disconnect (C07.R1): every
// blocking operation in the region Close waits for has a release the teardown
// performs before waiting, and the teardown itself blocks on nothing else.
func (c *Ctx) releaseCensus(rule string) ([]*ssa.Function, *Locksets, *teardownFacts) {
	r, a := c.R, c.A
	funcs := c.clientFuncs()
	ls := c.ComputeLocksets(funcs)
	tf := c.teardownFacts(ls)
	r.Anchor(rule, "Wait on the connection WaitGroup in the teardown", tf.wait != nil)
	if tf.wait == nil {
		return funcs, ls, tf
	}
	r.Add(rule, "teardown:cancel-before-wait", c.InstrPos(tf.wait), c.FuncKey(a.TeardownCore), "the teardown cancels the connection context before waiting", tf.cancels, "call of the stored cancel func dominates Wait")
	r.Add(rule, "teardown:close-socket-before-wait", c.InstrPos(tf.wait), c.FuncKey(a.TeardownCore), "the teardown closes the socket before waiting", tf.closesSock, "sock.Close() dominates Wait")
	r.Add(rule, "teardown:drainer", c.InstrPos(tf.wait), c.FuncKey(a.TeardownCore), "the teardown runs a drainer of both queues that keeps receiving until after Wait", tf.drains[a.In] && tf.drains[a.Out],
		fmt.Sprintf("drains in=%v out=%v", tf.drains[a.In], tf.drains[a.Out]))
	r.Note("locks held by the teardown while waiting: %s (a handler calling Connected()/String() during a disconnect would deadlock; outside the property's quantifier, reported as information)", tf.heldAtWait)

	// region
	var roots []*ssa.Function
	roots = append(roots, a.Members...)
	var names []string
	for k := range a.IntTable {
		names = append(names, k)
	}
	sort.Strings(names)
	for _, k := range names {
		roots = append(roots, a.IntTable[k])
	}
	names = names[:0]
	for k := range a.StTable {
		names = append(names, k)
	}
	sort.Strings(names)
	for _, k := range names {
		roots = append(roots, a.StTable[k])
	}
	// command API: exported *Conn methods reaching Raw
	ms := c.SSA.MethodSets.MethodSet(types.NewPointer(a.Conn))
	for i := 0; i < ms.Len(); i++ {
		if !ms.At(i).Obj().Exported() {
			continue
		}
		fn := c.SSA.MethodValue(ms.At(i))
		if fn == nil || fn.Blocks == nil {
			continue
		}
		reach := c.Closure([]*ssa.Function{fn}, func(from *ssa.Function, e Edge) bool {
			return !e.Site.Common().IsInvoke() && e.Kind != EdgeGo && e.Callee != a.ConnDispatch && e.Callee != a.SetDispatch
		})
		if _, ok := reach.Funcs[a.Raw]; ok {
			roots = append(roots, fn)
		}
	}
	// the recovery hook the library installs runs in every handler's frame
	roots = append(roots, c.libraryHooks()...)
	region := c.Closure(roots, func(from *ssa.Function, e Edge) bool {
		if e.Callee == a.Teardown || e.Callee == a.TeardownCore {
			return false // post-Done tail; handled by R2
		}
		if e.Callee.Package() != c.Client {
			return false
		}
		if e.Kind == EdgeGo {
			if g, ok := e.Site.(*ssa.Go); ok {
				j, _ := c.JoinedGo(g)
				return j
			}
			return false
		}
		return true
	})
	// pre-Done instruction sets for members
	preDone := map[*ssa.Function]map[ssa.Instruction]bool{}
	for _, m := range a.Members {
		deferred := false
		funcInstrs(m, func(in ssa.Instruction) {
			if _, d := in.(*ssa.Defer); d && c.isWGCall(in, a.WG, "Done") {
				deferred = true
			}
		})
		if deferred {
			continue
		}
		preDone[m] = ReachFromEntry(m, c.isDoneLike)
	}
	nOps := 0
	classCount := map[string]int{}
	for _, fn := range region.Order {
		if !c.InModuleFn(fn) {
			continue
		}
		r.Funcs[c.FuncKey(fn)] = true
		inRegion := func(in ssa.Instruction) bool {
			if pd, ok := preDone[fn]; ok {
				return pd[in] && !c.isDoneLike(in)
			}
			return true
		}
		chain := c.ChainString(region.Funcs[fn])
		add := func(in ssa.Instruction, what, class, why string) {
			nOps++
			classCount[class]++
			ok := class != ""
			key := fmt.Sprintf("blocking:%s:%s", c.FuncKey(fn), what)
			if chain != "" {
				why += " [reached via " + chain + "]"
			}
			r.Add(rule, key, c.InstrPos(in), c.FuncKey(fn), "blocking "+what+" is releasable by the teardown", ok, "class "+class+": "+why)
		}
		selSeen := map[*ssa.Select]bool{}
		for _, op := range ChanOps(fn) {
			if !inRegion(op.In) || op.Kind == "close" {
				continue
			}
			if op.InSelect {
				if selSeen[op.Sel] || !op.Blocking {
					continue
				}
				selSeen[op.Sel] = true
				rel := ""
				for _, st := range op.Sel.States {
					if st.Dir == types.RecvOnly && c.isCtxDoneChan(st.Chan) && tf.cancels {
						rel = "a"
					}
				}
				add(op.In, "select", rel, "select has a case on the connection context's Done, cancelled before Wait")
				continue
			}
			q := ""
			var qf *types.Var
			if c.ChanMayBe(op.Chan, a.In) {
				q, qf = "inbound queue", a.In
			} else if c.ChanMayBe(op.Chan, a.Out) {
				q, qf = "outbound queue", a.Out
			}
			switch {
			case q != "":
				cl := ""
				if tf.drains[qf] {
					cl = "e"
				}
				add(op.In, op.Kind+" on the "+q, cl, "drainer started before Wait keeps receiving from the queue until after Wait")
			case op.Kind == "recv" && isTimerChan(op.Chan):
				add(op.In, "timer wait", "b", "bounded timer")
			case op.Kind == "recv" && c.isCtxDoneChan(op.Chan) && tf.cancels:
				add(op.In, "wait on context", "a", "cancelled before Wait")
			default:
				add(op.In, op.Kind+" on channel "+op.Chan.Name(), "", "no release by the teardown is known for this channel operation")
			}
		}
		funcInstrs(fn, func(in ssa.Instruction) {
			if !inRegion(in) {
				return
			}
			if _, isGo := in.(*ssa.Go); isGo {
				return
			}
			cc := callOf(in)
			if cc == nil {
				return
			}
			if op, ok := c.lockOpOf(in); ok && (op.Method == "Lock" || op.Method == "RLock") {
				cl := "f"
				why := "lock " + op.Obj + " is not held by the teardown while it waits"
				if tf.heldAtWait[op.Obj] != 0 {
					cl, why = "", "lock "+op.Obj+" is held by the teardown across Wait: this acquisition deadlocks the disconnect"
				}
				add(in, op.Method+" "+op.Obj, cl, why)
				return
			}
			if recv, ok := isWGMethod(in, "Wait"); ok {
				if fv, _ := fieldOf(recv); fv == a.WG {
					add(in, "Wait on the connection WaitGroup", "", "a goroutine awaited by Close waits for the connection's goroutines itself")
				} else {
					add(in, "Wait on a local WaitGroup", "d", "joins handler goroutines that are themselves in the region")
				}
				return
			}
			n := calleeName(cc)
			if n == "time.Sleep" {
				add(in, "time.Sleep", "b", "bounded sleep")
				return
			}
			io := false
			var all []ssa.Value
			if cc.IsInvoke() {
				all = append(all, cc.Value)
			}
			all = append(all, cc.Args...)
			for _, arg := range all {
				if c.derivesFromIO(arg) || c.derivesFromField(arg, a.Sock) {
					io = true
				}
			}
			if io {
				cl := ""
				if tf.closesSock {
					cl = "c"
				}
				add(in, "socket I/O "+calleeShort(cc), cl, "socket is closed before Wait")
			}
		})
	}
	// the teardown's own blocking operations: Lock of the connection mutex, Wait on the connection WaitGroup,
	// the socket close and the stop signal are expected; anything else it (or a callee) waits for must itself be released
	tdReach := c.Closure([]*ssa.Function{a.TeardownCore}, func(from *ssa.Function, e Edge) bool {
		return !e.Site.Common().IsInvoke() && e.Kind != EdgeGo && e.Callee.Package() == c.Client && e.Callee != a.ConnDispatch
	})
	for _, fn := range tdReach.Order {
		for _, op := range ChanOps(fn) {
			if op.Kind == "close" || !op.Blocking {
				continue
			}
			r.Add(rule, "teardown-blocks:"+c.FuncKey(fn)+":"+op.Kind, c.InstrPos(op.In), c.FuncKey(fn), "the teardown does not wait on a channel", false, "blocking "+op.Kind+" in the teardown path")
		}
		funcInstrs(fn, func(in ssa.Instruction) {
			if recv, ok := isWGMethod(in, "Wait"); ok {
				if fv, _ := fieldOf(recv); fv != a.WG {
					r.Add(rule, "teardown-blocks:"+c.FuncKey(fn)+":Wait", c.InstrPos(in), c.FuncKey(fn), "the teardown waits only for the connection's own goroutines", false, "Wait on another WaitGroup ("+recv.Name()+"): whatever it waits for is not released by the teardown")
				}
			}
			// socket I/O by the teardown itself: nothing releases it (the teardown is the releaser), so it may only
			// happen once the socket is closed, when it fails at once
			cc := callOf(in)
			if cc == nil {
				return
			}
			if _, isGo := in.(*ssa.Go); isGo {
				return
			}
			var all []ssa.Value
			if cc.IsInvoke() {
				all = append(all, cc.Value)
			}
			all = append(all, cc.Args...)
			io := false
			for _, arg := range all {
				if c.derivesFromIO(arg) || c.derivesFromField(arg, a.Sock) {
					io = true
				}
			}
			if !io {
				return
			}
			short := calleeShort(cc)
			switch {
			case strings.HasSuffix(short, "Close"), strings.Contains(short, "Deadline"), strings.HasSuffix(short, "Addr"), strings.HasSuffix(short, "Buffered"), strings.HasSuffix(short, "Available"):
				return // the release itself, or a call that does not wait for the peer
			}
			if cal := cc.StaticCallee(); cal != nil && c.InModuleFn(cal) {
				return // module helper: its own socket operations are examined where they occur
			}
			closed := false
			funcInstrs(fn, func(x ssa.Instruction) {
				if xc := callOf(x); xc != nil && strings.HasSuffix(calleeShort(xc), "Close") {
					if _, isDefer := x.(*ssa.Defer); isDefer {
						return
					}
					for _, arg := range append([]ssa.Value{xc.Value}, xc.Args...) {
						if arg != nil && c.derivesFromField(arg, a.Sock) && instrDominates(x, in) {
							closed = true
						}
					}
				}
			})
			r.Add(rule, "teardown-blocks:"+c.FuncKey(fn)+":"+short, c.InstrPos(in), c.FuncKey(fn), "the teardown does no socket I/O before it has closed the socket", closed,
				"socket I/O "+short+" in the teardown path is not preceded by the socket close: a peer that stopped reading blocks it, and with it the disconnect, forever")
		})
	}
	r.Floor(rule, "blocking operations classified in the awaited region", nOps, 10)
	r.Note("blocking operations by release class: %v", classCount)
	r.Sites = nOps

	return funcs, ls, tf
}

func runC07(c *Ctx) {
	r, a := c.R, c.A
	r.Rule("R1", "every blocking operation in the region awaited by Close (members before Done, their awaited callees, built-in handlers, the command API) has a release: (a) select with the connection context's Done, cancelled before Wait; (b) timer; (c) socket I/O with the socket closed before Wait; (d) join of a local WaitGroup; (e) a connection-queue send/receive with a drainer goroutine that receives until after Wait; (f) a lock the teardown does not hold while waiting")
	r.Rule("R2", "no member calls the identity-less teardown after its Done (a late call tears down the next connection)")
	r.Rule("R3", "every connection goroutine that consumes a queue or does socket I/O calls the teardown on every exit path")
	r.Rule("R4", "every success path of the connect routine creates fresh inbound and outbound queues and, when tracking, wipes the tracker - after the refusals")
	r.Rule("R6", "a connection stays up until something ends it: the context its goroutines watch derives from the caller's context by WithCancel only - no WithTimeout / WithDeadline (a dial or handshake time limit, say) lies on its ancestry inside the library")
	r.Rule("R7", "a handler may reconnect: no lock of the library is held while handlers of any set are dispatched (must-lockset at every dispatch of a handler set is empty), so Connect or Close called from inside a handler cannot meet a lock its own dispatch holds")
	r.Rule("R9", "the teardown never waits for background handlers: no goroutine counted in the connection WaitGroup runs, or waits for, a dispatch on the background set (user code there may run for as long as it likes, and may itself call Close)")
	r.Rule("R8", "a connection stays up until something ends it: every deadline set on the socket during set-up (SetDeadline / SetReadDeadline / SetWriteDeadline with a non-zero time) is cleared again in both directions on every path to a successful return")
	r.Rule("R5", "every go statement in package client is a WaitGroup member (Add constants equal member spawns on every path; each member does exactly one Done per exit), locally joined, the detached background dispatch, or a teardown helper stopped before the teardown returns")
	funcs, ls, tf := c.releaseCensus("R1")
	if tf.wait == nil {
		return
	}
	_ = ls
	// ---- R2: keyed by the WaitGroup member on whose behalf the stale call is made, so that extracting
	// the "Done; Close" tail into a helper does not change the identity of the finding
	nStale := 0
	staleIn := func(fn *ssa.Function) []ssa.Instruction { // direct Done followed by a reachable teardown call, in fn
		var sites []ssa.Instruction
		funcInstrs(fn, func(in ssa.Instruction) {
			if !c.isWGCall(in, a.WG, "Done") {
				return
			}
			if _, d := in.(*ssa.Defer); d {
				return
			}
			for x := range ReachFrom(in, false, nil) {
				if cc := callOf(x); cc != nil && !cc.IsInvoke() && cc.StaticCallee() == a.Teardown {
					if _, isGo := x.(*ssa.Go); !isGo {
						sites = append(sites, x)
					}
				}
			}
		})
		return sites
	}
	covered := map[*ssa.Function]bool{}
	for _, m := range a.Members {
		var sites []ssa.Instruction
		sites = append(sites, staleIn(m)...)
		// calls of helpers that contain a stale teardown call
		for _, cs := range CallSites(m) {
			if _, isGo := cs.(*ssa.Go); isGo {
				continue
			}
			if cal := cs.Common().StaticCallee(); cal != nil && cal.Package() == c.Client && cal != a.Teardown && len(staleIn(cal)) > 0 {
				covered[cal] = true
				sites = append(sites, cs)
			}
		}
		sort.Slice(sites, func(i, j int) bool { return sites[i].Pos() < sites[j].Pos() })
		seen := map[ssa.Instruction]bool{}
		idx := 0
		for _, s := range sites {
			if seen[s] {
				continue
			}
			seen[s] = true
			idx++
			nStale++
			r.Add("R2", fmt.Sprintf("stale-close:%s#%d", c.memberRoleKey(m), idx), c.InstrPos(s), c.FuncKey(m), "a goroutine that already left the WaitGroup does not call the identity-less teardown", c.teardownTakesToken(),
				"call of "+c.FuncKey(a.Teardown)+" after wg.Done(): it acts on whichever connection is current, so it can tear down the next connection")
		}
	}
	for _, fn := range funcs {
		if a.IsMember(fn) || covered[fn] {
			continue
		}
		for i, s := range staleIn(fn) {
			nStale++
			r.Add("R2", fmt.Sprintf("stale-close:%s#%d", c.FuncKey(fn), i+1), c.InstrPos(s), c.FuncKey(fn), "the identity-less teardown is not called after leaving the WaitGroup", c.teardownTakesToken(), "Done followed by "+c.FuncKey(a.Teardown)+" in a function that is not a member helper")
		}
	}
	r.Note("%d teardown calls after Done (finding F12 when > 0)", nStale)
	// R2 (b): who may call the teardown from inside the library at all
	{
		memo := map[*ssa.Function]int{}
		var memberOnly func(fn *ssa.Function, depth int) bool
		memberOnly = func(fn *ssa.Function, depth int) bool {
			if a.IsMember(fn) {
				return true
			}
			switch memo[fn] {
			case 1:
				return true
			case 2, 3:
				return false
			}
			if depth > 4 {
				return false
			}
			memo[fn] = 3
			ok := false
			if fn.Parent() != nil {
				// a closure: only when its parent calls or defers it itself and the parent qualifies
				ok = memberOnly(fn.Parent(), depth+1)
				funcInstrs(fn.Parent(), func(in ssa.Instruction) {
					mc, isMC := in.(*ssa.MakeClosure)
					if !isMC || mc.Fn != ssa.Value(fn) {
						return
					}
					for _, ref := range *mc.Referrers() {
						switch t := ref.(type) {
						case *ssa.DebugRef:
						case *ssa.Call:
							if t.Call.Value != ssa.Value(mc) {
								ok = false
							}
						case *ssa.Defer:
							if t.Call.Value != ssa.Value(mc) {
								ok = false
							}
						default:
							ok = false // go statement, argument of AfterFunc, stored, ...
						}
					}
				})
			} else if fn.Object() != nil && fn.Object().Exported() && !addrTaken(fn) {
				// an exported API function runs in its caller's goroutine: calling the teardown there is the
				// user closing the connection, not a stale asynchronous call
				ok = true
			} else if fn.Object() != nil && !fn.Object().Exported() && !addrTaken(fn) {
				sites := c.staticCallers(fn)
				ok = len(sites) > 0
				for _, cs := range sites {
					if _, isGo := cs.(*ssa.Go); isGo && !a.IsMember(fn) {
						ok = false
					}
					if !memberOnly(cs.Parent(), depth+1) {
						ok = false
					}
				}
			}
			if ok {
				memo[fn] = 1
			} else {
				memo[fn] = 2
			}
			return ok
		}
		nTd := 0
		for _, fn := range funcs {
			if fn == a.Teardown || fn == a.TeardownCore {
				continue
			}
			for _, cs := range CallSites(fn) {
				cc := cs.Common()
				if cc.IsInvoke() || cc.StaticCallee() != a.Teardown {
					continue
				}
				nTd++
				_, isGo := cs.(*ssa.Go)
				ok := !isGo && memberOnly(fn, 0)
				r.Add("R2", "teardown-caller:"+c.FuncKey(fn), c.InstrPos(cs), c.FuncKey(fn), "inside the library the identity-less teardown is called only synchronously on behalf of a connection goroutine or of the API caller (exported functions and helpers only they reach), never by a timer callback, a detached goroutine or a handler-table function: such a call belongs to no connection and closes whichever one is up when it runs (or, from a handler, waits for its own event loop)", ok,
					kindName(cs)+" in "+c.FuncKey(fn))
			}
		}
		r.Floor("R2", "library-internal calls of the teardown", nTd, 1)
	}

	// ---- R3
	c.membersCallTeardown("R3")

	// ---- R4
	cn := a.Connect
	wipe, badWipe := c.connectWipes()
	c.freshQueuesRule("R4")
	ok5, bad5 := badWipe == "" && len(wipe) > 0, badWipe
	r.Add("R4", "tracker-wiped", c.Pos(cn.Pos()), c.FuncKey(cn), "every success path wipes the tracker (when tracking is enabled)", ok5, "success return reachable without it: "+bad5)
	// wipe is conditional only on st != nil
	for _, w := range wipe {
		callee := callOf(w).StaticCallee()
		if callee == nil {
			continue
		}
		funcInstrs(callee, func(in ssa.Instruction) {
			if c.isTrackerCall(in) && callOf(in).Method.Name() == "Wipe" {
				okG := true
				why := "guarded only by st != nil"
				for _, cd := range CondsAt(in.Block()) {
					cd = unwrapNot(cd)
					bo, isB := cd.V.(*ssa.BinOp)
					good := false
					if isB && (bo.Op == token.NEQ || bo.Op == token.EQL) {
						var other ssa.Value
						if isNilConst(bo.Y) {
							other = bo.X
						} else if isNilConst(bo.X) {
							other = bo.Y
						}
						if fv, _ := loadedField(other); fv == a.St && (bo.Op == token.NEQ) == cd.True {
							good = true
						}
					}
					if !good {
						okG, why = false, "the wipe depends on another condition"
					}
				}
				r.Add("R4", "wipe-guard:"+c.FuncKey(callee), c.InstrPos(in), c.FuncKey(callee), "the wipe is skipped only when tracking is off", okG, why)
			}
		})
	}

	// the reset keeps "just the client itself": the tracker's own record is never replaced (shared with C12.R7),
	// and after it the tracker answers from its state, never from a cache that the reset forgot (C12.R10)
	c.trackerRules(map[string]string{"R7": "R4", "R6": "R4", "R10": "R4"})
	c.lifetimeContextRule("R6")
	c.noLocksAtDispatchRule("R7")
	c.noArmedDeadlineRule("R8")
	c.noMemberAwaitsBackground("R9")
	r.Rule("R10", "a reconnect from the DISCONNECTED handler keeps its queues: outside constructors, the inbound and outbound queue fields are stored only in the connect routine or in unexported helpers that every static caller chain leads back to it - the teardown (which may return after a handler has reconnected) never replaces them")
	c.queuesReplacedAtConnectRule("R10")
	r.Rule("R11", "registration is sent on every connection as configured: no function run on behalf of a connection (connection goroutines, teardown, built-in handlers, and all they call) stores to a field of Config other than the client's own record Me - a password or server cleared after use is missing from every later registration")
	c.configKeptRule("R11")
	r.Rule("R12", "a reconnect from the DISCONNECTED handler is unaffected by the rest of the old teardown: after the DISCONNECTED dispatch the teardown stores nothing and calls no function of the library (generalises R10 to every per-connection datum: capability sets, SASL state, queues)")
	c.nothingAfterDisconnectedRule("R12")

	// ---- R5
	c.goCensus("R5", tf)
}

// teardownTakesToken: the teardown has a parameter identifying the
// connection (accepted repair shape); the pinned Close() has none.
func (c *Ctx) teardownTakesToken() bool {
	return len(c.A.Teardown.Params) > 1
}

func (c *Ctx) goCensus(rule string, tf *teardownFacts) {
	r, a := c.R, c.A
	nGo := 0
	for _, fn := range c.clientFuncs() {
		funcInstrs(fn, func(in ssa.Instruction) {
			g, ok := in.(*ssa.Go)
			if !ok {
				return
			}
			nGo++
			callee := g.Call.StaticCallee()
			kind, why, okG := "", "", false
			switch {
			case callee != nil && a.IsMember(callee):
				kind, okG, why = "member", true, "member of the connection WaitGroup"
			case callee == a.SetDispatch && c.setFieldOf(g) == a.BG:
				kind, okG, why = "background", true, "detached background dispatch (lifetime of user handlers)"
			case tf != nil && g == tf.drainerGo:
				kind = "teardown-helper"
				okG, why = tf.drainerStops, "stop signal issued on every path before the teardown returns"
				if !okG {
					why = "drainer is not stopped on every path"
				}
			default:
				j, w := c.JoinedGo(g)
				kind, okG, why = "joined", j, w
			}
			name := "?"
			if callee != nil {
				name = c.FuncKey(callee)
			}
			r.Add(rule, "go:"+c.FuncKey(fn)+":"+kind+":"+name, c.InstrPos(g), c.FuncKey(fn), "goroutine is accounted for ("+kind+")", okG, why)
		})
	}
	r.Floor(rule, "go statements in package client", nGo, 7)
	c.wgAccounting(rule)
}

// wgAccounting: the connection WaitGroup drains - Add constants equal member
// spawns on every path and each member does exactly one Done per exit.
func (c *Ctx) wgAccounting(rule string) {
	r, a := c.R, c.A
	// Add/spawn balance in spawners of members
	for _, fn := range c.clientFuncs() {
		spawns := false
		funcInstrs(fn, func(in ssa.Instruction) {
			if g, ok := in.(*ssa.Go); ok {
				if cal := g.Call.StaticCallee(); cal != nil && a.IsMember(cal) {
					spawns = true
				}
			}
		})
		if !spawns {
			continue
		}
		ok, why := c.addSpawnBalance(fn)
		r.Add(rule, "add-balance:"+c.FuncKey(fn), c.Pos(fn.Pos()), c.FuncKey(fn), "WaitGroup.Add constants equal the member spawns on every path", ok, why)
	}
	// each member: exactly one Done per exit
	for _, m := range a.Members {
		isDone := c.isDoneLike
		deferred, direct := 0, 0
		funcInstrs(m, func(in ssa.Instruction) {
			if isDone(in) {
				if _, d := in.(*ssa.Defer); d {
					deferred++
				} else {
					direct++
				}
			}
		})
		ok, why := false, ""
		switch {
		case deferred == 1 && direct == 0:
			// the defer must dominate every return
			var d ssa.Instruction
			funcInstrs(m, func(in ssa.Instruction) {
				if _, isD := in.(*ssa.Defer); isD && isDone(in) {
					d = in
				}
			})
			ok, why = true, "single deferred Done"
			funcInstrs(m, func(in ssa.Instruction) {
				if isReturn(in) && !instrDominates(d, in) {
					ok, why = false, "return at "+c.InstrPos(in)+" is not covered by the deferred Done"
				}
			})
		case deferred == 0 && direct > 0:
			okAll, bad := AllPathsFromEntryPass(m, isDone)
			ok, why = okAll, "Done on every exit"
			if !okAll {
				why = "exit at " + c.InstrPos(bad) + " without Done"
			}
			funcInstrs(m, func(in ssa.Instruction) {
				if isDone(in) {
					for x := range ReachFrom(in, false, nil) {
						if isDone(x) {
							ok, why = false, "a second Done at "+c.InstrPos(x)+" is reachable after Done"
						}
					}
				}
			})
		default:
			why = fmt.Sprintf("%d deferred and %d direct Done calls", deferred, direct)
		}
		r.Add(rule, "done-once:"+c.FuncKey(m), c.Pos(m.Pos()), c.FuncKey(m), "member calls Done exactly once on each exit", ok, why)
	}
}

// addSpawnBalance: forward count of (Add constants - member spawns); must be
// consistent at joins, never negative at a spawn, zero at every return.
func (c *Ctx) addSpawnBalance(fn *ssa.Function) (bool, string) {
	a := c.A
	in := map[*ssa.BasicBlock]int{}
	seen := map[*ssa.BasicBlock]bool{}
	work := []*ssa.BasicBlock{fn.Blocks[0]}
	in[fn.Blocks[0]] = 0
	seen[fn.Blocks[0]] = true
	for len(work) > 0 {
		b := work[0]
		work = work[1:]
		bal := in[b]
		for _, x := range b.Instrs {
			if c.isWGCall(x, a.WG, "Add") {
				k, ok := constInt(callOf(x).Args[1])
				if !ok {
					return false, "non-constant Add at " + c.InstrPos(x)
				}
				bal += int(k)
			}
			if g, ok := x.(*ssa.Go); ok {
				if cal := g.Call.StaticCallee(); cal != nil && a.IsMember(cal) {
					bal--
					if bal < 0 {
						return false, "member spawned at " + c.InstrPos(x) + " without a preceding Add"
					}
				}
			}
			if isReturn(x) && bal != 0 {
				return false, fmt.Sprintf("Add constants exceed member spawns by %d at the return at %s", bal, c.InstrPos(x))
			}
		}
		for _, s := range b.Succs {
			if seen[s] {
				if in[s] != bal {
					return false, fmt.Sprintf("paths joining at block %d disagree on the Add/spawn balance", s.Index)
				}
				continue
			}
			seen[s] = true
			in[s] = bal
			work = append(work, s)
		}
	}
	return true, "balanced on every path"
}

// instrDominatesBlock: the branch instruction a dominates instruction b
// (conditions that also guard b itself are not specific to the call).
func instrDominatesBlock(a *ssa.If, b ssa.Instruction) bool {
	return a != nil && instrDominates(a, b)
}

// memberRoleKey names a connection goroutine by its role rather than by its
// (unexported, renamable) function name, so that a known finding keeps its
// identity across a rename: the goroutine that forwards the outbound queue is
// "(*client.Conn).send", the one that fills the inbound queue "recv", the one
// that consumes it "runLoop", a ticker-driven one "ping". The canonical
// spellings are those of the tree the findings were recorded on.
func (c *Ctx) memberRoleKey(m *ssa.Function) string {
	a := c.A
	role := ""
	if pf := c.producerFrame(); pf != nil && pf.Member == m {
		role = "recv"
	}
	for _, op := range ChanOps(m) {
		switch {
		case op.Kind == "recv" && c.ChanMayBe(op.Chan, a.Out) && valueUsed(recvValue(op)):
			role = "send"
		case op.Kind == "recv" && c.ChanMayBe(op.Chan, a.In) && valueUsed(recvValue(op)):
			role = "runLoop"
		}
	}
	if role == "" {
		funcInstrs(m, func(in ssa.Instruction) {
			if cc := callOf(in); cc != nil && calleeName(cc) == "time.NewTicker" {
				role = "ping"
			}
		})
	}
	if role == "" {
		return c.FuncKey(m)
	}
	return "(*client.Conn)." + role
}

// lifetimeContextRule: every context value handed to a member goroutine (or
// selected on by one) descends from a caller-supplied context through
// context.WithCancel only.
func (c *Ctx) lifetimeContextRule(rule string) {
	r, a := c.R, c.A
	n := 0
	var check func(v ssa.Value, depth int) (bool, string)
	check = func(v ssa.Value, depth int) (bool, string) {
		if depth > 8 {
			return false, "context ancestry too deep"
		}
		for _, o := range c.Origins(v) {
			switch t := o.(type) {
			case *ssa.Parameter:
				continue // supplied by the API caller
			case *ssa.Extract:
				call, ok := t.Tuple.(*ssa.Call)
				if !ok {
					return false, "derives from " + o.String()
				}
				switch calleeName(&call.Call) {
				case "context.WithCancel":
					if ok2, why := check(call.Call.Args[0], depth+1); !ok2 {
						return false, why
					}
				case "context.WithTimeout", "context.WithDeadline":
					return false, "derives from " + calleeName(&call.Call) + " at " + c.InstrPos(call) + ": the connection ends when that limit passes"
				default:
					// a module helper that derives the context: what it returns, with its context parameters
					// standing for what this call passes
					cal := call.Call.StaticCallee()
					if cal == nil || call.Call.IsInvoke() || !c.InModuleFn(cal) || cal.Blocks == nil {
						return false, "derives from " + calleeName(&call.Call)
					}
					okH, whyH := true, ""
					funcInstrs(cal, func(in ssa.Instruction) {
						rt, isR := in.(*ssa.Return)
						if !isR || t.Index >= len(rt.Results) {
							return
						}
						if ok2, why := check(retVal(rt, t.Index), depth+1); !ok2 {
							okH, whyH = false, why
						}
					})
					if !okH {
						return false, whyH
					}
					for _, a := range call.Call.Args {
						if typeString(a.Type()) == "context.Context" {
							if ok2, why := check(a, depth+1); !ok2 {
								return false, why
							}
						}
					}
				}
			case *ssa.Call:
				switch calleeName(&t.Call) {
				case "context.Background", "context.TODO":
				default:
					return false, "derives from " + calleeName(&t.Call)
				}
			default:
				return false, "derives from " + o.String()
			}
		}
		return true, "caller's context, narrowed by WithCancel only"
	}
	for _, fn := range c.clientFuncs() {
		for _, cs := range CallSites(fn) {
			g, isGo := cs.(*ssa.Go)
			if !isGo {
				continue
			}
			cal := g.Call.StaticCallee()
			if cal == nil || !a.IsMember(cal) {
				continue
			}
			for _, arg := range g.Call.Args {
				if typeString(arg.Type()) != "context.Context" {
					continue
				}
				n++
				ok, why := check(arg, 0)
				r.Add(rule, "lifetime-context:"+c.FuncKey(cal), c.InstrPos(g), c.FuncKey(fn), "the context member "+c.FuncKey(cal)+" watches lives as long as the caller lets it", ok, why)
			}
		}
	}
	r.Floor(rule, "contexts handed to member goroutines", n, 2)
}

// doesSocketIO: fn (or something it awaits inside the module) calls a method
// on the connection's socket or buffered reader/writer.
func (c *Ctx) doesSocketIO(fn *ssa.Function) bool {
	a := c.A
	found := false
	reach := c.Closure([]*ssa.Function{fn}, func(from *ssa.Function, e Edge) bool { return e.Kind != EdgeGo })
	for f := range reach.Funcs {
		funcInstrs(f, func(in ssa.Instruction) {
			if cc := callOf(in); cc != nil {
				if c.InModuleFn(cc.StaticCallee()) {
					return
				}
				for _, arg := range cc.Args {
					if c.derivesFromIO(arg) || c.derivesFromField(arg, a.Sock) {
						found = true
					}
				}
				if cc.IsInvoke() && (c.derivesFromIO(cc.Value) || c.derivesFromField(cc.Value, a.Sock)) {
					found = true
				}
			}
		})
	}
	return found
}

// ioErrorsEndRule: in every connection goroutine, an error reported by socket
// I/O ends the connection: on the CFG without the edges that imply "the error
// is nil", no path leads from the I/O call to a return, or round the loop to
// the same call, without passing a call of the teardown.
func (c *Ctx) ioErrorsEndRule(rule string) {
	r, a := c.R, c.A
	n := 0
	isErr := func(t types.Type) bool { return typeString(t) == "error" }
	for _, m := range a.Members {
		if is, _ := c.queueOrIOMember(m); !is {
			continue
		}
		for _, cs := range CallSites(m) {
			call, isCall := cs.(*ssa.Call)
			if !isCall {
				continue
			}
			cc := cs.Common()
			io := false
			if callee := cc.StaticCallee(); callee != nil && c.InModuleFn(callee) {
				io = callee != a.Teardown && callee != a.TeardownCore && !c.isTeardownCall(cs) && c.doesSocketIO(callee)
			} else {
				for _, arg := range cc.Args {
					if c.derivesFromIO(arg) || c.derivesFromField(arg, a.Sock) {
						io = true
					}
				}
			}
			if !io {
				continue
			}
			var errs []ssa.Value
			if tup, isT := call.Type().(*types.Tuple); isT {
				for _, ref := range *call.Referrers() {
					if ex, isE := ref.(*ssa.Extract); isE && isErr(tup.At(ex.Index).Type()) {
						errs = append(errs, ex)
					}
				}
			} else if isErr(call.Type()) {
				errs = append(errs, call)
			}
			if len(errs) == 0 {
				continue
			}
			n++
			isE := func(v ssa.Value) bool {
				for _, e := range errs {
					if v == e {
						return true
					}
				}
				return false
			}
			skip := func(from, to *ssa.BasicBlock) bool {
				cd, ok := edgeCond(from, to)
				if !ok {
					return false
				}
				cd = unwrapNot(cd)
				b, isB := cd.V.(*ssa.BinOp)
				if !isB || !((isE(b.X) && isNilConst(b.Y)) || (isE(b.Y) && isNilConst(b.X))) {
					return false
				}
				return (b.Op == token.NEQ && !cd.True) || (b.Op == token.EQL && cd.True)
			}
			seen := ReachFromFiltered(call, false, c.isTeardownCall, skip)
			bad := ""
			for in := range seen {
				if c.isTeardownCall(in) {
					continue
				}
				if in == ssa.Instruction(call) {
					if bad == "" {
						bad = "with the error set, control comes round to the same call again without the teardown"
					}
				} else if _, isR := in.(*ssa.Return); isR {
					bad = "with the error set, the return at " + c.InstrPos(in) + " is reached without the teardown"
				}
			}
			why := "every path on which the error may be non-nil calls the teardown before returning or trying again"
			if bad != "" {
				why = bad
			}
			r.Add(rule, "io-error-ends:"+c.FuncKey(m)+":"+calleeName(cc), c.InstrPos(call), c.FuncKey(m), "an error from socket I/O in "+c.FuncKey(m)+" ends the connection (exactly one DISCONNECTED follows a read or write error)", bad == "", why)
		}
	}
	r.Floor(rule, "error-returning socket I/O calls in connection goroutines", n, 2)
}

// handlersNeverTeardown: no function the event loop awaits - a handler of the
// internal or state table and everything it calls - calls the teardown: the
// teardown waits for the event loop, which waits for the handler.
func (c *Ctx) handlersNeverTeardown(rule string) {
	r, a := c.R, c.A
	var roots []*ssa.Function
	for _, f := range a.IntTable {
		roots = append(roots, f)
	}
	for _, f := range a.StTable {
		roots = append(roots, f)
	}
	reach := c.Closure(roots, func(from *ssa.Function, e Edge) bool {
		return e.Kind != EdgeGo && e.Callee != a.Teardown && e.Callee != a.TeardownCore
	})
	n := 0
	for _, fn := range reach.Order {
		for _, cs := range CallSites(fn) {
			if _, isGo := cs.(*ssa.Go); isGo {
				continue
			}
			for _, e := range c.Callees(cs) {
				if e.Callee == a.Teardown || e.Callee == a.TeardownCore {
					n++
					r.Add(rule, "handler-teardown:"+c.FuncKey(fn), c.InstrPos(cs), c.FuncKey(fn), "built-in handlers never call the teardown synchronously: it waits for the event loop, which is waiting for this handler - the connection would end with no DISCONNECTED at all", false, "reached from a handler table: "+c.ChainString(reach.Funcs[fn]))
				}
			}
		}
	}
	r.Add(rule, "no-handler-teardown", "-", "", fmt.Sprintf("none of the %d functions awaited by the event loop on behalf of built-in handlers calls the teardown", len(reach.Order)), n == 0, fmt.Sprintf("%d calls", n))
	r.Floor(rule, "functions reachable from built-in handlers", len(reach.Order), 20)
}

// noLocksAtDispatchRule: C07.R7.
func (c *Ctx) noLocksAtDispatchRule(rule string) {
	r := c.R
	ls := c.ComputeLocksets(c.clientFuncs())
	n := 0
	for _, cs := range c.SetDispatchSites() {
		fn := cs.Parent()
		if ls.Dead[fn] {
			continue
		}
		n++
		var held []string
		for l, m := range ls.At[cs] {
			if m != 0 {
				held = append(held, l)
			}
		}
		sort.Strings(held)
		r.Add(rule, fmt.Sprintf("dispatch-unlocked:%s#%d", c.FuncKey(fn), n), c.InstrPos(cs), c.FuncKey(fn), "handlers are dispatched with no library lock held", len(held) == 0, fmt.Sprintf("held: %v", held))
	}
	r.Floor(rule, "dispatch sites of handler sets", n, 3)
	// ... and at every call of the fan-out function itself (the must-lockset on entry to it is the intersection
	// over its callers: one caller holding a lock would be hidden there)
	nc := 0
	evSites := append([]ssa.CallInstruction{}, c.Callers(c.A.ConnDispatch)...)
	// ... and of an event helper that only builds the line and hands it to the fan-out function
	cmdVar := c.FieldVar(c.Client, "Line", "Cmd")
	for _, cs := range c.Callers(c.A.ConnDispatch) {
		if h := cs.Parent(); c.eventHelperParam(h, c.A.ConnDispatch, cmdVar) >= 0 {
			evSites = append(evSites, c.Callers(h)...)
		}
	}
	for _, cs := range evSites {
		fn := cs.Parent()
		if ls.Dead[fn] {
			continue
		}
		nc++
		var held []string
		for l, m := range ls.At[cs] {
			if m != 0 {
				held = append(held, l)
			}
		}
		sort.Strings(held)
		r.Add(rule, fmt.Sprintf("event-unlocked:%s#%d", c.FuncKey(fn), nc), c.InstrPos(cs), c.FuncKey(fn), "an event is dispatched with no library lock held", len(held) == 0, fmt.Sprintf("held: %v (a handler that asks Connected(), connects or closes never returns)", held))
	}
	r.Floor(rule, "call sites of the fan-out function", nc, 3)
	// the dispatch machinery itself takes no lock but the handler set's (a lock taken on some paths only escapes the
	// must-lockset above; a dispatch that takes one cannot be re-entered from a handler it is running)
	a := c.A
	own := c.lockFieldName(c.Client, "hSet")
	mach := map[*ssa.Function]bool{}
	var add func(fn *ssa.Function, depth int)
	add = func(fn *ssa.Function, depth int) {
		if fn == nil || mach[fn] || depth > 4 || !c.InModuleFn(fn) || fn.Package() != c.Client {
			return
		}
		mach[fn] = true
		for _, an := range fn.AnonFuncs {
			add(an, depth+1)
		}
		for _, cs := range CallSites(fn) {
			cc := cs.Common()
			if cc.IsInvoke() {
				continue
			}
			if cal := cc.StaticCallee(); cal != nil && cal != a.Teardown && cal != a.TeardownCore && cal != a.Connect {
				if rn := recvNamed(cal); rn != nil && (rn == a.HSet || rn == a.HNode || rn == c.Named(c.Client, "hList")) {
					add(cal, depth+1)
				}
			}
		}
	}
	add(a.ConnDispatch, 0)
	add(a.SetDispatch, 0)
	nOps := 0
	for _, fn := range c.sortedFuncs(mach) {
		funcInstrs(fn, func(in ssa.Instruction) {
			op, ok := c.lockOpOf(in)
			if !ok || (op.Method != "Lock" && op.Method != "RLock") {
				return
			}
			nOps++
			r.Add(rule, "dispatch-lock:"+c.FuncKey(fn)+":"+op.Obj, c.InstrPos(in), c.FuncKey(fn), "the dispatch machinery takes no lock but the handler set's own", op.Obj == own, "acquires "+op.Obj)
		})
	}
	r.Add(rule, "dispatch-machinery", "-", "", fmt.Sprintf("%d functions of the dispatch machinery examined", len(mach)), len(mach) >= 2, fmt.Sprintf("%d lock acquisitions", nOps))
}

// noArmedDeadlineRule: C07.R8.
func (c *Ctx) noArmedDeadlineRule(rule string) {
	r := c.R
	n := 0
	kind := func(in ssa.Instruction) (string, bool, bool) { // name, isDeadlineCall, clears
		cc := callOf(in)
		if cc == nil {
			return "", false, false
		}
		name := ""
		if cc.IsInvoke() {
			name = cc.Method.Name()
		} else if cal := cc.StaticCallee(); cal != nil {
			name = cal.Name()
		}
		switch name {
		case "SetDeadline", "SetReadDeadline", "SetWriteDeadline":
		default:
			return "", false, false
		}
		if len(cc.Args) == 0 {
			return name, true, false
		}
		arg := cc.Args[len(cc.Args)-1]
		zero := false
		// time.Time{}: a load of a fresh, never written local of type time.Time
		if u, ok := arg.(*ssa.UnOp); ok && u.Op == token.MUL {
			if al, isAl := u.X.(*ssa.Alloc); isAl {
				zero = true
				for _, ref := range *al.Referrers() {
					if _, isSt := ref.(*ssa.Store); isSt {
						zero = false
					}
				}
			}
		}
		if k, ok := arg.(*ssa.Const); ok && k.Value == nil {
			zero = true
		}
		return name, true, zero
	}
	for _, fn := range c.clientFuncs() {
		funcInstrs(fn, func(in ssa.Instruction) {
			name, isD, clears := kind(in)
			if !isD || clears {
				return
			}
			n++
			needR, needW := name != "SetWriteDeadline", name != "SetReadDeadline"
			// every path from here to a return whose error result is nil (or any return of a function without one)
			bad := ""
			var walk func(at ssa.Instruction, r0, w0 bool, seen map[string]bool)
			walk = func(at ssa.Instruction, r0, w0 bool, seen map[string]bool) {
				key := fmt.Sprintf("%p/%v/%v", at, r0, w0)
				if seen[key] || bad != "" {
					return
				}
				seen[key] = true
				if nm, isD2, cl := kind(at); isD2 && at != in {
					if cl {
						if nm != "SetWriteDeadline" {
							r0 = false
						}
						if nm != "SetReadDeadline" {
							w0 = false
						}
					} else {
						// re-armed: that call is judged on its own
						return
					}
				}
				if rt, isR := at.(*ssa.Return); isR {
					success := true
					for i := range rt.Results {
						if typeString(rt.Results[i].Type()) == "error" && !isNilConst(retVal(rt, i)) {
							success = false
						}
					}
					if success && (r0 || w0) {
						bad = "the return at " + c.InstrPos(rt) + " is reached with the deadline still armed"
					}
					return
				}
				for _, nx := range succInstrs(at) {
					walk(nx, r0, w0, seen)
				}
			}
			for _, nx := range succInstrs(in) {
				walk(nx, needR, needW, map[string]bool{})
			}
			r.Add(rule, "deadline:"+c.FuncKey(fn)+":"+name, c.InstrPos(in), c.FuncKey(fn), "a deadline set on the socket is cleared again before the function reports success", bad == "", bad)
		})
	}
	r.Add(rule, "deadlines-examined", "-", "", "socket deadlines armed in package client", true, fmt.Sprintf("%d arming calls", n))
}

// noMemberAwaitsBackground: C07.R9.
func (c *Ctx) noMemberAwaitsBackground(rule string) {
	r, a := c.R, c.A
	n := 0
	for _, m := range a.Members {
		n++
		reach := c.Closure([]*ssa.Function{m}, func(from *ssa.Function, e Edge) bool { return e.Kind != EdgeGo })
		bad := ""
		for _, fn := range reach.Order {
			if !c.InModuleFn(fn) {
				continue
			}
			for _, cs := range CallSites(fn) {
				if _, isGo := cs.(*ssa.Go); isGo {
					continue
				}
				for _, e := range c.Callees(cs) {
					if e.Callee == a.SetDispatch && c.setFieldOf(cs) == a.BG {
						bad = "awaits the background dispatch at " + c.InstrPos(cs) + " (" + c.ChainString(reach.Funcs[fn]) + ")"
					}
				}
			}
		}
		r.Add(rule, "member-no-bg:"+c.FuncKey(m), c.Pos(m.Pos()), c.FuncKey(m), "a goroutine the teardown waits for does not run background handlers", bad == "", bad)
	}
	r.Floor(rule, "connection goroutines", n, 3)
}

// queuesReplacedAtConnectRule: C07.R10. The queues of a connection are
// replaced only by the connect routine (and filled in by constructors): a
// store to the inbound or outbound queue field anywhere else - the teardown
// "re-initialising" after DISCONNECTED, say - swaps the queues under a
// connection that a DISCONNECTED handler has already re-established.
func (c *Ctx) queuesReplacedAtConnectRule(rule string) {
	r, a := c.R, c.A
	cn := a.Connect
	memo := map[*ssa.Function]int{}
	var only func(fn *ssa.Function, depth int) bool
	only = func(fn *ssa.Function, depth int) bool {
		if fn == cn {
			return true
		}
		if v, ok := memo[fn]; ok {
			return v == 1
		}
		memo[fn] = 1 // cycles: decided by the other callers
		res := true
		if depth > 5 || fn.Object() == nil || fn.Object().Exported() || addrTaken(fn) {
			res = false
		} else {
			sites := c.staticCallers(fn)
			if len(sites) == 0 {
				res = false
			}
			for _, cs := range sites {
				if _, isGo := cs.(*ssa.Go); isGo || !only(cs.Parent(), depth+1) {
					res = false
				}
			}
		}
		if res {
			memo[fn] = 1
		} else {
			memo[fn] = 2
		}
		return res
	}
	n := 0
	for _, fn := range c.clientFuncs() {
		funcInstrs(fn, func(in ssa.Instruction) {
			st, ok := in.(*ssa.Store)
			if !ok {
				return
			}
			fv, _ := fieldOf(st.Addr)
			if fv == nil || (fv != a.In && fv != a.Out) {
				return
			}
			if c.underConstruction(st.Addr, fn, 0) {
				return
			}
			n++
			okS := only(fn, 0)
			r.Add(rule, fmt.Sprintf("queue-store:%s:%s", c.FuncKey(fn), fv.Name()), c.InstrPos(st), c.FuncKey(fn), "the queues are replaced only by the connect routine", okS,
				"store to "+fv.Name()+" in a function that runs outside the connect routine: the queues of a connection re-established from a DISCONNECTED handler are swapped away under its goroutines")
		})
	}
	r.Floor(rule, "stores to the queue fields outside constructors", n, 2)
}

// configKeptRule: C07.R11. What registration reads is the caller's
// configuration: no function run on behalf of a connection (connection
// goroutines, the teardown, built-in handlers and all they call) stores to a
// field of Config other than the client's own record (Me). A password or
// server cleared "once used" is missing from the registration of every later
// connection.
func (c *Ctx) configKeptRule(rule string) {
	r, a := c.R, c.A
	cfgT := c.Named(c.Client, "Config")
	if !r.Anchor(rule, "type Config", cfgT != nil) {
		return
	}
	var roots []*ssa.Function
	for _, f := range a.IntTable {
		roots = append(roots, f)
	}
	for _, f := range a.StTable {
		roots = append(roots, f)
	}
	roots = append(roots, a.Members...)
	if a.Teardown != nil {
		roots = append(roots, a.Teardown)
	}
	reach := c.Closure(roots, func(from *ssa.Function, e Edge) bool {
		return e.Callee != a.Connect && c.InModuleFn(e.Callee)
	})
	n, bad := 0, 0
	for _, fn := range reach.Order {
		if fn.Package() != c.Client {
			continue
		}
		n++
		funcInstrs(fn, func(in ssa.Instruction) {
			st, ok := in.(*ssa.Store)
			if !ok {
				return
			}
			fa, ok := st.Addr.(*ssa.FieldAddr)
			if !ok {
				return
			}
			pt, isP := fa.X.Type().Underlying().(*types.Pointer)
			if !isP || !types.Identical(pt.Elem(), cfgT) {
				return
			}
			fv, _ := fieldOf(fa)
			if fv == nil || fv == a.CfgMe {
				return
			}
			if c.underConstruction(fa, fn, 0) {
				return
			}
			bad++
			r.Add(rule, "config-store:"+c.FuncKey(fn)+":"+fv.Name(), c.InstrPos(st), c.FuncKey(fn), "a running connection never rewrites the configuration that the next registration reads", false,
				"store to Config."+fv.Name()+" reached from "+c.ChainString(reach.Funcs[fn]))
		})
	}
	r.Add(rule, "config-kept", "-", "", fmt.Sprintf("none of the %d functions run on behalf of a connection stores to a Config field other than the client's own record", n), bad == 0, fmt.Sprintf("%d stores", bad))
	r.Floor(rule, "functions run on behalf of a connection", n, 25)
}

// freshChan: v is a newly made channel - a make, or the result (or one of the
// results) of a module function every return of which hands back a newly made
// channel in that position (a "make the queues" helper).
func (c *Ctx) freshChan(v ssa.Value, depth int) bool {
	if depth > 3 {
		return false
	}
	switch t := v.(type) {
	case *ssa.MakeChan:
		return true
	case *ssa.ChangeType:
		return c.freshChan(t.X, depth+1)
	case *ssa.Extract:
		call, ok := t.Tuple.(*ssa.Call)
		if !ok {
			return false
		}
		return c.freshChanResult(call, t.Index, depth)
	case *ssa.Call:
		return c.freshChanResult(t, 0, depth)
	}
	return false
}

func (c *Ctx) freshChanResult(call *ssa.Call, idx, depth int) bool {
	callee := call.Call.StaticCallee()
	if callee == nil || call.Call.IsInvoke() || !c.InModuleFn(callee) || callee.Blocks == nil {
		return false
	}
	n, ok := 0, true
	funcInstrs(callee, func(in ssa.Instruction) {
		rt, isR := in.(*ssa.Return)
		if !isR {
			return
		}
		n++
		if idx >= len(rt.Results) || !c.freshChan(retVal(rt, idx), depth+1) {
			ok = false
		}
	})
	return ok && n > 0
}

// connectNeverTearsDownRule: C06.R14. A Connect that is refused leaves the
// existing connection fully working: nothing the connect API does on the
// caller's goroutine (every function from which the connect routine is
// reachable by plain calls, and everything those call, other than the built-in
// handlers run by the REGISTER dispatch) calls the teardown. A ConnectTo that
// "switches servers" by closing first turns a refused second Connect into a
// disconnect plus a second REGISTER.
func (c *Ctx) connectNeverTearsDownRule(rule string) {
	r, a := c.R, c.A
	// the connect API: functions that reach the connect routine by plain calls
	api := map[*ssa.Function]bool{a.Connect: true}
	for changed := true; changed; {
		changed = false
		for _, fn := range c.clientFuncs() {
			if api[fn] {
				continue
			}
			for _, cs := range CallSites(fn) {
				if _, isCall := cs.(*ssa.Call); !isCall || cs.Common().IsInvoke() {
					continue
				}
				if sc := cs.Common().StaticCallee(); sc != nil && api[sc] {
					api[fn] = true
					changed = true
				}
			}
		}
	}
	var roots []*ssa.Function
	for fn := range api {
		roots = append(roots, fn)
	}
	sort.Slice(roots, func(i, j int) bool { return c.FuncKey(roots[i]) < c.FuncKey(roots[j]) })
	reach := c.Closure(roots, func(from *ssa.Function, e Edge) bool {
		if e.Kind == EdgeGo || e.Callee == a.ConnDispatch || e.Callee == a.SetDispatch {
			return false
		}
		return c.InModuleFn(e.Callee) && e.Callee != a.Teardown && e.Callee != a.TeardownCore
	})
	n, bad := 0, 0
	for _, fn := range reach.Order {
		if !c.InModuleFn(fn) {
			continue
		}
		n++
		for _, cs := range CallSites(fn) {
			if _, isGo := cs.(*ssa.Go); isGo {
				continue
			}
			for _, e := range c.Callees(cs) {
				if e.Callee == a.Teardown || e.Callee == a.TeardownCore {
					bad++
					r.Add(rule, "connect-tears-down:"+c.FuncKey(fn), c.InstrPos(cs), c.FuncKey(fn), "the connect API never ends a connection", false, "calls the teardown [reached via "+c.ChainString(reach.Funcs[fn])+"]")
				}
			}
		}
	}
	r.Add(rule, "connect-never-tears-down", "-", "", fmt.Sprintf("none of the %d functions run by the connect API on the caller's goroutine calls the teardown", n), bad == 0, fmt.Sprintf("%d calls", bad))
	r.Floor(rule, "functions of the connect API", len(api), 3)
}

// paramCallers: the static call sites of an unexported function inside its own
// package (enough to see what a loop helper is handed).
func paramCallers(fn *ssa.Function) []ssa.CallInstruction {
	var out []ssa.CallInstruction
	if fn.Pkg == nil {
		return nil
	}
	for _, m := range fn.Pkg.Members {
		var fns []*ssa.Function
		switch t := m.(type) {
		case *ssa.Function:
			fns = append(fns, t)
		case *ssa.Type:
			for _, tt := range []types.Type{t.Type(), types.NewPointer(t.Type())} {
				ms := fn.Prog.MethodSets.MethodSet(tt)
				for i := 0; i < ms.Len(); i++ {
					if f := fn.Prog.MethodValue(ms.At(i)); f != nil && f.Pkg == fn.Pkg {
						fns = append(fns, f)
					}
				}
			}
		}
		for _, f := range fns {
			all := append([]*ssa.Function{f}, f.AnonFuncs...)
			for _, g := range all {
				for _, cs := range CallSites(g) {
					if cs.Common().StaticCallee() == fn {
						dup := false
						for _, o := range out {
							if o == cs {
								dup = true
							}
						}
						if !dup {
							out = append(out, cs)
						}
					}
				}
			}
		}
	}
	return out
}

// onlyConnectedGuards: the only conditions the instruction depends on are
// "the connected flag is set" (the teardown's own early-out).
func (c *Ctx) onlyConnectedGuards(in ssa.Instruction) bool {
	for _, cd := range CondsAt(in.Block()) {
		cd = unwrapNot(cd)
		if f2, _ := loadedField(cd.V); f2 == c.A.Connected && cd.True {
			continue
		}
		return false
	}
	return true
}
