package sa

import (
	"go/constant"
	"go/types"
	"sort"

	"golang.org/x/tools/go/ssa"
)

func constantStringVal(c *ssa.Const) string { return constant.StringVal(c.Value) }

// EdgeKind classifies how a callee is started.
type EdgeKind int

const (
	EdgeCall EdgeKind = iota
	EdgeDefer
	EdgeGo
)

// Edge is one resolved call edge.
type Edge struct {
	Site   ssa.CallInstruction
	Kind   EdgeKind
	Callee *ssa.Function // nil when opaque
	Opaque string        // description when Callee == nil (dynamic/external w/o body)
}

// moduleImpls returns the concrete (non-mock) module types implementing it.
func (p *Prog) moduleImpls(it *types.Interface) []types.Type {
	if r, ok := p.impls[it]; ok {
		return r
	}
	var out []types.Type
	for _, pk := range []*ssa.Package{p.Client, p.State, p.Logging} {
		for _, m := range pk.Members {
			tn, ok := m.(*ssa.Type)
			if !ok {
				continue
			}
			if p.mockFile[p.Fset.Position(tn.Pos()).Filename] {
				continue
			}
			t := tn.Type()
			if types.IsInterface(t) {
				continue
			}
			for _, cand := range []types.Type{t, types.NewPointer(t)} {
				if types.Implements(cand, it) {
					out = append(out, cand)
					break
				}
			}
		}
	}
	p.impls[it] = out
	return out
}

// Callees resolves a call site to module functions. Interface calls resolve
// to the non-mock module implementations; dynamic function values and
// external functions yield an opaque edge.
func (p *Prog) Callees(site ssa.CallInstruction) []Edge {
	cc := site.Common()
	kind := EdgeCall
	switch site.(type) {
	case *ssa.Go:
		kind = EdgeGo
	case *ssa.Defer:
		kind = EdgeDefer
	}
	if cc.IsInvoke() {
		it, _ := cc.Value.Type().Underlying().(*types.Interface)
		var out []Edge
		if it != nil {
			for _, t := range p.moduleImpls(it) {
				sel := p.SSA.MethodSets.MethodSet(t).Lookup(cc.Method.Pkg(), cc.Method.Name())
				if sel == nil {
					continue
				}
				if f := p.SSA.MethodValue(sel); f != nil {
					out = append(out, Edge{site, kind, f, ""})
				}
			}
		}
		if len(out) == 0 || !p.inModule(cc.Method.Pkg()) {
			out = append(out, Edge{site, kind, nil, "invoke " + cc.Value.Type().String() + "." + cc.Method.Name()})
		}
		return out
	}
	if f := cc.StaticCallee(); f != nil {
		return []Edge{{site, kind, f, ""}}
	}
	if _, ok := cc.Value.(*ssa.Builtin); ok {
		return nil
	}
	// dynamic call: resolve function parameters to the closures/functions passed at every call site of
	// the enclosing function, and values read from package-level tables of functions to the table entries
	if fns := p.dynamicTargets(cc.Value, site.Parent(), 0); len(fns) > 0 {
		var out []Edge
		for _, f := range fns {
			out = append(out, Edge{site, kind, f, ""})
		}
		return out
	}
	return []Edge{{site, kind, nil, "dynamic " + cc.Value.String()}}
}

// dynamicTargets resolves a function-typed value to module functions, or nil
// when it cannot be resolved completely.
func (p *Prog) dynamicTargets(v ssa.Value, in *ssa.Function, depth int) []*ssa.Function {
	if depth > 3 {
		return nil
	}
	switch t := v.(type) {
	case *ssa.Function:
		return []*ssa.Function{p.unthunk(t)}
	case *ssa.MakeClosure:
		if f, ok := t.Fn.(*ssa.Function); ok {
			return []*ssa.Function{p.unthunk(f)} // a method value x.m is a closure over the bound-method wrapper
		}
	case *ssa.ChangeType:
		return p.dynamicTargets(t.X, in, depth+1)
	case *ssa.Parameter:
		fn := t.Parent()
		idx := -1
		for i, pr := range fn.Params {
			if pr == t {
				idx = i
			}
		}
		if idx < 0 || p.resolving[fn] {
			return nil
		}
		p.resolving[fn] = true
		defer delete(p.resolving, fn)
		sites := p.staticCallers(fn)
		if len(sites) == 0 {
			return nil
		}
		var out []*ssa.Function
		for _, cs := range sites {
			args := cs.Common().Args
			if idx >= len(args) {
				return nil
			}
			fs := p.dynamicTargets(args[idx], cs.Parent(), depth+1)
			if len(fs) == 0 {
				return nil
			}
			out = append(out, fs...)
		}
		return out
	case *ssa.Extract:
		if lk, ok := t.Tuple.(*ssa.Lookup); ok && t.Index == 0 {
			return p.tableFuncs(lk.X)
		}
	case *ssa.Lookup:
		return p.tableFuncs(t.X)
	case *ssa.Call:
		// a module function returning a function value: what its returns may be
		callee := t.Call.StaticCallee()
		if callee == nil || t.Call.IsInvoke() || !p.InModuleFn(callee) {
			return nil
		}
		var out []*ssa.Function
		okAll := true
		funcInstrs(callee, func(x ssa.Instruction) {
			if rt, isR := x.(*ssa.Return); isR && len(rt.Results) == 1 {
				fs := p.dynamicTargets(retVal(rt, 0), callee, depth+1)
				if len(fs) == 0 {
					okAll = false
				}
				out = append(out, fs...)
			}
		})
		if !okAll {
			return nil
		}
		return out
	case *ssa.Phi:
		var out []*ssa.Function
		for _, e := range t.Edges {
			fs := p.dynamicTargets(e, in, depth+1)
			if len(fs) == 0 {
				return nil
			}
			out = append(out, fs...)
		}
		return out
	}
	return nil
}

// staticCallers: call sites (in module functions) whose static callee is fn,
// computed without going through Callees (no recursion into dynamic resolution).
func (p *Prog) staticCallers(fn *ssa.Function) []ssa.CallInstruction {
	if p.staticCallersOf == nil {
		p.staticCallersOf = map[*ssa.Function][]ssa.CallInstruction{}
		for _, f := range p.ModFuncs {
			for _, cs := range CallSites(f) {
				if c := cs.Common(); !c.IsInvoke() {
					if sc := c.StaticCallee(); sc != nil {
						p.staticCallersOf[sc] = append(p.staticCallersOf[sc], cs)
					}
				}
			}
		}
	}
	return p.staticCallersOf[fn]
}

// tableFuncs: m is a load of a package-level map whose values, all set in the
// package initialiser, are functions: returns them all.
func (p *Prog) tableFuncs(m ssa.Value) []*ssa.Function {
	u, ok := m.(*ssa.UnOp)
	if !ok {
		return nil
	}
	g, ok := u.X.(*ssa.Global)
	if !ok || g.Pkg == nil {
		return nil
	}
	init := g.Pkg.Func("init")
	if init == nil {
		return nil
	}
	var mm ssa.Value
	funcInstrs(init, func(in ssa.Instruction) {
		if s, ok := in.(*ssa.Store); ok && s.Addr == ssa.Value(g) {
			mm = s.Val
		}
	})
	if mm == nil {
		return nil
	}
	var out []*ssa.Function
	okAll := true
	funcInstrs(init, func(in ssa.Instruction) {
		if mu, ok := in.(*ssa.MapUpdate); ok && mu.Map == mm {
			if f := p.funcValue(mu.Value); f != nil {
				out = append(out, f)
			} else {
				okAll = false
			}
		}
	})
	if !okAll {
		return nil
	}
	return out
}

func (p *Prog) inModule(pk *types.Package) bool {
	if pk == nil {
		return false
	}
	return pk == p.Client.Pkg || pk == p.State.Pkg || pk == p.Logging.Pkg
}

// InModule reports whether fn has a body in client/state/logging.
func (p *Prog) InModuleFn(fn *ssa.Function) bool {
	if fn == nil || fn.Blocks == nil {
		return false
	}
	pk := fn.Package()
	if pk == nil {
		// thunks and bound-method wrappers of module methods
		if fn.Synthetic != "" && fn.Object() != nil {
			return p.inModule(fn.Object().Pkg())
		}
		return false
	}
	return pk == p.Client || pk == p.State || pk == p.Logging
}

// CallSites returns the call instructions of fn in source order.
func CallSites(fn *ssa.Function) []ssa.CallInstruction {
	var out []ssa.CallInstruction
	funcInstrs(fn, func(in ssa.Instruction) {
		if c, ok := in.(ssa.CallInstruction); ok {
			out = append(out, c)
		}
	})
	return out
}

// Callers returns every static call site (in module functions) of fn.
func (p *Prog) Callers(fn *ssa.Function) []ssa.CallInstruction {
	if p.callersOf == nil {
		p.callersOf = map[*ssa.Function][]ssa.CallInstruction{}
		for _, f := range p.ModFuncs {
			for _, cs := range CallSites(f) {
				for _, e := range p.Callees(cs) {
					if e.Callee != nil {
						p.callersOf[e.Callee] = append(p.callersOf[e.Callee], cs)
					}
				}
			}
		}
	}
	return p.callersOf[fn]
}

// Closure computes the set of module functions reachable from roots following
// edges accepted by follow. The path (chain of sites) to each is recorded.
type Reach struct {
	Funcs map[*ssa.Function][]ssa.CallInstruction // function -> chain of call sites from a root
	Order []*ssa.Function
}

func (p *Prog) Closure(roots []*ssa.Function, follow func(from *ssa.Function, e Edge) bool) *Reach {
	r := &Reach{Funcs: map[*ssa.Function][]ssa.CallInstruction{}}
	var work []*ssa.Function
	for _, f := range roots {
		if f == nil {
			continue
		}
		if _, ok := r.Funcs[f]; !ok {
			r.Funcs[f] = nil
			r.Order = append(r.Order, f)
			work = append(work, f)
		}
	}
	for len(work) > 0 {
		f := work[0]
		work = work[1:]
		if !p.InModuleFn(f) {
			continue
		}
		for _, cs := range CallSites(f) {
			for _, e := range p.Callees(cs) {
				if e.Callee == nil || !p.InModuleFn(e.Callee) {
					continue
				}
				if follow != nil && !follow(f, e) {
					continue
				}
				if _, ok := r.Funcs[e.Callee]; ok {
					continue
				}
				chain := append(append([]ssa.CallInstruction{}, r.Funcs[f]...), cs)
				r.Funcs[e.Callee] = chain
				r.Order = append(r.Order, e.Callee)
				work = append(work, e.Callee)
			}
		}
	}
	return r
}

// ChainString renders a call chain.
func (p *Prog) ChainString(chain []ssa.CallInstruction) string {
	s := ""
	for i, cs := range chain {
		if i > 0 {
			s += " -> "
		}
		s += p.FuncKey(cs.Parent()) + "@" + p.InstrPos(cs)
	}
	return s
}

// sortedFuncs returns map keys in stable order.
func (p *Prog) sortedFuncs(m map[*ssa.Function]bool) []*ssa.Function {
	var out []*ssa.Function
	for f := range m {
		out = append(out, f)
	}
	sort.Slice(out, func(i, j int) bool { return p.FuncKey(out[i]) < p.FuncKey(out[j]) })
	return out
}

// AnonFuncsOf returns fn and all functions nested in it.
func AnonClosure(fn *ssa.Function) []*ssa.Function {
	out := []*ssa.Function{fn}
	for _, a := range fn.AnonFuncs {
		out = append(out, AnonClosure(a)...)
	}
	return out
}

// tableEntries: like tableFuncs but keyed by the (constant string) map key.
func (p *Prog) tableEntries(m ssa.Value) map[string]*ssa.Function {
	u, ok := m.(*ssa.UnOp)
	if !ok {
		return nil
	}
	g, ok := u.X.(*ssa.Global)
	if !ok || g.Pkg == nil {
		return nil
	}
	init := g.Pkg.Func("init")
	if init == nil {
		return nil
	}
	var mm ssa.Value
	funcInstrs(init, func(in ssa.Instruction) {
		if s, ok := in.(*ssa.Store); ok && s.Addr == ssa.Value(g) {
			mm = s.Val
		}
	})
	if mm == nil {
		return nil
	}
	out := map[string]*ssa.Function{}
	funcInstrs(init, func(in ssa.Instruction) {
		if mu, ok := in.(*ssa.MapUpdate); ok && mu.Map == mm {
			if k, ok := constString(mu.Key); ok {
				if f := p.funcValue(mu.Value); f != nil {
					out[k] = f
				}
			}
		}
	})
	return out
}
