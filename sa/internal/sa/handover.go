package sa

import (
	"fmt"
	"go/token"

	"golang.org/x/tools/go/ssa"
)

// handoverRule: in the receive goroutine every accepted line is handed to the
// inbound queue by a blocking send before the next framing read. A parked or
// conditionally dropped line would be dispatched late, out of order, or never.
func (c *Ctx) handoverRule(rule string, producer *ssa.Function) {
	r, a := c.R, c.A
	pl := c.Func(c.Client, "ParseLine")
	if pl == nil || producer == nil {
		return
	}
	// when the goroutine delegates parse-and-enqueue to a per-line helper, the hand-over is checked in that helper:
	// every path from the parser call (accepted line) to a return of the helper passes the blocking send
	if pf := c.producerFrame(); pf != nil && pf.Member == producer && pf.Via != nil {
		parsesThere := false
		funcInstrs(pf.Frame, func(in ssa.Instruction) {
			if call, ok := in.(*ssa.Call); ok && call.Call.StaticCallee() == pl {
				parsesThere = true
			}
		})
		if parsesThere {
			c.handoverInHelper(rule, pf)
			return
		}
		// a helper that only enqueues the line it is given: judged below, at its call in the goroutine's own body
	}
	var reads []ssa.Instruction
	var parses []*ssa.Call
	funcInstrs(producer, func(in ssa.Instruction) {
		call, ok := in.(*ssa.Call)
		if !ok {
			return
		}
		switch calleeName(&call.Call) {
		case "(*bufio.Reader).ReadString", "(*bufio.Reader).ReadBytes", "(*bufio.Reader).ReadLine", "(*bufio.Reader).Read", "(*bufio.ReadWriter).ReadString":
			reads = append(reads, in)
		}
		if call.Call.StaticCallee() == pl {
			parses = append(parses, call)
		}
	})
	for _, lr := range c.lineReads(producer) {
		if lr.Site != lr.Inner {
			reads = append(reads, lr.Site)
		}
	}
	r.Floor(rule, "parser calls in the receive goroutine (hand-over)", len(parses), 1)
	onlyFrom := func(v ssa.Value, pc *ssa.Call) bool {
		os := c.Origins(v)
		return len(os) == 1 && os[0] == ssa.Value(pc)
	}
	// helperSends: fn sends its parameter idx on the inbound queue with a blocking send on every path
	helperSends := func(fn *ssa.Function, idx int) bool {
		if !c.InModuleFn(fn) || idx >= len(fn.Params) {
			return false
		}
		ok, _ := AllPathsFromEntryPass(fn, func(in ssa.Instruction) bool {
			s, isS := in.(*ssa.Send)
			return isS && c.ChanMayBe(s.Chan, a.In) && s.X == ssa.Value(fn.Params[idx])
		})
		return ok
	}
	for i, pc := range parses {
		var pending []ssa.Instruction // starts of the other cases of an abandonable blocking select
		stop := func(in ssa.Instruction) bool {
			switch t := in.(type) {
			case *ssa.Send:
				return c.ChanMayBe(t.Chan, a.In) && onlyFrom(t.X, pc)
			case *ssa.Select:
				if !t.Blocking {
					return false
				}
				hit := false
				for _, st := range t.States {
					if st.Send != nil && c.ChanMayBe(st.Chan, a.In) && onlyFrom(st.Send, pc) {
						hit = true
					}
				}
				if hit {
					for k, st := range t.States {
						if st.Send != nil && c.ChanMayBe(st.Chan, a.In) {
							continue
						}
						if b := selectCaseBlock(t, k); b != nil && len(b.Instrs) > 0 {
							pending = append(pending, b.Instrs[0])
						} else {
							hit = false // shape not recognised: do not treat as a hand-over
						}
					}
				}
				return hit
			case *ssa.Call:
				if f := t.Call.StaticCallee(); f != nil && !t.Call.IsInvoke() {
					for k, arg := range t.Call.Args {
						if onlyFrom(arg, pc) && helperSends(f, k) {
							return true
						}
					}
				}
			}
			return false
		}
		skip := func(from, to *ssa.BasicBlock) bool {
			cd, ok := edgeCond(from, to)
			if !ok {
				return false
			}
			cd = unwrapNot(cd)
			bo, ok := cd.V.(*ssa.BinOp)
			if !ok || (bo.Op != token.EQL && bo.Op != token.NEQ) {
				return false
			}
			var other ssa.Value
			if isNilConst(bo.Y) {
				other = bo.X
			} else if isNilConst(bo.X) {
				other = bo.Y
			} else {
				return false
			}
			if other != ssa.Value(pc) {
				return false
			}
			isNil := (bo.Op == token.EQL) == cd.True
			return isNil // the rejected-line edge carries nothing to hand over
		}
		reach := ReachFromFiltered(pc, false, stop, skip)
		for len(pending) > 0 {
			st := pending[0]
			pending = pending[1:]
			for in := range ReachFromFiltered(st, true, stop, skip) {
				reach[in] = true
			}
		}
		ok, why := true, "every path from the parser call (accepted line) passes a blocking send of that line on the inbound queue before the next read"
		for _, rd := range reads {
			if reach[rd] {
				ok, why = false, "the next read at "+c.InstrPos(rd)+" is reachable with the accepted line neither sent nor abandoned with the loop (non-blocking or conditional hand-over)"
			}
		}
		if len(reads) == 0 {
			ok, why = false, "no framing read found"
		}
		r.Add(rule, fmt.Sprintf("handover:%s#%d", c.FuncKey(producer), i+1), c.InstrPos(pc), c.FuncKey(producer), "an accepted line is handed over (blocking) before the next read", ok, why)
	}
}

// producerFrame locates the receive side of the inbound queue: the member
// goroutine that reads the socket, and the frame that parses and enqueues each
// line - the goroutine's own body, or the single unexported helper it calls
// for every line (called from nowhere else, never used as a value).
type producerFrameT struct {
	Member *ssa.Function
	Frame  *ssa.Function
	Via    *ssa.Call
	Send   ChanOp
}

func (c *Ctx) producerFrame() *producerFrameT {
	a := c.A
	sendIn := func(fn *ssa.Function) (ChanOp, bool) {
		var got ChanOp
		ok := false
		for _, op := range ChanOps(fn) {
			if op.Kind == "send" && c.ChanMayBe(op.Chan, a.In) {
				got, ok = op, true
			}
		}
		return got, ok
	}
	for _, m := range a.Members {
		if op, ok := sendIn(m); ok {
			return &producerFrameT{Member: m, Frame: m, Send: op}
		}
	}
	for _, m := range a.Members {
		for _, cs := range CallSites(m) {
			call, ok := cs.(*ssa.Call)
			if !ok || call.Call.IsInvoke() {
				continue
			}
			h := call.Call.StaticCallee()
			if h == nil || h.Package() != c.Client || !c.InModuleFn(h) || (h.Object() != nil && h.Object().Exported()) || addrTaken(h) {
				continue
			}
			if sites := c.staticCallers(h); len(sites) != 1 {
				continue
			}
			if op, ok := sendIn(h); ok {
				return &producerFrameT{Member: m, Frame: h, Via: call, Send: op}
			}
		}
	}
	return nil
}

func (c *Ctx) handoverInHelper(rule string, pf *producerFrameT) {
	r, a := c.R, c.A
	pl := c.Func(c.Client, "ParseLine")
	h := pf.Frame
	n := 0
	funcInstrs(h, func(in ssa.Instruction) {
		pc, ok := in.(*ssa.Call)
		if !ok || pc.Call.StaticCallee() != pl {
			return
		}
		n++
		stop := func(x ssa.Instruction) bool {
			s, isS := x.(*ssa.Send)
			if !isS || !c.ChanMayBe(s.Chan, a.In) {
				return false
			}
			os := c.Origins(s.X)
			return len(os) == 1 && os[0] == ssa.Value(pc)
		}
		skip := func(from, to *ssa.BasicBlock) bool {
			cd, ok := edgeCond(from, to)
			if !ok {
				return false
			}
			cd = unwrapNot(cd)
			bo, ok := cd.V.(*ssa.BinOp)
			if !ok || (bo.Op != token.EQL && bo.Op != token.NEQ) {
				return false
			}
			var other ssa.Value
			if isNilConst(bo.Y) {
				other = bo.X
			} else if isNilConst(bo.X) {
				other = bo.Y
			}
			return other == ssa.Value(pc) && (bo.Op == token.EQL) == cd.True
		}
		okH, why := true, "every path of the per-line helper from the parser call (accepted line) to its return passes a blocking send of that line"
		for x := range ReachFromFiltered(pc, false, stop, skip) {
			if isReturn(x) {
				okH, why = false, "the helper can return at "+c.InstrPos(x)+" with the accepted line not sent"
			}
		}
		r.Add(rule, fmt.Sprintf("handover:%s#%d", c.FuncKey(h), n), c.InstrPos(pc), c.FuncKey(h), "an accepted line is handed over (blocking) before the next read", okH, why)
	})
	r.Floor(rule, "parser calls in the receive goroutine (hand-over)", n, 1)
}

// lineRead is one place where the receive goroutine obtains a line: a
// delimiter-framed bufio read in its own body, or a call of a read helper.
type lineRead struct {
	Site    *ssa.Call // the call in the goroutine's own frame (bufio call or helper call); results: (text, error)
	Inner   *ssa.Call // the bufio read itself
	Trimmed bool      // the helper already removed the CR/LF terminator
}

// readHelperInfo: h is an unexported (string, error) function of package client
// that performs exactly one ReadString / ReadBytes on the connection's reader
// and returns its error unchanged, nil only on the no-error edge, and on that
// edge the text read - as it is, or with strings.Trim(text, "\r\n") applied.
func (c *Ctx) readHelperInfo(h *ssa.Function) (*ssa.Call, bool, bool) {
	if h == nil || !c.InModuleFn(h) || h.Package() != c.Client || h.Blocks == nil || (h.Object() != nil && h.Object().Exported()) {
		return nil, false, false
	}
	res := h.Signature.Results()
	if res.Len() != 2 || !isStringType(res.At(0).Type()) || typeString(res.At(1).Type()) != "error" {
		return nil, false, false
	}
	var rd *ssa.Call
	n := 0
	funcInstrs(h, func(in ssa.Instruction) {
		if call, ok := in.(*ssa.Call); ok {
			switch calleeName(&call.Call) {
			case "(*bufio.Reader).ReadString", "(*bufio.Reader).ReadBytes":
				n++
				rd = call
			}
		}
	})
	if n != 1 || !c.derivesFromIO(rd.Call.Args[0]) {
		return nil, false, false
	}
	isExt := func(v ssa.Value, idx int) bool {
		ex, ok := v.(*ssa.Extract)
		return ok && ex.Tuple == ssa.Value(rd) && ex.Index == idx
	}
	okAll, nTrim, nRaw := true, 0, 0
	funcInstrs(h, func(in ssa.Instruction) {
		rt, ok := in.(*ssa.Return)
		if !ok {
			return
		}
		if len(rt.Results) != 2 {
			okAll = false
			return
		}
		r0, r1 := retVal(rt, 0), retVal(rt, 1)
		if isExt(r1, 1) {
			return // the read's own error (nil or not), whatever text goes with it
		}
		if !isNilConst(r1) {
			okAll = false
			return
		}
		// a nil error: only where the read reported none
		onNoErr := false
		for _, cd := range CondsAt(rt.Block()) {
			cd = unwrapNot(cd)
			if bo, isB := cd.V.(*ssa.BinOp); isB && (bo.Op == token.NEQ || bo.Op == token.EQL) {
				if (isExt(bo.X, 1) && isNilConst(bo.Y)) || (isExt(bo.Y, 1) && isNilConst(bo.X)) {
					if (bo.Op == token.EQL) == cd.True {
						onNoErr = true
					}
				}
			}
		}
		if !onNoErr {
			okAll = false
			return
		}
		switch {
		case isExt(r0, 0):
			nRaw++
		default:
			tr, isC := r0.(*ssa.Call)
			if isC && calleeName(&tr.Call) == "strings.Trim" && isExt(tr.Call.Args[0], 0) {
				if cut, okC := constString(tr.Call.Args[1]); okC && (cut == "\r\n" || cut == "\n\r") {
					nTrim++
					return
				}
			}
			okAll = false
		}
	})
	if !okAll || (nTrim > 0) == (nRaw > 0) {
		return nil, false, false
	}
	return rd, nTrim > 0, true
}

// lineReads lists the line reads of fn's own frame.
func (c *Ctx) lineReads(fn *ssa.Function) []lineRead {
	var out []lineRead
	funcInstrs(fn, func(in ssa.Instruction) {
		call, ok := in.(*ssa.Call)
		if !ok {
			return
		}
		switch calleeName(&call.Call) {
		case "(*bufio.Reader).ReadString", "(*bufio.Reader).ReadBytes":
			out = append(out, lineRead{Site: call, Inner: call})
			return
		}
		if h := call.Call.StaticCallee(); h != nil && !call.Call.IsInvoke() {
			if rd, trimmed, ok := c.readHelperInfo(h); ok {
				out = append(out, lineRead{Site: call, Inner: rd, Trimmed: trimmed})
			}
		}
	})
	return out
}
