package sa

import (
	"encoding/json"
	"fmt"
	"os"
	"path/filepath"
	"sort"
	"strings"
)

// Ob is one evaluated rule instance (obligation).
type Ob struct {
	Rule       string `json:"rule"`             // e.g. "R1"
	Key        string `json:"key"`              // stable: function + construct signature, never a line
	Pos        string `json:"pos"`              // file:line:col (diagnostic only)
	Func       string `json:"func,omitempty"`   // enclosing function
	Desc       string `json:"desc"`             // what is required
	OK         bool   `json:"ok"`               // discharged
	Why        string `json:"why,omitempty"`    // facts used / reason it failed
	Nontrivial bool   `json:"nontrivial"`       // needed analysis beyond anchor resolution
	Config     string `json:"config,omitempty"` // load configuration (thorough)
}

// Report collects the obligations of one property run.
type Report struct {
	Property string
	Obs      []Ob
	Info     []string // information-only notes
	Funcs    map[string]bool
	Sites    int
	// for the thorough-tier coverage cross-check against the compiler's remaining bounds checks
	RegionSpans []Span            // source spans of the functions whose panics are obligations
	ObLines     map[string]bool   // file:line of every bounds obligation generated
	rules       map[string]string // rule id -> text
	ruleOrd     []string
	cfg         string
}

// Span is a source range of one function.
type Span struct {
	File       string
	Start, End int
	Func       string
}

func NewReport(prop string) *Report {
	return &Report{Property: prop, Funcs: map[string]bool{}, rules: map[string]string{}, ObLines: map[string]bool{}}
}

// Rule declares a rule text (shown in evidence).
func (r *Report) Rule(id, text string) {
	if _, ok := r.rules[id]; !ok {
		r.ruleOrd = append(r.ruleOrd, id)
	}
	r.rules[id] = text
}

// Add records an obligation.
func (r *Report) Add(rule, key, pos, fn, desc string, ok bool, why string) {
	r.Obs = append(r.Obs, Ob{Rule: rule, Key: key, Pos: pos, Func: fn, Desc: desc, OK: ok, Why: why, Nontrivial: true, Config: r.cfg})
	if fn != "" {
		r.Funcs[fn] = true
	}
}

// Anchor records an anchor-resolution obligation (trivial when OK).
func (r *Report) Anchor(rule, what string, ok bool) bool {
	r.Obs = append(r.Obs, Ob{Rule: rule, Key: "anchor:" + what, Pos: "-", Desc: "anchor resolves: " + what, OK: ok,
		Why: map[bool]string{true: "resolved", false: "UNRESOLVED (fail closed)"}[ok], Nontrivial: false, Config: r.cfg})
	return ok
}

// Floor fails closed when a rule matched fewer instances than confirmed by hand.
func (r *Report) Floor(rule, what string, got, min int) {
	ok := got >= min
	r.Obs = append(r.Obs, Ob{Rule: rule, Key: "floor:" + what, Pos: "-", Desc: fmt.Sprintf("floor: at least %d %s", min, what), OK: ok,
		Why: fmt.Sprintf("found %d", got), Nontrivial: false, Config: r.cfg})
}

// Exactly fails when the count differs.
func (r *Report) Exactly(rule, what string, got, want int) {
	ok := got == want
	r.Obs = append(r.Obs, Ob{Rule: rule, Key: "count:" + what, Pos: "-", Desc: fmt.Sprintf("exactly %d %s", want, what), OK: ok,
		Why: fmt.Sprintf("found %d", got), Nontrivial: false, Config: r.cfg})
}

func (r *Report) Note(format string, a ...interface{}) {
	r.Info = append(r.Info, fmt.Sprintf(format, a...))
}

// ---------- known findings ----------

// Finding is one entry of /verif/known_findings.json.
type Finding struct {
	Status   string `json:"status"` // "known" | "fixed"
	Property string `json:"property"`
	Rule     string `json:"rule"`
	Key      string `json:"key,omitempty"` // obligation key for "known" entries
	What     string `json:"what"`
	Commit   string `json:"commit,omitempty"`
	Line     string `json:"line,omitempty"` // the "fixed: property=.. <commit> <what>" line
}

func LoadFindings(path string) ([]Finding, error) {
	b, err := os.ReadFile(path)
	if err != nil {
		if os.IsNotExist(err) {
			return nil, nil
		}
		return nil, err
	}
	var fs []Finding
	if err := json.Unmarshal(b, &fs); err != nil {
		return nil, err
	}
	return fs, nil
}

// ---------- evidence ----------

type Outcome struct {
	Violations []Ob
	Known      []struct {
		Ob Ob
		F  Finding
	}
}

// Decide splits failed obligations into known findings and violations.
func (r *Report) Decide(fs []Finding) Outcome {
	var out Outcome
	for _, o := range r.Obs {
		if o.OK {
			continue
		}
		matched := false
		for _, f := range fs {
			if f.Status == "known" && f.Property == r.Property && f.Rule == o.Rule && f.Key == o.Key {
				out.Known = append(out.Known, struct {
					Ob Ob
					F  Finding
				}{o, f})
				matched = true
				break
			}
		}
		if !matched {
			out.Violations = append(out.Violations, o)
		}
	}
	return out
}

type EvidenceExtra struct {
	Tier      string
	Seed      int64
	WallS     float64
	Packages  int
	Configs   []string
	Selftest  map[string]interface{}
	CrossRef  map[string]interface{}
	Assume    []string
	Explain   string
	Technique string
}

// WriteEvidence writes /verif/evidence/<id>.json.
func (r *Report) WriteEvidence(dir string, out Outcome, ex EvidenceExtra) error {
	obl, dis, nontriv := 0, 0, 0
	seen := map[string]bool{}
	for _, o := range r.Obs {
		obl++
		if o.OK {
			dis++
		}
		k := o.Rule + "|" + o.Key
		if o.Nontrivial && !seen[k] {
			seen[k] = true
			nontriv++
		}
	}
	// samples: up to 3 per rule, non-trivial first
	var samples []Ob
	per := map[string]int{}
	for _, o := range r.Obs {
		if !o.Nontrivial {
			continue
		}
		if per[o.Rule] >= 3 {
			continue
		}
		per[o.Rule]++
		samples = append(samples, o)
	}
	for _, o := range out.Violations {
		samples = append(samples, o)
	}
	if len(samples) == 0 && len(r.Obs) > 0 {
		samples = append(samples, r.Obs[0])
	}
	var rules []string
	for _, id := range r.ruleOrd {
		rules = append(rules, id+": "+r.rules[id])
	}
	var funcs []string
	for f := range r.Funcs {
		funcs = append(funcs, f)
	}
	sort.Strings(funcs)
	byRule := map[string][2]int{}
	for _, o := range r.Obs {
		c := byRule[o.Rule]
		c[0]++
		if o.OK {
			c[1]++
		}
		byRule[o.Rule] = c
	}
	cov := map[string]interface{}{
		"explanation":         ex.Explain + " Rules: " + strings.Join(rules, " | "),
		"obligations":         obl,
		"discharged":          dis,
		"evaluations":         obl,
		"distinct_nontrivial": nontriv,
		"rule":                "every rule instance (rule id + construct key) found in the resolved program is enumerated; non-trivial = required path/flow/lock/bounds analysis beyond resolving an anchor or counting; distinct by rule+key",
		"samples":             samples,
		"functions_analysed":  funcs,
		"call_sites":          r.Sites,
		"packages":            ex.Packages,
		"configurations":      ex.Configs,
		"per_rule":            byRule,
		"exhaustive":          true,
		"checker_cmd":         "./bin/goircsa -property " + r.Property + " -tier " + ex.Tier,
		"trusted_base":        []string{"go/types and go/ssa (golang.org/x/tools v0.29.0)", "Go semantics of channels, sync, defer/recover", "stdlib contracts written as axioms in the checker", "the checker itself (unverified)"},
		"information":         r.Info,
		"known_findings":      len(out.Known),
	}
	if ex.Selftest != nil {
		cov["selftest"] = ex.Selftest
	}
	if ex.CrossRef != nil {
		cov["cross_reference"] = ex.CrossRef
	}
	ev := map[string]interface{}{
		"property_id": r.Property,
		"tier":        ex.Tier,
		"seed":        ex.Seed,
		"level":       "other",
		"coverage":    cov,
		"assumptions": ex.Assume,
		"wall_s":      ex.WallS,
		"violations":  len(out.Violations),
		"technique":   ex.Technique,
	}
	b, err := json.MarshalIndent(ev, "", " ")
	if err != nil {
		return err
	}
	if err := os.MkdirAll(dir, 0o755); err != nil {
		return err
	}
	return os.WriteFile(filepath.Join(dir, r.Property+".json"), b, 0o644)
}

// WriteViolations writes the replay file and returns its path.
func (r *Report) WriteViolations(dir, tier string, out Outcome) (string, error) {
	if err := os.MkdirAll(dir, 0o755); err != nil {
		return "", err
	}
	path := filepath.Join(dir, fmt.Sprintf("%s-%s.json", r.Property, tier))
	b, _ := json.MarshalIndent(map[string]interface{}{"property": r.Property, "tier": tier, "violations": out.Violations}, "", " ")
	return path, os.WriteFile(path, b, 0o644)
}
