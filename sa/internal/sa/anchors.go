package sa

import (
	"fmt"
	"go/token"
	"go/types"

	"golang.org/x/tools/go/ssa"
)

// Anchors are the repository constructs the rules talk about, resolved
// semantically (by type, role or exported name) on every run.
type Anchors struct {
	Conn                                            *types.Named
	ConnS                                           *types.Struct
	In, Out                                         *types.Var // chan *Line, chan string
	WG                                              *types.Var // sync.WaitGroup
	Mu                                              *types.Var // sync.RWMutex
	Connected                                       *types.Var // bool returned by Connected()
	Die                                             *types.Var // context.CancelFunc
	Sock                                            *types.Var // net.Conn
	IO                                              *types.Var // *bufio.ReadWriter (or the reader half when split)
	IOFields                                        []*types.Var
	Cfg                                             *types.Var // *Config
	St                                              *types.Var // state.Tracker
	FG, BG, Int                                     *types.Var // *hSet
	Line, Config, HSet, HNode                       *types.Named
	CfgMe, CfgPass, CfgRecover, CfgFlood, CfgServer *types.Var

	Teardown                *ssa.Function   // contains dispatch of DISCONNECTED (the event function)
	TeardownCore            *ssa.Function   // clears the connected flag and waits (== Teardown unless split into a helper)
	Connect                 *ssa.Function   // stores true to Connected (or calls the trivial setter that does)
	FlagSetter              *ssa.Function   // the trivial helper that stores true, when the connect routine delegates that
	FlagClearer             *ssa.Function   // the trivial helper that stores false, when the teardown delegates that
	ConnectSet              ssa.Instruction // the instruction in Connect at which the flag becomes true (store or setter call)
	Members                 []*ssa.Function // spawned under Add on WG
	ConnDispatch            *ssa.Function   // (*Conn).dispatch
	SetDispatch             *ssa.Function   // (*hSet).dispatch
	Raw                     *ssa.Function
	IntTable, StTable       map[string]*ssa.Function // handler tables (pure forwarders resolved to their delegate)
	IntTableRaw, StTableRaw map[string]*ssa.Function // the entries as written
	Errs                    []string
	Soft                    []string // anchors that only some properties need (reported as information)
}

func (a *Anchors) miss(format string, args ...interface{}) {
	a.Errs = append(a.Errs, fmt.Sprintf(format, args...))
}

func typeString(t types.Type) string { return types.TypeString(t, nil) }

// uniqueField returns the only field of st - or of a struct embedded in it by
// value, whose fields are promoted - whose type string equals ts.
func uniqueField(st *types.Struct, ts string) *types.Var {
	var r *types.Var
	n := 0
	var walk func(s *types.Struct, depth int)
	walk = func(s *types.Struct, depth int) {
		for i := 0; i < s.NumFields(); i++ {
			f := s.Field(i)
			if typeString(f.Type()) == ts {
				r = f
				n++
			}
			if f.Embedded() && depth < 3 {
				if es, ok := f.Type().Underlying().(*types.Struct); ok {
					if nt, isN := f.Type().(*types.Named); !isN || nt.Obj().Pkg() == nil || nt.Obj().Pkg().Path() != "sync" {
						walk(es, depth+1)
					}
				}
			}
		}
	}
	walk(st, 0)
	if n != 1 {
		return nil
	}
	return r
}

func (p *Prog) ResolveAnchors() *Anchors {
	a := &Anchors{}
	cl := p.Client
	a.Conn = p.Named(cl, "Conn")
	a.Line = p.Named(cl, "Line")
	a.Config = p.Named(cl, "Config")
	a.HSet = p.Named(cl, "hSet")
	a.HNode = p.Named(cl, "hNode")
	if a.Conn == nil || a.Line == nil || a.Config == nil || a.HSet == nil || a.HNode == nil {
		a.miss("named types Conn/Line/Config/hSet/hNode")
		return a
	}
	a.ConnS, _ = a.Conn.Underlying().(*types.Struct)
	if a.ConnS == nil {
		a.miss("Conn is not a struct")
		return a
	}
	lp := modPath + "/client."
	// several fields of one type: the role decides (an added, unrelated mutex or
	// queue must not unseat the anchor)
	byUse := map[string]func() *types.Var{
		"connection mutex": func() *types.Var {
			// the lock Connected() takes
			var r *types.Var
			if f := p.followForward(p.Func(cl, "(*Conn).Connected")); f != nil {
				funcInstrs(f, func(in ssa.Instruction) {
					if cc := callOf(in); cc != nil && !cc.IsInvoke() && len(cc.Args) > 0 {
						if fv, _ := fieldOf(cc.Args[0]); fv != nil && typeString(fv.Type()) == "sync.RWMutex" {
							r = fv
						}
					}
				})
			}
			return r
		},
		"outbound queue": func() *types.Var {
			// the queue Raw sends on
			var r *types.Var
			if f := p.Func(cl, "(*Conn).Raw"); f != nil {
				funcInstrs(f, func(in ssa.Instruction) {
					if sd, ok := in.(*ssa.Send); ok {
						if fv, _ := loadedField(sd.Chan); fv != nil && typeString(fv.Type()) == "chan string" {
							r = fv
						}
					}
				})
			}
			return r
		},
	}
	byUse["tracker"] = func() *types.Var {
		// the field StateTracker() answers from
		var r *types.Var
		if f := p.Func(cl, "(*Conn).StateTracker"); f != nil {
			funcInstrs(f, func(in ssa.Instruction) {
				if rt, ok := in.(*ssa.Return); ok && len(rt.Results) == 1 {
					if fv, _ := loadedField(rt.Results[0]); fv != nil && typeString(fv.Type()) == modPath+"/state.Tracker" {
						r = fv
					}
				}
			})
		}
		return r
	}
	get := func(dst **types.Var, ts, role string) {
		*dst = uniqueField(a.ConnS, ts)
		if *dst == nil {
			if f := byUse[role]; f != nil {
				*dst = f()
			}
		}
		if *dst == nil {
			a.miss("Conn field for %s (type %s) not unique/found", role, ts)
		}
	}
	get(&a.In, "chan *"+lp+"Line", "inbound queue")
	get(&a.Out, "chan string", "outbound queue")
	get(&a.WG, "sync.WaitGroup", "connection WaitGroup")
	get(&a.Mu, "sync.RWMutex", "connection mutex")
	get(&a.Die, "context.CancelFunc", "cancel function")
	get(&a.Sock, "net.Conn", "socket")
	// buffered I/O: one *bufio.ReadWriter, or its two halves kept in separate fields
	if a.IO = uniqueField(a.ConnS, "*bufio.ReadWriter"); a.IO != nil {
		a.IOFields = []*types.Var{a.IO}
	} else {
		rd, wr := uniqueField(a.ConnS, "*bufio.Reader"), uniqueField(a.ConnS, "*bufio.Writer")
		if rd != nil && wr != nil {
			a.IOFields = []*types.Var{rd, wr}
			a.IO = rd
		} else {
			a.miss("Conn field for buffered I/O (type *bufio.ReadWriter, or *bufio.Reader and *bufio.Writer) not unique/found")
		}
	}
	get(&a.Cfg, "*"+lp+"Config", "config")
	get(&a.St, modPath+"/state.Tracker", "tracker")
	for _, m := range []string{"Handle", "HandleBG", "Raw", "Close", "ConnectContext", "Connected", "dispatch"} {
		if p.Func(cl, "(*Conn)."+m) == nil {
			a.miss("method (*Conn).%s", m)
		}
	}
	if len(a.Errs) > 0 {
		return a
	}
	// connected flag: the field Connected() returns
	if f := p.followForward(p.Func(cl, "(*Conn).Connected")); f != nil {
		funcInstrs(f, func(in ssa.Instruction) {
			if u, ok := in.(*ssa.UnOp); ok && u.Op == token.MUL {
				if fv, _ := fieldOf(u.X); fv != nil && typeString(fv.Type()) == "bool" {
					a.Connected = fv
				}
			}
		})
	}
	if a.Connected == nil {
		a.miss("connected flag")
	}
	// handler sets: receiver of add in Handle / HandleBG
	setOf := func(fn *ssa.Function) *types.Var {
		var r *types.Var
		if fn == nil {
			return nil
		}
		funcInstrs(fn, func(in ssa.Instruction) {
			if c, ok := in.(*ssa.Call); ok && !c.Call.IsInvoke() {
				if sc := c.Call.StaticCallee(); sc != nil && sc.Name() == p.nm("add") && len(c.Call.Args) > 0 {
					if fv, _ := loadedField(c.Call.Args[0]); fv != nil {
						r = fv
					}
				}
			}
		})
		return r
	}
	a.FG = setOf(p.Func(cl, "(*Conn).Handle"))
	a.BG = setOf(p.Func(cl, "(*Conn).HandleBG"))
	hsT := "*" + lp + p.nm("hSet")
	for i := 0; i < a.ConnS.NumFields(); i++ {
		f := a.ConnS.Field(i)
		if typeString(f.Type()) == hsT && f != a.FG && f != a.BG {
			if a.Int != nil {
				a.miss("more than three *hSet fields")
			}
			a.Int = f
		}
	}
	if a.FG == nil || a.BG == nil || a.Int == nil || a.FG == a.BG {
		a.miss("handler sets fg/bg/internal")
	}
	a.CfgMe = p.FieldVar(cl, "Config", "Me")
	a.CfgPass = p.FieldVar(cl, "Config", "Pass")
	a.CfgRecover = p.FieldVar(cl, "Config", "Recover")
	a.CfgFlood = p.FieldVar(cl, "Config", "Flood")
	a.CfgServer = p.FieldVar(cl, "Config", "Server")
	if a.CfgMe == nil || a.CfgPass == nil || a.CfgRecover == nil || a.CfgFlood == nil || a.CfgServer == nil {
		a.miss("Config fields Me/Pass/Recover/Flood/Server")
	}
	a.ConnDispatch = p.Func(cl, "(*Conn).dispatch")
	a.SetDispatch = p.Func(cl, "(*hSet).dispatch")
	a.Raw = p.Func(cl, "(*Conn).Raw")
	if a.SetDispatch == nil {
		a.miss("(*hSet).dispatch")
	}
	// teardown: function with a dispatch of a Line literal whose Cmd is DISCONNECTED
	for _, fn := range p.ModFuncs {
		if fn.Package() != cl {
			continue
		}
		for _, d := range p.EventDispatches(fn, a) {
			if d.Cmd == "DISCONNECTED" {
				if a.Teardown != nil && a.Teardown != fn {
					a.miss("more than one function dispatches DISCONNECTED: %s and %s", p.FuncKey(a.Teardown), p.FuncKey(fn))
				}
				a.Teardown = fn
			}
		}
		// connect routine: stores constant true to the connected flag
		funcInstrs(fn, func(in ssa.Instruction) {
			if s, ok := in.(*ssa.Store); ok {
				if fv, _ := fieldOf(s.Addr); fv != nil && fv == a.Connected {
					if c, ok := s.Val.(*ssa.Const); ok && c.Value != nil && c.Value.String() == "true" {
						if a.Connect != nil && a.Connect != fn {
							a.miss("more than one function sets connected=true")
						}
						a.Connect = fn
					}
				}
			}
		})
	}
	if a.Teardown == nil {
		a.miss("teardown function (dispatch of DISCONNECTED)")
	}
	// the connect routine may delegate the store to a trivial setter: straight-line, no calls, unexported, called
	// once - then the routine is that caller and the call is where the flag becomes true
	if f := a.Connect; f != nil {
		funcInstrs(f, func(in ssa.Instruction) {
			if s, ok := in.(*ssa.Store); ok {
				if fv, _ := fieldOf(s.Addr); fv == a.Connected {
					a.ConnectSet = in
				}
			}
		})
		trivial := len(f.Blocks) == 1 && f.Object() != nil && !f.Object().Exported() && !addrTaken(f)
		funcInstrs(f, func(in ssa.Instruction) {
			switch in.(type) {
			case *ssa.Call, *ssa.Go, *ssa.Defer, *ssa.Send, *ssa.MapUpdate:
				trivial = false
			}
		})
		if sites := p.staticCallers(f); trivial && len(sites) == 1 {
			if call, ok := sites[0].(*ssa.Call); ok && call.Parent().Package() == cl {
				a.FlagSetter = f
				a.Connect = call.Parent()
				a.ConnectSet = call
			}
		}
	}
	// the core: the function storing false to the connected flag
	for _, fn := range p.ModFuncs {
		if fn.Package() != cl {
			continue
		}
		funcInstrs(fn, func(in ssa.Instruction) {
			if s, ok := in.(*ssa.Store); ok {
				if fv, _ := fieldOf(s.Addr); fv != nil && fv == a.Connected {
					if c, ok := s.Val.(*ssa.Const); ok && c.Value != nil && c.Value.String() == "false" {
						if a.TeardownCore != nil && a.TeardownCore != fn {
							a.miss("more than one function clears the connected flag")
						}
						a.TeardownCore = fn
					}
				}
			}
		})
	}
	// the teardown may delegate the store to a trivial clearer (straight-line, no calls, unexported, called once)
	if f := a.TeardownCore; f != nil && f != a.Teardown {
		trivial := len(f.Blocks) == 1 && f.Object() != nil && !f.Object().Exported() && !addrTaken(f)
		funcInstrs(f, func(in ssa.Instruction) {
			switch in.(type) {
			case *ssa.Call, *ssa.Go, *ssa.Defer, *ssa.Send, *ssa.MapUpdate:
				trivial = false
			}
		})
		if sites := p.staticCallers(f); trivial && len(sites) == 1 {
			if call, ok := sites[0].(*ssa.Call); ok && call.Parent().Package() == cl {
				a.FlagClearer = f
				a.TeardownCore = call.Parent()
			}
		}
	}
	if a.TeardownCore == nil {
		a.TeardownCore = a.Teardown
	}
	if a.Connect == nil {
		a.miss("connect routine (store true to connected flag)")
	}
	// members: functions spawned by Go where the spawner did Add on the Conn WG
	seen := map[*ssa.Function]bool{}
	for _, fn := range p.ModFuncs {
		if fn.Package() != cl {
			continue
		}
		addsWG := false
		funcInstrs(fn, func(in ssa.Instruction) {
			if p.isWGCall(in, a.WG, "Add") {
				addsWG = true
			}
		})
		if !addsWG {
			continue
		}
		funcInstrs(fn, func(in ssa.Instruction) {
			if g, ok := in.(*ssa.Go); ok {
				if sc := g.Call.StaticCallee(); sc != nil && !seen[sc] {
					seen[sc] = true
					a.Members = append(a.Members, sc)
				}
			}
		})
	}
	if len(a.Members) < 3 {
		// not fatal for every property: the rules that need the connection goroutines have floors on them and fail
		// closed individually; properties about the parser, the tracker or the command API do not depend on them
		a.Soft = append(a.Soft, fmt.Sprintf("connection goroutines (members of the Conn WaitGroup): found %d", len(a.Members)))
	}
	a.IntTable = p.handlerTable("intHandlers")
	a.StTable = p.handlerTable("stHandlers")
	// a table entry that only forwards (func (conn) h_X(line) { conn.x(line) }) stands for the method it calls:
	// the rules read what a handler does, and that is in the delegate. The entries as written stay available.
	a.IntTableRaw, a.StTableRaw = map[string]*ssa.Function{}, map[string]*ssa.Function{}
	for k, f := range a.IntTable {
		a.IntTableRaw[k] = f
		if d := p.forwardsTo(f); d != nil {
			a.IntTable[k] = d
		}
	}
	for k, f := range a.StTable {
		a.StTableRaw[k] = f
		if d := p.forwardsTo(f); d != nil {
			a.StTable[k] = d
		}
	}
	if len(a.IntTable) == 0 || len(a.StTable) == 0 {
		a.miss("handler tables intHandlers/stHandlers")
	}
	return a
}

// isWGCall: in is a call of sync.WaitGroup.<method> on field wg of Conn.
func (p *Prog) isWGCall(in ssa.Instruction, wg *types.Var, method string) bool {
	cc := callOf(in)
	if cc == nil || cc.IsInvoke() {
		return false
	}
	if calleeName(cc) != "(*sync.WaitGroup)."+method || len(cc.Args) == 0 {
		return false
	}
	fv, _ := fieldOf(cc.Args[0])
	return fv != nil && fv == wg
}

// handlerTable reads a package-level map[string]HandlerFunc composite literal
// from the package initialiser: key -> handler function.
func (p *Prog) handlerTable(name string) map[string]*ssa.Function {
	return p.handlerTableNamed(p.nm(name))
}

func (p *Prog) handlerTableNamed(name string) map[string]*ssa.Function {
	g, _ := p.Client.Members[name].(*ssa.Global)
	if g == nil {
		return nil
	}
	init := p.Client.Func("init")
	if init == nil {
		return nil
	}
	out := map[string]*ssa.Function{}
	// find the MakeMap stored to g
	var mm ssa.Value
	funcInstrs(init, func(in ssa.Instruction) {
		if s, ok := in.(*ssa.Store); ok && s.Addr == g {
			mm = s.Val
		}
	})
	if mm == nil {
		return nil
	}
	funcInstrs(init, func(in ssa.Instruction) {
		mu, ok := in.(*ssa.MapUpdate)
		if !ok || mu.Map != mm {
			return
		}
		k, ok := constString(mu.Key)
		if !ok {
			return
		}
		fn := p.funcValue(mu.Value)
		if fn != nil {
			out[k] = fn
		}
	})
	return out
}

// funcValue resolves a function-typed value to the module function it
// denotes, looking through conversions and method-expression thunks.
func (p *Prog) funcValue(v ssa.Value) *ssa.Function {
	v = stripConv(v)
	switch t := v.(type) {
	case *ssa.Function:
		return p.unthunk(t)
	case *ssa.MakeClosure:
		if f, ok := t.Fn.(*ssa.Function); ok {
			return p.unthunk(f)
		}
	}
	return nil
}

// unthunk: a synthetic thunk/bound wrapper whose body is a single call.
func (p *Prog) unthunk(f *ssa.Function) *ssa.Function {
	for i := 0; i < 3 && f != nil && f.Synthetic != "" && f.Blocks != nil; i++ {
		var callee *ssa.Function
		n := 0
		funcInstrs(f, func(in ssa.Instruction) {
			if c, ok := in.(*ssa.Call); ok {
				n++
				callee = c.Call.StaticCallee()
			}
		})
		if n != 1 || callee == nil {
			return f
		}
		f = callee
	}
	return f
}

// EventDispatch is a call of (*Conn).dispatch with a Line literal of known Cmd.
type EventDispatch struct {
	Site ssa.CallInstruction
	Cmd  string
}

// EventDispatches finds calls conn.dispatch(&Line{Cmd: <const>, ...}) in fn.
func (p *Prog) EventDispatches(fn *ssa.Function, a *Anchors) []EventDispatch {
	var out []EventDispatch
	disp := p.Func(p.Client, "(*Conn).dispatch")
	cmdVar := p.FieldVar(p.Client, "Line", "Cmd")
	for _, cs := range CallSites(fn) {
		cc := cs.Common()
		// through an event helper: func (conn) fire(cmd string) { conn.dispatch(&Line{Cmd: cmd, ...}) }
		if h := cc.StaticCallee(); h != nil && !cc.IsInvoke() && h != disp {
			if idx := p.eventHelperParam(h, disp, cmdVar); idx >= 0 && idx < len(cc.Args) {
				if c, ok := constString(cc.Args[idx]); ok {
					out = append(out, EventDispatch{cs, c})
				}
			}
			continue
		}
		if cc.IsInvoke() || cc.StaticCallee() != disp || len(cc.Args) < 2 {
			continue
		}
		al, ok := cc.Args[1].(*ssa.Alloc)
		if !ok {
			continue
		}
		// find store of const to al.Cmd
		for _, ref := range *al.Referrers() {
			fa, ok := ref.(*ssa.FieldAddr)
			if !ok {
				continue
			}
			if fv, _ := fieldOf(fa); fv != cmdVar {
				continue
			}
			for _, r2 := range *fa.Referrers() {
				if s, ok := r2.(*ssa.Store); ok {
					if c, ok := constString(s.Val); ok {
						out = append(out, EventDispatch{cs, c})
					}
				}
			}
		}
	}
	return out
}

// eventHelperParam: h is a module function that on every path dispatches a
// Line literal whose Cmd is its own parameter i (and does nothing else with
// the event); returns i, or -1.
func (p *Prog) eventHelperParam(h, disp *ssa.Function, cmdVar *types.Var) int {
	if !p.InModuleFn(h) || h.Package() != p.Client {
		return -1
	}
	if p.evHelper == nil {
		p.evHelper = map[*ssa.Function]int{}
	}
	if v, ok := p.evHelper[h]; ok {
		return v - 1
	}
	p.evHelper[h] = 0
	res := -1
	var site ssa.Instruction
	for _, cs := range CallSites(h) {
		cc := cs.Common()
		if cc.IsInvoke() || cc.StaticCallee() != disp || len(cc.Args) < 2 {
			continue
		}
		if _, isCall := cs.(*ssa.Call); !isCall {
			continue
		}
		al, ok := cc.Args[1].(*ssa.Alloc)
		if !ok {
			continue
		}
		for _, ref := range *al.Referrers() {
			fa, ok := ref.(*ssa.FieldAddr)
			if !ok {
				continue
			}
			if fv, _ := fieldOf(fa); fv != cmdVar {
				continue
			}
			for _, r2 := range *fa.Referrers() {
				if s, ok := r2.(*ssa.Store); ok {
					if pr, isP := s.Val.(*ssa.Parameter); isP {
						for i, q := range h.Params {
							if q == pr {
								res, site = i, cs
							}
						}
					}
				}
			}
		}
	}
	if res >= 0 {
		if all, _ := AllPathsFromEntryPass(h, func(in ssa.Instruction) bool { return in == site }); !all {
			res = -1
		}
	}
	p.evHelper[h] = res + 1
	return res
}

// isIO: fv is the connection's buffered reader/writer (or one of its halves).
func (a *Anchors) isIO(fv *types.Var) bool {
	for _, f := range a.IOFields {
		if f == fv && fv != nil {
			return true
		}
	}
	return false
}

// derivesFromIO: v is loaded from the connection's buffered I/O field(s).
func (c *Ctx) derivesFromIO(v ssa.Value) bool {
	for _, f := range c.A.IOFields {
		if c.derivesFromField(v, f) {
			return true
		}
	}
	return false
}

// forwardsTo: fn (a handler: receiver, line) does nothing but call one
// unexported method of its receiver with the same line, a method that nothing
// else calls or takes the value of: that method; otherwise nil.
func (p *Prog) forwardsTo(fn *ssa.Function) *ssa.Function {
	if fn == nil || len(fn.Blocks) != 1 || len(fn.Params) != 2 {
		return nil
	}
	var only *ssa.Call
	n, other := 0, false
	funcInstrs(fn, func(in ssa.Instruction) {
		switch t := in.(type) {
		case *ssa.Call:
			n++
			only = t
		case *ssa.Return, *ssa.DebugRef:
		default:
			other = true
		}
	})
	if n != 1 || other || only == nil || only.Call.IsInvoke() {
		return nil
	}
	h := only.Call.StaticCallee()
	if h == nil || !p.InModuleFn(h) || h.Package() != fn.Package() || h.Blocks == nil || (h.Object() != nil && h.Object().Exported()) || addrTaken(h) || len(h.Params) != 2 {
		return nil
	}
	if len(only.Call.Args) != 2 || only.Call.Args[0] != ssa.Value(fn.Params[0]) || only.Call.Args[1] != ssa.Value(fn.Params[1]) || len(p.staticCallers(h)) != 1 {
		return nil
	}
	return h
}

// followForward: when fn does nothing but call one unexported method of its
// receiver with its own parameters, in order, and return what it returns - an
// exported name kept as a thin wrapper - the method that does the work;
// otherwise fn itself.
func (p *Prog) followForward(fn *ssa.Function) *ssa.Function {
	if fn == nil || len(fn.Blocks) != 1 || len(fn.Params) == 0 {
		return fn
	}
	var only *ssa.Call
	n, other := 0, false
	var ret *ssa.Return
	funcInstrs(fn, func(in ssa.Instruction) {
		switch t := in.(type) {
		case *ssa.Call:
			n++
			only = t
		case *ssa.Return:
			ret = t
		case *ssa.DebugRef, *ssa.Extract:
		default:
			other = true
		}
	})
	if n != 1 || other || only == nil || only.Call.IsInvoke() {
		return fn
	}
	h := only.Call.StaticCallee()
	if h == nil || !p.InModuleFn(h) || h.Package() != fn.Package() || h.Blocks == nil || (h.Object() != nil && h.Object().Exported()) || addrTaken(h) {
		return fn
	}
	if len(only.Call.Args) != len(fn.Params) || len(p.staticCallers(h)) != 1 {
		return fn
	}
	for i, av := range only.Call.Args {
		if av != ssa.Value(fn.Params[i]) {
			return fn
		}
	}
	// every result is the callee's
	if ret != nil {
		for _, rv := range ret.Results {
			if rv == ssa.Value(only) {
				continue
			}
			if ex, ok := rv.(*ssa.Extract); ok && ex.Tuple == ssa.Value(only) {
				continue
			}
			return fn
		}
	}
	return h
}
