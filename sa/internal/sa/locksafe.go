package sa

import (
	"fmt"
	"sort"

	"golang.org/x/tools/go/ssa"
)

// panicSafeLocksRule: a lock released by an explicit Unlock stays locked when
// a panic unwinds through the critical section (the recovery hook then keeps
// the process alive with the lock held for ever). Every potentially panicking
// instruction executed under such a hold must therefore be proved safe.
func (c *Ctx) panicSafeLocksRule(rule string) {
	r := c.R
	var funcs []*ssa.Function
	for _, f := range c.ModFuncs {
		if f.Package() == c.Client || f.Package() == c.State {
			funcs = append(funcs, f)
		}
	}
	p := c.NewProver()
	nDeferred, nExplicit, nOb := 0, 0, 0
	obsOf := map[*ssa.Function][]obligation{}
	obs := func(fn *ssa.Function) []obligation {
		if o, ok := obsOf[fn]; ok {
			return o
		}
		o := c.panicObligations(fn)
		sort.SliceStable(o, func(i, j int) bool { return o[i].In.Pos() < o[j].In.Pos() })
		obsOf[fn] = o
		return o
	}
	for _, fn := range funcs {
		funcInstrs(fn, func(in ssa.Instruction) {
			op, ok := c.lockOpOf(in)
			if !ok || op.Deferred || (op.Method != "Lock" && op.Method != "RLock") {
				return
			}
			// panic-safe form: a deferred unlock of the same lock that the acquisition dominates and that is
			// reached before anything else can fail (it directly follows the acquisition in the same block)
			safe := false
			funcInstrs(fn, func(x ssa.Instruction) {
				if o2, ok := c.lockOpOf(x); ok && o2.Deferred && o2.Obj == op.Obj && (o2.Method == "Unlock" || o2.Method == "RUnlock") {
					if x.Block() == in.Block() && instrIndex(x) > instrIndex(in) {
						clean := true
						for _, y := range in.Block().Instrs[instrIndex(in)+1 : instrIndex(x)] {
							switch y.(type) {
							case *ssa.FieldAddr, *ssa.UnOp, *ssa.DebugRef, *ssa.MakeClosure:
							default:
								clean = false
							}
						}
						if clean {
							safe = true
						}
					}
				}
			})
			if safe {
				nDeferred++
				return
			}
			nExplicit++
			region := ReachFrom(in, false, func(x ssa.Instruction) bool {
				o2, ok := c.lockOpOf(x)
				return ok && !o2.Deferred && o2.Obj == op.Obj && (o2.Method == "Unlock" || o2.Method == "RUnlock")
			})
			// callees run under the hold
			var roots []*ssa.Function
			for x := range region {
				cs, ok := x.(ssa.CallInstruction)
				if !ok {
					continue
				}
				if _, isGo := x.(*ssa.Go); isGo {
					continue
				}
				for _, e := range c.Callees(cs) {
					if e.Callee != nil && c.InModuleFn(e.Callee) && e.Callee.Package() != c.Logging {
						roots = append(roots, e.Callee)
					}
				}
			}
			under := c.Closure(roots, func(from *ssa.Function, e Edge) bool {
				return e.Kind != EdgeGo && e.Callee.Package() != c.Logging && !c.protectedCall(e.Site) && !c.isHandlerIface(e.Site.Common().Value.Type())
			})
			check := func(f *ssa.Function, filter map[ssa.Instruction]bool) {
				cnt := map[string]int{}
				for _, ob := range obs(f) {
					cnt[ob.Kind]++
					if filter != nil && !filter[ob.In] {
						continue
					}
					nOb++
					okD, why := c.discharge(p, ob)
					r.Add(rule, fmt.Sprintf("under:%s@%s:%s:%s#%d", op.Obj, c.FuncKey(fn), c.FuncKey(f), ob.Kind, cnt[ob.Kind]), c.InstrPos(ob.In), c.FuncKey(f),
						ob.Kind+" cannot panic while "+op.Obj+" is held without a deferred unlock: "+ob.Desc, okD,
						why+" [lock taken at "+c.InstrPos(in)+", released by an explicit Unlock only]")
				}
			}
			check(fn, region)
			for _, f := range under.Order {
				if c.InModuleFn(f) {
					check(f, nil)
				}
			}
		})
	}
	r.Floor(rule, "lock acquisitions in client and state", nDeferred+nExplicit, 10)
	r.Note("%s: %d acquisitions followed at once by a deferred unlock, %d released explicitly, %d panic obligations under explicit holds", rule, nDeferred, nExplicit, nOb)
}

// handlerSpawnsRule: a goroutine started from handler code begins with an
// empty stack, so the recovery hook deferred around the handler does not cover
// it. Every go statement in the code reachable from the built-in handlers
// (by plain calls) must therefore start the dispatch machinery (whose own
// frames are examined elsewhere), a function that defers the recovery hook
// itself before doing anything else, or a function in which nothing can panic:
// all panic obligations of it and its callees proved, and no call into code
// the library does not own (interfaces, function values).
func (c *Ctx) handlerSpawnsRule(rule string) {
	r, a := c.R, c.A
	var roots []*ssa.Function
	var names []string
	for k := range a.IntTable {
		names = append(names, "i:"+k)
	}
	for k := range a.StTable {
		names = append(names, "s:"+k)
	}
	sort.Strings(names)
	for _, k := range names {
		if k[0] == 'i' {
			roots = append(roots, a.IntTable[k[2:]])
		} else {
			roots = append(roots, a.StTable[k[2:]])
		}
	}
	region := c.Closure(roots, func(from *ssa.Function, e Edge) bool {
		return e.Kind != EdgeGo && !e.Site.Common().IsInvoke() && e.Callee.Package() == c.Client && e.Callee != a.ConnDispatch && e.Callee != a.SetDispatch
	})
	p := c.NewProver()
	n := 0
	for _, fn := range region.Order {
		if !c.InModuleFn(fn) {
			continue
		}
		for _, cs := range CallSites(fn) {
			g, isGo := cs.(*ssa.Go)
			if !isGo {
				continue
			}
			n++
			edges := c.Callees(g)
			ok, why := len(edges) > 0, "target not resolved"
			for _, e := range edges {
				t := e.Callee
				if t == nil || !c.InModuleFn(t) {
					ok, why = false, "spawns code outside the module or an unresolved function value"
					continue
				}
				if t == a.SetDispatch || t == a.ConnDispatch {
					why = "starts the dispatch machinery"
					continue
				}
				if ds := c.recoverDefers(t); len(ds) > 0 && instrIndex(ds[0]) <= 3 && ds[0].Block() == t.Blocks[0] {
					why = "the goroutine defers the recovery hook first"
					continue
				}
				// nothing in it may panic
				sub := c.Closure([]*ssa.Function{t}, func(from *ssa.Function, e2 Edge) bool {
					return e2.Kind != EdgeGo && e2.Callee.Package() != c.Logging
				})
				for _, f := range sub.Order {
					if !c.InModuleFn(f) || f.Package() == c.Logging {
						continue
					}
					for _, ob := range c.panicObligations(f) {
						if okD, whyD := c.discharge(p, ob); !okD {
							ok, why = false, ob.Kind+" at "+c.InstrPos(ob.In)+" can panic outside any recovered frame: "+whyD
						}
					}
					for _, x := range CallSites(f) {
						cc := x.Common()
						if _, isB := cc.Value.(*ssa.Builtin); isB {
							continue
						}
						if cc.IsInvoke() && !c.inModule(cc.Method.Pkg()) {
							ok, why = false, "calls "+cc.Method.Name()+" on a value the library does not own ("+cc.Value.Type().String()+") at "+c.InstrPos(x)+" outside any recovered frame"
						}
						if !cc.IsInvoke() && cc.StaticCallee() == nil {
							if ts := c.dynamicTargets(cc.Value, f, 0); len(ts) == 0 {
								ok, why = false, "calls a function value at "+c.InstrPos(x)+" outside any recovered frame"
							}
						}
					}
				}
				if ok && why == "target not resolved" {
					why = "nothing in the spawned function can panic"
				}
			}
			r.Add(rule, fmt.Sprintf("handler-spawn:%s#%d", c.FuncKey(fn), n), c.InstrPos(g), c.FuncKey(fn), "a goroutine started from built-in handler code cannot panic unrecovered", ok, why)
		}
	}
	r.Note("%s: %d go statements in code reachable from the built-in handlers by plain calls", rule, n)
}
