package sa

import (
	"fmt"
	"go/token"
	"go/types"
	"sort"
	"strings"

	"golang.org/x/tools/go/ssa"
)

// ---------- abstract string values ----------

// bset is a set of byte values; bit 256 ("End") is kept separately.
type bset [4]uint64

func (b *bset) add(c byte)     { b[c>>6] |= 1 << (c & 63) }
func (b bset) has(c byte) bool { return b[c>>6]&(1<<(c&63)) != 0 }
func (b bset) union(o bset) bset {
	for i := range b {
		b[i] |= o[i]
	}
	return b
}
func (b bset) inter(o bset) bset {
	for i := range b {
		b[i] &= o[i]
	}
	return b
}
func (b bset) subsetOf(o bset) bool {
	for i := range b {
		if b[i]&^o[i] != 0 {
			return false
		}
	}
	return true
}
func (b bset) empty() bool { return b == bset{} }
func allBytes() bset       { return bset{^uint64(0), ^uint64(0), ^uint64(0), ^uint64(0)} }
func bytesOf(s string) bset {
	var b bset
	for i := 0; i < len(s); i++ {
		b.add(s[i])
	}
	return b
}
func (b bset) String() string {
	var parts []string
	for c := 0; c < 256; c++ {
		if b.has(byte(c)) {
			parts = append(parts, strings.Trim(strings.ReplaceAll(string(rune(c)), "\n", "\\n"), ""))
		}
		if len(parts) > 6 {
			parts = append(parts, "..")
			break
		}
	}
	return "{" + strings.Join(parts, ",") + "}"
}

// Abs is the abstract value of a (string-carrying) SSA value.
//
//	Pre/Exact/Next: the value starts with the constant Pre; if Exact it equals
//	  Pre; otherwise the byte following Pre is in Next, or the string ends
//	  there if End.
//	NoB: bytes provably absent from the value.
//	Cut: the value equals Cut.Src truncated at the first byte of Cut.Seps.
//	Taint: label -> constant prefix shared by every string carrying the label.
//	First: for slices, the abstract value of element 0 when known separately.
type Abs struct {
	Bot   bool
	Pre   string
	Exact bool
	Next  bset
	End   bool
	NoB   bset
	Cut   *CutInfo
	Taint map[string]string
	First *Abs
	// Flds: for struct values, the abstract value of individual fields where known separately (a record built
	// in a local variable and passed by value keeps its fields apart)
	Flds map[*types.Var]*Abs
}

// fldKey: the field fv of the struct held in the local variable al.
type fldKey struct {
	al *ssa.Alloc
	fv *types.Var
}

type CutInfo struct {
	Src  ssa.Value
	Seps bset
}

func bot() *Abs { return &Abs{Bot: true} }
func top() *Abs { return &Abs{Next: allBytes(), End: true} }
func constAbs(s string) *Abs {
	a := &Abs{Pre: s, Exact: true, NoB: allBytes()}
	for i := 0; i < len(s); i++ {
		a.NoB[s[i]>>6] &^= 1 << (s[i] & 63)
	}
	return a
}

func (a *Abs) clone() *Abs {
	if a == nil {
		return nil
	}
	n := *a
	if a.Taint != nil {
		n.Taint = map[string]string{}
		for k, v := range a.Taint {
			n.Taint[k] = v
		}
	}
	if a.Cut != nil {
		c := *a.Cut
		n.Cut = &c
	}
	if a.First != nil {
		n.First = a.First.clone()
	}
	if a.Flds != nil {
		n.Flds = map[*types.Var]*Abs{}
		for k, v := range a.Flds {
			n.Flds[k] = v.clone()
		}
	}
	return &n
}

func (a *Abs) tainted() bool { return a != nil && len(a.Taint) > 0 }

func (a *Abs) String() string {
	if a == nil {
		return "<nil>"
	}
	if a.Bot {
		return "⊥"
	}
	s := "pre=" + strconvQuote(a.Pre)
	if a.Exact {
		s += " exact"
	}
	if len(a.Taint) > 0 {
		var ks []string
		for k, v := range a.Taint {
			ks = append(ks, k+":"+strconvQuote(v))
		}
		sort.Strings(ks)
		s += " taint=" + strings.Join(ks, ",")
	}
	if a.Cut != nil {
		s += " cut"
	}
	if len(a.Flds) > 0 {
		var ks []string
		for k, v := range a.Flds {
			ks = append(ks, k.Name()+"={"+v.String()+"}")
		}
		sort.Strings(ks)
		s += " fields[" + strings.Join(ks, " ") + "]"
	}
	return s
}

func strconvQuote(s string) string {
	r := strings.NewReplacer("\r", "\\r", "\n", "\\n", "\x01", "\\x01")
	return "\"" + r.Replace(s) + "\""
}

func lcp(a, b string) string {
	i := 0
	for i < len(a) && i < len(b) && a[i] == b[i] {
		i++
	}
	return a[:i]
}

// firstSet: possible first bytes of a (and whether it may be empty).
func (a *Abs) firstSet() (bset, bool) {
	if a.Pre != "" {
		var b bset
		b.add(a.Pre[0])
		return b, false
	}
	if a.Exact {
		return bset{}, true
	}
	return a.Next, a.End
}

// nextAfter: possible byte following the first n bytes of Pre (n <= len(Pre)).
func (a *Abs) nextAfter(n int) (bset, bool) {
	if n < len(a.Pre) {
		var b bset
		b.add(a.Pre[n])
		return b, false
	}
	if a.Exact {
		return bset{}, true
	}
	return a.Next, a.End
}

func eqAbs(a, b *Abs) bool {
	if a == nil || b == nil {
		return a == b
	}
	if a.Bot != b.Bot || a.Pre != b.Pre || a.Exact != b.Exact || a.Next != b.Next || a.End != b.End || a.NoB != b.NoB {
		return false
	}
	if (a.Cut == nil) != (b.Cut == nil) || (a.Cut != nil && *a.Cut != *b.Cut) {
		return false
	}
	if len(a.Taint) != len(b.Taint) {
		return false
	}
	for k, v := range a.Taint {
		if w, ok := b.Taint[k]; !ok || w != v {
			return false
		}
	}
	if (a.First == nil) != (b.First == nil) {
		return false
	}
	if a.First != nil && !eqAbs(a.First, b.First) {
		return false
	}
	if len(a.Flds) != len(b.Flds) {
		return false
	}
	for k, v := range a.Flds {
		if w, ok := b.Flds[k]; !ok || !eqAbs(v, w) {
			return false
		}
	}
	return true
}

// join: least upper bound.
func join(a, b *Abs) *Abs {
	if a == nil || a.Bot {
		return b.clone()
	}
	if b == nil || b.Bot {
		return a.clone()
	}
	n := &Abs{}
	l := lcp(a.Pre, b.Pre)
	n.Pre = l
	if a.Exact && b.Exact && a.Pre == b.Pre {
		n.Exact = true
	} else {
		na, ea := a.nextAfter(len(l))
		nb, eb := b.nextAfter(len(l))
		n.Next = na.union(nb)
		n.End = ea || eb
	}
	n.NoB = a.NoB.inter(b.NoB)
	if a.Cut != nil && b.Cut != nil && *a.Cut == *b.Cut {
		c := *a.Cut
		n.Cut = &c
	}
	if len(a.Taint) > 0 || len(b.Taint) > 0 {
		n.Taint = map[string]string{}
		for k, v := range a.Taint {
			n.Taint[k] = v
		}
		for k, v := range b.Taint {
			if w, ok := n.Taint[k]; ok {
				n.Taint[k] = lcp(w, v)
			} else {
				n.Taint[k] = v
			}
		}
	}
	if a.First != nil && b.First != nil {
		n.First = join(a.First, b.First)
	}
	if a.Flds != nil && b.Flds != nil {
		for k, v := range a.Flds {
			if w, ok := b.Flds[k]; ok {
				if n.Flds == nil {
					n.Flds = map[*types.Var]*Abs{}
				}
				n.Flds[k] = join(v, w)
			}
		}
	}
	return n
}

// concat: abstract string concatenation a + b.
func concat(a, b *Abs) *Abs {
	if a == nil || a.Bot || b == nil || b.Bot {
		return bot()
	}
	n := &Abs{}
	if a.Exact {
		n.Pre = a.Pre + b.Pre
		n.Exact = b.Exact
		n.Next, n.End = b.Next, b.End
	} else {
		n.Pre = a.Pre
		n.Next = a.Next
		if a.End {
			fb, eb := b.firstSet()
			n.Next = n.Next.union(fb)
			n.End = eb
		}
	}
	n.NoB = a.NoB.inter(b.NoB)
	if len(a.Taint) > 0 || len(b.Taint) > 0 {
		n.Taint = map[string]string{}
		// labels of a keep their prefix; if a is exact, labels of b get a.Pre + prefix
		for k, v := range a.Taint {
			n.Taint[k] = v
		}
		for k, v := range b.Taint {
			p := ""
			if a.Exact {
				p = a.Pre + v
			} else {
				p = a.Pre
			}
			if w, ok := n.Taint[k]; ok {
				n.Taint[k] = lcp(w, p)
			} else {
				n.Taint[k] = p
			}
		}
	}
	return n
}

// taintOnly: an abstract value carrying only the taint of the inputs, with
// unknown shape (used for results of opaque operations).
func taintOnly(prefixKnown bool, in ...*Abs) *Abs {
	n := top()
	for _, a := range in {
		if a == nil || a.Bot {
			continue
		}
		for k := range a.Taint {
			if n.Taint == nil {
				n.Taint = map[string]string{}
			}
			n.Taint[k] = ""
		}
		if a.First != nil {
			for k := range a.First.Taint {
				if n.Taint == nil {
					n.Taint = map[string]string{}
				}
				n.Taint[k] = ""
			}
		}
	}
	return n
}

// carriesText: values of this type may carry (parts of) a string.
func carriesText(t types.Type) bool {
	switch u := t.Underlying().(type) {
	case *types.Basic:
		return u.Info()&types.IsString != 0 || u.Kind() == types.UntypedNil
	case *types.Slice:
		return carriesText(u.Elem()) || isByte(u.Elem())
	case *types.Array:
		return carriesText(u.Elem()) || isByte(u.Elem())
	case *types.Interface:
		return true
	case *types.Pointer:
		return carriesText(u.Elem())
	case *types.Struct:
		return true
	case *types.Map:
		return carriesText(u.Elem()) || carriesText(u.Key())
	case *types.Tuple:
		for i := 0; i < u.Len(); i++ {
			if carriesText(u.At(i).Type()) {
				return true
			}
		}
		return false
	case *types.Chan:
		return carriesText(u.Elem())
	case *types.Signature:
		return false
	}
	return false
}

func isByte(t types.Type) bool {
	b, ok := t.Underlying().(*types.Basic)
	return ok && (b.Kind() == types.Byte || b.Kind() == types.Uint8 || b.Kind() == types.Rune || b.Kind() == types.Int32)
}

// ---------- the value-flow fixpoint ----------

// Flow is a whole-module, context-insensitive abstract interpretation of
// string-carrying values.
type Flow struct {
	p       *Prog
	funcs   []*ssa.Function
	Val     map[ssa.Value]*Abs
	Cell    map[interface{}]*Abs // *types.Var (field), *ssa.Global, *ssa.Alloc/MakeChan/MakeMap (containers)
	Ret     map[*ssa.Function][]*Abs
	Source  func(v ssa.Value) *Abs // optional: extra abstract value joined in for v (taint sources)
	changed bool
	frozen  map[ssa.Value]bool // values whose abstraction is fixed (context evaluation)
	// polyvariant helpers: unexported functions analysed once per call site. A context flow shares Val/Cell/Ret
	// with its parent (effects write through) and keeps the helper's own values in overlay.
	poly    map[*ssa.Function]bool
	ctxs    map[ssa.CallInstruction]*Flow
	parent  *Flow
	local   map[ssa.Value]bool
	overlay map[ssa.Value]*Abs
	ownRet  []*Abs                      // a context's own return values
	depth   int                         // nesting depth of a context (0: a context of the top-level flow)
	ocell   map[fldKey]*Abs             // a context's own cells for fields of its local struct variables
	ctxSite ssa.CallInstruction         // the call site this context stands for
	polyOf  map[ssa.Value]*ssa.Function // value -> the polyvariant helper defining it
	// NoTaintCallee: external callees whose results never carry their arguments' text
	NoTaint map[string]bool
}

func (p *Prog) NewFlow(funcs []*ssa.Function) *Flow {
	f := p.newFlow0(funcs)
	inSet := map[*ssa.Function]bool{}
	for _, fn := range funcs {
		inSet[fn] = true
	}
	for round := 0; round < 4; round++ {
		for _, fn := range funcs {
			if f.poly[fn] || fn.Parent() != nil || fn.Object() == nil || addrTaken(fn) || len(fn.AnonFuncs) > 0 {
				continue
			}
			if fn.Object().Exported() {
				// an exported method of an unexported type is as private as the type
				rn := recvNamed(fn)
				if rn == nil || rn.Obj().Exported() {
					continue
				}
			}
			var sites []ssa.CallInstruction
			for _, cs := range p.Callers(fn) {
				if cs.Parent().Synthetic != "" && len(p.Callers(cs.Parent())) == 0 {
					continue // the compiler's pointer-receiver wrapper of a value method, never called
				}
				sites = append(sites, cs)
			}
			if len(sites) > 40 {
				continue
			}
			if len(sites) < 2 {
				// a helper with one caller is worth its own context only when that caller has several
				if len(sites) == 0 || !f.poly[sites[0].Parent()] {
					continue
				}
			}
			hasStr, okSites, recursive := false, true, false
			for _, pr := range fn.Params {
				if isStringType(pr.Type()) {
					hasStr = true
				}
				// a record passed by value whose fields hold text (a command under construction)
				if st, isSt := pr.Type().Underlying().(*types.Struct); isSt {
					for i := 0; i < st.NumFields(); i++ {
						if isStringType(st.Field(i).Type()) {
							hasStr = true
						}
					}
				}
			}
			for _, cs := range sites {
				if cs.Common().IsInvoke() || !inSet[cs.Parent()] || cs.Parent() == fn {
					okSites = false
				}
				if _, isCall := cs.(*ssa.Call); !isCall {
					okSites = false
				}
			}
			for _, cs := range CallSites(fn) {
				if cs.Common().StaticCallee() == fn {
					recursive = true
				}
			}
			if hasStr && okSites && !recursive {
				f.poly[fn] = true
				for _, b := range fn.Blocks {
					for _, in := range b.Instrs {
						if v, ok := in.(ssa.Value); ok {
							f.polyOf[v] = fn
						}
					}
				}
				for _, pr := range fn.Params {
					f.polyOf[pr] = fn
				}
			}
		}
	}
	return f
}

// Ctx: the context in which the polyvariant helper called at site is
// evaluated, when there is one.
func (f *Flow) Ctx(site ssa.CallInstruction) *Flow {
	return f.ctxs[site]
}

func (p *Prog) newFlow0(funcs []*ssa.Function) *Flow {
	return &Flow{p: p, funcs: funcs, Val: map[ssa.Value]*Abs{}, Cell: map[interface{}]*Abs{}, Ret: map[*ssa.Function][]*Abs{},
		poly: map[*ssa.Function]bool{}, ctxs: map[ssa.CallInstruction]*Flow{}, polyOf: map[ssa.Value]*ssa.Function{},
		NoTaint: map[string]bool{
			"(*bufio.Writer).WriteString": true, "(*bufio.Writer).Flush": true, "(*bufio.Writer).Write": true,
			"strings.HasPrefix": true, "strings.HasSuffix": true, "strings.Index": true, "strings.LastIndex": true, "strings.IndexAny": true, "strings.Contains": true,
			"time.Now": true, "(time.Time).UnixNano": true, "(time.Time).Sub": true, "time.After": true, "(time.Duration).Seconds": true,
			"runtime.Caller": true, "runtime.FuncForPC": true, "(*runtime.Func).Name": true,
			"(net.Conn).Close": true, "context.WithCancel": true,
		}}
}

func (f *Flow) get(v ssa.Value) *Abs {
	switch t := v.(type) {
	case *ssa.Const:
		if s, ok := constString(t); ok {
			return constAbs(s)
		}
		return top().withNoTaint()
	case *ssa.Function, *ssa.Builtin:
		return top()
	case *ssa.Global:
		return f.cell(t)
	}
	if f.local != nil && f.local[v] {
		if a, ok := f.overlay[v]; ok {
			return a
		}
		return bot()
	}
	if f.parent == nil {
		if _, isPoly := f.polyOf[v]; isPoly {
			// a value of a polyvariant helper seen from outside: join over its contexts
			acc := bot()
			for _, cx := range f.ctxs {
				if cx.local[v] {
					acc = join(acc, cx.overlay[v])
				}
			}
			return acc
		}
	}
	if a, ok := f.Val[v]; ok {
		return a
	}
	return bot()
}

func (a *Abs) withNoTaint() *Abs { a.Taint = nil; return a }

func (f *Flow) cell(k interface{}) *Abs {
	if a, ok := f.Cell[k]; ok {
		return a
	}
	return bot()
}

func (f *Flow) set(v ssa.Value, a *Abs) {
	if a == nil || f.frozen[v] {
		return
	}
	if f.Source != nil {
		if s := f.Source(v); s != nil {
			a = join(a, s)
		}
	}
	m := f.Val
	if f.local != nil && f.local[v] {
		m = f.overlay
	}
	old, ok := m[v]
	n := a
	if ok {
		n = join(old, a)
	}
	if !ok || !eqAbs(old, n) {
		m[v] = n
		f.markChanged()
	}
}

func (f *Flow) markChanged() {
	f.changed = true
	for p := f.parent; p != nil; p = p.parent {
		p.changed = true
	}
}

func (f *Flow) addCell(k interface{}, a *Abs) {
	if a == nil || a.Bot {
		return
	}
	old, ok := f.Cell[k]
	n := a.clone()
	if ok {
		n = join(old, a)
	}
	if !ok || !eqAbs(old, n) {
		f.Cell[k] = n
		f.markChanged()
	}
}

// isMemWriterType: *strings.Builder / *bytes.Buffer (or the struct itself).
func isMemWriterType(t types.Type) bool {
	if pt, ok := t.Underlying().(*types.Pointer); ok {
		t = pt.Elem()
	}
	switch typeString(t) {
	case "strings.Builder", "bytes.Buffer":
		return true
	}
	return false
}

// memWriterKeys: the abstract containers behind an in-memory writer value
// (possibly boxed into an io.Writer); nil if it is not one.
func (f *Flow) memWriterKeys(w ssa.Value) []interface{} {
	var out []interface{}
	for _, o := range f.p.Origins(w) {
		if !isMemWriterType(o.Type()) {
			return nil
		}
		out = append(out, f.containerKey(o))
	}
	return out
}

// containerKey: the abstract container an address or aggregate value denotes.
// structAlloc: addr is a local struct variable whose address does not escape
// (it is only field-addressed, loaded and stored as a whole).
func structAlloc(addr ssa.Value) (*ssa.Alloc, bool) {
	al, ok := addr.(*ssa.Alloc)
	if !ok || !isStructAlloc(al) {
		return nil, false
	}
	if _, isSt := al.Type().Underlying().(*types.Pointer).Elem().Underlying().(*types.Struct); !isSt {
		return nil, false
	}
	for _, ref := range *al.Referrers() {
		switch t := ref.(type) {
		case *ssa.DebugRef, *ssa.FieldAddr:
		case *ssa.UnOp:
			if t.Op != token.MUL {
				return nil, false
			}
		case *ssa.Store:
			if t.Addr != ssa.Value(al) {
				return nil, false
			}
		default:
			return nil, false
		}
	}
	return al, true
}

// fieldWritten: the local struct variable al is stored as a whole, or its
// field number i is stored through a field address.
func fieldWritten(al *ssa.Alloc, i int) bool {
	for _, ref := range *al.Referrers() {
		switch t := ref.(type) {
		case *ssa.Store:
			return true
		case *ssa.FieldAddr:
			if t.Field != i {
				continue
			}
			for _, r2 := range *t.Referrers() {
				if st, ok := r2.(*ssa.Store); ok && st.Addr == ssa.Value(t) {
					return true
				}
				if _, ok := r2.(*ssa.Store); !ok {
					if _, isLoad := r2.(*ssa.UnOp); !isLoad {
						if _, isDbg := r2.(*ssa.DebugRef); !isDbg {
							return true // the field's address goes elsewhere
						}
					}
				}
			}
		}
	}
	return false
}

func (f *Flow) fldCell(k fldKey) (*Abs, bool) {
	if f.local != nil && f.local[k.al] {
		a, ok := f.ocell[k]
		return a, ok
	}
	a, ok := f.Cell[k]
	return a, ok
}

func (f *Flow) addFldCell(k fldKey, a *Abs) {
	if a == nil || a.Bot {
		return
	}
	if f.local != nil && f.local[k.al] {
		if f.ocell == nil {
			f.ocell = map[fldKey]*Abs{}
		}
		old, ok := f.ocell[k]
		n := a
		if ok {
			n = join(old, a)
		}
		if !ok || !eqAbs(old, n) {
			f.ocell[k] = n
			f.markChanged()
		}
		return
	}
	f.addCell(k, a)
}

func (f *Flow) containerKey(v ssa.Value) interface{} {
	for i := 0; i < 8; i++ {
		switch t := v.(type) {
		case *ssa.FieldAddr:
			fv, _ := fieldOf(t)
			return fv
		case *ssa.Field:
			fv, _ := fieldOf(t)
			return fv
		case *ssa.IndexAddr:
			v = t.X
		case *ssa.Slice:
			v = t.X
		case *ssa.Alloc, *ssa.MakeMap, *ssa.MakeChan, *ssa.MakeSlice:
			return v
		case *ssa.Global:
			return t
		case *ssa.ChangeType:
			v = t.X
		default:
			return v // the SSA value itself stands for what it points to
		}
	}
	return v
}

// Run iterates to a fixpoint.
func (f *Flow) Run() {
	for iter := 0; iter < 200; iter++ {
		f.changed = false
		for _, fn := range f.funcs {
			if f.poly[fn] {
				f.stepPoly(fn)
				continue
			}
			f.stepFunc(fn)
		}
		if !f.changed {
			return
		}
	}
}

// nested: the context of a polyvariant helper called at site from inside this
// context, bound to the given arguments and evaluated to its fixpoint.
func (f *Flow) nested(callee *ssa.Function, site ssa.CallInstruction, args []*Abs) *Flow {
	cx := f.ctxs[site]
	if cx == nil {
		cx = &Flow{p: f.p, funcs: f.funcs, Val: f.Val, Cell: f.Cell, Ret: f.Ret, Source: f.Source, NoTaint: f.NoTaint,
			poly: f.poly, ctxs: map[ssa.CallInstruction]*Flow{}, polyOf: f.polyOf, parent: f, local: map[ssa.Value]bool{}, overlay: map[ssa.Value]*Abs{}, ctxSite: site, depth: f.depth + 1}
		for _, b := range callee.Blocks {
			for _, in := range b.Instrs {
				if v, ok := in.(ssa.Value); ok {
					cx.local[v] = true
				}
			}
		}
		for _, pr := range callee.Params {
			cx.local[pr] = true
		}
		f.ctxs[site] = cx
	}
	for i, pr := range callee.Params {
		if i < len(args) {
			cx.set(pr, args[i])
		}
	}
	for it := 0; it < 20; it++ {
		cx.changed = false
		for _, b := range callee.Blocks {
			for _, in := range b.Instrs {
				cx.stepInstr(callee, b, in)
			}
		}
		if !cx.changed {
			break
		}
	}
	return cx
}

// stepPoly evaluates a polyvariant helper once per call site, each in its own
// context whose effects (callee bindings, cells, channel contents) write
// through to the shared maps.
func (f *Flow) stepPoly(fn *ssa.Function) {
	for _, cs := range f.p.Callers(fn) {
		cx := f.ctxs[cs]
		if cx == nil {
			cx = &Flow{p: f.p, funcs: f.funcs, Val: f.Val, Cell: f.Cell, Ret: f.Ret, Source: f.Source, NoTaint: f.NoTaint,
				poly: f.poly, ctxs: map[ssa.CallInstruction]*Flow{}, polyOf: f.polyOf, parent: f, local: map[ssa.Value]bool{}, overlay: map[ssa.Value]*Abs{}, ctxSite: cs}
			for _, b := range fn.Blocks {
				for _, in := range b.Instrs {
					if v, ok := in.(ssa.Value); ok {
						cx.local[v] = true
					}
				}
			}
			for _, pr := range fn.Params {
				cx.local[pr] = true
			}
			f.ctxs[cs] = cx
		}
		args := cs.Common().Args
		for i, pr := range fn.Params {
			if i < len(args) {
				cx.set(pr, f.At(args[i], cs.Block()))
			}
		}
		for it := 0; it < 20; it++ {
			cx.changed = false
			for _, b := range fn.Blocks {
				for _, in := range b.Instrs {
					cx.stepInstr(fn, b, in)
				}
			}
			if !cx.changed {
				break
			}
		}
	}
}

func (f *Flow) stepFunc(fn *ssa.Function) {
	// parameters with no module caller: unknown caller-supplied text
	if len(f.p.Callers(fn)) == 0 || (fn.Object() != nil && fn.Object().Exported()) {
		for _, pr := range fn.Params {
			f.set(pr, top())
		}
	}
	for _, b := range fn.Blocks {
		for _, in := range b.Instrs {
			f.stepInstr(fn, b, in)
		}
	}
}

// refineEdge applies branch refinements of the edge pred->succ to the
// abstract value of v: on the false edge of strings.HasPrefix(v, C) every
// taint label whose prefix begins with C is dropped.
func (f *Flow) refineByCond(v ssa.Value, a *Abs, c Cond) *Abs {
	c = unwrapNot(c)
	if bo, ok := c.V.(*ssa.BinOp); ok && (bo.Op == token.EQL || bo.Op == token.NEQ) {
		// v == "" known to hold: the value is exactly the empty string
		var other ssa.Value
		if s, ok := constString(bo.Y); ok && s == "" {
			other = bo.X
		} else if s, ok := constString(bo.X); ok && s == "" {
			other = bo.Y
		}
		if other == v && (bo.Op == token.EQL) == c.True && !a.Bot {
			return constAbs("")
		}
	}
	if bo, ok := c.V.(*ssa.BinOp); ok {
		// IndexAny(v, seps) < 0 (or == -1) known to hold: v contains none of seps, i.e. v is its own cut
		if seps, okS := f.notFoundCond(bo, c.True, v); okS && !a.Bot {
			return cutAt(a, v, seps)
		}
		return a
	}
	call, ok := c.V.(*ssa.Call)
	if !ok || calleeName(&call.Call) != "strings.HasPrefix" || c.True {
		return a
	}
	if call.Call.Args[0] != v {
		return a
	}
	pfx, ok := constString(call.Call.Args[1])
	if !ok || !a.tainted() {
		return a
	}
	n := a.clone()
	for k, p := range a.Taint {
		if strings.HasPrefix(p, pfx) {
			delete(n.Taint, k)
		}
	}
	return n
}

// At returns the abstract value of v as seen at (the start of) block b,
// refined by the branch conditions that dominate b.
func (f *Flow) At(v ssa.Value, b *ssa.BasicBlock) *Abs {
	if exit := f.p.mappedInPlace(v); exit != nil && blockDom(exit, b) {
		// after a complete "for i := range s { s[i] = ... }" every element of s is one of the values stored
		return f.cell(f.containerKey(v))
	}
	a := f.get(v)
	for _, c := range CondsAt(b) {
		a = f.refineByCond(v, a, c)
	}
	return a
}

func (f *Flow) stepInstr(fn *ssa.Function, b *ssa.BasicBlock, in ssa.Instruction) {
	switch t := in.(type) {
	case *ssa.Phi:
		var acc *Abs = bot()
		for i, e := range t.Edges {
			a := f.At(e, b.Preds[i])
			if c, ok := edgeCond(b.Preds[i], b); ok {
				a = f.refineByCond(e, a, c)
			}
			acc = join(acc, a)
		}
		f.set(t, acc)
	case *ssa.BinOp:
		if t.Op == token.ADD && carriesText(t.Type()) {
			f.set(t, concat(f.At(t.X, b), f.At(t.Y, b)))
		} else {
			f.set(t, top().withNoTaint())
		}
	case *ssa.ChangeType:
		f.set(t, f.get(t.X))
	case *ssa.ChangeInterface:
		f.set(t, f.get(t.X))
	case *ssa.MakeInterface:
		f.set(t, f.At(t.X, b))
	case *ssa.TypeAssert:
		f.set(t, taintOnly(false, f.get(t.X)))
	case *ssa.Convert:
		if carriesText(t.Type()) && carriesText(t.X.Type()) {
			a := f.get(t.X).clone()
			a.Cut = nil
			f.set(t, a)
		} else if carriesText(t.Type()) {
			f.set(t, top().withNoTaint())
		}
	case *ssa.Slice:
		x := f.get(t.X)
		if _, isStr := t.X.Type().Underlying().(*types.Basic); isStr {
			if x.Bot {
				// nothing flows here yet: an early guess would stick in the (monotone) result
				f.set(t, bot())
				break
			}
			if seps, ok := f.indexCut(t); ok && !x.Bot {
				// s[:IndexAny(s, seps)]: s truncated at the first of seps
				f.set(t, cutAt(x, t.X, seps))
				break
			}
			// substring: exclusions and taint preserved, shape mostly lost
			n := taintOnly(false, x)
			n.NoB = x.NoB
			if t.Low == nil {
				// s[:i] is a prefix of s: constant prefix may be cut short
				n.Pre = ""
			}
			f.set(t, n)
		} else {
			k := f.containerKey(t.X)
			f.set(t, join(x, f.cell(k)))
		}
	case *ssa.Alloc:
		f.set(t, f.cell(t))
	case *ssa.MakeSlice, *ssa.MakeMap, *ssa.MakeChan:
		f.set(t.(ssa.Value), f.cell(t))
	case *ssa.FieldAddr, *ssa.IndexAddr:
		// addresses carry the content abstraction of their container
		v := t.(ssa.Value)
		k := f.containerKey(v)
		a := f.cell(k)
		if fa, ok := t.(*ssa.FieldAddr); ok {
			if al, isL := structAlloc(fa.X); isL {
				fv, _ := fieldOf(fa)
				if own, has := f.fldCell(fldKey{al, fv}); has {
					a = own
				} else if fieldWritten(al, fa.Field) {
					a = bot() // nothing has flowed into this variable's field yet
				} else if isStringType(fv.Type()) {
					a = constAbs("")
				}
			}
		}
		if ia, ok := t.(*ssa.IndexAddr); ok {
			base := f.get(ia.X)
			if idx, okc := constInt(ia.Index); okc && idx == 0 && base.First != nil {
				a = base.First
			} else {
				a = join(a, elemOf(base))
			}
		}
		f.set(v, a)
	case *ssa.Field:
		fv, _ := fieldOf(t)
		if own, has := f.get(t.X).Flds[fv]; has && own != nil {
			f.set(t, own)
			break
		}
		f.set(t, join(f.cell(fv), taintOnly(false, f.get(t.X))))
	case *ssa.Index:
		f.set(t, elemOf(f.get(t.X)))
	case *ssa.Lookup:
		if carriesText(t.Type()) {
			f.set(t, join(elemOf(f.get(t.X)), f.cell(f.containerKey(t.X))))
		}
	case *ssa.UnOp:
		switch t.Op {
		case token.MUL:
			// load
			a := f.get(t.X)
			if g, ok := t.X.(*ssa.Global); ok {
				a = f.cell(g)
			}
			if al, isL := structAlloc(t.X); isL {
				// the record as a whole: its fields stay apart
				st := al.Type().Underlying().(*types.Pointer).Elem().Underlying().(*types.Struct)
				var flds map[*types.Var]*Abs
				for i := 0; i < st.NumFields(); i++ {
					if own, has := f.fldCell(fldKey{al, st.Field(i)}); has {
						if flds == nil {
							flds = map[*types.Var]*Abs{}
						}
						flds[st.Field(i)] = own
					} else if carriesText(st.Field(i).Type()) {
						if flds == nil {
							flds = map[*types.Var]*Abs{}
						}
						if fieldWritten(al, i) {
							// written, but nothing has flowed there yet
							flds[st.Field(i)] = bot()
						} else if isStringType(st.Field(i).Type()) {
							// never written: the zero value
							flds[st.Field(i)] = constAbs("")
						}
					}
				}
				if flds != nil {
					a = a.clone()
					if a.Bot {
						a = top().withNoTaint()
					}
					a.Flds = flds
				}
			}
			f.set(t, a)
		case token.ARROW:
			f.set(t, join(f.cell(f.containerKey(t.X)), chanContent(f, t.X)))
		default:
			f.set(t, top().withNoTaint())
		}
	case *ssa.Extract:
		f.set(t, f.extract(t))
	case *ssa.Store:
		v := f.At(t.Val, b)
		k := f.containerKey(t.Addr)
		f.addCell(k, v)
		if fa, ok := t.Addr.(*ssa.FieldAddr); ok {
			if al, isL := structAlloc(fa.X); isL {
				fv, _ := fieldOf(fa)
				f.addFldCell(fldKey{al, fv}, v)
			}
		}
		if al, isL := structAlloc(t.Addr); isL && v != nil && !v.Bot {
			st := al.Type().Underlying().(*types.Pointer).Elem().Underlying().(*types.Struct)
			for i := 0; i < st.NumFields(); i++ {
				fv := st.Field(i)
				if own, has := v.Flds[fv]; has {
					f.addFldCell(fldKey{al, fv}, own)
				} else if carriesText(fv.Type()) {
					// unknown field of the stored record: whatever the field may hold anywhere
					f.addFldCell(fldKey{al, fv}, join(f.cell(fv), taintOnly(false, v)))
				}
			}
		}
		// stores through a pointer parameter / loaded pointer also reach the pointee cell of that value
		f.addValPointee(t.Addr, v)
	case *ssa.MapUpdate:
		k := f.containerKey(t.Map)
		f.addCell(k, join(f.get(t.Value), f.get(t.Key)))
		f.addValPointee(t.Map, join(f.get(t.Value), f.get(t.Key)))
	case *ssa.Send:
		f.sendTo(t.Chan, f.At(t.X, b))
	case *ssa.Select:
		for _, st := range t.States {
			if st.Dir == types.SendOnly {
				f.sendTo(st.Chan, f.get(st.Send))
			}
		}
		// received values are picked up in extract()
		f.set(t, top().withNoTaint())
	case *ssa.Range:
		f.set(t, f.get(t.X))
	case *ssa.Next:
		f.set(t, f.get(t.Iter))
	case *ssa.MakeClosure:
		cf, _ := t.Fn.(*ssa.Function)
		if cf != nil {
			for i, bnd := range t.Bindings {
				if i < len(cf.FreeVars) {
					f.set(cf.FreeVars[i], f.get(bnd))
				}
			}
		}
		f.set(t, top())
	case *ssa.Return:
		rs := f.Ret[fn]
		if rs == nil {
			rs = make([]*Abs, len(t.Results))
			f.Ret[fn] = rs
		}
		for i, r := range t.Results {
			a := f.At(r, b)
			n := join(rs[i], a)
			if !eqAbs(rs[i], n) {
				rs[i] = n
				f.markChanged()
			}
			if f.parent != nil {
				for len(f.ownRet) <= i {
					f.ownRet = append(f.ownRet, nil)
				}
				n2 := join(f.ownRet[i], a)
				if !eqAbs(f.ownRet[i], n2) {
					f.ownRet[i] = n2
					f.markChanged()
				}
			}
		}
	case *ssa.Call:
		f.call(fn, b, t, t)
	case *ssa.Go:
		f.call(fn, b, t, nil)
	case *ssa.Defer:
		f.call(fn, b, t, nil)
	}
}

// addValPointee: a store through an address that is itself an SSA pointer
// value (parameter, loaded pointer): join into that value's abstraction so
// later loads through the same SSA value see it.
func (f *Flow) addValPointee(addr ssa.Value, v *Abs) {
	switch addr.(type) {
	case *ssa.Parameter, *ssa.UnOp, *ssa.Call, *ssa.Phi, *ssa.FreeVar:
		if v != nil && !v.Bot && v.tainted() {
			f.set(addr, taintOnly(false, v))
		}
	}
}

func elemOf(a *Abs) *Abs {
	if a == nil || a.Bot {
		return bot()
	}
	n := a.clone()
	n.First = nil
	return n
}

func chanContent(f *Flow, ch ssa.Value) *Abs {
	acc := bot()
	for _, o := range f.p.Origins(ch) {
		acc = join(acc, f.cell(f.containerKey(o)))
		if fv, _ := loadedField(o); fv != nil {
			acc = join(acc, f.cell(chanKey{fv}))
		}
	}
	return acc
}

type chanKey struct{ fv *types.Var }

func (f *Flow) sendTo(ch ssa.Value, v *Abs) {
	for _, o := range f.p.Origins(ch) {
		if fv, _ := loadedField(o); fv != nil {
			f.addCell(chanKey{fv}, v)
		} else {
			f.addCell(f.containerKey(o), v)
		}
	}
}

func (f *Flow) extract(t *ssa.Extract) *Abs {
	switch tp := t.Tuple.(type) {
	case *ssa.Call:
		if callee := tp.Call.StaticCallee(); callee != nil && f.p.InModuleFn(callee) {
			if f.poly[callee] {
				// the result of this call site's own context
				root := f
				for root.parent != nil {
					root = root.parent
				}
				if f.parent != nil && f.depth < 3 {
					if cx := f.ctxs[tp]; cx != nil && t.Index < len(cx.ownRet) && cx.ownRet[t.Index] != nil {
						return translateCut(cx.ownRet[t.Index], callee, &tp.Call)
					}
					return bot()
				}
				if cx := root.ctxs[tp]; cx != nil && t.Index < len(cx.ownRet) && cx.ownRet[t.Index] != nil {
					return translateCut(cx.ownRet[t.Index], callee, &tp.Call)
				}
				return bot()
			}
			if rs := f.Ret[callee]; rs != nil && t.Index < len(rs) && rs[t.Index] != nil {
				return translateCut(rs[t.Index], callee, &tp.Call)
			}
			return bot()
		}
		if tp.Call.IsInvoke() {
			acc := bot()
			for _, e := range f.p.Callees(tp) {
				if e.Callee != nil {
					if rs := f.Ret[e.Callee]; rs != nil && t.Index < len(rs) {
						acc = join(acc, rs[t.Index])
					}
				} else {
					acc = join(acc, f.get(tp))
				}
			}
			return acc
		}
		if !carriesText(t.Type()) {
			return top().withNoTaint()
		}
		return f.get(tp) // external: tuple abstraction
	case *ssa.Select:
		// index 0: chosen case, 1: recvOk, 2..: received values per recv state
		if t.Index < 2 {
			return top().withNoTaint()
		}
		n := 2
		for _, st := range tp.States {
			if st.Dir == types.RecvOnly {
				if n == t.Index {
					return chanContent(f, st.Chan)
				}
				n++
			}
		}
	case *ssa.Next:
		return elemOf(f.get(tp))
	case *ssa.UnOp: // v, ok := <-ch
		if t.Index == 0 {
			return f.get(tp)
		}
		return top().withNoTaint()
	case *ssa.TypeAssert, *ssa.Lookup:
		if t.Index == 0 {
			return f.get(tp.(ssa.Value))
		}
		return top().withNoTaint()
	}
	return top().withNoTaint()
}

// call handles a call site: binds arguments to parameters of module callees,
// computes the result abstraction.
func (f *Flow) call(fn *ssa.Function, b *ssa.BasicBlock, site ssa.CallInstruction, res *ssa.Call) {
	cc := site.Common()
	args := make([]*Abs, len(cc.Args))
	for i, a := range cc.Args {
		args[i] = f.At(a, b)
	}
	if bi, ok := cc.Value.(*ssa.Builtin); ok {
		if res == nil {
			return
		}
		switch bi.Name() {
		case "append":
			acc := bot()
			for _, a := range args {
				acc = join(acc, a)
			}
			acc = acc.clone()
			if acc != nil {
				acc.First = nil
			}
			f.set(res, acc)
			// appended storage may alias the first argument's container
			f.addCell(f.containerKey(cc.Args[0]), acc)
		case "copy":
			f.addCell(f.containerKey(cc.Args[0]), args[1])
			f.addValPointee(cc.Args[0], args[1])
			f.set(res, top().withNoTaint())
		case "recover":
			f.set(res, top().withNoTaint())
		default:
			f.set(res, top().withNoTaint())
		}
		return
	}
	// in-memory writers (strings.Builder, bytes.Buffer): what is written into one comes out of its String()
	if name := calleeName(cc); !cc.IsInvoke() || strings.HasPrefix(name, "(io.") {
		switch {
		case strings.HasPrefix(name, "fmt.Fprint") && len(cc.Args) >= 1:
			for _, k := range f.memWriterKeys(cc.Args[0]) {
				f.addCell(k, taintOnly(false, args[1:]...))
			}
		case (strings.HasPrefix(name, "(*strings.Builder).Write") || strings.HasPrefix(name, "(*bytes.Buffer).Write")) && len(cc.Args) >= 2:
			for _, k := range f.memWriterKeys(cc.Args[0]) {
				f.addCell(k, taintOnly(false, args[1:]...))
			}
		case name == "io.WriteString" && len(cc.Args) == 2:
			for _, k := range f.memWriterKeys(cc.Args[0]) {
				f.addCell(k, taintOnly(false, args[1]))
			}
		case name == "(*strings.Builder).String" || name == "(*bytes.Buffer).String" || name == "(*bytes.Buffer).Bytes":
			if res != nil {
				acc := top().withNoTaint()
				for _, k := range f.memWriterKeys(cc.Args[0]) {
					acc = join(acc, taintOnly(false, f.cell(k)))
				}
				f.set(res, acc)
				return
			}
		}
	}
	edges := f.p.Callees(site)
	if pr, ok := cc.Value.(*ssa.Parameter); ok && f.ctxSite != nil && pr.Parent() == fn {
		// a function-typed parameter called inside a per-call-site context: the callee is what this site passed
		for i, q := range fn.Params {
			if q == pr && i < len(f.ctxSite.Common().Args) {
				if ts := f.p.dynamicTargets(f.ctxSite.Common().Args[i], f.ctxSite.Parent(), 0); len(ts) > 0 {
					edges = edges[:0]
					for _, t := range ts {
						edges = append(edges, Edge{site, EdgeCall, t, ""})
					}
				}
			}
		}
	}
	acc := bot()
	external := false
	for _, e := range edges {
		if e.Callee == nil || !f.p.InModuleFn(e.Callee) {
			external = true
			continue
		}
		callee := e.Callee
		params := callee.Params
		if idx, seps, ok := f.p.scanCutSummary(callee); ok && !cc.IsInvoke() && idx < len(args) {
			// a hand-written "cut at the first of seps" loop: use its exact summary
			acc = join(acc, cutAt(args[idx], cc.Args[idx], seps))
			if idx < len(params) {
				f.set(params[idx], args[idx])
			}
			continue
		}
		if f.poly[callee] {
			// bound per context in stepPoly; the result is that context's own return value
			root := f
			for root.parent != nil {
				root = root.parent
			}
			if f.parent != nil && f.depth < 3 && !cc.IsInvoke() {
				// a helper called from inside a helper's context: its own nested context, bound to what this
				// context passes (the shared per-site context joins over all of the outer helper's callers)
				if cx := f.nested(callee, site, args); len(cx.ownRet) == 1 && cx.ownRet[0] != nil {
					acc = join(acc, translateCut(cx.ownRet[0], callee, cc))
				}
				continue
			}
			if cx := root.ctxs[site]; cx != nil && len(cx.ownRet) == 1 && cx.ownRet[0] != nil {
				acc = join(acc, translateCut(cx.ownRet[0], callee, cc))
			}
			continue
		}
		if cc.IsInvoke() {
			if len(params) > 0 {
				f.set(params[0], f.get(cc.Value))
			}
			for i, a := range args {
				if i+1 < len(params) {
					f.set(params[i+1], a)
				}
			}
		} else {
			for i, a := range args {
				if i < len(params) {
					f.set(params[i], a)
				}
			}
			if mc, ok := cc.Value.(*ssa.MakeClosure); ok {
				_ = mc // bindings handled at MakeClosure
			}
		}
		if rs := f.Ret[callee]; len(rs) == 1 && rs[0] != nil {
			acc = join(acc, translateCut(rs[0], callee, cc))
		}
	}
	if res == nil {
		return
	}
	if external {
		acc = join(acc, f.externalResult(site, args))
	}
	if len(edges) == 0 {
		acc = join(acc, f.externalResult(site, args))
	}
	if acc.Bot && res.Type() != nil {
		if tup, ok := res.Type().(*types.Tuple); ok && tup.Len() != 1 {
			// tuple results are read through Extract
			if external || len(edges) == 0 {
				f.set(res, f.externalResult(site, args))
			}
			return
		}
	}
	f.set(res, acc)
}

// externalResult: axioms for stdlib functions; default = result carries the
// taint of its arguments when its type can carry text.
func (f *Flow) externalResult(site ssa.CallInstruction, args []*Abs) *Abs {
	cc := site.Common()
	name := calleeName(cc)
	var resT types.Type
	if v, ok := site.(ssa.Value); ok {
		resT = v.Type()
	}
	if f.NoTaint[name] || strings.HasPrefix(name, "(github.com/fluffle/goirc/logging") || strings.HasPrefix(name, "github.com/fluffle/goirc/logging.") {
		return top().withNoTaint()
	}
	all := append([]*Abs{}, args...)
	if cc.IsInvoke() {
		all = append(all, f.get(cc.Value))
	}
	switch name {
	case "strings.SplitN", "strings.Split":
		s := args[0]
		sep, okSep := constString(cc.Args[1])
		nOK := name == "strings.Split"
		if name == "strings.SplitN" {
			if k, ok := constInt(cc.Args[2]); ok && k != 1 && k != 0 {
				nOK = true
			}
		}
		elems := taintOnly(false, s)
		elems.NoB = s.NoB
		first := elems.clone()
		if okSep && nOK && len(sep) == 1 && !s.Bot {
			// element 0 is s truncated at the first sep
			first = s.clone()
			first.First = nil
			first.NoB.add(sep[0])
			var seps bset
			seps.add(sep[0])
			if s.Cut != nil {
				first.Cut = &CutInfo{s.Cut.Src, s.Cut.Seps.union(seps)}
			} else {
				first.Cut = &CutInfo{cc.Args[0], seps}
			}
			if strings.IndexByte(s.Pre, sep[0]) >= 0 {
				first.Pre = s.Pre[:strings.IndexByte(s.Pre, sep[0])]
				first.Exact = true
			} else if !s.Exact {
				first.End = true
				first.Next = s.Next
				first.Next[sep[0]>>6] &^= 1 << (sep[0] & 63)
			}
			for k, p := range s.Taint {
				if strings.IndexByte(p, sep[0]) >= 0 {
					first.Taint[k] = p[:strings.IndexByte(p, sep[0])]
				}
			}
			if name == "strings.Split" {
				elems.NoB.add(sep[0])
			}
		}
		elems.First = first
		return elems
	case "strings.Fields":
		e := taintOnly(false, args[0])
		e.NoB = args[0].NoB
		for _, c := range []byte(" \t\n\v\f\r") {
			e.NoB.add(c)
		}
		return e
	case "strings.Join":
		e := taintOnly(false, args[0], args[1])
		e.NoB = args[0].NoB.inter(args[1].NoB)
		return e
	case "strings.ToUpper", "strings.ToLower", "strings.TrimSpace", "strings.Trim", "strings.TrimLeft", "strings.TrimRight", "strings.TrimPrefix", "strings.TrimSuffix", "strings.Title":
		e := taintOnly(false, args[0])
		if name == "strings.ToUpper" || name == "strings.ToLower" {
			// case mapping keeps CR/LF-freeness (they have no case)
			var crlf bset
			crlf.add('\r')
			crlf.add('\n')
			e.NoB = args[0].NoB.inter(crlf)
		} else {
			e.NoB = args[0].NoB
		}
		return e
	case "fmt.Sprintf":
		e := taintOnly(false, all...)
		fs, ok := constString(cc.Args[0])
		if !ok && len(args) > 0 && args[0] != nil && !args[0].Bot && args[0].Exact {
			// a format parameter whose value is one known constant in this calling context
			fs, ok = args[0].Pre, true
		}
		if ok {
			if i := strings.IndexByte(fs, '%'); i >= 0 {
				// the literal text before the first verb, then something made of the operands
				return concat(constAbs(fs[:i]), taintOnly(false, all[1:]...))
			}
			e.Pre, e.Exact = fs, true
		}
		return e
	}
	if resT != nil && !carriesText(resT) {
		return top().withNoTaint()
	}
	return taintOnly(false, all...)
}

// ---------- helpers for rules ----------

// startsWithVerb: a begins with verb followed by a space or the end.
func (a *Abs) startsWithVerb(verb string) (bool, string) {
	if a == nil || a.Bot {
		return false, "no value"
	}
	if !strings.HasPrefix(a.Pre, verb) {
		if strings.HasPrefix(verb, a.Pre) && a.Exact && a.Pre == verb {
			return true, "exactly the verb"
		}
		return false, "constant prefix is " + strconvQuote(a.Pre) + ", want " + strconvQuote(verb)
	}
	nx, end := a.nextAfter(len(verb))
	var sp bset
	sp.add(' ')
	if nx.subsetOf(sp) {
		_ = end
		return true, "prefix " + strconvQuote(a.Pre)
	}
	return false, "verb " + verb + " may be followed by a byte other than space"
}

// indexSeps: call is strings.Index/IndexByte/IndexAny/IndexRune(x, <const>)
// locating the first occurrence of a single byte out of a constant set.
func (f *Flow) indexSeps(v ssa.Value) (x ssa.Value, seps bset, ok bool) {
	call, isC := v.(*ssa.Call)
	if !isC {
		return nil, seps, false
	}
	constString := func(v ssa.Value) (string, bool) {
		if s, ok := constString(v); ok {
			return s, true
		}
		// a separator parameter whose value is one known constant in this calling context
		if _, isP := v.(*ssa.Parameter); isP && f != nil && f.parent != nil {
			if a := f.get(v); a != nil && !a.Bot && a.Exact {
				return a.Pre, true
			}
		}
		return "", false
	}
	switch calleeName(&call.Call) {
	case "strings.IndexAny":
		if k, okk := constString(call.Call.Args[1]); okk && k != "" {
			for i := 0; i < len(k); i++ {
				if k[i] >= 0x80 {
					return nil, seps, false
				}
				seps.add(k[i])
			}
			return call.Call.Args[0], seps, true
		}
	case "strings.Index":
		if k, okk := constString(call.Call.Args[1]); okk && len(k) == 1 {
			seps.add(k[0])
			return call.Call.Args[0], seps, true
		}
	case "strings.IndexByte":
		if k, okk := constInt(call.Call.Args[1]); okk && k >= 0 && k < 256 {
			seps.add(byte(k))
			return call.Call.Args[0], seps, true
		}
	}
	return nil, seps, false
}

// indexCut: t is x[:Index*(x, seps)].
func (f *Flow) indexCut(t *ssa.Slice) (bset, bool) {
	if t.Low != nil || t.High == nil {
		return bset{}, false
	}
	x, seps, ok := f.indexSeps(t.High)
	if !ok || x != t.X {
		return bset{}, false
	}
	return seps, true
}

// notFoundCond: the condition (with polarity) states Index*(v, seps) found nothing.
func (f *Flow) notFoundCond(bo *ssa.BinOp, truth bool, v ssa.Value) (bset, bool) {
	x, seps, ok := f.indexSeps(bo.X)
	k, okK := constInt(bo.Y)
	if !ok || !okK || x != v {
		return seps, false
	}
	notFound := false
	switch bo.Op {
	case token.LSS:
		notFound = truth && k == 0
	case token.GEQ:
		notFound = !truth && k == 0
	case token.EQL:
		notFound = truth && k == -1
	case token.NEQ:
		notFound = !truth && k == -1
	case token.GTR:
		notFound = !truth && k == -1
	case token.LEQ:
		notFound = truth && k == -1
	}
	return seps, notFound
}

// cutAt: abstract value of src (abstraction a) truncated at the first byte of seps.
func cutAt(a *Abs, src ssa.Value, seps bset) *Abs {
	n := a.clone()
	n.First = nil
	n.NoB = n.NoB.union(seps)
	if a.Cut != nil {
		n.Cut = &CutInfo{a.Cut.Src, a.Cut.Seps.union(seps)}
	} else {
		n.Cut = &CutInfo{src, seps}
	}
	cutStr := func(p string) (string, bool) {
		for i := 0; i < len(p); i++ {
			if seps.has(p[i]) {
				return p[:i], true
			}
		}
		return p, false
	}
	if p, was := cutStr(a.Pre); was {
		n.Pre, n.Exact = p, true
	} else if !a.Exact {
		n.End = true
		for c := 0; c < 256; c++ {
			if seps.has(byte(c)) {
				n.Next[c>>6] &^= 1 << (uint(c) & 63)
			}
		}
	}
	for k, p := range a.Taint {
		if q, was := cutStr(p); was {
			n.Taint[k] = q
		}
	}
	return n
}

// WithParams re-evaluates fn with its parameters bound to args only (one
// calling context), everything else taken from the global fixpoint.
func (f *Flow) WithParams(fn *ssa.Function, args []*Abs) *Flow {
	return f.WithParamsAt(fn, args, nil)
}

// WithParamsAt is WithParams for the context of one call site: function-typed
// parameters called inside fn resolve to what that site passed.
func (f *Flow) WithParamsAt(fn *ssa.Function, args []*Abs, site ssa.CallInstruction) *Flow {
	sub := &Flow{ctxSite: site, p: f.p, funcs: []*ssa.Function{fn}, Val: map[ssa.Value]*Abs{}, Cell: map[interface{}]*Abs{}, Ret: map[*ssa.Function][]*Abs{}, Source: f.Source, NoTaint: f.NoTaint, frozen: map[ssa.Value]bool{},
		poly: map[*ssa.Function]bool{}, ctxs: map[ssa.CallInstruction]*Flow{}, polyOf: map[ssa.Value]*ssa.Function{}}
	local := map[ssa.Value]bool{}
	for _, fx := range AnonClosure(fn) {
		for _, b := range fx.Blocks {
			for _, in := range b.Instrs {
				if v, ok := in.(ssa.Value); ok {
					local[v] = true
				}
			}
		}
	}
	for k, v := range f.Val {
		if !local[k] {
			sub.Val[k] = v
		}
	}
	// values of polyvariant helpers (other than fn) as seen from outside
	for v := range f.polyOf {
		if !local[v] {
			sub.Val[v] = f.get(v)
		}
	}
	for k, v := range f.Cell {
		sub.Cell[k] = v
	}
	for k, v := range f.Ret {
		sub.Ret[k] = append([]*Abs{}, v...)
	}
	for i, pr := range fn.Params {
		if i < len(args) && args[i] != nil {
			sub.Val[pr] = args[i]
		}
		sub.frozen[pr] = true
	}
	for iter := 0; iter < 50; iter++ {
		sub.changed = false
		sub.stepFunc(fn)
		if !sub.changed {
			break
		}
	}
	return sub
}

// scanCutSummary recognises a function of one string parameter s of the shape
//
//	for i := 0; i < len(s); i++ { if s[i] == c1 || s[i] == c2 ... { return s[:i] } }
//	return s
//
// i.e. "s truncated at the first byte of {c1, c2, ...}". The match is exact:
// ascending scan from 0 by 1, every branch in the loop compares s[i] with a
// constant, a match returns s[:i], no match continues, falling out returns s.
func (p *Prog) scanCutSummary(fn *ssa.Function) (int, bset, bool) {
	var none bset
	if fn == nil || fn.Blocks == nil || len(fn.Params) == 0 || fn.Signature.Results().Len() != 1 {
		return 0, none, false
	}
	if v, ok := p.scanCutMemo[fn]; ok {
		return v.idx, v.seps, v.ok
	}
	res := scanCutRes{}
	defer func() { p.scanCutMemo[fn] = res }()
	pi := -1
	for i, pr := range fn.Params {
		if isStringType(pr.Type()) {
			if pi >= 0 {
				return 0, none, false
			}
			pi = i
		}
	}
	if pi < 0 {
		return 0, none, false
	}
	s := ssa.Value(fn.Params[pi])
	li := p.Loops(fn)
	var hdr *ssa.BasicBlock
	for b := range li.isHead {
		if hdr != nil {
			return 0, none, false
		}
		hdr = b
	}
	if hdr == nil {
		return 0, none, false
	}
	// counter phi
	var iv *ssa.Phi
	for _, in := range hdr.Instrs {
		ph, ok := in.(*ssa.Phi)
		if !ok {
			break
		}
		if iv != nil {
			return 0, none, false
		}
		iv = ph
	}
	if iv == nil || len(iv.Edges) != 2 {
		return 0, none, false
	}
	zero, inc := false, false
	for _, e := range iv.Edges {
		if k, ok := constInt(e); ok && k == 0 {
			zero = true
		}
		if bo, ok := e.(*ssa.BinOp); ok && bo.Op == token.ADD && bo.X == ssa.Value(iv) {
			if k, ok := constInt(bo.Y); ok && k == 1 {
				inc = true
			}
		}
	}
	if !zero || !inc {
		return 0, none, false
	}
	// header condition: i < len(s)
	iff, ok := hdr.Instrs[len(hdr.Instrs)-1].(*ssa.If)
	if !ok {
		return 0, none, false
	}
	bo, ok := iff.Cond.(*ssa.BinOp)
	if !ok || bo.Op != token.LSS || bo.X != ssa.Value(iv) {
		return 0, none, false
	}
	if lc, ok := bo.Y.(*ssa.Call); !ok || !p.isLenCall(lc) || lc.Call.Args[0] != s {
		return 0, none, false
	}
	exit := hdr.Succs[1]
	// exit path returns s
	if len(exit.Instrs) == 0 {
		return 0, none, false
	}
	if rt, ok := exit.Instrs[len(exit.Instrs)-1].(*ssa.Return); !ok || len(rt.Results) != 1 || rt.Results[0] != s || len(exit.Instrs) > 2 {
		return 0, none, false
	}
	// loop body blocks
	var seps bset
	nCmp := 0
	var retBlock *ssa.BasicBlock
	for b, hs := range li.headers {
		if !hs[hdr] || b == hdr {
			continue
		}
		last := b.Instrs[len(b.Instrs)-1]
		switch t := last.(type) {
		case *ssa.If:
			cmp, ok := t.Cond.(*ssa.BinOp)
			if !ok || cmp.Op != token.EQL {
				return 0, none, false
			}
			ix, ok := cmp.X.(*ssa.Index)
			if !ok || ix.X != s || ix.Index != ssa.Value(iv) {
				return 0, none, false
			}
			k, ok := constInt(cmp.Y)
			if !ok || k < 0 || k > 255 {
				return 0, none, false
			}
			seps.add(byte(k))
			nCmp++
			// true edge must leave the loop to the return block
			tb := b.Succs[0]
			if li.headers[tb][hdr] {
				return 0, none, false
			}
			if retBlock != nil && retBlock != tb {
				return 0, none, false
			}
			retBlock = tb
			// only the comparison operands may be computed in compare blocks
			for _, in := range b.Instrs {
				switch in.(type) {
				case *ssa.Index, *ssa.BinOp, *ssa.If, *ssa.DebugRef:
				default:
					return 0, none, false
				}
			}
		case *ssa.Jump:
			// latch: i+1 only
			for _, in := range b.Instrs {
				switch in.(type) {
				case *ssa.BinOp, *ssa.Jump, *ssa.DebugRef:
				default:
					return 0, none, false
				}
			}
		default:
			return 0, none, false
		}
	}
	if nCmp == 0 || retBlock == nil {
		return 0, none, false
	}
	rt, ok := retBlock.Instrs[len(retBlock.Instrs)-1].(*ssa.Return)
	if !ok || len(rt.Results) != 1 {
		return 0, none, false
	}
	sl, ok := rt.Results[0].(*ssa.Slice)
	if !ok || sl.X != s || sl.Low != nil || sl.High != ssa.Value(iv) {
		return 0, none, false
	}
	// nothing before the loop but the jump into it
	for _, b := range fn.Blocks {
		if b == hdr || b == exit || b == retBlock || li.headers[b][hdr] {
			continue
		}
		for _, in := range b.Instrs {
			switch in.(type) {
			case *ssa.Jump, *ssa.DebugRef, *ssa.Call:
				if c, isC := in.(*ssa.Call); isC && !p.isLenCall(c) {
					return 0, none, false
				}
			default:
				return 0, none, false
			}
		}
	}
	res = scanCutRes{pi, seps, true}
	return pi, seps, true
}

type scanCutRes struct {
	idx  int
	seps bset
	ok   bool
}

// translateCut: a callee result described as "cut of the callee's parameter"
// is, for this call, the cut of the corresponding actual argument.
func translateCut(a *Abs, callee *ssa.Function, cc *ssa.CallCommon) *Abs {
	if a == nil || a.Cut == nil || cc.IsInvoke() {
		return a
	}
	pr, ok := a.Cut.Src.(*ssa.Parameter)
	if !ok || pr.Parent() != callee {
		return a
	}
	for i, q := range callee.Params {
		if q == pr && i < len(cc.Args) {
			n := a.clone()
			n.Cut = &CutInfo{cc.Args[i], a.Cut.Seps}
			return n
		}
	}
	return a
}

// mappedInPlace: v is the fresh slice result of a module call that the calling
// function overwrites element by element in one complete loop
//
//	for i := range v { ...; v[i] = x; ... }
//
// and otherwise only measures, indexes and returns. The result is the loop's
// exit block: wherever it dominates, every element of v is a value stored by
// the function itself. nil when the shape is not recognised.
func (p *Prog) mappedInPlace(v ssa.Value) *ssa.BasicBlock {
	call, ok := v.(*ssa.Call)
	if !ok || call.Parent() == nil {
		return nil
	}
	if b, done := p.mapMemo[v]; done {
		return b
	}
	if p.mapMemo == nil {
		p.mapMemo = map[ssa.Value]*ssa.BasicBlock{}
	}
	p.mapMemo[v] = nil
	if _, isSlice := v.Type().Underlying().(*types.Slice); !isSlice {
		return nil
	}
	callee := call.Call.StaticCallee()
	if callee == nil || call.Call.IsInvoke() || !p.InModuleFn(callee) || callee.Signature.Results().Len() != 1 || !p.newFresh().funcResultFresh(callee, 0) {
		return nil
	}
	lens := map[ssa.Value]bool{}
	for _, ref := range *call.Referrers() {
		switch t := ref.(type) {
		case *ssa.DebugRef, *ssa.Return, *ssa.IndexAddr:
		case *ssa.Call:
			bi, isB := t.Call.Value.(*ssa.Builtin)
			if !isB || bi.Name() != "len" {
				return nil
			}
			lens[t] = true
		default:
			return nil
		}
	}
	fn := call.Parent()
	li := p.Loops(fn)
	for _, h := range fn.Blocks {
		if !li.isHead[h] || len(h.Instrs) == 0 || len(h.Succs) != 2 {
			continue
		}
		iff, isIf := h.Instrs[len(h.Instrs)-1].(*ssa.If)
		if !isIf {
			continue
		}
		bo, isB := iff.Cond.(*ssa.BinOp)
		if !isB || bo.Op != token.LSS || !lens[bo.Y] {
			continue
		}
		// the counter visits every index from 0
		iv := bo.X
		first := false
		if add, isAdd := iv.(*ssa.BinOp); isAdd && add.Op == token.ADD {
			if k, okK := constInt(add.Y); okK && k == 1 {
				if ph, isPh := add.X.(*ssa.Phi); isPh && ph.Block() == h && len(ph.Edges) == 2 {
					for i, e := range ph.Edges {
						if blockDom(h, h.Preds[i]) {
							if e != ssa.Value(add) {
								first = false
								break
							}
						} else if k0, ok0 := constInt(e); ok0 && k0 == -1 {
							first = true
						}
					}
				}
			}
		}
		if !first {
			continue
		}
		body, exit := h.Succs[0], h.Succs[1]
		inLoop := func(b *ssa.BasicBlock) bool { return b == h || li.headers[b][h] }
		closed := inLoop(body) && !inLoop(exit)
		for _, b := range fn.Blocks {
			if !inLoop(b) {
				continue
			}
			for _, s := range b.Succs {
				if !inLoop(s) && !(b == h && s == exit) {
					closed = false
				}
			}
		}
		if !closed || len(body.Instrs) == 0 {
			continue
		}
		isStore := func(in ssa.Instruction) bool {
			st, ok := in.(*ssa.Store)
			if !ok {
				return false
			}
			ia, ok := st.Addr.(*ssa.IndexAddr)
			return ok && ia.X == v && ia.Index == iv
		}
		seen := ReachFromFiltered(body.Instrs[0], true, isStore, nil)
		if seen[h.Instrs[0]] {
			continue // an iteration can finish without overwriting its element
		}
		p.mapMemo[v] = exit
		return exit
	}
	return nil
}

// DebugDump lists a context's own values and those of its nested contexts.
func (f *Flow) DebugDump() string {
	var out []string
	for v, a := range f.overlay {
		out = append(out, fmt.Sprintf("%s=%s", v.Name(), a))
	}
	for k, a := range f.ocell {
		out = append(out, fmt.Sprintf("cell(%s.%s)=%s", k.al.Name(), k.fv.Name(), a))
	}
	sort.Strings(out)
	s := " || " + strings.Join(out, "; ")
	for site, cx := range f.ctxs {
		s += " || nested@" + site.String() + ":" + cx.DebugDump()
	}
	return s
}
