package sa

import (
	"fmt"
	"go/token"
	"go/types"

	"golang.org/x/tools/go/ssa"
)

// isRefType: values of t can share mutable storage (pointer, slice, map,
// chan, func, interface, or a struct/array containing one). Strings are
// immutable and count as values.
func isRefType(t types.Type) bool {
	return isRefTypeRec(t, map[types.Type]bool{})
}

func isRefTypeRec(t types.Type, seen map[types.Type]bool) bool {
	if seen[t] {
		return false
	}
	seen[t] = true
	switch u := t.Underlying().(type) {
	case *types.Basic:
		return u.Kind() == types.UnsafePointer
	case *types.Pointer, *types.Slice, *types.Map, *types.Chan, *types.Signature, *types.Interface:
		return true
	case *types.Struct:
		for i := 0; i < u.NumFields(); i++ {
			if isRefTypeRec(u.Field(i).Type(), seen) {
				return true
			}
		}
		return false
	case *types.Array:
		return isRefTypeRec(u.Elem(), seen)
	}
	return true
}

// Fresh decides whether v (evaluated in its own function) is newly allocated
// storage not reachable from anywhere else, or nil. Parameters, field loads
// and globals are not fresh. Results of module functions are fresh if all
// their returns are.
type freshCtx struct {
	p    *Prog
	memo map[*ssa.Function]int // 0 unknown, 1 in progress, 2 fresh, 3 not
	why  string

	paramBusy map[paramKey]bool
}

type paramKey struct {
	fn *ssa.Function
	i  int
}

// originsLocalValues: phi/conversion closure of v within its function.
func (p *Prog) originsLocalValues(v ssa.Value) []ssa.Value {
	seen := map[ssa.Value]bool{}
	var out []ssa.Value
	var walk func(v ssa.Value)
	walk = func(v ssa.Value) {
		if v == nil || seen[v] {
			return
		}
		seen[v] = true
		switch t := v.(type) {
		case *ssa.Phi:
			for _, e := range t.Edges {
				walk(e)
			}
		case *ssa.ChangeType:
			walk(t.X)
		default:
			out = append(out, v)
		}
	}
	walk(v)
	return out
}

func (p *Prog) newFresh() *freshCtx { return &freshCtx{p: p, memo: map[*ssa.Function]int{}} }

func isNilConst(v ssa.Value) bool {
	c, ok := v.(*ssa.Const)
	return ok && c.Value == nil
}

func (f *freshCtx) fresh(v ssa.Value, seen map[ssa.Value]bool) bool {
	if seen[v] {
		return true
	}
	seen[v] = true
	switch t := v.(type) {
	case *ssa.Const:
		return t.Value == nil || !isRefType(t.Type())
	case *ssa.Alloc, *ssa.MakeSlice, *ssa.MakeMap, *ssa.MakeChan:
		if esc := f.escapes(v, map[ssa.Value]bool{}); esc != "" {
			f.why = "allocation is also " + esc
			return false
		}
		return true
	case *ssa.Phi:
		for _, e := range t.Edges {
			if !f.fresh(e, seen) {
				return false
			}
		}
		return true
	case *ssa.ChangeType:
		return f.fresh(t.X, seen)
	case *ssa.Slice:
		return f.fresh(t.X, seen)
	case *ssa.UnOp:
		if t.Op == token.MUL {
			if al, ok := cellOf(t.X); ok && !isStructAlloc(al) {
				sts := cellStores(al)
				if len(sts) == 0 {
					f.why = "load of uninitialised cell"
					return false
				}
				for _, s := range sts {
					if !f.fresh(s.Val, seen) {
						return false
					}
				}
				return true
			}
		}
		f.why = "loaded from memory: " + v.String()
		return false
	case *ssa.Call:
		if b, ok := t.Call.Value.(*ssa.Builtin); ok {
			if b.Name() == "append" {
				return f.fresh(t.Call.Args[0], seen)
			}
			f.why = "builtin " + b.Name()
			return false
		}
		if t.Call.IsInvoke() {
			f.why = "interface call result"
			return false
		}
		callee := t.Call.StaticCallee()
		if callee == nil {
			f.why = "dynamic call result"
			return false
		}
		switch calleeName(&t.Call) {
		case "slices.Clone", "maps.Clone", "strings.Fields", "strings.Split", "strings.SplitN":
			return true
		}
		if !f.p.InModuleFn(callee) {
			f.why = "result of external call " + calleeName(&t.Call)
			return false
		}
		return f.funcFresh(callee)
	case *ssa.Parameter:
		// a parameter an unexported helper hands back: as fresh as what every caller passes
		fn := t.Parent()
		if fn == nil || fn.Object() == nil || fn.Object().Exported() || addrTaken(fn) || fn.Parent() != nil {
			f.why = fmt.Sprintf("%T %s", v, v.String())
			return false
		}
		idx := -1
		for i, q := range fn.Params {
			if q == t {
				idx = i
			}
		}
		key := paramKey{fn, idx}
		if f.paramBusy == nil {
			f.paramBusy = map[paramKey]bool{}
		}
		sites := f.p.staticCallers(fn)
		if idx < 0 || len(sites) == 0 || f.paramBusy[key] {
			f.why = "parameter " + t.Name() + " of " + f.p.FuncKey(fn)
			return false
		}
		f.paramBusy[key] = true
		defer delete(f.paramBusy, key)
		for _, cs := range sites {
			if _, isCall := cs.(*ssa.Call); !isCall || idx >= len(cs.Common().Args) {
				f.why = "parameter " + t.Name() + " of " + f.p.FuncKey(fn) + " (started as a goroutine or deferred)"
				return false
			}
			if !f.fresh(cs.Common().Args[idx], map[ssa.Value]bool{}) {
				f.why = "parameter " + t.Name() + " of " + f.p.FuncKey(fn) + ": " + f.why
				return false
			}
		}
		return true
	case *ssa.Extract:
		if c, ok := t.Tuple.(*ssa.Call); ok {
			if callee := c.Call.StaticCallee(); callee != nil && f.p.InModuleFn(callee) {
				return f.funcResultFresh(callee, t.Index)
			}
		}
		f.why = "extract of " + t.Tuple.String()
		return false
	}
	f.why = fmt.Sprintf("%T %s", v, v.String())
	return false
}

func isStructAlloc(al *ssa.Alloc) bool {
	pt, ok := al.Type().Underlying().(*types.Pointer)
	if !ok {
		return false
	}
	switch pt.Elem().Underlying().(type) {
	case *types.Struct, *types.Array:
		return true
	}
	return false
}

func (f *freshCtx) funcFresh(fn *ssa.Function) bool { return f.funcResultFresh(fn, 0) }

func (f *freshCtx) funcResultFresh(fn *ssa.Function, idx int) bool {
	key := fn
	if idx == 0 {
		switch f.memo[key] {
		case 1:
			return true // optimistic on recursion
		case 2:
			return true
		case 3:
			return false
		}
		f.memo[key] = 1
	}
	ok := true
	funcInstrs(fn, func(in ssa.Instruction) {
		rt, isRet := in.(*ssa.Return)
		if !isRet || idx >= len(rt.Results) {
			return
		}
		v := rt.Results[idx]
		if !isRefType(v.Type()) {
			return
		}
		if !f.fresh(v, map[ssa.Value]bool{}) {
			ok = false
			f.why = f.p.FuncKey(fn) + " returns non-fresh value (" + f.why + ")"
		}
	})
	if idx == 0 {
		if ok {
			f.memo[key] = 2
		} else {
			f.memo[key] = 3
		}
	}
	return ok
}

// DeepFresh decides that v is fresh and, recursively, that everything
// reachable from it through reference-typed fields / map values is fresh.
func (f *freshCtx) deepFresh(v ssa.Value, depth int) bool {
	if depth > 8 {
		f.why = "too deep"
		return false
	}
	if !isRefType(v.Type()) || isNilConst(v) {
		return true
	}
	if !f.fresh(v, map[ssa.Value]bool{}) {
		return false
	}
	return f.deepContents(v, depth, map[ssa.Value]bool{})
}

func (f *freshCtx) deepContents(v ssa.Value, depth int, seen map[ssa.Value]bool) bool {
	if seen[v] {
		return true
	}
	seen[v] = true
	switch t := v.(type) {
	case *ssa.Const:
		return true
	case *ssa.Phi:
		for _, e := range t.Edges {
			if !f.deepContents(e, depth, seen) {
				return false
			}
		}
		return true
	case *ssa.ChangeType:
		return f.deepContents(t.X, depth, seen)
	case *ssa.Slice:
		return f.deepContents(t.X, depth, seen)
	case *ssa.UnOp:
		if t.Op == token.MUL {
			if al, ok := cellOf(t.X); ok && !isStructAlloc(al) {
				for _, s := range cellStores(al) {
					if !f.deepContents(s.Val, depth, seen) {
						return false
					}
				}
				return true
			}
		}
		return false
	case *ssa.Alloc:
		pt := t.Type().Underlying().(*types.Pointer)
		st, isStruct := pt.Elem().Underlying().(*types.Struct)
		if !isStruct {
			if !isRefType(pt.Elem()) {
				return true
			}
			// a cell holding a reference: all stores deep-fresh
			for _, s := range cellStores(t) {
				if !f.deepFresh(s.Val, depth+1) {
					return false
				}
			}
			return true
		}
		for _, ref := range *t.Referrers() {
			switch r := ref.(type) {
			case *ssa.Store:
				if r.Addr == t {
					// whole-struct store: only OK if the struct holds no references
					if isRefType(pt.Elem()) {
						f.why = "whole-struct copy of " + shortType(pt.Elem()) + " shares its reference fields"
						return false
					}
				}
			case *ssa.FieldAddr:
				ft := st.Field(r.Field).Type()
				if !isRefType(ft) {
					continue
				}
				for _, r2 := range *r.Referrers() {
					if s, ok := r2.(*ssa.Store); ok && s.Addr == r {
						if !f.deepFresh(s.Val, depth+1) {
							f.why = "field " + st.Field(r.Field).Name() + " of returned " + shortType(pt.Elem()) + " is not a private copy (" + f.why + ")"
							return false
						}
					}
					// contents added through a later load of the field (x.f[k] = v)
					if ld, ok := r2.(*ssa.UnOp); ok && ld.Op == token.MUL {
						for _, r3 := range *ld.Referrers() {
							switch u := r3.(type) {
							case *ssa.MapUpdate:
								if u.Map == ld && isRefType(u.Value.Type()) && !f.deepFresh(u.Value, depth+1) {
									f.why = "value put into field " + st.Field(r.Field).Name() + " of returned " + shortType(pt.Elem()) + " is not a private copy (" + f.why + ")"
									return false
								}
							case *ssa.IndexAddr:
								for _, r4 := range *u.Referrers() {
									if s, ok := r4.(*ssa.Store); ok && s.Addr == u && isRefType(s.Val.Type()) && !f.deepFresh(s.Val, depth+1) {
										f.why = "element stored into field " + st.Field(r.Field).Name() + " is not a private copy (" + f.why + ")"
										return false
									}
								}
							}
						}
					}
				}
			}
		}
		return true
	case *ssa.MakeMap:
		mt := t.Type().Underlying().(*types.Map)
		if !isRefType(mt.Elem()) {
			return true
		}
		for _, ref := range *t.Referrers() {
			if mu, ok := ref.(*ssa.MapUpdate); ok && mu.Map == t {
				if !f.deepFresh(mu.Value, depth+1) {
					f.why = "map value is not a private copy (" + f.why + ")"
					return false
				}
			}
		}
		return true
	case *ssa.MakeSlice:
		sl := t.Type().Underlying().(*types.Slice)
		if !isRefType(sl.Elem()) {
			return true
		}
		f.why = "slice of references"
		return false
	case *ssa.Call:
		if b, ok := t.Call.Value.(*ssa.Builtin); ok && b.Name() == "append" {
			sl, _ := t.Type().Underlying().(*types.Slice)
			if sl != nil && !isRefType(sl.Elem()) {
				return true
			}
			f.why = "append of references"
			return false
		}
		callee := t.Call.StaticCallee()
		if callee == nil || !f.p.InModuleFn(callee) {
			if sl, ok := t.Type().Underlying().(*types.Slice); ok && !isRefType(sl.Elem()) {
				return true
			}
			f.why = "contents of external call result"
			return false
		}
		return f.funcDeepFresh(callee, 0, depth+1)
	case *ssa.Extract:
		if c, ok := t.Tuple.(*ssa.Call); ok {
			if callee := c.Call.StaticCallee(); callee != nil && f.p.InModuleFn(callee) {
				return f.funcDeepFresh(callee, t.Index, depth+1)
			}
		}
		return false
	case *ssa.Parameter:
		// freshness of the parameter itself was decided at the call sites; a slice of values holds nothing shared
		if sl, ok := t.Type().Underlying().(*types.Slice); ok && !isRefType(sl.Elem()) {
			return true
		}
		f.why = "contents of parameter " + t.Name()
		return false
	}
	f.why = fmt.Sprintf("contents of %T %s", v, v.String())
	return false
}

// funcDeepFresh: every return of fn yields deep-fresh (or nil) at idx.
func (f *freshCtx) funcDeepFresh(fn *ssa.Function, idx int, depth int) bool {
	ok := true
	funcInstrs(fn, func(in ssa.Instruction) {
		rt, isRet := in.(*ssa.Return)
		if !isRet || idx >= len(rt.Results) || !ok {
			return
		}
		if !f.deepFresh(rt.Results[idx], depth) {
			ok = false
			f.why = f.p.FuncKey(fn) + ": " + f.why
		}
	})
	return ok
}

// escapes reports how the allocation v becomes reachable from somewhere
// other than the function's result ("" if it does not): stored into
// non-local memory, passed to a call, boxed or sent.
func (f *freshCtx) escapes(v ssa.Value, seen map[ssa.Value]bool) string {
	if seen[v] {
		return ""
	}
	seen[v] = true
	refs := v.Referrers()
	if refs == nil {
		return ""
	}
	localRoot := func(addr ssa.Value) ssa.Value {
		for i := 0; i < 6; i++ {
			switch a := addr.(type) {
			case *ssa.FieldAddr:
				addr = a.X
			case *ssa.IndexAddr:
				addr = a.X
			case *ssa.Alloc, *ssa.MakeMap, *ssa.MakeSlice:
				return a.(ssa.Value)
			case *ssa.Slice:
				addr = a.X
			case *ssa.ChangeType:
				addr = a.X
			default:
				return nil
			}
		}
		return nil
	}
	for _, r := range *refs {
		switch t := r.(type) {
		case *ssa.DebugRef, *ssa.Return:
		case *ssa.Store:
			if t.Val == v {
				root := localRoot(t.Addr)
				if root == nil {
					return "stored to " + t.Addr.String() + " at " + f.p.InstrPos(t)
				}
				if e := f.escapes(root, seen); e != "" {
					return e
				}
			}
		case *ssa.MapUpdate:
			if t.Value == v || t.Key == v {
				root := localRoot(t.Map)
				if root == nil {
					return "put into a map at " + f.p.InstrPos(t)
				}
				if e := f.escapes(root, seen); e != "" {
					return e
				}
			}
		case *ssa.Phi, *ssa.ChangeType, *ssa.Slice:
			if e := f.escapes(t.(ssa.Value), seen); e != "" {
				return e
			}
		case *ssa.FieldAddr, *ssa.IndexAddr:
			// address of a component: must not be passed on
			for _, r2 := range *t.(ssa.Value).Referrers() {
				if cc := callOf(r2); cc != nil {
					if _, isB := cc.Value.(*ssa.Builtin); !isB {
						return "component address passed to a call at " + f.p.InstrPos(r2)
					}
				}
			}
		case *ssa.UnOp, *ssa.Lookup, *ssa.Range, *ssa.Field, *ssa.Index, *ssa.BinOp, *ssa.Extract, *ssa.Next:
		case *ssa.MakeInterface:
			return "boxed into an interface at " + f.p.InstrPos(t)
		case *ssa.Send:
			if t.X == v {
				return "sent on a channel at " + f.p.InstrPos(t)
			}
		case *ssa.MakeClosure:
			// a closure handed straight to a module function that only calls it (a synchronous "for each"
			// helper) does not outlive the call: what it does with the captured variable is what counts
			if cf, ok := t.Fn.(*ssa.Function); ok && f.syncCallbackOnly(t) {
				bad := ""
				for i, b := range t.Bindings {
					if b == v && i < len(cf.FreeVars) {
						if e := f.escapes(cf.FreeVars[i], seen); e != "" {
							bad = e
						}
					}
				}
				if bad != "" {
					return bad
				}
				continue
			}
			return "captured by a closure at " + f.p.InstrPos(t)
		case ssa.CallInstruction:
			cc := t.Common()
			if b, ok := cc.Value.(*ssa.Builtin); ok {
				switch b.Name() {
				case "len", "cap", "copy", "delete":
					continue
				case "append":
					if val, ok := t.(ssa.Value); ok {
						if e := f.escapes(val, seen); e != "" {
							return e
						}
					}
					continue
				}
			}
			// a module function that neither retains nor publishes the argument leaves it fresh
			if callee := cc.StaticCallee(); callee != nil && !cc.IsInvoke() && f.p.InModuleFn(callee) {
				if _, isGo := t.(*ssa.Go); !isGo {
					bad := ""
					for i, arg := range cc.Args {
						if arg != v || i >= len(callee.Params) {
							continue
						}
						key := paramKey{callee, i}
						if f.paramBusy == nil {
							f.paramBusy = map[paramKey]bool{}
						}
						if f.paramBusy[key] {
							continue
						}
						f.paramBusy[key] = true
						e := f.escapes(callee.Params[i], map[ssa.Value]bool{})
						returned := false
						funcInstrs(callee, func(in ssa.Instruction) {
							if rt, ok := in.(*ssa.Return); ok {
								for _, res := range rt.Results {
									for _, o := range f.p.originsLocalValues(res) {
										if o == ssa.Value(callee.Params[i]) {
											returned = true
										}
									}
								}
							}
						})
						delete(f.paramBusy, key)
						if e != "" {
							bad = "passed to " + calleeName(cc) + " which lets it escape (" + e + ")"
						} else if returned {
							if val, ok := t.(ssa.Value); ok {
								if e2 := f.escapes(val, seen); e2 != "" {
									bad = e2
								}
							}
						}
					}
					if bad != "" {
						return bad
					}
					continue
				}
			}
			return "passed to " + calleeName(cc) + " at " + f.p.InstrPos(t)
		default:
			return fmt.Sprintf("used by %T at %s", r, f.p.InstrPos(r))
		}
	}
	return ""
}

// syncCallbackOnly: the closure mc is used only as an argument of static calls
// of module functions whose corresponding parameter is only ever called (never
// stored, passed on, deferred or started as a goroutine).
func (f *freshCtx) syncCallbackOnly(mc *ssa.MakeClosure) bool {
	refs := mc.Referrers()
	if refs == nil || len(*refs) == 0 {
		return false
	}
	for _, r := range *refs {
		switch t := r.(type) {
		case *ssa.DebugRef:
		case *ssa.Call:
			h := t.Call.StaticCallee()
			if h == nil || t.Call.IsInvoke() || !f.p.InModuleFn(h) || h.Blocks == nil {
				return false
			}
			for i, av := range t.Call.Args {
				if av != ssa.Value(mc) {
					continue
				}
				if i >= len(h.Params) {
					return false
				}
				pr := h.Params[i]
				for _, pref := range *pr.Referrers() {
					switch u := pref.(type) {
					case *ssa.DebugRef:
					case *ssa.Call:
						if u.Call.Value != ssa.Value(pr) {
							return false
						}
					default:
						return false
					}
				}
			}
		default:
			return false
		}
	}
	return true
}
