package sa

import (
	"fmt"
	"go/token"
	"go/types"
	"strings"

	"golang.org/x/tools/go/ssa"
)

func init() {
	register(&PropertySpec{
		ID:        "C09",
		Technique: "single-producer-path / single-consumer pipeline topology and who-may-write-the-socket rules (static analysis)",
		Explain: "Exactly-once, in-order transmission over all interleavings follows from Go channel semantics iff the only sender on the outbound queue is Raw's own body, the only forwarding receiver is the single send goroutine, each received value flows unmodified to exactly one write which writes it once (WriteString of value+CRLF, then Flush), nothing else writes the socket, and the queue is only replaced by connect initialisation after the already-connected refusal. " +
			"Not decided: byte-for-byte behaviour of bufio/net (trusted); behaviour after the connection drops (outside the claim).",
		Assume: []string{"Go channel FIFO semantics", "bufio.Writer.WriteString/Flush write their argument once, in order"},
		Run:    runC09,
	})
	register(&PropertySpec{
		ID:        "C14",
		Technique: "lockset analysis over every access to tracker state; one-critical-section and no-reacquire path rules; deep freshness (escape analysis) of every returned snapshot (static analysis)",
		Explain:   "Decided for all histories and interleavings: every access to a field of stateTracker/nick/channel holds the tracker mutex; each exported method is one critical section (no second acquisition, no re-acquisition while held); every pointer or map an exported tracker method returns is freshly allocated, does not escape into tracker state, and recursively so for its reference-typed fields; no reference-typed parameter is stored. Linearizability then follows from mutual exclusion over whole methods.",
		Assume:    []string{"the Go memory model for sync.Mutex", "no unsafe/reflect writes to tracker state (none in the module; reflect is used only for read-only String/Equals)"},
		Run:       runC14,
	})
}

// ---------------- C09 ----------------

func runC09(c *Ctx) {
	r, a := c.R, c.A
	r.Rule("R1", "the only sender on the outbound queue is Raw, in Raw's own body (caller's goroutine), as a blocking send")
	r.Rule("R2", "receivers from the outbound queue are the single send goroutine (one spawn site outside loops) and discard-only drains started by the teardown after the connected flag is cleared")
	r.Rule("R3", "in the send goroutine each received value flows unmodified to exactly one write call per iteration; write passes value+CRLF to WriteString on the connection writer exactly once, then flushes once; nothing else in the module writes to the socket or its writer")
	r.Rule("R4", "the outbound queue field is assigned only by connect initialisation, after the already-connected refusal")

	funcs := c.clientFuncs()
	// R1
	nSend := 0
	for _, fn := range funcs {
		r.Funcs[c.FuncKey(fn)] = true
		for _, op := range ChanOps(fn) {
			r.Sites++
			if op.Kind != "send" || !c.ChanMayBe(op.Chan, a.Out) {
				continue
			}
			nSend++
			ok := fn == a.Raw && !op.InSelect
			why := "plain send in " + c.FuncKey(fn)
			if fn != a.Raw {
				why = "send on the outbound queue outside Raw's own body (in " + c.FuncKey(fn) + ")"
			} else if op.InSelect {
				why = "send inside a select: a line may take another path (dropped or re-ordered)"
			}
			r.Add("R1", "send-out:"+c.FuncKey(fn), c.InstrPos(op.In), c.FuncKey(fn), "outbound-queue send is Raw's own blocking send", ok, why)
		}
	}
	r.Exactly("R1", "send sites on the outbound queue", nSend, 1)
	// Raw must send on every path
	if a.Raw != nil {
		ok, bad := AllPathsFromEntryPass(a.Raw, func(in ssa.Instruction) bool {
			s, ok := in.(*ssa.Send)
			return ok && c.ChanMayBe(s.Chan, a.Out)
		})
		why := "every path through Raw enqueues"
		if !ok {
			why = "Raw can return at " + c.InstrPos(bad) + " without enqueueing the line"
		}
		r.Add("R1", "raw-always-sends", c.Pos(a.Raw.Pos()), c.FuncKey(a.Raw), "Raw enqueues the line on every path", ok, why)
	}

	// R1 (b): byte identity through Raw - the enqueued value is Raw's parameter cut at CR/LF only (shared with C08.R1)
	c.enqueueIdentityRule("R1")

	// R2
	var sender *ssa.Function
	nRecv := 0
	for _, fn := range funcs {
		for _, op := range ChanOps(fn) {
			if op.Kind != "recv" || !c.ChanMayBe(op.Chan, a.Out) {
				continue
			}
			nRecv++
			v := recvValue(op)
			if a.IsMember(fn) && fn.Parent() == nil && valueUsed(v) {
				ok := sender == nil || sender == fn
				sender = fn
				r.Add("R2", "recv-out:"+c.FuncKey(fn), c.InstrPos(op.In), c.FuncKey(fn), "forwarding receive is in the single send goroutine", ok, "member goroutine")
				continue
			}
			ok, why := c.onlyFromTeardownAfterClear(fn)
			if fn == a.TeardownCore {
				ok = SetDominates(fn, func(in ssa.Instruction) bool { return c.isFlagStore(in, false) }, op.In)
				why = "in the teardown after connected=false"
			}
			if valueUsed(v) {
				ok, why = false, "a non-sender receiver uses the received line"
			}
			r.Add("R2", "recv-out:"+c.FuncKey(fn), c.InstrPos(op.In), c.FuncKey(fn), "other receivers only discard, in drain code started by the teardown after the flag is cleared", ok, why)
		}
	}
	r.Floor("R2", "receives from the outbound queue", nRecv, 2)
	r.Anchor("R2", "send goroutine (member that forwards the outbound queue)", sender != nil)
	if sender == nil {
		return
	}
	gs := c.GoSites(sender)
	okSpawn := len(gs) == 1 && c.LoopDepth(gs[0].Block()) == 0 && len(c.Callers(sender)) == 1
	r.Add("R2", "spawn:"+c.FuncKey(sender), c.Pos(sender.Pos()), c.FuncKey(sender), "sender is started by exactly one go statement outside any loop", okSpawn, fmt.Sprintf("%d go sites, %d call sites", len(gs), len(c.Callers(sender))))

	// R3 (a) received value -> exactly one write call
	var writeFn *ssa.Function
	for _, op := range ChanOps(sender) {
		if op.Kind != "recv" || !c.ChanMayBe(op.Chan, a.Out) {
			continue
		}
		v := recvValue(op)
		var uses []ssa.Instruction
		for _, ref := range *v.Referrers() {
			if _, ok := ref.(*ssa.DebugRef); ok {
				continue
			}
			uses = append(uses, ref)
		}
		ok := len(uses) == 1
		why := fmt.Sprintf("%d uses of the received line", len(uses))
		if ok {
			cs, isCall := uses[0].(*ssa.Call)
			if !isCall || cs.Call.StaticCallee() == nil || !c.InModuleFn(cs.Call.StaticCallee()) {
				ok, why = false, "received line is not passed directly to the write function"
			} else {
				writeFn = cs.Call.StaticCallee()
				// once per receive
				var recvIn ssa.Instruction = op.In
				if !c.OncePerFrom(recvIn, v, cs) {
					ok, why = false, "write is not executed exactly once per received line"
				} else {
					why = "passed unmodified to " + c.FuncKey(writeFn) + " once per receive"
				}
			}
		}
		r.Add("R3", "recv-to-write:"+c.FuncKey(sender), c.InstrPos(op.In), c.FuncKey(sender), "each dequeued line goes unmodified to exactly one write", ok, why)
	}
	r.Anchor("R3", "write function", writeFn != nil)
	if writeFn != nil {
		for _, cs := range c.Callers(writeFn) {
			fn := cs.Parent()
			ok := fn == sender && kindName(cs) == "call"
			r.Add("R3", "write-caller:"+c.FuncKey(fn), c.InstrPos(cs), c.FuncKey(fn), "only the send goroutine writes lines to the socket (a second writer would interleave with a pending write)", ok, kindName(cs)+" in "+c.FuncKey(fn))
		}
	}
	// (b) socket writers
	nW := 0
	for _, fn := range funcs {
		funcInstrs(fn, func(in ssa.Instruction) {
			cs, ok := in.(ssa.CallInstruction)
			if !ok {
				return
			}
			cc := cs.Common()
			if _, isB := cc.Value.(*ssa.Builtin); isB {
				return
			}
			// does any argument (or receiver) derive from the socket / buffered I/O?
			uses := false
			var all []ssa.Value
			if cc.IsInvoke() {
				all = append(all, cc.Value)
			}
			all = append(all, cc.Args...)
			for _, arg := range all {
				if c.derivesFromField(arg, a.IO) || c.derivesFromField(arg, a.Sock) {
					uses = true
				}
			}
			if !uses {
				return
			}
			n := calleeName(cc)
			switch {
			case n == "(*bufio.Reader).ReadString" || n == "(*bufio.Reader).ReadBytes":
				return // reading: C03
			case n == "(net.Conn).Close" || n == "bufio.NewReader" || n == "bufio.NewWriter" || n == "bufio.NewReadWriter" || n == "crypto/tls.Client" || n == "(*crypto/tls.Conn).Handshake":
				return // lifecycle
			case n == "(*bufio.Writer).WriteString":
				nW++
				ok, why := fn == writeFn, "in "+c.FuncKey(fn)
				if ok {
					ok, why = c.crlfOfParam(cc.Args[1], fn)
				}
				if ok && c.LoopDepth(in.Block()) != 0 {
					ok, why = false, "WriteString in a loop"
				}
				r.Add("R3", "socket-write:"+c.FuncKey(fn)+":WriteString", c.InstrPos(in), c.FuncKey(fn), "the only data write is WriteString(line+CRLF) in the write function", ok, why)
			case n == "(*bufio.Writer).Flush":
				ok := fn == writeFn && c.LoopDepth(in.Block()) == 0
				r.Add("R3", "socket-write:"+c.FuncKey(fn)+":Flush", c.InstrPos(in), c.FuncKey(fn), "Flush only in the write function, once", ok, "in "+c.FuncKey(fn))
			default:
				r.Add("R3", "socket-use:"+c.FuncKey(fn)+":"+n, c.InstrPos(in), c.FuncKey(fn), "no other function is handed the socket or its writer", false, "socket/writer passed to "+n)
			}
		})
	}
	r.Exactly("R3", "WriteString sites on the connection writer", nW, 1)
	if writeFn != nil {
		// on the success path: WriteString then Flush, each exactly once
		var ws, fl []ssa.Instruction
		funcInstrs(writeFn, func(in ssa.Instruction) {
			switch calleeName(callOf(in)) {
			case "(*bufio.Writer).WriteString":
				ws = append(ws, in)
			case "(*bufio.Writer).Flush":
				fl = append(fl, in)
			}
		})
		ok := len(ws) == 1 && len(fl) == 1 && instrDominates(ws[0], fl[0])
		why := fmt.Sprintf("%d WriteString, %d Flush", len(ws), len(fl))
		if ok {
			// every return that returns a nil error is dominated by the Flush; returns not dominated return a non-nil error
			funcInstrs(writeFn, func(in ssa.Instruction) {
				rt, isRet := in.(*ssa.Return)
				if !isRet || len(rt.Results) != 1 {
					return
				}
				if !instrDominates(fl[0], rt) && isNilConst(rt.Results[0]) {
					ok, why = false, "success return at "+c.InstrPos(rt)+" is not preceded by Flush"
				}
			})
		}
		r.Add("R3", "write-then-flush:"+c.FuncKey(writeFn), c.Pos(writeFn.Pos()), c.FuncKey(writeFn), "write: one WriteString then one Flush before every success return", ok, why)
		r.Funcs[c.FuncKey(writeFn)] = true
	}

	// R3 (c): text is never re-interpreted as a printf format on its way to the wire
	c.formatHygieneRule("R3")

	// R4
	nSt := 0
	for _, fn := range funcs {
		funcInstrs(fn, func(in ssa.Instruction) {
			if !c.isFieldStore(in, a.Out) {
				return
			}
			nSt++
			ok, why := c.afterRefusals(fn, in)
			r.Add("R4", "out-store:"+c.FuncKey(fn), c.InstrPos(in), c.FuncKey(fn), "outbound queue is replaced only by connect initialisation after the already-connected refusal", ok, why)
		})
	}
	r.Floor("R4", "stores to the outbound queue field", nSt, 1)
}

// enqueueIdentityRule: the value sent on the outbound queue is Raw's own
// parameter truncated at the first CR or LF (identity for CR/LF-free lines).
func (c *Ctx) enqueueIdentityRule(rule string) {
	r, a := c.R, c.A
	fl := c.NewFlow(c.clientFuncs())
	fl.Run()
	var crlf bset
	crlf.add('\r')
	crlf.add('\n')
	for _, fn := range c.clientFuncs() {
		for _, op := range ChanOps(fn) {
			if op.Kind != "send" || !c.ChanMayBe(op.Chan, a.Out) {
				continue
			}
			var v ssa.Value
			if s, ok := op.In.(*ssa.Send); ok {
				v = s.X
			} else if op.Sel != nil {
				v = op.Sel.States[op.State].Send
			}
			ab := fl.At(v, op.In.Block())
			ok, why := false, "enqueued value is not Raw's parameter cut at CR/LF (abstract: "+ab.String()+")"
			if ab.Cut != nil && ab.Cut.Seps == crlf {
				if pr, isP := ab.Cut.Src.(*ssa.Parameter); isP && (pr.Parent() == a.Raw || c.paramOfVia(pr, a.Raw)) {
					ok, why = true, "value = rawline cut at the first of {CR,LF}: unchanged for CR/LF-free lines"
				}
			}
			r.Add(rule, "enqueue-identity:"+c.FuncKey(fn), c.InstrPos(op.In), c.FuncKey(fn), "a CR/LF-free line is enqueued byte for byte", ok, why)
		}
	}
}

// OncePerFrom: `to` executes exactly once for each execution of the receive
// that produced v. For select receives the case block is the anchor.
func (c *Ctx) OncePerFrom(recv ssa.Instruction, v ssa.Value, to ssa.Instruction) bool {
	if in, ok := v.(ssa.Instruction); ok && in.Parent() == to.Parent() {
		// value definition (Extract for select) dominates; use the defining instruction
		if c.OncePer(in, to) {
			return true
		}
	}
	return c.OncePer(recv, to)
}

// crlfOfParam: v is param + "\r\n" where param is a string parameter of fn.
func (c *Ctx) crlfOfParam(v ssa.Value, fn *ssa.Function) (bool, string) {
	bo, ok := v.(*ssa.BinOp)
	if !ok || bo.Op != token.ADD {
		return false, "written data is not <line> + CRLF"
	}
	if s, ok := constString(bo.Y); !ok || s != "\r\n" {
		return false, "terminator is not the constant CRLF"
	}
	if _, ok := bo.X.(*ssa.Parameter); !ok {
		return false, "written text is not the unmodified line parameter"
	}
	return true, "WriteString(param + \"\\r\\n\")"
}

// afterRefusals: instruction `in` of fn (or every call chain to fn from the
// connect routine) is dominated by the false edges of the already-connected
// test and the empty-server test in the connect routine. Functions only
// called from test code / with no callers count as initialisation helpers.
func (c *Ctx) afterRefusals(fn *ssa.Function, in ssa.Instruction) (bool, string) {
	a := c.A
	if fn == a.Connect {
		return c.connectGuards(in)
	}
	sites := c.Callers(fn)
	if len(sites) == 0 {
		return false, c.FuncKey(fn) + " has no caller"
	}
	for _, cs := range sites {
		if ok, why := c.afterRefusals(cs.Parent(), cs); !ok {
			return false, "via " + c.FuncKey(cs.Parent()) + ": " + why
		}
	}
	return true, "every call chain passes the refusals in " + c.FuncKey(a.Connect)
}

// connectGuards: in (inside the connect routine) is dominated by the
// not-connected edge and by the server-non-empty edge.
func (c *Ctx) connectGuards(in ssa.Instruction) (bool, string) {
	a := c.A
	gotConn, gotSrv := false, false
	for _, cd := range CondsAt(in.Block()) {
		cd = unwrapNot(cd)
		// connected flag load
		if fv, _ := loadedField(cd.V); fv == a.Connected && !cd.True {
			gotConn = true
		}
		if bo, ok := cd.V.(*ssa.BinOp); ok && (bo.Op == token.EQL || bo.Op == token.NEQ) {
			var other ssa.Value
			if s, ok := constString(bo.Y); ok && s == "" {
				other = bo.X
			} else if s, ok := constString(bo.X); ok && s == "" {
				other = bo.Y
			}
			if other != nil {
				if fv, _ := loadedField(other); fv == a.CfgServer {
					nonEmpty := (bo.Op == token.NEQ) == cd.True
					if nonEmpty {
						gotSrv = true
					}
				}
			}
		}
	}
	if gotConn && gotSrv {
		return true, "dominated by !connected and Server != \"\""
	}
	return false, fmt.Sprintf("not dominated by both refusals (already-connected=%v, empty-server=%v)", gotConn, gotSrv)
}

// ---------------- C14 ----------------

func (c *Ctx) stateFuncs() []*ssa.Function {
	var out []*ssa.Function
	for _, f := range c.ModFuncs {
		if f.Package() == c.State {
			out = append(out, f)
		}
	}
	return out
}

func runC14(c *Ctx) {
	r := c.R
	r.Rule("R1", "every access to a field of stateTracker, nick or channel holds stateTracker.mu (fresh objects under construction exempt); in every exported tracker method no Lock follows an Unlock (one critical section); the mutex is never acquired while already held")
	r.Rule("R2", "every pointer or map returned by an exported method of the tracker is freshly allocated, does not escape into tracker state, and recursively every reference-typed field / map value of it is too")
	r.Rule("R3", "no reference-typed parameter of an exported tracker method is stored into tracker state")
	funcs := c.stateFuncs()
	internal := map[*types.Named]bool{}
	for _, n := range []string{"stateTracker", "nick", "channel"} {
		if t := c.Named(c.State, n); t != nil {
			internal[t] = true
		}
	}
	r.Anchor("R1", "types stateTracker, nick, channel", len(internal) == 3)
	trk := c.Named(c.State, "stateTracker")
	if trk == nil {
		return
	}
	muVar := c.FieldVar(c.State, "stateTracker", "mu")
	r.Anchor("R1", "stateTracker.mu", muVar != nil)
	const lock = "state.stateTracker.mu"
	ls := c.ComputeLocksets(funcs)
	nAcc := 0
	for _, fn := range funcs {
		if ls.Dead[fn] {
			r.Note("%s is unexported and never called or referenced (dead code): its accesses are not obligations", c.FuncKey(fn))
			continue
		}
		r.Funcs[c.FuncKey(fn)] = true
		funcInstrs(fn, func(in ssa.Instruction) {
			fa, ok := in.(*ssa.FieldAddr)
			if !ok {
				return
			}
			fv, base := fieldOf(fa)
			bt := base.Type()
			if pt, ok := bt.Underlying().(*types.Pointer); ok {
				bt = pt.Elem()
			}
			nt, _ := bt.(*types.Named)
			if nt == nil || !internal[nt] || fv == muVar {
				return
			}
			if c.allOriginsLocalAlloc(base, fn) {
				return
			}
			nAcc++
			held := ls.Held(in, lock)
			r.Add("R1", fmt.Sprintf("access:%s:%s.%s", c.FuncKey(fn), nt.Obj().Name(), fv.Name()), c.InstrPos(in), c.FuncKey(fn), "tracker state accessed under the tracker mutex", held == 'W',
				fmt.Sprintf("lockset=%s entry=%s", ls.At[in], ls.Entry[fn]))
		})
	}
	r.Floor("R1", "accesses to tracker state", nAcc, 80)
	// exported methods: one critical section
	ms := c.SSA.MethodSets.MethodSet(types.NewPointer(trk))
	nExp := 0
	trackerAcq := c.Acquires(funcs)
	fc := c.newFresh()
	for i := 0; i < ms.Len(); i++ {
		sel := ms.At(i)
		if !sel.Obj().Exported() {
			continue
		}
		fn := c.SSA.MethodValue(sel)
		if fn == nil || fn.Blocks == nil {
			continue
		}
		nExp++
		bad := ""
		nLock := 0
		funcInstrs(fn, func(in ssa.Instruction) {
			op, ok := c.lockOpOf(in)
			if !ok || op.Obj != lock {
				return
			}
			if op.Method == "Lock" {
				nLock++
			}
			if op.Method == "Unlock" && !op.Deferred {
				for x := range ReachFrom(in, false, nil) {
					if o2, ok := c.lockOpOf(x); ok && o2.Obj == lock && o2.Method == "Lock" {
						bad = c.InstrPos(x)
					}
				}
			}
		})
		// helper calls that lock are caught by the re-acquire rule; a method that never locks is caught by the access rule
		r.Add("R1", "one-section:"+c.FuncKey(fn), c.Pos(fn.Pos()), c.FuncKey(fn), "exported method is a single critical section", bad == "" && nLock <= 1, fmt.Sprintf("%d Lock sites; Lock after Unlock at %q", nLock, bad))
		// every acquisition event of the method (a Lock of its own, or an awaited call into a function that takes the
		// tracker mutex) must be the only one on its path: two events are two critical sections, and other callers
		// can observe or change the state in between
		var events []ssa.Instruction
		funcInstrs(fn, func(in ssa.Instruction) {
			if op, ok := c.lockOpOf(in); ok {
				if op.Obj == lock && op.Method == "Lock" && !op.Deferred {
					events = append(events, in)
				}
				return
			}
			cs, ok := in.(ssa.CallInstruction)
			if !ok || kindName(cs) == "go" {
				return
			}
			for _, e := range c.Callees(cs) {
				if e.Callee != nil && trackerAcq[e.Callee][lock] {
					events = append(events, in)
					break
				}
			}
		})
		isEvent := map[ssa.Instruction]bool{}
		for _, e := range events {
			isEvent[e] = true
		}
		for _, e := range events {
			if _, d := e.(*ssa.Defer); d {
				continue
			}
			for x := range ReachFrom(e, false, nil) {
				if isEvent[x] {
					r.Add("R1", "split-section:"+c.FuncKey(fn), c.InstrPos(x), c.FuncKey(fn), "exported method does all its work in one critical section", false,
						"the tracker mutex is taken at "+c.InstrPos(e)+" and again at "+c.InstrPos(x)+" (directly or in a callee): the method is not one atomic step")
				}
			}
		}
		// R2
		sig := fn.Signature
		for ri := 0; ri < sig.Results().Len(); ri++ {
			if !isRefType(sig.Results().At(ri).Type()) {
				continue
			}
			ok := fc.funcDeepFresh(fn, ri, 0)
			why := "all returns deep-fresh or nil"
			if !ok {
				why = fc.why
			}
			r.Add("R2", fmt.Sprintf("result:%s#%d", c.FuncKey(fn), ri), c.Pos(fn.Pos()), c.FuncKey(fn), "returned value is a private deep copy", ok, why)
		}
		// R3
		for _, pr := range fn.Params[1:] {
			if !isRefType(pr.Type()) {
				continue
			}
			esc := c.paramStored(pr, 0)
			r.Add("R3", "param:"+c.FuncKey(fn)+":"+pr.Name(), c.Pos(pr.Pos()), c.FuncKey(fn), "caller-owned storage is not retained", esc == "", esc)
		}
	}
	r.Floor("R1", "exported tracker methods", nExp, 17)
	// Copy methods of snapshot component types: results deep-fresh
	for _, tn := range []string{"NickMode", "ChanMode", "ChanPrivs"} {
		fn := c.Func(c.State, "(*"+tn+").Copy")
		if fn == nil {
			r.Anchor("R2", "(*"+tn+").Copy", false)
			continue
		}
		ok := fc.funcDeepFresh(fn, 0, 0)
		why := "fresh struct copy; type has no reference fields"
		if !ok {
			why = fc.why
		}
		r.Add("R2", "copy:"+tn, c.Pos(fn.Pos()), c.FuncKey(fn), "Copy returns a private deep copy", ok, why)
		r.Funcs[c.FuncKey(fn)] = true
	}
	// re-acquisition
	acq := c.Acquires(funcs)
	nRe := 0
	for _, ra := range ls.Reacquisitions(funcs, acq) {
		if ra.Lock != lock {
			continue
		}
		nRe++
		fn := ra.In.Parent()
		r.Add("R1", "reacquire:"+c.FuncKey(fn)+":"+ra.Via, c.InstrPos(ra.In), c.FuncKey(fn), "the tracker mutex is not acquired while already held (self-deadlock)", false, ra.Via+" while the mutex is held")
	}
	r.Add("R1", "no-reacquire", "-", "", "no re-acquisition of the tracker mutex in package state", nRe == 0, fmt.Sprintf("%d sites", nRe))
}

// paramStored reports where a reference-typed parameter (or a slice of it)
// is stored into memory or passed on to a function that stores it.
func (c *Ctx) paramStored(v ssa.Value, depth int) string {
	if depth > 4 {
		return ""
	}
	for _, ref := range *v.Referrers() {
		switch t := ref.(type) {
		case *ssa.Store:
			if t.Val == v {
				if _, isAlloc := t.Addr.(*ssa.Alloc); !isAlloc {
					return "stored at " + c.InstrPos(t)
				}
			}
		case *ssa.MapUpdate:
			if t.Value == v {
				return "stored in a map at " + c.InstrPos(t)
			}
		case *ssa.Slice:
			if s := c.paramStored(t, depth+1); s != "" {
				return s
			}
		case *ssa.Phi:
			if s := c.paramStored(t, depth+1); s != "" {
				return s
			}
		case ssa.CallInstruction:
			cal := t.Common().StaticCallee()
			if cal == nil || !c.InModuleFn(cal) {
				continue
			}
			for i, a := range t.Common().Args {
				if a == v && i < len(cal.Params) {
					if s := c.paramStored(cal.Params[i], depth+1); s != "" {
						return s
					}
				}
			}
		}
	}
	return ""
}

var _ = strings.Contains

// formatHygieneRule: in the command-sending code, the format argument of
// every printf-style call (fmt.Sprintf/Fprintf/Errorf... and module functions
// with a (format string, args ...interface{}) tail) is a constant or the
// enclosing function's own format parameter - never text.
func (c *Ctx) formatHygieneRule(rule string) {
	r, a := c.R, c.A
	isFmtLike := func(sig *types.Signature) int { // index of the format parameter, or -1
		n := sig.Params().Len()
		if !sig.Variadic() || n < 2 {
			return -1
		}
		last := sig.Params().At(n - 1).Type()
		sl, ok := last.(*types.Slice)
		if !ok {
			return -1
		}
		if it, ok := sl.Elem().Underlying().(*types.Interface); !ok || it.NumMethods() != 0 {
			return -1
		}
		if !isStringType(sig.Params().At(n - 2).Type()) {
			return -1
		}
		return n - 2
	}
	// functions that can put text on the wire: command methods and what they call
	var cmds []*ssa.Function
	ms := c.SSA.MethodSets.MethodSet(types.NewPointer(a.Conn))
	for i := 0; i < ms.Len(); i++ {
		if fn := c.SSA.MethodValue(ms.At(i)); fn != nil && fn.Blocks != nil {
			cmds = append(cmds, fn)
		}
	}
	n := 0
	for _, fn := range cmds {
		reach := c.Closure([]*ssa.Function{fn}, func(from *ssa.Function, e Edge) bool {
			return !e.Site.Common().IsInvoke() && e.Kind != EdgeGo && e.Callee != a.ConnDispatch && e.Callee != a.SetDispatch && e.Callee.Package() == c.Client
		})
		if _, ok := reach.Funcs[a.Raw]; !ok && fn != a.Raw && fn.Name() != "write" {
			continue
		}
		for _, cs := range CallSites(fn) {
			cc := cs.Common()
			var sig *types.Signature
			recvOff := 0
			if cc.IsInvoke() {
				continue
			}
			callee := cc.StaticCallee()
			if callee == nil {
				continue
			}
			sig = callee.Signature
			if sig.Recv() != nil {
				recvOff = 1
			}
			fi := isFmtLike(sig)
			if fi < 0 {
				continue
			}
			name := calleeName(cc)
			if strings.HasPrefix(name, modPath+"/logging.") {
				continue // logging formats are C20's subject
			}
			if !(strings.HasPrefix(name, "fmt.") || c.InModuleFn(callee)) {
				continue
			}
			if strings.HasSuffix(name, "ln") || strings.HasSuffix(name, "Sprint") || strings.HasSuffix(name, "Fprint") {
				continue
			}
			if fi+recvOff >= len(cc.Args) {
				continue
			}
			n++
			fa := cc.Args[fi+recvOff]
			ok := false
			why := "format argument is text: " + fa.String()
			if _, isC := constString(fa); isC {
				ok, why = true, "constant format"
			} else if pr, isP := fa.(*ssa.Parameter); isP && pr.Parent() == fn {
				// the function's own format parameter
				if j := isFmtLike(fn.Signature); j >= 0 {
					off := 0
					if fn.Signature.Recv() != nil {
						off = 1
					}
					if j+off < len(fn.Params) && fn.Params[j+off] == pr {
						ok, why = true, "the caller's format parameter is forwarded"
					}
				}
			}
			r.Add(rule, fmt.Sprintf("format:%s:%s#%d", c.FuncKey(fn), calleeShort(cc), n), c.InstrPos(cs), c.FuncKey(fn), "text is never used as a printf format (it would be rewritten at every %)", ok, why)
		}
	}
	r.Floor(rule, "printf-style calls in the command path", n, 1)
}
