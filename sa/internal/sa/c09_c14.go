package sa

import (
	"fmt"
	"go/token"
	"go/types"
	"sort"
	"strings"

	"golang.org/x/tools/go/ssa"
)

func init() {
	register(&PropertySpec{
		ID:        "C09",
		Technique: "single-producer-path / single-consumer pipeline topology and who-may-write-the-socket rules (static analysis)",
		Explain: "Exactly-once, in-order transmission over all interleavings follows from Go channel semantics iff the only sender on the outbound queue is Raw's own body, the only forwarding receiver is the single send goroutine, each received value flows unmodified to exactly one write which writes it once (WriteString of value+CRLF, then Flush), nothing else writes the socket, and the queue is only replaced by connect initialisation after the already-connected refusal. " +
			"Not decided: byte-for-byte behaviour of bufio/net (trusted); behaviour after the connection drops (outside the claim).",
		Assume: []string{"Go channel FIFO semantics", "bufio.Writer.WriteString/Flush write their argument once, in order"},
		Run:    runC09,
	})
	register(&PropertySpec{
		ID:        "C14",
		Technique: "lockset analysis over every access to tracker state; one-critical-section and no-reacquire path rules; deep freshness (escape analysis) of every returned snapshot (static analysis)",
		Explain:   "Decided for all histories and interleavings: every access to a field of stateTracker/nick/channel holds the tracker mutex; each exported method is one critical section (no second acquisition, no re-acquisition while held); every pointer or map an exported tracker method returns is freshly allocated, does not escape into tracker state, and recursively so for its reference-typed fields; no reference-typed parameter is stored. Linearizability then follows from mutual exclusion over whole methods.",
		Assume:    []string{"the Go memory model for sync.Mutex", "no unsafe/reflect writes to tracker state (none in the module; reflect is used only for read-only String/Equals)"},
		Run:       runC14,
	})
}

// ---------------- C09 ----------------

func runC09(c *Ctx) {
	r, a := c.R, c.A
	r.Rule("R1", "the only sender on the outbound queue is Raw, in Raw's own body (caller's goroutine), as a blocking send")
	r.Rule("R2", "receivers from the outbound queue are the single send goroutine (one spawn site outside loops) and discard-only drains started by the teardown after the connected flag is cleared")
	r.Rule("R3", "in the send goroutine each received value flows unmodified to exactly one write call per iteration; write passes value+CRLF to WriteString on the connection writer exactly once, then flushes once; nothing else in the module writes to the socket or its writer")
	r.Rule("R4", "the outbound queue field is assigned only by connect initialisation, after the already-connected refusal")

	funcs := c.clientFuncs()
	// R1
	for _, fn := range funcs {
		r.Funcs[c.FuncKey(fn)] = true
	}
	c.rawSenderRule("R1")

	// R1 (b): byte identity through Raw - the enqueued value is Raw's parameter cut at CR/LF only (shared with C08.R1)
	c.enqueueIdentityRule("R1")

	sender, writeFn := c.senderForwards("R2", "R3")
	if sender == nil {
		return
	}
	r.Anchor("R3", "write function", writeFn != nil)
	if writeFn != nil {
		for _, cs := range c.Callers(writeFn) {
			fn := cs.Parent()
			ok := fn == sender && kindName(cs) == "call"
			r.Add("R3", "write-caller:"+c.FuncKey(fn), c.InstrPos(cs), c.FuncKey(fn), "only the send goroutine writes lines to the socket (a second writer would interleave with a pending write)", ok, kindName(cs)+" in "+c.FuncKey(fn))
		}
	}
	c.socketWritersRule("R3", writeFn)
	r.Rule("R5", "every line handed to the client is enqueued: in each exported command method, no condition that dominates the call of Raw (or of the command / helper that sends) is computed from the client's run-time state - only from the method's arguments and the Config - so no command is silently dropped because of what was sent or received before")
	c.commandsAlwaysSendRule("R5")
	r.Rule("R6", "the connection stays usable for writing: the send goroutine, and everything it calls, blocks only on the receive from the outbound queue, on the connection context and on timers - it never waits for another goroutine of the library (which may itself be blocked in Raw on a full queue: a cycle in which nothing is written again)")
	c.senderWaitsForNobodyRule("R6", sender)
	if writeFn != nil {
		c.writeCompleteRule("R3", writeFn)
	}

	// R3 (c): text is never re-interpreted as a printf format on its way to the wire
	c.formatHygieneRule("R3")
	// R3 (d): nothing sits between the buffered writer and the socket
	c.writerOnSocketRule("R3")

	// R4
	nSt := 0
	for _, fn := range funcs {
		funcInstrs(fn, func(in ssa.Instruction) {
			if !c.isFieldStore(in, a.Out) {
				return
			}
			nSt++
			ok, why := c.afterRefusals(fn, in)
			r.Add("R4", "out-store:"+c.FuncKey(fn), c.InstrPos(in), c.FuncKey(fn), "outbound queue is replaced only by connect initialisation after the already-connected refusal", ok, why)
		})
	}
	r.Floor("R4", "stores to the outbound queue field", nSt, 1)
}

// socketLifecycleHelper: cc hands the socket (or its reader/writer) to a
// module function that itself only performs connection set-up on it (TLS
// wrapping and handshake, buffered reader/writer construction, Close) and
// returns - never a data write.
func (c *Ctx) socketLifecycleHelper(cc *ssa.CallCommon) bool {
	callee := cc.StaticCallee()
	if callee == nil || cc.IsInvoke() || !c.InModuleFn(callee) || callee.Package() != c.Client {
		return false
	}
	a := c.A
	derived := map[ssa.Value]bool{}
	for i, arg := range cc.Args {
		if i < len(callee.Params) && (c.derivesFromIO(arg) || c.derivesFromField(arg, a.Sock)) {
			derived[callee.Params[i]] = true
		}
	}
	if len(derived) == 0 {
		return false
	}
	ok := true
	for changed := true; changed; {
		changed = false
		funcInstrs(callee, func(in ssa.Instruction) {
			x := callOf(in)
			if x == nil {
				// conversions / phis keep the derivation
				switch t := in.(type) {
				case *ssa.MakeInterface:
					if derived[t.X] && !derived[t] {
						derived[t], changed = true, true
					}
				case *ssa.ChangeInterface:
					if derived[t.X] && !derived[t] {
						derived[t], changed = true, true
					}
				case *ssa.Phi:
					for _, e := range t.Edges {
						if derived[e] && !derived[t] {
							derived[t], changed = true, true
						}
					}
				}
				return
			}
			uses := x.IsInvoke() && derived[x.Value]
			for _, arg := range x.Args {
				if derived[arg] {
					uses = true
				}
			}
			if !uses {
				return
			}
			switch calleeName(x) {
			case "crypto/tls.Client", "bufio.NewReader", "bufio.NewWriter", "bufio.NewReadWriter":
				if v, isV := in.(ssa.Value); isV && !derived[v] {
					derived[v], changed = true, true
				}
			case "(*crypto/tls.Conn).Handshake", "(net.Conn).Close", "(*crypto/tls.Conn).Close":
			default:
				ok = false
			}
		})
	}
	return ok
}

// writeCompleteRule: on every success return of the write function the line
// has been written to the connection writer (one WriteString, outside loops)
// and flushed, in the write function itself or in its one socket-write helper.
func (c *Ctx) writeCompleteRule(rule string, writeFn *ssa.Function) {
	r := c.R
	leaf, via := c.writerLeaf(writeFn)
	if leaf == nil {
		leaf = writeFn
	}
	// on the success path: WriteString then Flush, each exactly once
	var ws, fl []ssa.Instruction
	funcInstrs(leaf, func(in ssa.Instruction) {
		switch calleeName(callOf(in)) {
		case "(*bufio.Writer).WriteString":
			ws = append(ws, in)
		case "(*bufio.Writer).Flush":
			fl = append(fl, in)
		}
	})
	ok := len(ws) == 1 && len(fl) == 1 && instrDominates(ws[0], fl[0])
	why := fmt.Sprintf("%d WriteString, %d Flush", len(ws), len(fl))
	succeedsAfter := func(fn *ssa.Function, step ssa.Instruction) {
		// every return that returns a nil error is dominated by the step; returns not dominated return a non-nil error
		funcInstrs(fn, func(in ssa.Instruction) {
			rt, isRet := in.(*ssa.Return)
			if !isRet || len(rt.Results) != 1 {
				return
			}
			if !instrDominates(step, rt) && isNilConst(retVal(rt, 0)) && reachableAvoiding(fn, step)[rt] {
				ok, why = false, "success return at "+c.InstrPos(rt)+" is not preceded by "+c.InstrPos(step)
			}
		})
	}
	if ok {
		succeedsAfter(leaf, fl[0])
		if via != nil {
			// the write function succeeds only after the helper call, and only when it reported no error
			succeedsAfter(writeFn, via)
			funcInstrs(writeFn, func(in ssa.Instruction) {
				rt, isRet := in.(*ssa.Return)
				if !isRet || len(rt.Results) != 1 || !isNilConst(retVal(rt, 0)) {
					return
				}
				nilEdge := false
				for _, cd := range CondsAt(rt.Block()) {
					cd = unwrapNot(cd)
					if bo, isB := cd.V.(*ssa.BinOp); isB && (bo.Op == token.EQL || bo.Op == token.NEQ) && (bo.X == ssa.Value(via) || bo.Y == ssa.Value(via)) && (isNilConst(bo.X) || isNilConst(bo.Y)) {
						nilEdge = (bo.Op == token.EQL) == cd.True
					}
				}
				if !nilEdge {
					ok, why = false, "success return at "+c.InstrPos(rt)+" does not depend on the socket-write helper having succeeded"
				}
			})
		}
	}
	r.Add(rule, "write-then-flush:"+c.FuncKey(writeFn), c.Pos(writeFn.Pos()), c.FuncKey(writeFn), "write: one WriteString then one Flush before every success return", ok, why)
	r.Funcs[c.FuncKey(writeFn)] = true
}

// writeErrorsRule: the write function reports an error only when a socket
// operation did - every returned error is nil, the error result of
// WriteString / Flush on the connection writer, or that of the writer-leaf
// helper. The send goroutine treats any error as a dead link and tears the
// connection down, so a validation error on a line would end a healthy
// connection.
func (c *Ctx) writeErrorsRule(rule string) {
	r := c.R
	wf := c.Func(c.Client, "(*Conn).write")
	if !r.Anchor(rule, "the write function of the send goroutine", wf != nil) {
		return
	}
	leaf, via := c.writerLeaf(wf)
	n := 0
	check := func(fn *ssa.Function) {
		funcInstrs(fn, func(in ssa.Instruction) {
			rt, ok := in.(*ssa.Return)
			if !ok || len(rt.Results) != 1 {
				return
			}
			for _, o := range c.originsLocal(retVal(rt, 0)) {
				n++
				okE, why := false, "returns "+o.String()+", which is not the error of a socket operation"
				switch t := o.(type) {
				case *ssa.Const:
					okE, why = t.Value == nil, "nil"
				case *ssa.Extract:
					if call, isC := t.Tuple.(*ssa.Call); isC && len(call.Call.Args) > 0 && c.derivesFromIO(call.Call.Args[0]) {
						okE, why = true, "error of "+calleeShort(&call.Call)
					}
				case *ssa.Call:
					if len(t.Call.Args) > 0 && c.derivesFromIO(t.Call.Args[0]) && !t.Call.IsInvoke() {
						okE, why = true, "error of "+calleeShort(&t.Call)
					}
					if via != nil && t == via {
						okE, why = true, "error of the socket-write helper"
					}
				}
				r.Add(rule, fmt.Sprintf("write-error:%s#%d", c.FuncKey(fn), n), c.InstrPos(rt), c.FuncKey(fn), "the write function fails only when the socket does", okE, why)
			}
		})
	}
	check(wf)
	if leaf != nil && leaf != wf {
		check(leaf)
	}
	r.Floor(rule, "error results of the write function", n, 2)
}

// writerLeaf: the function that performs the socket write for writeFn: writeFn
// itself when it calls WriteString on the connection writer, otherwise the
// unexported client function that does and that writeFn calls exactly once,
// outside loops, with its own line parameter. via is that call (nil if direct).
func (c *Ctx) writerLeaf(writeFn *ssa.Function) (leaf *ssa.Function, via *ssa.Call) {
	has := func(fn *ssa.Function) bool {
		found := false
		funcInstrs(fn, func(in ssa.Instruction) {
			if cc := callOf(in); cc != nil && calleeName(cc) == "(*bufio.Writer).WriteString" && len(cc.Args) > 0 && c.derivesFromField(cc.Args[0], c.A.IO) {
				found = true
			}
		})
		return found
	}
	if writeFn == nil {
		return nil, nil
	}
	if has(writeFn) {
		return writeFn, nil
	}
	var sites []*ssa.Call
	for _, cs := range CallSites(writeFn) {
		call, ok := cs.(*ssa.Call)
		if !ok || call.Call.IsInvoke() {
			continue
		}
		cal := call.Call.StaticCallee()
		if cal == nil || cal.Package() != c.Client || !c.InModuleFn(cal) || (cal.Object() != nil && cal.Object().Exported()) || !has(cal) {
			continue
		}
		sites = append(sites, call)
	}
	if len(sites) != 1 || c.LoopDepth(sites[0].Block()) != 0 {
		return nil, nil
	}
	cal := sites[0].Call.StaticCallee()
	if len(c.staticCallers(cal)) != 1 || addrTaken(cal) {
		return nil, nil // the helper can be reached without passing through writeFn
	}
	// the helper's string parameter is writeFn's own line parameter
	okArg := false
	for i, arg := range sites[0].Call.Args {
		if pr, isP := arg.(*ssa.Parameter); isP && pr.Parent() == writeFn && isStringType(pr.Type()) && i < len(cal.Params) {
			okArg = true
		}
	}
	if !okArg {
		return nil, nil
	}
	return cal, sites[0]
}

// rawSenderRule: the only sender on the outbound queue is Raw's own body, by a
// plain blocking send, on every path.
func (c *Ctx) rawSenderRule(rule string) {
	r, a := c.R, c.A
	funcs := c.clientFuncs()
	// R1
	nSend := 0
	for _, fn := range funcs {
		for _, op := range ChanOps(fn) {
			r.Sites++
			if op.Kind != "send" || !c.ChanMayBe(op.Chan, a.Out) {
				continue
			}
			nSend++
			ok := fn == c.rawBody() && !op.InSelect
			why := "plain send in " + c.FuncKey(fn)
			if fn != c.rawBody() {
				why = "send on the outbound queue outside Raw's own body (in " + c.FuncKey(fn) + ")"
			} else if op.InSelect {
				why = "send inside a select: a line may take another path (dropped or re-ordered)"
			}
			r.Add(rule, "send-out:"+c.FuncKey(fn), c.InstrPos(op.In), c.FuncKey(fn), "outbound-queue send is Raw's own blocking send", ok, why)
		}
	}
	r.Exactly(rule, "send sites on the outbound queue", nSend, 1)
	// Raw must send on every path
	if a.Raw != nil {
		ok, bad := AllPathsFromEntryPass(c.rawBody(), func(in ssa.Instruction) bool {
			s, ok := in.(*ssa.Send)
			return ok && c.ChanMayBe(s.Chan, a.Out)
		})
		why := "every path through Raw enqueues"
		if !ok {
			why = "Raw can return at " + c.InstrPos(bad) + " without enqueueing the line"
		}
		r.Add(rule, "raw-always-sends", c.Pos(a.Raw.Pos()), c.FuncKey(a.Raw), "Raw enqueues the line on every path", ok, why)
	}

}

// writerOnSocketRule: the connection's buffered reader/writer are built
// directly on the socket - no wrapper type sits between bufio and the wire.
func (c *Ctx) writerOnSocketRule(rule string) {
	r, a := c.R, c.A
	n := 0
	for _, fn := range c.clientFuncs() {
		funcInstrs(fn, func(in ssa.Instruction) {
			call, ok := in.(*ssa.Call)
			if !ok {
				return
			}
			switch calleeName(&call.Call) {
			case "bufio.NewReader", "bufio.NewWriter", "bufio.NewReaderSize", "bufio.NewWriterSize":
			default:
				return
			}
			// only constructions that end up in the connection's I/O field
			feeds := false
			var walk func(v ssa.Value, d int)
			walk = func(v ssa.Value, d int) {
				if d > 4 || v.Referrers() == nil {
					return
				}
				for _, ref := range *v.Referrers() {
					switch t := ref.(type) {
					case *ssa.Store:
						if fv, _ := fieldOf(t.Addr); a.isIO(fv) {
							feeds = true
						}
					case *ssa.Call:
						if calleeName(&t.Call) == "bufio.NewReadWriter" {
							walk(t, d+1)
						}
					case *ssa.Phi, *ssa.ChangeType, *ssa.MakeInterface:
						walk(t.(ssa.Value), d+1)
					}
				}
			}
			walk(call, 0)
			if !feeds {
				return
			}
			n++
			okS, why := true, "built directly on the socket"
			for _, o := range c.Origins(call.Call.Args[0]) {
				if fv, _ := loadedField(o); fv == a.Sock {
					continue
				}
				if c.derivesFromField(o, a.Sock) {
					continue
				}
				okS, why = false, "built on "+o.String()+" ("+shortType(o.Type())+"), not on the socket itself: whatever sits in between can change or reframe the bytes"
			}
			r.Add(rule, "io-on-socket:"+c.FuncKey(fn)+":"+calleeShort(&call.Call), c.InstrPos(call), c.FuncKey(fn), "the buffered reader/writer of the connection wrap the socket itself", okS, why)
		})
	}
	r.Floor(rule, "bufio constructions feeding the connection's I/O field", n, 2)
}

// lockReleasedRule: every acquisition of a lock in funcs is released on every
// path to a return - by an Unlock on the path or by a deferred Unlock that is
// registered on the path (a lock leaked on a rare path stalls every later
// caller for good).
func (c *Ctx) lockReleasedRule(rule string, funcs []*ssa.Function) {
	r := c.R
	n := 0
	for _, fn := range funcs {
		if _, _, isW := c.lockWrapper(fn); isW {
			continue // hands the release to its caller; the call sites are checked instead
		}
		cnt := map[string]int{}
		funcInstrs(fn, func(in ssa.Instruction) {
			op, ok := c.lockOpOf(in)
			if !ok || op.Deferred || (op.Method != "Lock" && op.Method != "RLock") {
				return
			}
			n++
			cnt[op.Obj]++
			okAll, bad := AllPathsPass(in, false, func(x ssa.Instruction) bool {
				o2, ok := c.lockOpOf(x)
				return ok && o2.Obj == op.Obj && (o2.Method == "Unlock" || o2.Method == "RUnlock")
			})
			why := "an Unlock (or a deferred one) lies on every path to a return"
			if !okAll {
				why = "the return at " + c.InstrPos(bad) + " is reachable with " + op.Obj + " still held"
			}
			r.Add(rule, fmt.Sprintf("released:%s:%s#%d", c.FuncKey(fn), op.Obj, cnt[op.Obj]), c.InstrPos(in), c.FuncKey(fn), "the lock is released on every path", okAll, why)
		})
	}
	r.Floor(rule, "lock acquisitions checked for release", n, 10)
}

// enqueueIdentityRule: the value sent on the outbound queue is Raw's own
// parameter truncated at the first CR or LF (identity for CR/LF-free lines).
func (c *Ctx) enqueueIdentityRule(rule string) {
	r, a := c.R, c.A
	fl := c.NewFlow(c.clientFuncs())
	fl.Run()
	var crlf bset
	crlf.add('\r')
	crlf.add('\n')
	for _, fn := range c.clientFuncs() {
		for _, op := range ChanOps(fn) {
			if op.Kind != "send" || !c.ChanMayBe(op.Chan, a.Out) {
				continue
			}
			var v ssa.Value
			if s, ok := op.In.(*ssa.Send); ok {
				v = s.X
			} else if op.Sel != nil {
				v = op.Sel.States[op.State].Send
			}
			ab := fl.At(v, op.In.Block())
			ok, why := false, "enqueued value is not Raw's parameter cut at CR/LF (abstract: "+ab.String()+")"
			if ab.Cut != nil && ab.Cut.Seps == crlf {
				if pr, isP := ab.Cut.Src.(*ssa.Parameter); isP && (pr.Parent() == c.rawBody() || c.paramOfVia(pr, c.rawBody())) {
					ok, why = true, "value = rawline cut at the first of {CR,LF}: unchanged for CR/LF-free lines"
				}
			}
			r.Add(rule, "enqueue-identity:"+c.FuncKey(fn), c.InstrPos(op.In), c.FuncKey(fn), "a CR/LF-free line is enqueued byte for byte", ok, why)
		}
	}
}

// OncePerFrom: `to` executes exactly once for each execution of the receive
// that produced v. For select receives the case block is the anchor.
func (c *Ctx) OncePerFrom(recv ssa.Instruction, v ssa.Value, to ssa.Instruction) bool {
	if in, ok := v.(ssa.Instruction); ok && in.Parent() == to.Parent() {
		// value definition (Extract for select) dominates; use the defining instruction
		if c.OncePer(in, to) {
			return true
		}
	}
	return c.OncePer(recv, to)
}

// crlfOfParam: v is param + "\r\n" where param is a string parameter of fn.
func (c *Ctx) crlfOfParam(v ssa.Value, fn *ssa.Function) (bool, string) {
	bo, ok := v.(*ssa.BinOp)
	if !ok || bo.Op != token.ADD {
		return false, "written data is not <line> + CRLF"
	}
	if s, ok := constString(bo.Y); !ok || s != "\r\n" {
		return false, "terminator is not the constant CRLF"
	}
	if _, ok := bo.X.(*ssa.Parameter); !ok {
		return false, "written text is not the unmodified line parameter"
	}
	return true, "WriteString(param + \"\\r\\n\")"
}

// afterRefusals: instruction `in` of fn (or every call chain to fn from the
// connect routine) is dominated by the false edges of the already-connected
// test and the empty-server test in the connect routine. Functions only
// called from test code / with no callers count as initialisation helpers.
func (c *Ctx) afterRefusals(fn *ssa.Function, in ssa.Instruction) (bool, string) {
	a := c.A
	if fn == a.Connect {
		return c.connectGuards(in)
	}
	sites := c.Callers(fn)
	if len(sites) == 0 {
		return false, c.FuncKey(fn) + " has no caller"
	}
	for _, cs := range sites {
		if ok, why := c.afterRefusals(cs.Parent(), cs); !ok {
			return false, "via " + c.FuncKey(cs.Parent()) + ": " + why
		}
	}
	return true, "every call chain passes the refusals in " + c.FuncKey(a.Connect)
}

// connectGuards: in (inside the connect routine) is dominated by the
// not-connected edge and by the server-non-empty edge.
func (c *Ctx) connectGuards(in ssa.Instruction) (bool, string) {
	gotConn, gotSrv := c.refusalFacts(in.Block(), 0)
	if gotConn && gotSrv {
		return true, "dominated by !connected and Server != \"\""
	}
	return false, fmt.Sprintf("not dominated by both refusals (already-connected=%v, empty-server=%v)", gotConn, gotSrv)
}

// refusalFacts: what is known at block b about the two refusal conditions of
// the connect routine: the connected flag is false, Config.Server is not "".
// Facts come from branch conditions on the flag / the address themselves, or
// from the "no error" edge of a check helper (an unexported client function
// returning one error whose every nil return is itself dominated by them).
func (c *Ctx) refusalFacts(b *ssa.BasicBlock, depth int) (gotConn, gotSrv bool) {
	a := c.A
	for _, cd := range CondsAt(b) {
		cd = unwrapNot(cd)
		// connected flag load
		if fv, _ := loadedField(cd.V); fv == a.Connected && !cd.True {
			gotConn = true
		}
		bo, ok := cd.V.(*ssa.BinOp)
		if !ok || (bo.Op != token.EQL && bo.Op != token.NEQ) {
			continue
		}
		var other ssa.Value
		if s, ok := constString(bo.Y); ok && s == "" {
			other = bo.X
		} else if s, ok := constString(bo.X); ok && s == "" {
			other = bo.Y
		}
		if other != nil {
			if fv, _ := loadedField(other); fv == a.CfgServer && (bo.Op == token.NEQ) == cd.True {
				gotSrv = true
			}
		}
		// err := conn.check(); err == nil
		var errV ssa.Value
		if isNilConst(bo.Y) {
			errV = bo.X
		} else if isNilConst(bo.X) {
			errV = bo.Y
		}
		if call, isC := errV.(*ssa.Call); isC && depth < 2 && (bo.Op == token.EQL) == cd.True {
			if h := c.checkHelper(call); h != nil {
				hc, hs := c.checkHelperFacts(h, depth+1)
				gotConn = gotConn || hc
				gotSrv = gotSrv || hs
			}
		}
	}
	return
}

// checkHelper: call is a plain call of an unexported client function that
// returns exactly one error.
func (c *Ctx) checkHelper(call *ssa.Call) *ssa.Function {
	h := call.Call.StaticCallee()
	if h == nil || call.Call.IsInvoke() || h.Package() != c.Client || !c.InModuleFn(h) || (h.Object() != nil && h.Object().Exported()) {
		return nil
	}
	res := h.Signature.Results()
	if res.Len() != 1 || typeString(res.At(0).Type()) != "error" {
		return nil
	}
	return h
}

// checkHelperFacts: the refusal facts that hold at every return of h whose
// result may be nil.
func (c *Ctx) checkHelperFacts(h *ssa.Function, depth int) (bool, bool) {
	allConn, allSrv, n := true, true, 0
	funcInstrs(h, func(in ssa.Instruction) {
		rt, ok := in.(*ssa.Return)
		if !ok || len(rt.Results) != 1 {
			return
		}
		mayNil := false
		for _, o := range c.originsLocal(retVal(rt, 0)) {
			if isNilConst(o) {
				mayNil = true
			} else if _, isCall := o.(*ssa.Call); !isCall {
				if _, isMI := o.(*ssa.MakeInterface); !isMI {
					mayNil = true // an error value of unknown nil-ness
				}
			}
		}
		if !mayNil {
			return
		}
		n++
		hc, hs := c.refusalFacts(rt.Block(), depth)
		allConn = allConn && hc
		allSrv = allSrv && hs
	})
	if n == 0 {
		return false, false
	}
	return allConn, allSrv
}

// ---------------- C14 ----------------

func (c *Ctx) stateFuncs() []*ssa.Function {
	var out []*ssa.Function
	for _, f := range c.ModFuncs {
		if f.Package() == c.State {
			out = append(out, f)
		}
	}
	return out
}

func runC14(c *Ctx) {
	r := c.R
	r.Rule("R1", "every access to a field of stateTracker, nick or channel holds stateTracker.mu (fresh objects under construction exempt); in every exported tracker method no Lock follows an Unlock (one critical section); the mutex is never acquired while already held")
	r.Rule("R2", "every pointer or map returned by an exported method of the tracker is freshly allocated, does not escape into tracker state, and recursively every reference-typed field / map value of it is too")
	r.Rule("R3", "no reference-typed parameter of an exported tracker method is stored into tracker state")
	r.Rule("R4", "the mutex locked is the tracker's own, never a copy: no function of package state receives or copies by value a struct that contains a sync.Mutex or sync.RWMutex (a value receiver on the tracker would lock a private copy of the mutex and exclude nobody)")
	c.noLockCopiesRule("R4", c.stateFuncs())
	r.Rule("R5", "snapshots are formatted and compared without the tracker lock, on values their caller owns: outside package initialisation no function of package state writes package-level storage (a variable, a map or slice held in one, a slice of a package-level array) - shared scratch space would let concurrent callers see each other's data")
	c.noGlobalWritesRule("R5", c.stateFuncs())
	c.formatterReacquireRule("R1", c.stateFuncs())
	funcs := c.stateFuncs()
	internal := map[*types.Named]bool{}
	for _, n := range []string{"stateTracker", "nick", "channel"} {
		if t := c.Named(c.State, n); t != nil {
			internal[t] = true
		}
	}
	r.Anchor("R1", "types stateTracker, nick, channel", len(internal) == 3)
	trk := c.Named(c.State, "stateTracker")
	if trk == nil {
		return
	}
	muVar := c.FieldVar(c.State, "stateTracker", "mu")
	r.Anchor("R1", "stateTracker.mu", muVar != nil)
	lock := c.lockFieldName(c.State, "stateTracker")
	ls := c.ComputeLocksets(funcs)
	nAcc := 0
	for _, fn := range funcs {
		if ls.Dead[fn] {
			r.Note("%s is unexported and never called or referenced (dead code): its accesses are not obligations", c.FuncKey(fn))
			continue
		}
		r.Funcs[c.FuncKey(fn)] = true
		funcInstrs(fn, func(in ssa.Instruction) {
			fa, ok := in.(*ssa.FieldAddr)
			if !ok {
				return
			}
			fv, base := fieldOf(fa)
			bt := base.Type()
			if pt, ok := bt.Underlying().(*types.Pointer); ok {
				bt = pt.Elem()
			}
			nt, _ := bt.(*types.Named)
			if nt == nil || !internal[nt] || fv == muVar {
				return
			}
			if c.allOriginsLocalAlloc(base, fn) {
				return
			}
			nAcc++
			held := ls.Held(in, lock)
			r.Add("R1", fmt.Sprintf("access:%s:%s.%s", c.FuncKey(fn), nt.Obj().Name(), fv.Name()), c.InstrPos(in), c.FuncKey(fn), "tracker state accessed under the tracker mutex", held == 'W',
				fmt.Sprintf("lockset=%s entry=%s", ls.At[in], ls.Entry[fn]))
		})
	}
	r.Floor("R1", "accesses to tracker state", nAcc, 80)
	r.Rule("R6", "internal records never outlive the critical section inside a value: a *nick, *channel or tracker pointer boxed into an interface goes straight into the argument list of a logging / fmt call made at that point with the tracker lock held - it is not stored, captured by a closure, passed to a module function or to a deferred call (a warning queued under the lock and formatted after the unlock reads the record's maps unlocked)")
	c.internalsStayInsideRule("R6", funcs, lock, ls)
	// exported methods: one critical section
	ms := c.SSA.MethodSets.MethodSet(types.NewPointer(trk))
	nExp := 0
	trackerAcq := c.Acquires(funcs)
	c.lockReleasedRule("R1", funcs)
	fc := c.newFresh()
	for i := 0; i < ms.Len(); i++ {
		sel := ms.At(i)
		if !sel.Obj().Exported() {
			continue
		}
		fn := c.SSA.MethodValue(sel)
		if fn == nil || fn.Blocks == nil {
			continue
		}
		nExp++
		bad := ""
		nLock := 0
		funcInstrs(fn, func(in ssa.Instruction) {
			op, ok := c.lockOpOf(in)
			if !ok || op.Obj != lock {
				return
			}
			if op.Method == "Lock" {
				nLock++
			}
			if op.Method == "Unlock" && !op.Deferred {
				for x := range ReachFrom(in, false, nil) {
					if o2, ok := c.lockOpOf(x); ok && o2.Obj == lock && o2.Method == "Lock" {
						bad = c.InstrPos(x)
					}
				}
			}
		})
		// helper calls that lock are caught by the re-acquire rule; a method that never locks is caught by the access rule
		r.Add("R1", "one-section:"+c.FuncKey(fn), c.Pos(fn.Pos()), c.FuncKey(fn), "exported method is a single critical section", bad == "" && nLock <= 1, fmt.Sprintf("%d Lock sites; Lock after Unlock at %q", nLock, bad))
		// every acquisition event of the method (a Lock of its own, or an awaited call into a function that takes the
		// tracker mutex) must be the only one on its path: two events are two critical sections, and other callers
		// can observe or change the state in between
		var events []ssa.Instruction
		funcInstrs(fn, func(in ssa.Instruction) {
			if op, ok := c.lockOpOf(in); ok {
				if op.Obj == lock && op.Method == "Lock" && !op.Deferred {
					events = append(events, in)
				}
				return
			}
			cs, ok := in.(ssa.CallInstruction)
			if !ok || kindName(cs) == "go" {
				return
			}
			for _, e := range c.Callees(cs) {
				if e.Callee != nil && trackerAcq[e.Callee][lock] {
					events = append(events, in)
					break
				}
			}
		})
		isEvent := map[ssa.Instruction]bool{}
		for _, e := range events {
			isEvent[e] = true
		}
		for _, e := range events {
			if _, d := e.(*ssa.Defer); d {
				continue
			}
			for x := range ReachFrom(e, false, nil) {
				if isEvent[x] {
					r.Add("R1", "split-section:"+c.FuncKey(fn), c.InstrPos(x), c.FuncKey(fn), "exported method does all its work in one critical section", false,
						"the tracker mutex is taken at "+c.InstrPos(e)+" and again at "+c.InstrPos(x)+" (directly or in a callee): the method is not one atomic step")
				}
			}
		}
		// R2
		sig := fn.Signature
		for ri := 0; ri < sig.Results().Len(); ri++ {
			if !isRefType(sig.Results().At(ri).Type()) {
				continue
			}
			ok := fc.funcDeepFresh(fn, ri, 0)
			why := "all returns deep-fresh or nil"
			if !ok {
				why = fc.why
			}
			r.Add("R2", fmt.Sprintf("result:%s#%d", c.FuncKey(fn), ri), c.Pos(fn.Pos()), c.FuncKey(fn), "returned value is a private deep copy", ok, why)
		}
		// R3
		for _, pr := range fn.Params[1:] {
			if !isRefType(pr.Type()) {
				continue
			}
			esc := c.paramStored(pr, 0)
			r.Add("R3", "param:"+c.FuncKey(fn)+":"+pr.Name(), c.Pos(pr.Pos()), c.FuncKey(fn), "caller-owned storage is not retained", esc == "", esc)
		}
	}
	r.Floor("R1", "exported tracker methods", nExp, 17)
	// Copy methods of snapshot component types: results deep-fresh
	for _, tn := range []string{"NickMode", "ChanMode", "ChanPrivs"} {
		fn := c.Func(c.State, "(*"+tn+").Copy")
		if fn == nil {
			r.Anchor("R2", "(*"+tn+").Copy", false)
			continue
		}
		ok := fc.funcDeepFresh(fn, 0, 0)
		why := "fresh struct copy; type has no reference fields"
		if !ok {
			why = fc.why
		}
		r.Add("R2", "copy:"+tn, c.Pos(fn.Pos()), c.FuncKey(fn), "Copy returns a private deep copy", ok, why)
		r.Funcs[c.FuncKey(fn)] = true
	}
	// re-acquisition
	acq := c.Acquires(funcs)
	nRe := 0
	for _, ra := range ls.Reacquisitions(funcs, acq) {
		if ra.Lock != lock {
			continue
		}
		nRe++
		fn := ra.In.Parent()
		r.Add("R1", "reacquire:"+c.FuncKey(fn)+":"+ra.Via, c.InstrPos(ra.In), c.FuncKey(fn), "the tracker mutex is not acquired while already held (self-deadlock)", false, ra.Via+" while the mutex is held")
	}
	r.Add("R1", "no-reacquire", "-", "", "no re-acquisition of the tracker mutex in package state", nRe == 0, fmt.Sprintf("%d sites", nRe))
}

// paramStored reports where a reference-typed parameter (or a slice of it)
// is stored into memory or passed on to a function that stores it.
func (c *Ctx) paramStored(v ssa.Value, depth int) string {
	if depth > 4 {
		return ""
	}
	for _, ref := range *v.Referrers() {
		switch t := ref.(type) {
		case *ssa.Store:
			if t.Val == v {
				if _, isAlloc := t.Addr.(*ssa.Alloc); !isAlloc {
					return "stored at " + c.InstrPos(t)
				}
			}
		case *ssa.MapUpdate:
			if t.Value == v {
				return "stored in a map at " + c.InstrPos(t)
			}
		case *ssa.Slice:
			if s := c.paramStored(t, depth+1); s != "" {
				return s
			}
		case *ssa.Phi:
			if s := c.paramStored(t, depth+1); s != "" {
				return s
			}
		case ssa.CallInstruction:
			cal := t.Common().StaticCallee()
			if cal == nil || !c.InModuleFn(cal) {
				continue
			}
			for i, a := range t.Common().Args {
				if a == v && i < len(cal.Params) {
					if s := c.paramStored(cal.Params[i], depth+1); s != "" {
						return s
					}
				}
			}
		}
	}
	return ""
}

var _ = strings.Contains

// formatHygieneRule: in the command-sending code, the format argument of
// every printf-style call (fmt.Sprintf/Fprintf/Errorf... and module functions
// with a (format string, args ...interface{}) tail) is a constant or the
// enclosing function's own format parameter - never text.
func (c *Ctx) formatHygieneRule(rule string) {
	r, a := c.R, c.A
	isFmtLike := func(sig *types.Signature) int { // index of the format parameter, or -1
		n := sig.Params().Len()
		if !sig.Variadic() || n < 2 {
			return -1
		}
		last := sig.Params().At(n - 1).Type()
		sl, ok := last.(*types.Slice)
		if !ok {
			return -1
		}
		if it, ok := sl.Elem().Underlying().(*types.Interface); !ok || it.NumMethods() != 0 {
			return -1
		}
		if !isStringType(sig.Params().At(n - 2).Type()) {
			return -1
		}
		return n - 2
	}
	// functions that can put text on the wire: command methods and what they call
	var cmds []*ssa.Function
	ms := c.SSA.MethodSets.MethodSet(types.NewPointer(a.Conn))
	for i := 0; i < ms.Len(); i++ {
		if fn := c.SSA.MethodValue(ms.At(i)); fn != nil && fn.Blocks != nil {
			cmds = append(cmds, fn)
		}
	}
	n := 0
	for _, fn := range cmds {
		reach := c.Closure([]*ssa.Function{fn}, func(from *ssa.Function, e Edge) bool {
			return !e.Site.Common().IsInvoke() && e.Kind != EdgeGo && e.Callee != a.ConnDispatch && e.Callee != a.SetDispatch && e.Callee.Package() == c.Client
		})
		if _, ok := reach.Funcs[a.Raw]; !ok && fn != a.Raw && fn.Name() != "write" {
			continue
		}
		for _, cs := range CallSites(fn) {
			cc := cs.Common()
			var sig *types.Signature
			recvOff := 0
			if cc.IsInvoke() {
				continue
			}
			callee := cc.StaticCallee()
			if callee == nil {
				continue
			}
			sig = callee.Signature
			if sig.Recv() != nil {
				recvOff = 1
			}
			fi := isFmtLike(sig)
			if fi < 0 {
				continue
			}
			name := calleeName(cc)
			if strings.HasPrefix(name, modPath+"/logging.") {
				continue // logging formats are C20's subject
			}
			if !(strings.HasPrefix(name, "fmt.") || c.InModuleFn(callee)) {
				continue
			}
			if strings.HasSuffix(name, "ln") || strings.HasSuffix(name, "Sprint") || strings.HasSuffix(name, "Fprint") {
				continue
			}
			if fi+recvOff >= len(cc.Args) {
				continue
			}
			n++
			fa := cc.Args[fi+recvOff]
			ok := false
			why := "format argument is text: " + fa.String()
			if _, isC := constString(fa); isC {
				ok, why = true, "constant format"
			} else if pr, isP := fa.(*ssa.Parameter); isP && pr.Parent() == fn {
				// the function's own format parameter
				if j := isFmtLike(fn.Signature); j >= 0 {
					off := 0
					if fn.Signature.Recv() != nil {
						off = 1
					}
					if j+off < len(fn.Params) && fn.Params[j+off] == pr {
						ok, why = true, "the caller's format parameter is forwarded"
					}
				}
			}
			r.Add(rule, fmt.Sprintf("format:%s:%s#%d", c.FuncKey(fn), calleeShort(cc), n), c.InstrPos(cs), c.FuncKey(fn), "text is never used as a printf format (it would be rewritten at every %)", ok, why)
		}
	}
	r.Floor(rule, "printf-style calls in the command path", n, 1)
}

// containsLock: t holds a sync.Mutex / sync.RWMutex by value (directly, in an
// embedded or nested struct, or in an array).
func containsLock(t types.Type, depth int) bool {
	if depth > 6 {
		return false
	}
	if nt, ok := t.(*types.Named); ok {
		if o := nt.Obj(); o != nil && o.Pkg() != nil && o.Pkg().Path() == "sync" && (o.Name() == "Mutex" || o.Name() == "RWMutex") {
			return true
		}
	}
	switch u := t.Underlying().(type) {
	case *types.Struct:
		for i := 0; i < u.NumFields(); i++ {
			if containsLock(u.Field(i).Type(), depth+1) {
				return true
			}
		}
	case *types.Array:
		return containsLock(u.Elem(), depth+1)
	}
	return false
}

// noLockCopiesRule: no parameter, receiver or loaded value of a lock-holding
// struct type in funcs.
func (c *Ctx) noLockCopiesRule(rule string, funcs []*ssa.Function) {
	r := c.R
	n, nBad := 0, 0
	for _, fn := range funcs {
		if fn.Synthetic != "" {
			continue
		}
		n++
		for _, p := range fn.Params {
			if containsLock(p.Type(), 0) {
				nBad++
				r.Add(rule, "lock-copy:"+c.FuncKey(fn)+":"+p.Name(), c.Pos(fn.Pos()), c.FuncKey(fn), "no struct holding a mutex is passed by value", false, "parameter "+p.Name()+" of type "+typeString(p.Type())+" is a copy: locking its mutex excludes nobody")
			}
		}
		funcInstrs(fn, func(in ssa.Instruction) {
			if u, ok := in.(*ssa.UnOp); ok && u.Op == token.MUL && containsLock(u.Type(), 0) {
				nBad++
				r.Add(rule, "lock-copy:"+c.FuncKey(fn)+":load", c.InstrPos(u), c.FuncKey(fn), "no struct holding a mutex is copied", false, "value of type "+typeString(u.Type())+" is copied")
			}
		})
	}
	r.Add(rule, "no-lock-copies", "-", "", fmt.Sprintf("none of the %d functions examined receives or copies a lock-holding struct by value", n), nBad == 0, fmt.Sprintf("%d copies", nBad))
	r.Floor(rule, "functions examined for lock copies", n, 40)
}

// noGlobalWritesRule: C14.R5 - outside package initialisation no function of
// package state writes package-level storage (directly, through a map held in
// a package-level variable, or through a slice of a package-level array).
// Snapshot methods run without the tracker lock on values the caller owns;
// shared scratch storage would make concurrent callers see each other's data.
func (c *Ctx) noGlobalWritesRule(rule string, funcs []*ssa.Function) {
	r := c.R
	n, nBad := 0, 0
	var rootG func(v ssa.Value, seen map[ssa.Value]bool, d int) *ssa.Global
	rootG = func(v ssa.Value, seen map[ssa.Value]bool, d int) *ssa.Global {
		if v == nil || seen[v] || d > 12 {
			return nil
		}
		seen[v] = true
		switch t := v.(type) {
		case *ssa.Global:
			return t
		case *ssa.FieldAddr:
			return rootG(t.X, seen, d+1)
		case *ssa.IndexAddr:
			return rootG(t.X, seen, d+1)
		case *ssa.Slice:
			return rootG(t.X, seen, d+1)
		case *ssa.Phi:
			for _, e := range t.Edges {
				if g := rootG(e, seen, d+1); g != nil {
					return g
				}
			}
		case *ssa.Call:
			// append(s, ...) may still write into (and return) s's storage
			if b, ok := t.Call.Value.(*ssa.Builtin); ok && b.Name() == "append" && len(t.Call.Args) > 0 {
				return rootG(t.Call.Args[0], seen, d+1)
			}
		case *ssa.UnOp:
			if t.Op != token.MUL {
				return nil
			}
			// a map or slice header loaded from a global: updates go to shared storage
			if g, ok := t.X.(*ssa.Global); ok {
				switch t.Type().Underlying().(type) {
				case *types.Map, *types.Slice, *types.Pointer:
					return g
				}
			}
		}
		return nil
	}
	rootGlobal := func(v ssa.Value) *ssa.Global { return rootG(v, map[ssa.Value]bool{}, 0) }
	for _, fn := range funcs {
		if fn.Name() == "init" || strings.HasPrefix(fn.Name(), "init#") || fn.Synthetic != "" {
			continue
		}
		n++
		funcInstrs(fn, func(in ssa.Instruction) {
			var g *ssa.Global
			what := ""
			switch t := in.(type) {
			case *ssa.Store:
				g, what = rootGlobal(t.Addr), "store"
			case *ssa.MapUpdate:
				g, what = rootGlobal(t.Map), "map update"
			case *ssa.Call:
				if b, ok := t.Call.Value.(*ssa.Builtin); ok && (b.Name() == "append" || b.Name() == "copy" || b.Name() == "delete") && len(t.Call.Args) > 0 {
					g, what = rootGlobal(t.Call.Args[0]), b.Name()
				}
			}
			if g == nil {
				return
			}
			nBad++
			r.Add(rule, "global-write:"+c.FuncKey(fn)+":"+g.Name(), c.InstrPos(in), c.FuncKey(fn), "package-level storage is written only during package initialisation", false, what+" into package-level "+g.Name()+" in "+c.FuncKey(fn))
		})
	}
	r.Add(rule, "no-global-writes", "-", "", fmt.Sprintf("none of the %d functions examined writes package-level storage after initialisation", n), nBad == 0, fmt.Sprintf("%d writes", nBad))
	r.Floor(rule, "functions examined for writes to package-level storage", n, 40)
}

// formatterReacquireRule: no value whose String / Error / Format / GoString
// method takes a lock is handed to a logging or fmt call while that lock is
// held: a logger that formats its arguments would call the method and the
// (non re-entrant) lock would be acquired twice on one stack.
func (c *Ctx) formatterReacquireRule(rule string, funcs []*ssa.Function) {
	r := c.R
	ls := c.ComputeLocksets(funcs)
	acq := c.Acquires(funcs)
	n := 0
	lockingFormatter := func(t types.Type) (string, string) {
		ms := c.SSA.MethodSets.MethodSet(t)
		for i := 0; i < ms.Len(); i++ {
			nm := ms.At(i).Obj().Name()
			if nm != "String" && nm != "Error" && nm != "Format" && nm != "GoString" {
				continue
			}
			fn := c.SSA.MethodValue(ms.At(i))
			if fn == nil {
				continue
			}
			target := c.unthunk(fn)
			if target == nil {
				target = fn
			}
			for l := range acq[target] {
				return c.FuncKey(target), l
			}
		}
		return "", ""
	}
	for _, fn := range funcs {
		if ls.Dead[fn] {
			continue
		}
		for _, cs := range CallSites(fn) {
			name := calleeName(cs.Common())
			if !strings.HasPrefix(name, modPath+"/logging.") && !strings.HasPrefix(name, "fmt.") && !strings.HasPrefix(name, "("+modPath+"/logging.") {
				continue
			}
			var vals []ssa.Value
			for _, a := range cs.Common().Args {
				if el := c.varargElemsOrdered(a); el != nil {
					vals = append(vals, el...)
				} else {
					vals = append(vals, a)
				}
			}
			for _, v := range vals {
				mi, ok := v.(*ssa.MakeInterface)
				if !ok {
					continue
				}
				n++
				m, lock := lockingFormatter(mi.X.Type())
				if m == "" {
					continue
				}
				held := ls.Held(cs, lock) != 0
				r.Add(rule, "formatter-reacquire:"+c.FuncKey(fn)+":"+m, c.InstrPos(cs), c.FuncKey(fn), "a value whose formatting method takes "+lock+" is not logged while that lock is held", !held, "argument of type "+typeString(mi.X.Type())+" is formatted by "+m+", which locks "+lock+" - already held here")
			}
		}
	}
	r.Add(rule, "formatter-arguments", "-", "", "interface arguments of logging / fmt calls examined", true, fmt.Sprintf("%d arguments", n))
}

// socketWritersRule: the only data write to the connection is
// WriteString(line + CRLF) of the write function's own, unmodified line
// parameter (in the write function or its writer leaf), outside loops;
// nothing else is handed the socket or its writer.
func (c *Ctx) socketWritersRule(rule string, writeFn *ssa.Function) {
	r, a := c.R, c.A
	funcs := c.clientFuncs()
	// (b) socket writers: the write function, or the one helper it calls with its line to do the socket write
	leaf, _ := c.writerLeaf(writeFn)
	if leaf == nil {
		leaf = writeFn
	}
	nW := 0
	for _, fn := range funcs {
		funcInstrs(fn, func(in ssa.Instruction) {
			cs, ok := in.(ssa.CallInstruction)
			if !ok {
				return
			}
			cc := cs.Common()
			if _, isB := cc.Value.(*ssa.Builtin); isB {
				return
			}
			// does any argument (or receiver) derive from the socket / buffered I/O?
			uses := false
			var all []ssa.Value
			if cc.IsInvoke() {
				all = append(all, cc.Value)
			}
			all = append(all, cc.Args...)
			for _, arg := range all {
				if c.derivesFromIO(arg) || c.derivesFromField(arg, a.Sock) {
					uses = true
				}
			}
			if !uses {
				return
			}
			n := calleeName(cc)
			switch {
			case n == "(*bufio.Reader).ReadString" || n == "(*bufio.Reader).ReadBytes":
				return // reading: C03
			case n == "(net.Conn).Close" || n == "bufio.NewReader" || n == "bufio.NewWriter" || n == "bufio.NewReadWriter" || n == "crypto/tls.Client" || n == "(*crypto/tls.Conn).Handshake" ||
				strings.HasSuffix(n, "Conn).SetDeadline") || strings.HasSuffix(n, "Conn).SetReadDeadline") || strings.HasSuffix(n, "Conn).SetWriteDeadline"):
				return // lifecycle; deadlines put nothing on the wire (C07.R8 watches them)
			case n == "(*bufio.Writer).WriteString":
				nW++
				ok, why := fn == leaf, "in "+c.FuncKey(fn)
				if ok {
					ok, why = c.crlfOfParam(cc.Args[1], fn)
				}
				if ok && c.LoopDepth(in.Block()) != 0 {
					ok, why = false, "WriteString in a loop"
				}
				r.Add(rule, "socket-write:"+c.FuncKey(fn)+":WriteString", c.InstrPos(in), c.FuncKey(fn), "the only data write is WriteString(line+CRLF) in the write function", ok, why)
			case n == "(*bufio.Writer).Flush":
				ok := fn == leaf && c.LoopDepth(in.Block()) == 0
				r.Add(rule, "socket-write:"+c.FuncKey(fn)+":Flush", c.InstrPos(in), c.FuncKey(fn), "Flush only in the write function, once", ok, "in "+c.FuncKey(fn))
			case c.socketLifecycleHelper(cc):
				return // set-up helper: wraps / handshakes / closes only
			default:
				r.Add(rule, "socket-use:"+c.FuncKey(fn)+":"+n, c.InstrPos(in), c.FuncKey(fn), "no other function is handed the socket or its writer", false, "socket/writer passed to "+n)
			}
		})
	}
	r.Exactly(rule, "WriteString sites on the connection writer", nW, 1)
}

// commandsAlwaysSendRule: C09.R5. Every line handed to the client is written:
// in an exported command method, whether the line is enqueued depends on the
// call's own arguments and the caller's configuration only - never on the
// client's run-time state (a remembered previous request, a flag, the result
// of a method of the client). A command that is dropped because "the same was
// asked a moment ago" is a line handed over and never written.
func (c *Ctx) commandsAlwaysSendRule(rule string) {
	r, a := c.R, c.A
	noDispatch := func(from *ssa.Function, e Edge) bool {
		if e.Site.Common().IsInvoke() || e.Kind == EdgeGo {
			return false
		}
		return e.Callee != a.ConnDispatch && e.Callee != a.SetDispatch
	}
	ms := c.SSA.MethodSets.MethodSet(types.NewPointer(a.Conn))
	cmds := map[*ssa.Function]bool{}
	for i := 0; i < ms.Len(); i++ {
		sel := ms.At(i)
		if !sel.Obj().Exported() {
			continue
		}
		fn := c.SSA.MethodValue(sel)
		if fn == nil || fn.Blocks == nil || fn == a.Raw {
			continue
		}
		if _, ok := c.Closure([]*ssa.Function{fn}, noDispatch).Funcs[a.Raw]; ok {
			cmds[fn] = true
		}
	}
	// dependsOnState: the value is computed from the client object itself (a method of it, a field other than
	// its configuration)
	var dep func(v ssa.Value, recv ssa.Value, depth int, seen map[ssa.Value]bool) string
	dep = func(v ssa.Value, recv ssa.Value, depth int, seen map[ssa.Value]bool) string {
		if v == nil || seen[v] || depth > 12 {
			return ""
		}
		seen[v] = true
		switch t := v.(type) {
		case *ssa.Const, *ssa.Parameter, *ssa.Global, *ssa.Function:
			return ""
		case *ssa.UnOp:
			if t.Op == token.MUL {
				// a load: through the configuration is the caller's setting; through another field of the client is state
				addr := t.X
				var chain []*types.Var
				for {
					if fa, ok := addr.(*ssa.FieldAddr); ok {
						fv, _ := fieldOf(fa)
						chain = append(chain, fv)
						addr = fa.X
						continue
					}
					if ld, ok := addr.(*ssa.UnOp); ok && ld.Op == token.MUL {
						addr = ld.X
						continue
					}
					break
				}
				if addr == recv && len(chain) > 0 {
					first := chain[len(chain)-1]
					if first == a.Cfg {
						return ""
					}
					return "reads the client's field " + first.Name()
				}
				return dep(addr, recv, depth+1, seen)
			}
			return dep(t.X, recv, depth+1, seen)
		case *ssa.Call:
			for _, av := range t.Call.Args {
				if av == recv {
					if sc := t.Call.StaticCallee(); sc != nil && !t.Call.IsInvoke() && c.readsOnlyConfig(sc, 0) {
						return "" // a getter of configuration
					}
					return "result of " + calleeName(&t.Call) + " on the client"
				}
			}
			if t.Call.IsInvoke() && t.Call.Value == recv {
				return "result of a method of the client"
			}
			for _, av := range t.Call.Args {
				if s := dep(av, recv, depth+1, seen); s != "" {
					return s
				}
			}
			return ""
		}
		if in, ok := v.(ssa.Instruction); ok {
			for _, op := range in.Operands(nil) {
				if op != nil && *op != nil {
					if s := dep(*op, recv, depth+1, seen); s != "" {
						return s
					}
				}
			}
		}
		return ""
	}
	n := 0
	var names []string
	for fn := range cmds {
		names = append(names, fn.Name())
	}
	sort.Strings(names)
	for _, nm := range names {
		var fn *ssa.Function
		for f := range cmds {
			if f.Name() == nm {
				fn = f
			}
		}
		if len(fn.Params) == 0 {
			continue
		}
		recv := ssa.Value(fn.Params[0])
		k := 0
		for _, cs := range CallSites(fn) {
			callee := cs.Common().StaticCallee()
			if callee == nil || cs.Common().IsInvoke() {
				continue
			}
			if _, isGo := cs.(*ssa.Go); isGo {
				continue
			}
			sends := callee == a.Raw || cmds[callee]
			if !sends && c.InModuleFn(callee) {
				_, sends = c.Closure([]*ssa.Function{callee}, noDispatch).Funcs[a.Raw]
			}
			if !sends {
				continue
			}
			k++
			n++
			why := ""
			for _, cd := range CondsAt(cs.Block()) {
				if s := dep(cd.V, recv, 0, map[ssa.Value]bool{}); s != "" {
					why = "guarded by a condition that " + s + " (" + c.InstrPos(cd.If) + ")"
				}
			}
			r.Add(rule, fmt.Sprintf("always-sends:%s#%d", fn.Name(), k), c.InstrPos(cs), c.FuncKey(fn), "whether a command's line is enqueued depends on its arguments and the configuration only", why == "", why)
		}
	}
	r.Floor(rule, "sending call sites in exported command methods", n, 25)
}

// senderForwards: the single send goroutine (the member whose body uses what
// it receives from the outbound queue), and the function each received line
// is handed to, unmodified, exactly once per receive.
func (c *Ctx) senderForwards(ruleRecv, ruleFwd string) (*ssa.Function, *ssa.Function) {
	r, a := c.R, c.A
	funcs := c.clientFuncs()
	// R2
	var sender *ssa.Function
	nRecv := 0
	for _, fn := range funcs {
		for _, op := range ChanOps(fn) {
			if op.Kind != "recv" || !c.ChanMayBe(op.Chan, a.Out) {
				continue
			}
			nRecv++
			v := recvValue(op)
			if a.IsMember(fn) && fn.Parent() == nil && valueUsed(v) {
				ok := sender == nil || sender == fn
				sender = fn
				r.Add(ruleRecv, "recv-out:"+c.FuncKey(fn), c.InstrPos(op.In), c.FuncKey(fn), "forwarding receive is in the single send goroutine", ok, "member goroutine")
				continue
			}
			ok, why := c.onlyFromTeardownAfterClear(fn)
			if fn == a.TeardownCore {
				ok = SetDominates(fn, func(in ssa.Instruction) bool { return c.isFlagClear(in) }, op.In)
				why = "in the teardown after connected=false"
			}
			if valueUsed(v) {
				ok, why = false, "a non-sender receiver uses the received line"
			}
			r.Add(ruleRecv, "recv-out:"+c.FuncKey(fn), c.InstrPos(op.In), c.FuncKey(fn), "other receivers only discard, in drain code started by the teardown after the flag is cleared", ok, why)
		}
	}
	r.Floor(ruleRecv, "receives from the outbound queue", nRecv, 2)
	r.Anchor(ruleRecv, "send goroutine (member that forwards the outbound queue)", sender != nil)
	if sender == nil {
		return nil, nil
	}
	gs := c.GoSites(sender)
	okSpawn := len(gs) == 1 && c.LoopDepth(gs[0].Block()) == 0 && len(c.Callers(sender)) == 1
	r.Add(ruleRecv, "spawn:"+c.FuncKey(sender), c.Pos(sender.Pos()), c.FuncKey(sender), "sender is started by exactly one go statement outside any loop", okSpawn, fmt.Sprintf("%d go sites, %d call sites", len(gs), len(c.Callers(sender))))

	// R3 (a) received value -> exactly one write call
	var writeFn *ssa.Function
	for _, op := range ChanOps(sender) {
		if op.Kind != "recv" || !c.ChanMayBe(op.Chan, a.Out) {
			continue
		}
		v := recvValue(op)
		var uses []ssa.Instruction
		for _, ref := range *v.Referrers() {
			if _, ok := ref.(*ssa.DebugRef); ok {
				continue
			}
			uses = append(uses, ref)
		}
		ok := len(uses) == 1
		why := fmt.Sprintf("%d uses of the received line", len(uses))
		if ok {
			cs, isCall := uses[0].(*ssa.Call)
			if !isCall || cs.Call.StaticCallee() == nil || !c.InModuleFn(cs.Call.StaticCallee()) {
				ok, why = false, "received line is not passed directly to the write function"
			} else {
				writeFn = cs.Call.StaticCallee()
				// once per receive
				var recvIn ssa.Instruction = op.In
				if !c.OncePerFrom(recvIn, v, cs) {
					ok, why = false, "write is not executed exactly once per received line"
				} else {
					why = "passed unmodified to " + c.FuncKey(writeFn) + " once per receive"
				}
			}
		}
		r.Add(ruleFwd, "recv-to-write:"+c.FuncKey(sender), c.InstrPos(op.In), c.FuncKey(sender), "each dequeued line goes unmodified to exactly one write", ok, why)
	}
	return sender, writeFn
}

// readsOnlyConfig: fn is a method of the client that looks at nothing of the
// client but its configuration: every use of the receiver is the address of
// the config field (or a call of another such method), and it stores nothing.
func (c *Ctx) readsOnlyConfig(fn *ssa.Function, depth int) bool {
	if depth > 2 || fn == nil || fn.Blocks == nil || !c.InModuleFn(fn) || len(fn.Params) == 0 || len(fn.AnonFuncs) > 0 {
		return false
	}
	recv := fn.Params[0]
	ok := true
	for _, ref := range *recv.Referrers() {
		switch t := ref.(type) {
		case *ssa.DebugRef:
		case *ssa.FieldAddr:
			if fv, _ := fieldOf(t); fv != c.A.Cfg {
				ok = false
			}
		case *ssa.Call:
			sc := t.Call.StaticCallee()
			if sc == nil || t.Call.IsInvoke() || !c.readsOnlyConfig(sc, depth+1) {
				ok = false
			}
		default:
			ok = false
		}
	}
	funcInstrs(fn, func(in ssa.Instruction) {
		switch in.(type) {
		case *ssa.Store, *ssa.MapUpdate, *ssa.Send, *ssa.Go, *ssa.Defer:
			ok = false
		}
	})
	return ok
}

// senderWaitsForNobodyRule: C09.R6. The goroutine that empties the outbound
// queue never waits for a goroutine that may be filling it: in the send
// goroutine and everything it calls, the only blocking channel operations are
// the receive from the outbound queue, waits on the connection context and
// timers. A hand-shake with another connection goroutine (say, telling the
// ping goroutine about each written line over an unbuffered channel) closes a
// cycle as soon as that goroutine blocks in Raw on a full queue: nothing is
// ever written again although the connection stays up.
func (c *Ctx) senderWaitsForNobodyRule(rule string, sender *ssa.Function) {
	r, a := c.R, c.A
	if !r.Anchor(rule, "send goroutine", sender != nil) {
		return
	}
	reach := c.Closure([]*ssa.Function{sender}, func(from *ssa.Function, e Edge) bool {
		return e.Kind != EdgeGo && c.InModuleFn(e.Callee) && e.Callee.Package() == c.Client && e.Callee != a.Teardown && e.Callee != a.TeardownCore
	})
	n := 0
	for _, fn := range reach.Order {
		if !c.InModuleFn(fn) {
			continue
		}
		okOp := func(kind string, ch ssa.Value) bool {
			if kind == "recv" && (c.ChanMayBe(ch, a.Out) || c.isCtxDoneChan(ch) || isTimerChan(ch)) {
				return true
			}
			return false
		}
		seenSel := map[*ssa.Select]bool{}
		for _, op := range ChanOps(fn) {
			if op.Kind == "close" || !op.Blocking {
				continue
			}
			if op.InSelect {
				if seenSel[op.Sel] {
					continue
				}
				seenSel[op.Sel] = true
				n++
				bad := ""
				for _, st := range op.Sel.States {
					kind := "recv"
					if st.Dir == types.SendOnly {
						kind = "send"
					}
					if !okOp(kind, st.Chan) {
						bad = kind + " on " + st.Chan.Name() + " (" + shortType(st.Chan.Type()) + ")"
					}
				}
				r.Add(rule, fmt.Sprintf("sender-waits:%s:select#%d", c.FuncKey(fn), n), c.InstrPos(op.In), c.FuncKey(fn), "the send goroutine waits only for the outbound queue, the connection context and timers", bad == "", "select case: "+bad+" [reached via "+c.ChainString(reach.Funcs[fn])+"]")
				continue
			}
			n++
			r.Add(rule, fmt.Sprintf("sender-waits:%s:%s#%d", c.FuncKey(fn), op.Kind, n), c.InstrPos(op.In), c.FuncKey(fn), "the send goroutine waits only for the outbound queue, the connection context and timers", okOp(op.Kind, op.Chan), op.Kind+" on "+op.Chan.Name()+" [reached via "+c.ChainString(reach.Funcs[fn])+"]")
		}
	}
	r.Floor(rule, "blocking channel operations of the send goroutine", n, 1)
}

// internalsStayInsideRule: C14.R6. The tracker's own records (*nick,
// *channel, the tracker) never leave the critical section inside a value
// somebody may look at later: wherever such a pointer is boxed into an
// interface (to be formatted), the box goes straight into the argument list
// of a call of package logging or fmt made at that point - under the lock the
// record's String method needs - and is not stored, captured by a closure or
// handed to a function of the module. A warning queued under the lock and
// formatted by a deferred flush after the unlock walks the record's maps
// while another goroutine changes them.
func (c *Ctx) internalsStayInsideRule(rule string, funcs []*ssa.Function, lock string, ls *Locksets) {
	r := c.R
	internal := map[*types.Named]bool{}
	for _, n := range []string{"stateTracker", "nick", "channel"} {
		if t := c.Named(c.State, n); t != nil {
			internal[t] = true
		}
	}
	isInternalPtr := func(t types.Type) bool {
		pt, ok := t.Underlying().(*types.Pointer)
		if !ok {
			return false
		}
		nt, _ := pt.Elem().(*types.Named)
		return nt != nil && internal[nt]
	}
	n := 0
	for _, fn := range funcs {
		if ls.Dead[fn] {
			continue
		}
		funcInstrs(fn, func(in ssa.Instruction) {
			mi, ok := in.(*ssa.MakeInterface)
			if !ok || !isInternalPtr(mi.X.Type()) {
				return
			}
			if _, isIface := mi.Type().Underlying().(*types.Interface); !isIface {
				return
			}
			// boxing the tracker itself as its public interface (NewTracker's result) is how it is handed out
			if nt, _ := mi.Type().(*types.Named); nt != nil && nt.Obj().Name() == "Tracker" {
				return
			}
			n++
			okU, why := true, "formatted on the spot by package logging / fmt under the tracker lock"
			var sinks []ssa.CallInstruction
			for _, ref := range *mi.Referrers() {
				switch t := ref.(type) {
				case *ssa.DebugRef:
				case *ssa.Store:
					// the variadic argument array of a call
					ia, isIA := t.Addr.(*ssa.IndexAddr)
					if !isIA {
						okU, why = false, "the boxed record is stored at "+c.InstrPos(t)
						continue
					}
					al, isAl := ia.X.(*ssa.Alloc)
					if !isAl {
						okU, why = false, "the boxed record is stored into "+ia.X.String()
						continue
					}
					for _, r2 := range *al.Referrers() {
						sl, isSl := r2.(*ssa.Slice)
						if !isSl {
							continue
						}
						for _, r3 := range *sl.Referrers() {
							if ci, isCI := r3.(ssa.CallInstruction); isCI {
								sinks = append(sinks, ci)
							} else if _, isD := r3.(*ssa.DebugRef); !isD {
								okU, why = false, "the argument list holding the record is used by "+r3.String()
							}
						}
					}
				case ssa.CallInstruction:
					sinks = append(sinks, t)
				default:
					okU, why = false, "the boxed record is used by "+ref.String()
				}
			}
			for _, s := range sinks {
				cc := s.Common()
				callee := cc.StaticCallee()
				if _, isCall := s.(*ssa.Call); !isCall {
					okU, why = false, "the record is handed to a deferred or go call at "+c.InstrPos(s)
					continue
				}
				if callee == nil || callee.Pkg == nil {
					okU, why = false, "the record is handed to a dynamic call at "+c.InstrPos(s)
					continue
				}
				pp := callee.Pkg.Pkg.Path()
				if callee.Package() != c.Logging && pp != "fmt" {
					okU, why = false, "the record is handed to "+c.FuncKey(callee)+", which may keep it"
					continue
				}
				if ls.Held(s, lock) != 'W' {
					okU, why = false, "the record is formatted at "+c.InstrPos(s)+" without the tracker lock"
				}
			}
			r.Add(rule, fmt.Sprintf("internal-boxed:%s#%d", c.FuncKey(fn), n), c.InstrPos(mi), c.FuncKey(fn), "an internal record is only ever formatted on the spot, under the lock", okU, why)
		})
	}
	r.Add(rule, "internal-boxed-examined", "-", "", "places where an internal record is boxed into an interface", true, fmt.Sprintf("%d", n))
}

// reachableAvoiding: the instructions reachable from fn's entry without
// executing step, along edges that are not plainly infeasible: when a block
// only merges an error variable (phi) and branches on it being nil, an edge
// into it on which the incoming value is known to be non-nil (the edge is the
// "err != nil" side of the test of that very value) continues on the non-nil
// side only. This is the shape of `err := a(); if err == nil { err = b() }; if
// err != nil { return err }`.
func reachableAvoiding(fn *ssa.Function, step ssa.Instruction) map[ssa.Instruction]bool {
	seen := map[ssa.Instruction]bool{}
	if len(fn.Blocks) == 0 {
		return seen
	}
	done := map[*ssa.BasicBlock]bool{}
	// mergeTest: b consists of phis and an If on (phi ==/!= nil); returns the phi, and the successor taken when it is non-nil
	mergeTest := func(b *ssa.BasicBlock) (*ssa.Phi, *ssa.BasicBlock) {
		if len(b.Instrs) == 0 || len(b.Succs) != 2 {
			return nil, nil
		}
		iff, ok := b.Instrs[len(b.Instrs)-1].(*ssa.If)
		if !ok {
			return nil, nil
		}
		for _, in := range b.Instrs[:len(b.Instrs)-1] {
			switch in.(type) {
			case *ssa.Phi, *ssa.BinOp, *ssa.DebugRef:
			default:
				return nil, nil
			}
		}
		bo, ok := iff.Cond.(*ssa.BinOp)
		if !ok || (bo.Op != token.EQL && bo.Op != token.NEQ) {
			return nil, nil
		}
		var ph *ssa.Phi
		if p, isP := bo.X.(*ssa.Phi); isP && isNilConst(bo.Y) {
			ph = p
		} else if p, isP := bo.Y.(*ssa.Phi); isP && isNilConst(bo.X) {
			ph = p
		}
		if ph == nil || ph.Block() != b {
			return nil, nil
		}
		if bo.Op == token.NEQ {
			return ph, b.Succs[0]
		}
		return ph, b.Succs[1]
	}
	var visit func(b *ssa.BasicBlock)
	visit = func(b *ssa.BasicBlock) {
		if done[b] {
			return
		}
		done[b] = true
		for _, in := range b.Instrs {
			if in == step {
				return
			}
			seen[in] = true
		}
		for _, s := range b.Succs {
			if ph, nonNil := mergeTest(s); ph != nil {
				// which value does this edge bring, and is it known non-nil on this edge?
				idx := -1
				for i, p := range s.Preds {
					if p == b {
						idx = i
					}
				}
				if idx >= 0 && idx < len(ph.Edges) {
					if cd, ok := edgeCond(b, s); ok {
						cd = unwrapNot(cd)
						if bo, isB := cd.V.(*ssa.BinOp); isB && (bo.Op == token.EQL || bo.Op == token.NEQ) {
							var other ssa.Value
							if isNilConst(bo.Y) {
								other = bo.X
							} else if isNilConst(bo.X) {
								other = bo.Y
							}
							if other != nil && other == ph.Edges[idx] && (bo.Op == token.NEQ) == cd.True {
								visit(nonNil)
								continue
							}
						}
					}
				}
			}
			visit(s)
		}
	}
	visit(fn.Blocks[0])
	return seen
}

// rawBody: the function in which Raw does its work: Raw itself, or the
// unexported method it forwards to when it is kept as a thin wrapper.
func (c *Ctx) rawBody() *ssa.Function {
	return c.followForward(c.A.Raw)
}
