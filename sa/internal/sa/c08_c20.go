package sa

import (
	"fmt"
	"go/types"
	"os"
	"sort"
	"strings"

	"golang.org/x/tools/go/ssa"
)

func init() {
	register(&PropertySpec{
		ID:        "C08",
		Technique: "abstract interpretation of strings (byte exclusion, truncation-at-separator, constant prefix with follow set) + who-may-send / who-may-write rules (static analysis)",
		Explain:   "Decided for all argument strings and SplitLen values: the only value ever enqueued is Raw's parameter truncated at the first CR or LF (so it contains neither, and keeps any CR/LF-free constant prefix); the only socket write is that value + CRLF followed by one Flush; and every string an exported command method passes to Raw starts with the constant verb of that method followed by a space or the end (method->verb table from the property).",
		Assume:    []string{"strings.SplitN(s, sep, 2)[0] is s up to the first sep (stdlib contract, written as an axiom)", "bufio.Writer writes its argument verbatim"},
		Run:       runC08,
	})
	register(&PropertySpec{
		ID:        "C20",
		Technique: "whole-module taint analysis over SSA with a prefix-refined sanitiser (static analysis)",
		Explain:   "Sources: every load of Config.Pass, every value stored to it, the parameter of Conn.Pass. Sinks: every argument of every call into package logging (functions and Logger methods), plus any Config/Conn value handed there. Propagation through concatenation, formatting, conversions, module calls, struct fields, channels, containers and closures; results of unknown external calls carry their arguments' taint except listed payload-free I/O calls. The only accepted sanitiser is the false edge of strings.HasPrefix(v, C) when every tainted string reaching v has a constant prefix beginning with C. No label may reach a sink.",
		Assume:    []string{"logging happens only through package logging (checked: no fmt.Print*/log.*/os.Std* in the library packages)", "field- and type-based aliasing (no pointer analysis available)"},
		Run:       runC20,
	})
}

var verbTable = map[string]string{
	"Privmsg": "PRIVMSG", "Privmsgln": "PRIVMSG", "Privmsgf": "PRIVMSG", "Ctcp": "PRIVMSG", "Version": "PRIVMSG", "Action": "PRIVMSG",
	"Notice": "NOTICE", "CtcpReply": "NOTICE",
}

func verbOf(method string) string {
	if v, ok := verbTable[method]; ok {
		return v
	}
	return strings.ToUpper(method)
}

func runC08(c *Ctx) {
	r, a := c.R, c.A
	r.Rule("R1", "every value sent on the outbound queue is Raw's parameter truncated at the first CR or LF (exactly these two separators), and the only sender is Raw")
	r.Rule("R2", "every write to the connection writer is WriteString(line + CRLF) with line the write function's parameter, received unmodified from the outbound queue, followed by exactly one Flush; nothing else is handed the socket or writer")
	r.Rule("R4", "what is on the wire is whole lines only because there is one writer: the write function is called, by plain call, from the body of exactly one connection goroutine (shared with C09.R3) - a second caller (a flush of the queue from Close, say) runs WriteString/Flush on the same bufio.Writer concurrently and splits a line")
	r.Rule("R3", "for every exported *Conn method that reaches Raw through static calls (not through handler dispatch), every string it passes to Raw begins with the method's verb followed by space or end; methods delegating to another command method have the same verb")

	funcs := c.clientFuncs()
	fl := c.NewFlow(funcs)
	fl.Run()
	var crlf bset
	crlf.add('\r')
	crlf.add('\n')
	// R1
	nSend := 0
	for _, fn := range funcs {
		for _, op := range ChanOps(fn) {
			if op.Kind != "send" || !c.ChanMayBe(op.Chan, a.Out) {
				continue
			}
			nSend++
			var v ssa.Value
			if s, ok := op.In.(*ssa.Send); ok {
				v = s.X
			} else if op.Sel != nil {
				v = op.Sel.States[op.State].Send
			}
			ab := fl.At(v, op.In.Block())
			ok := fn == c.rawBody()
			why := ""
			if !ok {
				why = "sender is " + c.FuncKey(fn) + ", not Raw"
			} else if ab.Cut == nil {
				ok, why = false, "sent value is not a truncation of the raw line at CR/LF (abstract: "+ab.String()+")"
			} else if ab.Cut.Seps != crlf {
				ok, why = false, "truncation separators are "+ab.Cut.Seps.String()+", want exactly {CR,LF}"
			} else if pr, isP := ab.Cut.Src.(*ssa.Parameter); !isP || !(pr.Parent() == c.rawBody() || c.paramOfVia(pr, c.rawBody())) {
				ok, why = false, "truncated value is not Raw's own parameter"
			} else if !ab.NoB.has('\r') || !ab.NoB.has('\n') {
				ok, why = false, "CR/LF exclusion not established"
			} else {
				why = "value = rawline cut at first of {CR,LF}; excludes CR and LF"
			}
			r.Add("R1", "enqueue:"+c.FuncKey(fn), c.InstrPos(op.In), c.FuncKey(fn), "enqueued line is the sanitised raw line", ok, why)
		}
	}
	r.Exactly("R1", "send sites on the outbound queue", nSend, 1)

	// R2: reuse C09.R3's socket census (same construct, other clause): terminator and source
	nW := 0
	var writeFn *ssa.Function
	for _, fn := range funcs {
		funcInstrs(fn, func(in ssa.Instruction) {
			cc := callOf(in)
			if cc == nil {
				return
			}
			if _, isB := cc.Value.(*ssa.Builtin); isB {
				return
			}
			uses := false
			var all []ssa.Value
			if cc.IsInvoke() {
				all = append(all, cc.Value)
			}
			all = append(all, cc.Args...)
			for _, arg := range all {
				if c.derivesFromIO(arg) || c.derivesFromField(arg, a.Sock) {
					uses = true
				}
			}
			if !uses {
				return
			}
			n := calleeName(cc)
			switch n {
			case "(*bufio.Reader).ReadString", "(*bufio.Reader).ReadBytes", "(net.Conn).Close", "bufio.NewReader", "bufio.NewWriter", "bufio.NewReadWriter", "crypto/tls.Client", "(*crypto/tls.Conn).Handshake", "(*bufio.Writer).Flush",
				"(net.Conn).SetDeadline", "(net.Conn).SetReadDeadline", "(net.Conn).SetWriteDeadline", "(*crypto/tls.Conn).SetDeadline", "(*crypto/tls.Conn).SetReadDeadline", "(*crypto/tls.Conn).SetWriteDeadline":
				return // deadlines put nothing on the wire (C07.R8 watches them)
			case "(*bufio.Writer).WriteString":
				nW++
				ok, why := c.crlfOfParam(cc.Args[1], fn)
				if ok {
					writeFn = fn
				}
				r.Add("R2", "socket-write:"+c.FuncKey(fn), c.InstrPos(in), c.FuncKey(fn), "socket data is <line parameter> + CRLF", ok, why)
			default:
				if c.socketLifecycleHelper(cc) {
					return // set-up helper: wraps / handshakes / closes only
				}
				r.Add("R2", "socket-use:"+c.FuncKey(fn)+":"+n, c.InstrPos(in), c.FuncKey(fn), "no other function is handed the socket or its writer", false, "socket/writer passed to "+n)
			}
		})
	}
	r.Exactly("R2", "WriteString sites on the connection writer", nW, 1)
	c.writerOnSocketRule("R2")
	if writeFn != nil {
		// the write function's callers pass a value received from the outbound queue (when the socket write sits
		// in a helper that the write function calls with its own line parameter, look at the callers of that)
		top := writeFn
		if sites := c.staticCallers(writeFn); len(sites) == 1 {
			if up := sites[0].Parent(); up.Package() == c.Client {
				if leaf, via := c.writerLeaf(up); leaf == writeFn && via != nil {
					top = up
				}
			}
		}
		for _, cs := range c.Callers(top) {
			arg := cs.Common().Args[1]
			ok := false
			for _, op := range ChanOps(cs.Parent()) {
				if op.Kind == "recv" && c.ChanMayBe(op.Chan, a.Out) && recvValue(op) == arg {
					ok = true
				}
			}
			r.Add("R2", "write-arg:"+c.FuncKey(cs.Parent()), c.InstrPos(cs), c.FuncKey(cs.Parent()), "the written line is the value dequeued from the outbound queue, unmodified", ok, "argument "+arg.Name())
		}
		// one writer (shared with C09.R3): the buffered writer is not safe for concurrent use - a second goroutine
		// appending while a flush is pending makes the tail of one line go out as a line of its own
		writers := map[*ssa.Function]bool{}
		for _, cs := range c.Callers(top) {
			fn := cs.Parent()
			writers[fn] = true
			ok := a.IsMember(fn) && fn.Parent() == nil && kindName(cs) == "call"
			r.Add("R4", "write-caller:"+c.FuncKey(fn), c.InstrPos(cs), c.FuncKey(fn), "lines are written by a connection goroutine's own body only", ok, kindName(cs)+" in "+c.FuncKey(fn))
		}
		r.Exactly("R4", "functions that call the write function", len(writers), 1)
		nFl := 0
		funcInstrs(writeFn, func(in ssa.Instruction) {
			if calleeName(callOf(in)) == "(*bufio.Writer).Flush" {
				nFl++
			}
		})
		r.Exactly("R2", "Flush calls in the write function", nFl, 1)
		// ... and the flush happens for every line: no success return without it (shared with C09.R3) - lines left in
		// the buffer go out in buffer-sized chunks that end in the middle of a command
		c.writeCompleteRule("R2", writeFn)
		// nothing in write modifies what is written: the WriteString operand is param+CRLF (checked above)
	}

	// R3
	ms := c.SSA.MethodSets.MethodSet(types.NewPointer(a.Conn))
	nCmd := 0
	helperChecked := map[*ssa.Function]bool{}
	var names []string
	for i := 0; i < ms.Len(); i++ {
		sel := ms.At(i)
		if !sel.Obj().Exported() {
			continue
		}
		fn := c.SSA.MethodValue(sel)
		if fn == nil || fn.Blocks == nil {
			continue
		}
		// static reach of Raw without crossing handler dispatch
		reach := c.Closure([]*ssa.Function{fn}, func(from *ssa.Function, e Edge) bool {
			if e.Site.Common().IsInvoke() || e.Kind == EdgeGo {
				return false
			}
			return e.Callee != a.ConnDispatch && e.Callee != a.SetDispatch
		})
		if _, ok := reach.Funcs[a.Raw]; !ok || fn == a.Raw {
			if fn == a.Raw {
				nCmd++
				names = append(names, "Raw")
			}
			continue
		}
		nCmd++
		names = append(names, fn.Name())
		verb := verbOf(fn.Name())
		r.Funcs[c.FuncKey(fn)] = true
		direct := 0
		for _, cs := range CallSites(fn) {
			callee := cs.Common().StaticCallee()
			if callee == nil {
				continue
			}
			if callee == a.Raw {
				direct++
				r.Sites++
				ab := fl.At(cs.Common().Args[1], cs.Block())
				ok, why := ab.startsWithVerb(verb)
				if ok && (strings.ContainsAny(verb, "\r\n ")) {
					ok, why = false, "verb contains a separator"
				}
				r.Add("R3", "verb:"+fn.Name(), c.InstrPos(cs), c.FuncKey(fn), "line begins with "+verb+" then space or end", ok, why)
			} else if callee.Signature.Recv() != nil && recvNamed(callee) == a.Conn && callee.Object() != nil && callee.Object().Exported() {
				if _, reaches := c.Closure([]*ssa.Function{callee}, func(from *ssa.Function, e Edge) bool {
					return !e.Site.Common().IsInvoke() && e.Kind != EdgeGo && e.Callee != a.ConnDispatch && e.Callee != a.SetDispatch
				}).Funcs[a.Raw]; reaches {
					direct++
					ok := verbOf(callee.Name()) == verb
					r.Add("R3", "delegates:"+fn.Name()+"->"+callee.Name(), c.InstrPos(cs), c.FuncKey(fn), "delegating command has the same verb as the command it calls", ok, verb+" vs "+verbOf(callee.Name()))
				}
			}
		}
		// closures of the method that send (a callback handed to an iterator over the pieces of a message)
		for _, anon := range fn.AnonFuncs {
			for _, cs := range CallSites(anon) {
				if cs.Common().StaticCallee() != a.Raw {
					continue
				}
				direct++
				r.Sites++
				ab := fl.At(cs.Common().Args[1], cs.Block())
				ok, why := ab.startsWithVerb(verb)
				if ok && (strings.ContainsAny(verb, "\r\n ")) {
					ok, why = false, "verb contains a separator"
				}
				r.Add("R3", "verb:"+fn.Name()+":closure", c.InstrPos(cs), c.FuncKey(fn), "line sent by a closure of "+fn.Name()+" begins with "+verb+" then space or end", ok, why)
			}
		}
		// unexported helpers of *Conn that send: evaluated in the calling context of this method
		for _, cs := range CallSites(fn) {
			callee := cs.Common().StaticCallee()
			if callee == nil || callee == a.Raw || !c.InModuleFn(callee) || cs.Common().IsInvoke() {
				continue
			}
			if callee.Object() != nil && callee.Object().Exported() {
				continue
			}
			if _, isGo := cs.(*ssa.Go); isGo {
				continue
			}
			var raws []ssa.CallInstruction
			for _, x := range CallSites(callee) {
				if x.Common().StaticCallee() == a.Raw {
					raws = append(raws, x)
				}
			}
			if len(raws) == 0 {
				continue
			}
			args := make([]*Abs, len(cs.Common().Args))
			for i, av := range cs.Common().Args {
				args[i] = fl.At(av, cs.Block())
			}
			sub := fl.Ctx(cs)
			if sub == nil {
				sub = fl.WithParamsAt(callee, args, cs)
			}
			for _, x := range raws {
				direct++
				r.Sites++
				ab := sub.At(x.Common().Args[1], x.Block())
				ok, why := ab.startsWithVerb(verb)
				if !ok && os.Getenv("GOIRCSA_DEBUG") != "" {
					for i, av := range cs.Common().Args {
						why += fmt.Sprintf(" | arg%d=%s", i, fl.At(av, cs.Block()))
					}
					why += sub.DebugDump()
				}
				r.Add("R3", "verb:"+fn.Name()+":via:"+callee.Name(), c.InstrPos(x), c.FuncKey(fn), "line sent by helper "+callee.Name()+" on behalf of "+fn.Name()+" begins with "+verb+" then space or end", ok, why)
				helperChecked[callee] = true
			}
		}
		if direct == 0 {
			r.Add("R3", "indirect:"+fn.Name(), c.Pos(fn.Pos()), c.FuncKey(fn), "command method reaches Raw only through checked command methods", false, "reaches Raw through a call chain that is not decided")
		}
	}
	sort.Strings(names)
	r.Floor("R3", "exported command methods (incl. Raw)", nCmd, 28)
	r.Note("command methods: %s", strings.Join(names, ","))
	// unexported helpers that call Raw directly must also satisfy a verb: any other caller of Raw
	for _, cs := range c.Callers(a.Raw) {
		fn := cs.Parent()
		if fn.Signature.Recv() != nil && recvNamed(fn) == a.Conn && fn.Object() != nil && fn.Object().Exported() && fn.Parent() == nil {
			continue
		}
		// a closure of an exported command method (its verb was checked with the method)
		if pf := fn.Parent(); pf != nil && pf.Parent() == nil && pf.Signature.Recv() != nil && recvNamed(pf) == a.Conn && pf.Object() != nil && pf.Object().Exported() {
			continue
		}
		if helperChecked[fn] {
			// every caller of the helper must be a checked command method
			allCmd := true
			for _, hc := range c.Callers(fn) {
				hp := hc.Parent()
				if !(hp.Signature.Recv() != nil && recvNamed(hp) == a.Conn && hp.Object() != nil && hp.Object().Exported()) {
					allCmd = false
				}
			}
			if allCmd {
				continue
			}
		}
		r.Add("R3", "raw-caller:"+c.FuncKey(fn), c.InstrPos(cs), c.FuncKey(fn), "Raw is called only by exported command methods", false, "called from "+c.FuncKey(fn))
	}
}

// paramOfVia: pr is the (string) parameter of fn, or the parameter of a
// helper whose only argument at every call site is fn's parameter.
func (c *Ctx) paramOfVia(pr *ssa.Parameter, fn *ssa.Function) bool {
	if pr.Parent() == fn {
		return true
	}
	sites := c.Callers(pr.Parent())
	if len(sites) == 0 {
		return false
	}
	idx := -1
	for i, q := range pr.Parent().Params {
		if q == pr {
			idx = i
		}
	}
	for _, cs := range sites {
		if cs.Parent() != fn || idx < 0 || idx >= len(cs.Common().Args) {
			return false
		}
		p2, ok := cs.Common().Args[idx].(*ssa.Parameter)
		if !ok || p2.Parent() != fn {
			return false
		}
	}
	return true
}

// ---------------- C20 ----------------

func runC20(c *Ctx) {
	r, a := c.R, c.A
	r.Rule("R1", "no value carrying the password label reaches an argument of a call into package logging, except after the accepted sanitiser (false edge of HasPrefix(v, C) with every tainted string's constant prefix beginning with C)")
	r.Rule("R2", "no Config or Conn value (which contains the password) is passed to package logging")
	r.Rule("R3", "the library packages log only through package logging: no fmt.Print*/Fprint* to a std stream, log.*, os.Stdout/Stderr, println")
	var funcs []*ssa.Function
	for _, f := range c.ModFuncs {
		if f.Package() == c.Client || f.Package() == c.State {
			funcs = append(funcs, f)
		}
	}
	fl := c.NewFlow(funcs)
	passFn := c.Func(c.Client, "(*Conn).Pass")
	r.Anchor("R1", "(*Conn).Pass and Config.Pass", passFn != nil && a.CfgPass != nil)
	nSrc := 0
	srcSeen := map[ssa.Value]bool{}
	stored := map[ssa.Value]bool{}
	for _, fn := range funcs {
		funcInstrs(fn, func(in ssa.Instruction) {
			if s, ok := in.(*ssa.Store); ok {
				if fv, _ := fieldOf(s.Addr); fv == a.CfgPass {
					stored[s.Val] = true
				}
			}
		})
	}
	// text the password is extracted from is itself secret: every field from whose loads a value stored into
	// Config.Pass is computed (say a server URL with credentials) is a source too
	carriers := map[*types.Var]bool{}
	{
		seen := map[ssa.Value]bool{}
		var back func(v ssa.Value, d int)
		back = func(v ssa.Value, d int) {
			if v == nil || seen[v] || d > 14 {
				return
			}
			seen[v] = true
			if fv, base := loadedField(v); fv != nil && fv != a.CfgPass && isStringType(fv.Type()) {
				carriers[fv] = true
				_ = base
				return
			}
			switch t := v.(type) {
			case *ssa.Call:
				if t.Call.IsInvoke() {
					back(t.Call.Value, d+1)
				}
				for _, arg := range t.Call.Args {
					back(arg, d+1)
				}
				if callee := t.Call.StaticCallee(); callee != nil && c.InModuleFn(callee) {
					funcInstrs(callee, func(in ssa.Instruction) {
						if rt, ok := in.(*ssa.Return); ok {
							for _, res := range rt.Results {
								back(res, d+1)
							}
						}
					})
				}
			case *ssa.Extract:
				back(t.Tuple, d+1)
			case *ssa.UnOp:
				back(t.X, d+1)
			case *ssa.FieldAddr:
				back(t.X, d+1)
			case *ssa.Field:
				back(t.X, d+1)
			case *ssa.IndexAddr:
				back(t.X, d+1)
			case *ssa.Index:
				back(t.X, d+1)
			case *ssa.Lookup:
				back(t.X, d+1)
			case *ssa.Slice:
				back(t.X, d+1)
			case *ssa.Phi:
				for _, e := range t.Edges {
					back(e, d+1)
				}
			case *ssa.BinOp:
				back(t.X, d+1)
				back(t.Y, d+1)
			case *ssa.ChangeType:
				back(t.X, d+1)
			case *ssa.Convert:
				back(t.X, d+1)
			case *ssa.MakeInterface:
				back(t.X, d+1)
			case *ssa.TypeAssert:
				back(t.X, d+1)
			case *ssa.Parameter:
				for _, o := range c.Origins(t) {
					if o != ssa.Value(t) {
						back(o, d+1)
					}
				}
			case *ssa.Alloc:
				if al, ok := cellOf(t); ok {
					for _, st := range cellStores(al) {
						back(st.Val, d+1)
					}
				}
			}
		}
		for v := range stored {
			back(v, 0)
		}
	}
	var carrierNames []string
	for fv := range carriers {
		carrierNames = append(carrierNames, fv.Name())
	}
	sort.Strings(carrierNames)
	r.Note("fields the stored password is extracted from (treated as password sources): %v", carrierNames)
	fl.Source = func(v ssa.Value) *Abs {
		isSrc := false
		if fv, _ := loadedField(v); fv == a.CfgPass || (fv != nil && carriers[fv]) {
			isSrc = true
		}
		if pr, ok := v.(*ssa.Parameter); ok && passFn != nil && pr.Parent() == passFn && len(passFn.Params) > 1 && pr == passFn.Params[1] {
			isSrc = true
		}
		if stored[v] {
			isSrc = true
		}
		if !isSrc {
			return nil
		}
		if !srcSeen[v] {
			srcSeen[v] = true
			nSrc++
		}
		t := top()
		t.Taint = map[string]string{"password": ""}
		return t
	}
	fl.Run()
	r.Floor("R1", "password sources (loads of Config.Pass, Pass parameter, stored values)", nSrc, 3)
	// sinks
	nSink, nArgs := 0, 0
	isLogging := func(cc *ssa.CallCommon) bool {
		if cc.IsInvoke() {
			if n, ok := cc.Value.Type().(*types.Named); ok && n.Obj().Pkg() == c.Logging.Pkg {
				return true
			}
			return false
		}
		if f := cc.StaticCallee(); f != nil && f.Package() == c.Logging {
			return true
		}
		return false
	}
	for _, fn := range funcs {
		for _, cs := range CallSites(fn) {
			cc := cs.Common()
			if !isLogging(cc) {
				continue
			}
			nSink++
			r.Funcs[c.FuncKey(fn)] = true
			bad := ""
			badType := ""
			for i, arg := range cc.Args {
				nArgs++
				ab := fl.At(arg, cs.Block())
				if ab.tainted() {
					bad += fmt.Sprintf("arg %d carries %s; ", i, ab.String())
				}
				// element abstraction of varargs slices
				for _, el := range c.varargElems(arg) {
					eab := fl.At(el, cs.Block())
					if eab.tainted() {
						bad += fmt.Sprintf("vararg %s carries %s; ", el.Name(), eab.String())
					}
					if t := c.secretHolderType(stripConv(el).Type()); t != "" {
						badType += t + " "
					}
				}
				if t := c.secretHolderType(arg.Type()); t != "" {
					badType += t + " "
				}
			}
			key := fmt.Sprintf("sink:%s:%s#%d", c.FuncKey(fn), calleeShort(cc), c.ordinalOfCall(fn, cs, isLogging))
			r.Add("R1", key, c.InstrPos(cs), c.FuncKey(fn), "no password-labelled value reaches this logging call", bad == "", bad)
			if badType != "" {
				r.Add("R2", key, c.InstrPos(cs), c.FuncKey(fn), "no Config/Conn value is logged", false, "argument of type "+badType)
			}
		}
	}
	r.Sites = nSink
	r.Floor("R1", "logging call sites in client and state", nSink, 55)
	r.Add("R2", "no-secret-holder-logged", "-", "", "no logging call receives a Config or Conn value", true, fmt.Sprintf("%d arguments of %d calls inspected", nArgs, nSink))
	// R3
	nOther := 0
	for _, fn := range funcs {
		funcInstrs(fn, func(in ssa.Instruction) {
			cc := callOf(in)
			if cc != nil {
				n := calleeName(cc)
				if strings.HasPrefix(n, "fmt.Fprint") && len(cc.Args) > 0 && len(fl.memWriterKeys(cc.Args[0])) > 0 {
					// formatting into an in-memory buffer is not output; what comes out of the buffer stays labelled (R1)
					return
				}
				if strings.HasPrefix(n, "fmt.Print") || strings.HasPrefix(n, "fmt.Fprint") || strings.HasPrefix(n, "log.") || strings.HasPrefix(n, "(*log.Logger)") || n == "builtin.println" || n == "builtin.print" {
					nOther++
					r.Add("R3", "other-logger:"+c.FuncKey(fn)+":"+n, c.InstrPos(in), c.FuncKey(fn), "library logs only through package logging", false, n)
				}
			}
			for _, op := range in.Operands(nil) {
				if g, ok := (*op).(*ssa.Global); ok && g.Pkg != nil && g.Pkg.Pkg.Path() == "os" && (g.Name() == "Stderr" || g.Name() == "Stdout") {
					nOther++
					r.Add("R3", "std-stream:"+c.FuncKey(fn), c.InstrPos(in), c.FuncKey(fn), "library does not write to std streams", false, g.Name())
				}
			}
		})
	}
	r.Add("R3", "only-logging-package", "-", "", "no other logging channel in client/state", nOther == 0, fmt.Sprintf("%d sites", nOther))
}

func calleeShort(cc *ssa.CallCommon) string {
	n := calleeName(cc)
	if i := strings.LastIndex(n, "."); i >= 0 {
		return n[i+1:]
	}
	return n
}

// ordinalOfCall: position of cs among the calls in fn satisfying pred with the same callee.
func (c *Ctx) ordinalOfCall(fn *ssa.Function, cs ssa.CallInstruction, pred func(*ssa.CallCommon) bool) int {
	n := 0
	var all []ssa.CallInstruction
	for _, x := range CallSites(fn) {
		if pred(x.Common()) && calleeName(x.Common()) == calleeName(cs.Common()) {
			all = append(all, x)
		}
	}
	sort.Slice(all, func(i, j int) bool { return all[i].Pos() < all[j].Pos() })
	for i, x := range all {
		if x == cs {
			n = i + 1
		}
	}
	return n
}

// varargElems: the values stored into the backing array of a varargs slice.
func (c *Ctx) varargElems(v ssa.Value) []ssa.Value {
	sl, ok := v.(*ssa.Slice)
	if !ok {
		return nil
	}
	al, ok := sl.X.(*ssa.Alloc)
	if !ok {
		return nil
	}
	var out []ssa.Value
	for _, ref := range *al.Referrers() {
		if ia, ok := ref.(*ssa.IndexAddr); ok {
			for _, r2 := range *ia.Referrers() {
				if s, ok := r2.(*ssa.Store); ok && s.Addr == ia {
					out = append(out, s.Val)
				}
			}
		}
	}
	return out
}

// secretHolderType: t is Config/Conn (or pointer to).
func (c *Ctx) secretHolderType(t types.Type) string {
	if pt, ok := t.Underlying().(*types.Pointer); ok {
		t = pt.Elem()
	}
	if n, ok := t.(*types.Named); ok && n.Obj().Pkg() == c.Client.Pkg && (n.Obj().Name() == "Config" || n.Obj().Name() == "Conn") {
		return n.Obj().Name()
	}
	return ""
}
