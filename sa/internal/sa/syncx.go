package sa

import (
	"go/token"
	"go/types"
	"sort"
	"strings"

	"golang.org/x/tools/go/ssa"
)

// ---------- channel operations ----------

type ChanOp struct {
	In       ssa.Instruction
	Kind     string // send | recv | close
	Chan     ssa.Value
	InSelect bool
	Blocking bool // false only for a select with default
	Sel      *ssa.Select
	State    int
}

// ChanOps lists the channel operations of fn.
func ChanOps(fn *ssa.Function) []ChanOp {
	var out []ChanOp
	funcInstrs(fn, func(in ssa.Instruction) {
		switch t := in.(type) {
		case *ssa.Send:
			out = append(out, ChanOp{In: in, Kind: "send", Chan: t.Chan, Blocking: true})
		case *ssa.UnOp:
			if t.Op == token.ARROW {
				out = append(out, ChanOp{In: in, Kind: "recv", Chan: t.X, Blocking: true})
			}
		case *ssa.Select:
			for i, st := range t.States {
				k := "recv"
				if st.Dir == types.SendOnly {
					k = "send"
				}
				out = append(out, ChanOp{In: in, Kind: k, Chan: st.Chan, InSelect: true, Blocking: t.Blocking, Sel: t, State: i})
			}
		case *ssa.Call:
			if b, ok := t.Call.Value.(*ssa.Builtin); ok && b.Name() == "close" && len(t.Call.Args) == 1 {
				out = append(out, ChanOp{In: in, Kind: "close", Chan: t.Call.Args[0], Blocking: false})
			}
		}
	})
	return out
}

// ChanIsField: every origin of the channel value is a load of field fv.
func (p *Prog) ChanMayBe(ch ssa.Value, fv *types.Var) bool { return p.MayBeField(ch, fv) }

// selectCaseBlock returns the block executed when state idx of sel fires, by
// following the builder's "index == k" comparison chain. Returns nil if the
// shape is not recognised.
func selectCaseBlock(sel *ssa.Select, idx int) *ssa.BasicBlock {
	// find Extract #0 of sel
	var ex0 ssa.Value
	for _, r := range *sel.Referrers() {
		if e, ok := r.(*ssa.Extract); ok && e.Index == 0 {
			ex0 = e
		}
	}
	if ex0 == nil {
		return nil
	}
	for _, r := range *ex0.Referrers() {
		b, ok := r.(*ssa.BinOp)
		if !ok || b.Op != token.EQL {
			continue
		}
		var k int64
		var okc bool
		if b.X == ex0 {
			k, okc = constInt(b.Y)
		} else {
			k, okc = constInt(b.X)
		}
		if !okc || int(k) != idx {
			continue
		}
		for _, r2 := range *b.Referrers() {
			if iff, ok := r2.(*ssa.If); ok {
				return iff.Block().Succs[0]
			}
		}
	}
	return nil
}

// selectRecvValue returns the value received in state idx of sel (nil if unused).
func selectRecvValue(sel *ssa.Select, idx int) ssa.Value {
	// Extract indices: 0 = index, 1 = recvOk, 2.. = received values in order of recv states
	n := 2
	for i, st := range sel.States {
		if st.Dir == types.RecvOnly {
			if i == idx {
				for _, r := range *sel.Referrers() {
					if e, ok := r.(*ssa.Extract); ok && e.Index == n {
						return e
					}
				}
				return nil
			}
			n++
		}
	}
	return nil
}

// ---------- locks ----------

type LockOp struct {
	In       ssa.Instruction
	Method   string // Lock | Unlock | RLock | RUnlock
	Obj      string // abstract lock object
	Deferred bool
}

// lockObj names the abstract lock a mutex pointer denotes: struct type +
// field for fields, SSA name for locals.
func (p *Prog) lockObj(v ssa.Value) string {
	if fv, base := fieldOf(v); fv != nil {
		t := base.Type()
		if pt, ok := t.Underlying().(*types.Pointer); ok {
			t = pt.Elem()
		}
		return shortType(t) + "." + fv.Name()
	}
	for _, r := range p.Origins(v) {
		if fv, base := fieldOf(r); fv != nil {
			t := base.Type()
			if pt, ok := t.Underlying().(*types.Pointer); ok {
				t = pt.Elem()
			}
			return shortType(t) + "." + fv.Name()
		}
	}
	return "local:" + v.Name()
}

func shortType(t types.Type) string {
	s := types.TypeString(t, func(p *types.Package) string { return p.Name() })
	return strings.TrimPrefix(s, "*")
}

func (p *Prog) lockOpOf(in ssa.Instruction) (LockOp, bool) {
	cc := callOf(in)
	if cc == nil || cc.IsInvoke() {
		return LockOp{}, false
	}
	// lock wrappers: unlock := x.lock() acquires; unlock() / defer unlock() releases
	if w := cc.StaticCallee(); w != nil {
		if obj, m, ok := p.lockWrapper(w); ok {
			_, def := in.(*ssa.Defer)
			return LockOp{In: in, Method: m, Obj: obj, Deferred: def}, true
		}
	} else if _, isB := cc.Value.(*ssa.Builtin); !isB {
		for _, o := range p.Origins(cc.Value) {
			if wc, isC := o.(*ssa.Call); isC {
				if w := wc.Call.StaticCallee(); w != nil {
					if obj, m, ok := p.lockWrapper(w); ok {
						rel := "Unlock"
						if m == "RLock" {
							rel = "RUnlock"
						}
						_, def := in.(*ssa.Defer)
						return LockOp{In: in, Method: rel, Obj: obj, Deferred: def}, true
					}
				}
			}
		}
	}
	if len(cc.Args) == 0 {
		return LockOp{}, false
	}
	n := calleeName(cc)
	var m string
	switch n {
	case "(*sync.Mutex).Lock", "(*sync.RWMutex).Lock":
		m = "Lock"
	case "(*sync.Mutex).Unlock", "(*sync.RWMutex).Unlock":
		m = "Unlock"
	case "(*sync.RWMutex).RLock":
		m = "RLock"
	case "(*sync.RWMutex).RUnlock":
		m = "RUnlock"
	default:
		return LockOp{}, false
	}
	_, def := in.(*ssa.Defer)
	return LockOp{In: in, Method: m, Obj: p.lockObj(cc.Args[0]), Deferred: def}, true
}

// LockSet maps abstract lock -> 'W' or 'R'.
type LockSet map[string]byte

func (l LockSet) clone() LockSet {
	n := LockSet{}
	for k, v := range l {
		n[k] = v
	}
	return n
}
func (l LockSet) String() string {
	var ks []string
	for k, v := range l {
		ks = append(ks, k+":"+string(v))
	}
	sort.Strings(ks)
	return "{" + strings.Join(ks, ",") + "}"
}

func meetLS(a, b LockSet) LockSet {
	if a == nil {
		return b.clone()
	}
	n := LockSet{}
	for k, v := range a {
		if w, ok := b[k]; ok {
			if v == 'R' || w == 'R' {
				n[k] = 'R'
			} else {
				n[k] = 'W'
			}
		}
	}
	return n
}

func eqLS(a, b LockSet) bool {
	if len(a) != len(b) {
		return false
	}
	for k, v := range a {
		if b[k] != v {
			return false
		}
	}
	return true
}

// Locksets is the result of the must-hold analysis.
type Locksets struct {
	p        *Prog
	Entry    map[*ssa.Function]LockSet
	implicit map[*ssa.Function][]ssa.Instruction // boxing sites standing in for fmt callbacks
	Dead     map[*ssa.Function]bool
	At       map[ssa.Instruction]LockSet // lockset immediately BEFORE the instruction
	roots    map[*ssa.Function]bool
}

// ComputeLocksets runs the interprocedural must-lockset analysis over funcs.
// A function is a root (entered with no locks) if it is exported, is a
// goroutine entry, has its address taken, or has no caller in the module.
func (p *Prog) ComputeLocksets(funcs []*ssa.Function) *Locksets {
	ls := &Locksets{p: p, Entry: map[*ssa.Function]LockSet{}, At: map[ssa.Instruction]LockSet{}, roots: map[*ssa.Function]bool{}, Dead: map[*ssa.Function]bool{}, implicit: map[*ssa.Function][]ssa.Instruction{}}
	inSet := map[*ssa.Function]bool{}
	for _, f := range funcs {
		inSet[f] = true
	}
	// call sites per callee, with kind
	type siteT struct {
		cs   ssa.CallInstruction
		kind EdgeKind
	}
	sites := map[*ssa.Function][]siteT{}
	for _, f := range funcs {
		for _, cs := range CallSites(f) {
			for _, e := range p.Callees(cs) {
				if e.Callee != nil && inSet[e.Callee] {
					sites[e.Callee] = append(sites[e.Callee], siteT{cs, e.Kind})
				}
			}
		}
	}
	// Methods the module never calls directly but that fmt may call back
	// (String/Error/GoString/Format on module types): attribute them to the
	// module sites that box a value of the receiver type into an interface.
	for _, f := range funcs {
		if f.Signature.Recv() == nil {
			continue
		}
		switch f.Name() {
		case "String", "Error", "GoString", "Format":
		default:
			continue
		}
		rt := f.Signature.Recv().Type()
		for _, g := range funcs {
			funcInstrs(g, func(in ssa.Instruction) {
				mi, ok := in.(*ssa.MakeInterface)
				if !ok || !types.Identical(mi.X.Type(), rt) {
					return
				}
				sites[f] = append(sites[f], siteT{nil, EdgeCall})
				ls.implicit[f] = append(ls.implicit[f], mi)
			})
		}
	}
	for _, f := range funcs {
		root := len(sites[f]) == 0
		if f.Object() != nil && f.Object().Exported() && f.Parent() == nil && len(ls.implicit[f]) == 0 {
			// exported method or function: callable from outside with nothing held
			// (String methods of unexported receiver types reached only via fmt are handled above)
			root = true
			if rn := recvNamed(f); rn != nil && !rn.Obj().Exported() && len(sites[f]) > 0 && !ifaceMethodOfExported(f) {
				root = false
			}
		}
		if addrTaken(f) && !(len(sites[f]) > 0 && onlyPassedToModuleCalls(p, f)) {
			root = true
		}
		for _, s := range sites[f] {
			if s.kind == EdgeGo {
				root = true
			}
		}
		if len(sites[f]) == 0 && f.Parent() == nil && f.Object() != nil && !f.Object().Exported() && !addrTaken(f) && f.Name() != "init" {
			// unexported, never called, never referenced: dead code
			ls.Dead[f] = true
			continue
		}
		if root {
			ls.roots[f] = true
			ls.Entry[f] = LockSet{}
		}
	}
	// iterate to fixpoint: Entry starts at TOP (nil) for non-roots
	for iter := 0; iter < 50; iter++ {
		changed := false
		for _, f := range funcs {
			ent, ok := ls.Entry[f]
			if !ok {
				continue // not yet reached
			}
			ls.flowFunc(f, ent)
		}
		for _, f := range funcs {
			if ls.roots[f] {
				continue
			}
			var m LockSet
			any := false
			var cands []siteT
			for _, s := range sites[f] {
				if s.cs != nil {
					cands = append(cands, s)
				}
			}
			var implicitAt []LockSet
			for _, mi := range ls.implicit[f] {
				if at, ok := ls.At[mi]; ok {
					implicitAt = append(implicitAt, at)
				}
			}
			for _, at := range implicitAt {
				if !any {
					m = at.clone()
					any = true
				} else {
					m = meetLS(m, at)
				}
			}
			for _, s := range cands {
				at, ok := ls.At[s.cs]
				if !ok {
					continue // caller not yet analysed
				}
				if p.receiverUnderConstruction(s.cs) {
					// a constructor calling a method of the object it is still building: nobody else can reach that
					// object yet, so this call says nothing about which locks the method needs
					continue
				}
				if s.kind == EdgeDefer {
					// deferred call runs at function exit: conservatively nothing held
					at = LockSet{}
				}
				if !any {
					m = at.clone()
					any = true
				} else {
					m = meetLS(m, at)
				}
			}
			if !any {
				continue
			}
			old, had := ls.Entry[f]
			if !had || !eqLS(old, m) {
				ls.Entry[f] = m
				changed = true
			}
		}
		if !changed {
			break
		}
	}
	return ls
}

// namedValueUses counts, per named function, its uses as a value (not in
// call position); filled by Load.
var namedValueUses map[*ssa.Function]int

func addrTaken(f *ssa.Function) bool {
	refs := f.Referrers()
	if refs == nil {
		return namedValueUses[f] > 0
	}
	for _, r := range *refs {
		if cc := callOf(r); cc != nil && cc.Value == f {
			continue
		}
		return true
	}
	return false
}

func (ls *Locksets) flowFunc(fn *ssa.Function, entry LockSet) {
	if len(fn.Blocks) == 0 {
		return
	}
	in := map[*ssa.BasicBlock]LockSet{fn.Blocks[0]: entry.clone()}
	work := []*ssa.BasicBlock{fn.Blocks[0]}
	queued := map[*ssa.BasicBlock]bool{fn.Blocks[0]: true}
	for len(work) > 0 {
		b := work[0]
		work = work[1:]
		queued[b] = false
		cur := in[b].clone()
		for _, x := range b.Instrs {
			ls.At[x] = cur.clone()
			if op, ok := ls.p.lockOpOf(x); ok && !op.Deferred {
				switch op.Method {
				case "Lock":
					cur[op.Obj] = 'W'
				case "RLock":
					if cur[op.Obj] != 'W' {
						cur[op.Obj] = 'R'
					}
				case "Unlock", "RUnlock":
					delete(cur, op.Obj)
				}
			}
		}
		for _, s := range b.Succs {
			old, ok := in[s]
			var nw LockSet
			if !ok {
				nw = cur.clone()
			} else {
				nw = meetLS(old, cur)
			}
			if !ok || !eqLS(old, nw) {
				in[s] = nw
				if !queued[s] {
					queued[s] = true
					work = append(work, s)
				}
			}
		}
	}
}

// Held reports the mode in which lock obj is held before instruction in.
func (ls *Locksets) Held(in ssa.Instruction, obj string) byte {
	if s, ok := ls.At[in]; ok {
		return s[obj]
	}
	return 0
}

func recvNamed(f *ssa.Function) *types.Named {
	if f.Signature.Recv() == nil {
		return nil
	}
	t := f.Signature.Recv().Type()
	if pt, ok := t.(*types.Pointer); ok {
		t = pt.Elem()
	}
	n, _ := t.(*types.Named)
	return n
}

// ifaceMethodOfExported: conservatively true when an exported method of an
// unexported type may be reached through an exported interface (so it must
// be treated as externally callable).
func ifaceMethodOfExported(f *ssa.Function) bool {
	rn := recvNamed(f)
	if rn == nil {
		return true
	}
	pk := rn.Obj().Pkg()
	if pk == nil {
		return true
	}
	sc := pk.Scope()
	for _, nm := range sc.Names() {
		tn, ok := sc.Lookup(nm).(*types.TypeName)
		if !ok || !tn.Exported() {
			continue
		}
		it, ok := tn.Type().Underlying().(*types.Interface)
		if !ok {
			continue
		}
		for i := 0; i < it.NumMethods(); i++ {
			if it.Method(i).Name() == f.Name() {
				if types.Implements(f.Signature.Recv().Type(), it) {
					return true
				}
			}
		}
	}
	return false
}

// Acquires computes, per function, the abstract locks it may acquire
// directly or through awaited module calls.
func (p *Prog) Acquires(funcs []*ssa.Function) map[*ssa.Function]map[string]bool {
	acq := map[*ssa.Function]map[string]bool{}
	for _, f := range funcs {
		acq[f] = map[string]bool{}
		funcInstrs(f, func(in ssa.Instruction) {
			if op, ok := p.lockOpOf(in); ok && (op.Method == "Lock" || op.Method == "RLock") {
				acq[f][op.Obj] = true
			}
		})
	}
	for changed := true; changed; {
		changed = false
		for _, f := range funcs {
			for _, cs := range CallSites(f) {
				if kindName(cs) == "go" {
					continue
				}
				for _, e := range p.Callees(cs) {
					if e.Callee == nil {
						continue
					}
					for l := range acq[e.Callee] {
						if !acq[f][l] {
							acq[f][l] = true
							changed = true
						}
					}
				}
			}
		}
	}
	return acq
}

// Reacquire is a call or lock operation that acquires a lock already held.
type Reacquire struct {
	In   ssa.Instruction
	Lock string
	Via  string
}

// Reacquisitions lists every site where a held lock is acquired again
// (directly, or by an awaited call into a function that acquires it).
func (ls *Locksets) Reacquisitions(funcs []*ssa.Function, acq map[*ssa.Function]map[string]bool) []Reacquire {
	var out []Reacquire
	for _, f := range funcs {
		if _, ok := ls.Entry[f]; !ok {
			continue
		}
		funcInstrs(f, func(in ssa.Instruction) {
			held := ls.At[in]
			if len(held) == 0 {
				return
			}
			if op, ok := ls.p.lockOpOf(in); ok {
				if (op.Method == "Lock" || op.Method == "RLock") && !op.Deferred && held[op.Obj] != 0 {
					out = append(out, Reacquire{in, op.Obj, "direct " + op.Method})
				}
				return
			}
			cs, ok := in.(ssa.CallInstruction)
			if !ok || kindName(cs) != "call" {
				return
			}
			for _, e := range ls.p.Callees(cs) {
				if e.Callee == nil {
					continue
				}
				for l := range acq[e.Callee] {
					if held[l] != 0 {
						out = append(out, Reacquire{in, l, "call of " + ls.p.FuncKey(e.Callee)})
					}
				}
			}
		})
	}
	return out
}

// onlyPassedToModuleCalls: every use of the function value f (closure) is as
// an argument of a call to a module function (which then calls it; the call
// is resolved by dynamicTargets) or as the callee of a call.
func onlyPassedToModuleCalls(p *Prog, f *ssa.Function) bool {
	check := func(v ssa.Value) bool {
		refs := v.Referrers()
		if refs == nil {
			return true
		}
		for _, r := range *refs {
			switch t := r.(type) {
			case *ssa.DebugRef:
			case ssa.CallInstruction:
				cc := t.Common()
				if cc.Value == v {
					continue
				}
				callee := cc.StaticCallee()
				if callee == nil || !p.InModuleFn(callee) {
					return false
				}
			default:
				return false
			}
		}
		return true
	}
	if f.Parent() != nil {
		ok := true
		found := false
		funcInstrs(f.Parent(), func(in ssa.Instruction) {
			if mc, isMC := in.(*ssa.MakeClosure); isMC && mc.Fn == f {
				found = true
				if !check(mc) {
					ok = false
				}
			}
		})
		return ok && found
	}
	return false
}

// lockWrapper: fn is a module function that acquires one lock (a plain
// Lock/RLock it never releases itself) and returns, on every path, the bound
// Unlock/RUnlock of that same lock: "defer x.lock()()". Returns the abstract
// lock and the acquiring method.
func (p *Prog) lockWrapper(fn *ssa.Function) (string, string, bool) {
	if p.wrapMemo == nil {
		p.wrapMemo = map[*ssa.Function]*wrapInfo{}
	}
	if w, ok := p.wrapMemo[fn]; ok {
		return w.obj, w.method, w.ok
	}
	w := &wrapInfo{}
	p.wrapMemo[fn] = w // recursion guard: not a wrapper while being examined
	if !p.InModuleFn(fn) || fn.Signature.Results().Len() != 1 {
		return "", "", false
	}
	if _, isSig := fn.Signature.Results().At(0).Type().Underlying().(*types.Signature); !isSig {
		return "", "", false
	}
	nLock, bad := 0, false
	obj, method := "", ""
	funcInstrs(fn, func(in ssa.Instruction) {
		cc := callOf(in)
		if cc == nil || cc.IsInvoke() || len(cc.Args) == 0 {
			return
		}
		switch calleeName(cc) {
		case "(*sync.Mutex).Lock", "(*sync.RWMutex).Lock":
			nLock++
			obj, method = p.lockObj(cc.Args[0]), "Lock"
			if _, d := in.(*ssa.Defer); d {
				bad = true
			}
		case "(*sync.RWMutex).RLock":
			nLock++
			obj, method = p.lockObj(cc.Args[0]), "RLock"
		case "(*sync.Mutex).Unlock", "(*sync.RWMutex).Unlock", "(*sync.RWMutex).RUnlock":
			bad = true
		}
	})
	if nLock != 1 || bad {
		return "", "", false
	}
	okRet, nRet := true, 0
	funcInstrs(fn, func(in ssa.Instruction) {
		rt, isR := in.(*ssa.Return)
		if !isR || len(rt.Results) != 1 {
			return
		}
		nRet++
		mc, isMC := retVal(rt, 0).(*ssa.MakeClosure)
		if !isMC || len(mc.Bindings) != 1 {
			okRet = false
			return
		}
		bf, _ := mc.Fn.(*ssa.Function)
		if bf == nil {
			okRet = false
			return
		}
		want := "Unlock"
		if method == "RLock" {
			want = "RUnlock"
		}
		target := p.unthunk(bf)
		if target == nil || target.Name() != want || p.lockObj(mc.Bindings[0]) != obj {
			okRet = false
		}
	})
	if !okRet || nRet == 0 {
		return "", "", false
	}
	w.obj, w.method, w.ok = obj, method, true
	return obj, method, true
}

type wrapInfo struct {
	obj, method string
	ok          bool
}

// receiverUnderConstruction: the call's receiver is an object the calling
// function has allocated itself and has not published: its only uses are
// field accesses, method calls on it and returning it.
func (p *Prog) receiverUnderConstruction(cs ssa.CallInstruction) bool {
	cc := cs.Common()
	if cc.IsInvoke() || len(cc.Args) == 0 {
		return false
	}
	cal := cc.StaticCallee()
	if cal == nil || cal.Signature.Recv() == nil {
		return false
	}
	al, ok := cc.Args[0].(*ssa.Alloc)
	if !ok || al.Parent() != cs.Parent() {
		return false
	}
	for _, ref := range *al.Referrers() {
		switch t := ref.(type) {
		case *ssa.FieldAddr, *ssa.DebugRef, *ssa.Return:
		case *ssa.Store:
			if t.Val == ssa.Value(al) {
				return false // published
			}
		case *ssa.Call:
			if t.Call.IsInvoke() || len(t.Call.Args) == 0 || t.Call.Args[0] != ssa.Value(al) {
				return false
			}
			for _, a := range t.Call.Args[1:] {
				if a == ssa.Value(al) {
					return false
				}
			}
			if c2 := t.Call.StaticCallee(); c2 == nil || c2.Signature.Recv() == nil {
				return false
			}
		default:
			return false
		}
	}
	return true
}
