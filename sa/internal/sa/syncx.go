package sa

import (
	"go/token"
	"go/types"
	"sort"
	"strings"

	"golang.org/x/tools/go/ssa"
)

// ---------- channel operations ----------

type ChanOp struct {
	In       ssa.Instruction
	Kind     string // send | recv | close
	Chan     ssa.Value
	InSelect bool
	Blocking bool // false only for a select with default
	Sel      *ssa.Select
	State    int
}

// ChanOps lists the channel operations of fn.
func ChanOps(fn *ssa.Function) []ChanOp {
	var out []ChanOp
	funcInstrs(fn, func(in ssa.Instruction) {
		switch t := in.(type) {
		case *ssa.Send:
			out = append(out, ChanOp{In: in, Kind: "send", Chan: t.Chan, Blocking: true})
		case *ssa.UnOp:
			if t.Op == token.ARROW {
				out = append(out, ChanOp{In: in, Kind: "recv", Chan: t.X, Blocking: true})
			}
		case *ssa.Select:
			for i, st := range t.States {
				k := "recv"
				if st.Dir == types.SendOnly {
					k = "send"
				}
				out = append(out, ChanOp{In: in, Kind: k, Chan: st.Chan, InSelect: true, Blocking: t.Blocking, Sel: t, State: i})
			}
		case *ssa.Call:
			if b, ok := t.Call.Value.(*ssa.Builtin); ok && b.Name() == "close" && len(t.Call.Args) == 1 {
				out = append(out, ChanOp{In: in, Kind: "close", Chan: t.Call.Args[0], Blocking: false})
			}
		}
	})
	return out
}

// ChanIsField: every origin of the channel value is a load of field fv.
func (p *Prog) ChanMayBe(ch ssa.Value, fv *types.Var) bool { return p.MayBeField(ch, fv) }

// selectCaseBlock returns the block executed when state idx of sel fires, by
// following the builder's "index == k" comparison chain. Returns nil if the
// shape is not recognised.
func selectCaseBlock(sel *ssa.Select, idx int) *ssa.BasicBlock {
	// find Extract #0 of sel
	var ex0 ssa.Value
	for _, r := range *sel.Referrers() {
		if e, ok := r.(*ssa.Extract); ok && e.Index == 0 {
			ex0 = e
		}
	}
	if ex0 == nil {
		return nil
	}
	for _, r := range *ex0.Referrers() {
		b, ok := r.(*ssa.BinOp)
		if !ok || b.Op != token.EQL {
			continue
		}
		var k int64
		var okc bool
		if b.X == ex0 {
			k, okc = constInt(b.Y)
		} else {
			k, okc = constInt(b.X)
		}
		if !okc || int(k) != idx {
			continue
		}
		for _, r2 := range *b.Referrers() {
			if iff, ok := r2.(*ssa.If); ok {
				return iff.Block().Succs[0]
			}
		}
	}
	return nil
}

// selectRecvValue returns the value received in state idx of sel (nil if unused).
func selectRecvValue(sel *ssa.Select, idx int) ssa.Value {
	// Extract indices: 0 = index, 1 = recvOk, 2.. = received values in order of recv states
	n := 2
	for i, st := range sel.States {
		if st.Dir == types.RecvOnly {
			if i == idx {
				for _, r := range *sel.Referrers() {
					if e, ok := r.(*ssa.Extract); ok && e.Index == n {
						return e
					}
				}
				return nil
			}
			n++
		}
	}
	return nil
}

// ---------- locks ----------

type LockOp struct {
	In       ssa.Instruction
	Method   string // Lock | Unlock | RLock | RUnlock
	Obj      string // abstract lock object
	Deferred bool
}

// lockObj names the abstract lock a mutex pointer denotes: struct type +
// field for fields, SSA name for locals.
func (p *Prog) lockObj(v ssa.Value) string {
	if fv, base := fieldOf(v); fv != nil {
		t := base.Type()
		if pt, ok := t.Underlying().(*types.Pointer); ok {
			t = pt.Elem()
		}
		return shortType(t) + "." + fv.Name()
	}
	for _, r := range p.Origins(v) {
		if fv, base := fieldOf(r); fv != nil {
			t := base.Type()
			if pt, ok := t.Underlying().(*types.Pointer); ok {
				t = pt.Elem()
			}
			return shortType(t) + "." + fv.Name()
		}
	}
	return "local:" + v.Name()
}

func shortType(t types.Type) string {
	s := types.TypeString(t, func(p *types.Package) string { return p.Name() })
	return strings.TrimPrefix(s, "*")
}

func (p *Prog) lockOpOf(in ssa.Instruction) (LockOp, bool) {
	cc := callOf(in)
	if cc == nil || cc.IsInvoke() || len(cc.Args) == 0 {
		return LockOp{}, false
	}
	n := calleeName(cc)
	var m string
	switch n {
	case "(*sync.Mutex).Lock", "(*sync.RWMutex).Lock":
		m = "Lock"
	case "(*sync.Mutex).Unlock", "(*sync.RWMutex).Unlock":
		m = "Unlock"
	case "(*sync.RWMutex).RLock":
		m = "RLock"
	case "(*sync.RWMutex).RUnlock":
		m = "RUnlock"
	default:
		return LockOp{}, false
	}
	_, def := in.(*ssa.Defer)
	return LockOp{In: in, Method: m, Obj: p.lockObj(cc.Args[0]), Deferred: def}, true
}

// LockSet maps abstract lock -> 'W' or 'R'.
type LockSet map[string]byte

func (l LockSet) clone() LockSet {
	n := LockSet{}
	for k, v := range l {
		n[k] = v
	}
	return n
}
func (l LockSet) String() string {
	var ks []string
	for k, v := range l {
		ks = append(ks, k+":"+string(v))
	}
	sort.Strings(ks)
	return "{" + strings.Join(ks, ",") + "}"
}

func meetLS(a, b LockSet) LockSet {
	if a == nil {
		return b.clone()
	}
	n := LockSet{}
	for k, v := range a {
		if w, ok := b[k]; ok {
			if v == 'R' || w == 'R' {
				n[k] = 'R'
			} else {
				n[k] = 'W'
			}
		}
	}
	return n
}

func eqLS(a, b LockSet) bool {
	if len(a) != len(b) {
		return false
	}
	for k, v := range a {
		if b[k] != v {
			return false
		}
	}
	return true
}

// Locksets is the result of the must-hold analysis.
type Locksets struct {
	p     *Prog
	Entry map[*ssa.Function]LockSet
	At    map[ssa.Instruction]LockSet // lockset immediately BEFORE the instruction
	roots map[*ssa.Function]bool
}

// ComputeLocksets runs the interprocedural must-lockset analysis over funcs.
// A function is a root (entered with no locks) if it is exported, is a
// goroutine entry, has its address taken, or has no caller in the module.
func (p *Prog) ComputeLocksets(funcs []*ssa.Function) *Locksets {
	ls := &Locksets{p: p, Entry: map[*ssa.Function]LockSet{}, At: map[ssa.Instruction]LockSet{}, roots: map[*ssa.Function]bool{}}
	inSet := map[*ssa.Function]bool{}
	for _, f := range funcs {
		inSet[f] = true
	}
	// call sites per callee, with kind
	type siteT struct {
		cs   ssa.CallInstruction
		kind EdgeKind
	}
	sites := map[*ssa.Function][]siteT{}
	for _, f := range funcs {
		for _, cs := range CallSites(f) {
			for _, e := range p.Callees(cs) {
				if e.Callee != nil && inSet[e.Callee] {
					sites[e.Callee] = append(sites[e.Callee], siteT{cs, e.Kind})
				}
			}
		}
	}
	for _, f := range funcs {
		root := len(sites[f]) == 0
		if f.Object() != nil && f.Object().Exported() && f.Parent() == nil {
			// exported method or function: callable from outside with nothing held
			root = true
		}
		if addrTaken(f) {
			root = true
		}
		for _, s := range sites[f] {
			if s.kind == EdgeGo {
				root = true
			}
		}
		if root {
			ls.roots[f] = true
			ls.Entry[f] = LockSet{}
		}
	}
	// iterate to fixpoint: Entry starts at TOP (nil) for non-roots
	for iter := 0; iter < 50; iter++ {
		changed := false
		for _, f := range funcs {
			ent, ok := ls.Entry[f]
			if !ok {
				continue // not yet reached
			}
			ls.flowFunc(f, ent)
		}
		for _, f := range funcs {
			if ls.roots[f] {
				continue
			}
			var m LockSet
			any := false
			for _, s := range sites[f] {
				at, ok := ls.At[s.cs]
				if !ok {
					continue // caller not yet analysed
				}
				if s.kind == EdgeDefer {
					// deferred call runs at function exit: conservatively nothing held
					at = LockSet{}
				}
				if !any {
					m = at.clone()
					any = true
				} else {
					m = meetLS(m, at)
				}
			}
			if !any {
				continue
			}
			old, had := ls.Entry[f]
			if !had || !eqLS(old, m) {
				ls.Entry[f] = m
				changed = true
			}
		}
		if !changed {
			break
		}
	}
	return ls
}

func addrTaken(f *ssa.Function) bool {
	refs := f.Referrers()
	if refs == nil {
		return false
	}
	for _, r := range *refs {
		if cc := callOf(r); cc != nil && cc.Value == f {
			continue
		}
		return true
	}
	return false
}

func (ls *Locksets) flowFunc(fn *ssa.Function, entry LockSet) {
	if len(fn.Blocks) == 0 {
		return
	}
	in := map[*ssa.BasicBlock]LockSet{fn.Blocks[0]: entry.clone()}
	work := []*ssa.BasicBlock{fn.Blocks[0]}
	queued := map[*ssa.BasicBlock]bool{fn.Blocks[0]: true}
	for len(work) > 0 {
		b := work[0]
		work = work[1:]
		queued[b] = false
		cur := in[b].clone()
		for _, x := range b.Instrs {
			ls.At[x] = cur.clone()
			if op, ok := ls.p.lockOpOf(x); ok && !op.Deferred {
				switch op.Method {
				case "Lock":
					cur[op.Obj] = 'W'
				case "RLock":
					if cur[op.Obj] != 'W' {
						cur[op.Obj] = 'R'
					}
				case "Unlock", "RUnlock":
					delete(cur, op.Obj)
				}
			}
		}
		for _, s := range b.Succs {
			old, ok := in[s]
			var nw LockSet
			if !ok {
				nw = cur.clone()
			} else {
				nw = meetLS(old, cur)
			}
			if !ok || !eqLS(old, nw) {
				in[s] = nw
				if !queued[s] {
					queued[s] = true
					work = append(work, s)
				}
			}
		}
	}
}

// Held reports the mode in which lock obj is held before instruction in.
func (ls *Locksets) Held(in ssa.Instruction, obj string) byte {
	if s, ok := ls.At[in]; ok {
		return s[obj]
	}
	return 0
}
