package sa

import (
	"go/token"
	"go/types"
	"sort"

	"golang.org/x/tools/go/ssa"
)

// ---------- instruction-level helpers ----------

func instrIndex(in ssa.Instruction) int {
	b := in.Block()
	for i, x := range b.Instrs {
		if x == in {
			return i
		}
	}
	return -1
}

// instrDominates reports whether a executes before b on every path to b.
func instrDominates(a, b ssa.Instruction) bool {
	if a.Block() == b.Block() {
		return instrIndex(a) < instrIndex(b)
	}
	return a.Block().Dominates(b.Block())
}

// blockDom: a == b or a strictly dominates b.
func blockDom(a, b *ssa.BasicBlock) bool { return a == b || a.Dominates(b) }

// succInstrs returns the instructions that may execute immediately after in.
func succInstrs(in ssa.Instruction) []ssa.Instruction {
	b := in.Block()
	i := instrIndex(in)
	if i+1 < len(b.Instrs) {
		return []ssa.Instruction{b.Instrs[i+1]}
	}
	var out []ssa.Instruction
	for _, s := range b.Succs {
		if len(s.Instrs) > 0 {
			out = append(out, s.Instrs[0])
		}
	}
	return out
}

// ReachFromFiltered is ReachFrom on the CFG with the edges for which skip
// returns true removed.
func ReachFromFiltered(start ssa.Instruction, incl bool, stop func(ssa.Instruction) bool, skip func(from, to *ssa.BasicBlock) bool) map[ssa.Instruction]bool {
	seen := map[ssa.Instruction]bool{}
	var work []ssa.Instruction
	push := func(in ssa.Instruction) {
		if !seen[in] {
			seen[in] = true
			if stop == nil || !stop(in) {
				work = append(work, in)
			}
		}
	}
	next := func(in ssa.Instruction) {
		b := in.Block()
		i := instrIndex(in)
		if i+1 < len(b.Instrs) {
			push(b.Instrs[i+1])
			return
		}
		for _, s := range b.Succs {
			if skip != nil && skip(b, s) {
				continue
			}
			if len(s.Instrs) > 0 {
				push(s.Instrs[0])
			}
		}
	}
	if incl {
		push(start)
	} else {
		next(start)
	}
	for len(work) > 0 {
		in := work[len(work)-1]
		work = work[:len(work)-1]
		next(in)
	}
	return seen
}

// ReachFrom returns every instruction reachable from start (start itself only
// if incl) following normal control flow; instructions for which stop
// returns true are included but not expanded.
func ReachFrom(start ssa.Instruction, incl bool, stop func(ssa.Instruction) bool) map[ssa.Instruction]bool {
	seen := map[ssa.Instruction]bool{}
	var work []ssa.Instruction
	push := func(in ssa.Instruction) {
		if !seen[in] {
			seen[in] = true
			if stop == nil || !stop(in) {
				work = append(work, in)
			}
		}
	}
	if incl {
		push(start)
	} else {
		for _, s := range succInstrs(start) {
			push(s)
		}
	}
	for len(work) > 0 {
		in := work[len(work)-1]
		work = work[:len(work)-1]
		for _, s := range succInstrs(in) {
			push(s)
		}
	}
	return seen
}

// ReachFromEntry is ReachFrom starting at the first instruction of fn.
func ReachFromEntry(fn *ssa.Function, stop func(ssa.Instruction) bool) map[ssa.Instruction]bool {
	if len(fn.Blocks) == 0 || len(fn.Blocks[0].Instrs) == 0 {
		return map[ssa.Instruction]bool{}
	}
	return ReachFrom(fn.Blocks[0].Instrs[0], true, stop)
}

// isExit: a normal function exit.
func isReturn(in ssa.Instruction) bool { _, ok := in.(*ssa.Return); return ok }

// AllPathsPass reports whether every normal path from `from` (exclusive) to a
// Return passes through an instruction satisfying through. Paths ending in
// panic are ignored. The first offending Return is returned when false.
func AllPathsPass(from ssa.Instruction, incl bool, through func(ssa.Instruction) bool) (bool, ssa.Instruction) {
	r := ReachFrom(from, incl, through)
	var bad []ssa.Instruction
	for in := range r {
		if isReturn(in) && !through(in) {
			bad = append(bad, in)
		}
	}
	if len(bad) == 0 {
		return true, nil
	}
	sort.Slice(bad, func(i, j int) bool { return bad[i].Pos() < bad[j].Pos() })
	return false, bad[0]
}

// AllPathsFromEntryPass: every entry→Return path passes `through`.
func AllPathsFromEntryPass(fn *ssa.Function, through func(ssa.Instruction) bool) (bool, ssa.Instruction) {
	if len(fn.Blocks) == 0 {
		return true, nil
	}
	return AllPathsPass(fn.Blocks[0].Instrs[0], true, through)
}

// NeverBefore: no path from entry reaches target without first passing an
// instruction satisfying before (i.e. `before` "dominates" target as a set).
func SetDominates(fn *ssa.Function, before func(ssa.Instruction) bool, target ssa.Instruction) bool {
	if before(target) {
		return true
	}
	r := ReachFromEntry(fn, before)
	return !r[target]
}

// ---------- loops ----------

type loopInfo struct {
	// headers[b] = set of loop headers whose natural loop contains b
	headers map[*ssa.BasicBlock]map[*ssa.BasicBlock]bool
	isHead  map[*ssa.BasicBlock]bool
}

func (p *Prog) Loops(fn *ssa.Function) *loopInfo {
	if li, ok := p.loops[fn]; ok {
		return li
	}
	li := &loopInfo{headers: map[*ssa.BasicBlock]map[*ssa.BasicBlock]bool{}, isHead: map[*ssa.BasicBlock]bool{}}
	for _, b := range fn.Blocks {
		li.headers[b] = map[*ssa.BasicBlock]bool{}
	}
	for _, n := range fn.Blocks {
		for _, h := range n.Succs {
			if blockDom(h, n) { // back edge n->h
				li.isHead[h] = true
				// natural loop: h plus all nodes that reach n without passing h
				body := map[*ssa.BasicBlock]bool{h: true}
				var st []*ssa.BasicBlock
				if !body[n] {
					body[n] = true
					st = append(st, n)
				}
				for len(st) > 0 {
					x := st[len(st)-1]
					st = st[:len(st)-1]
					for _, pr := range x.Preds {
						if !body[pr] {
							body[pr] = true
							st = append(st, pr)
						}
					}
				}
				for b := range body {
					li.headers[b][h] = true
				}
			}
		}
	}
	p.loops[fn] = li
	return li
}

// LoopDepth of a block.
func (p *Prog) LoopDepth(b *ssa.BasicBlock) int { return len(p.Loops(b.Parent()).headers[b]) }

// SameLoops reports whether a and b are in exactly the same set of loops.
func (p *Prog) SameLoops(a, b *ssa.BasicBlock) bool {
	li := p.Loops(a.Parent())
	ha, hb := li.headers[a], li.headers[b]
	if len(ha) != len(hb) {
		return false
	}
	for h := range ha {
		if !hb[h] {
			return false
		}
	}
	return true
}

// IsLoopHeader reports whether b is the target of a back edge.
func (p *Prog) IsLoopHeader(b *ssa.BasicBlock) bool { return p.Loops(b.Parent()).isHead[b] }

// OncePerExecution: b executes exactly once for each execution of a:
// a dominates b; every path from a to a Return or back to a passes b; no
// path from b returns to b without passing a.
func (p *Prog) OncePer(a, b ssa.Instruction) bool {
	if a.Parent() != b.Parent() || !instrDominates(a, b) {
		return false
	}
	r := ReachFrom(a, false, func(in ssa.Instruction) bool { return in == b })
	for in := range r {
		if in == b {
			continue
		}
		if isReturn(in) || in == a {
			return false
		}
	}
	r2 := ReachFrom(b, false, func(in ssa.Instruction) bool { return in == a })
	return !r2[b]
}

// ---------- branch facts ----------

// Cond is a branch condition known to hold (True) or not hold at a point.
type Cond struct {
	V    ssa.Value
	True bool
	If   *ssa.If
}

// edgeConds returns conditions implied by the single edge pred->succ.
func edgeCond(pred, succ *ssa.BasicBlock) (Cond, bool) {
	if len(pred.Instrs) == 0 {
		return Cond{}, false
	}
	iff, ok := pred.Instrs[len(pred.Instrs)-1].(*ssa.If)
	if !ok || len(pred.Succs) != 2 || pred.Succs[0] == pred.Succs[1] {
		return Cond{}, false
	}
	if pred.Succs[0] == succ {
		return Cond{iff.Cond, true, iff}, true
	}
	if pred.Succs[1] == succ {
		return Cond{iff.Cond, false, iff}, true
	}
	return Cond{}, false
}

// CondsAt returns the branch conditions that hold on every path to block b
// (conditions of dominating edges whose target has a single predecessor).
func CondsAt(b *ssa.BasicBlock) []Cond {
	var out []Cond
	for x := b; x != nil; x = x.Idom() {
		if len(x.Preds) == 1 {
			if c, ok := edgeCond(x.Preds[0], x); ok {
				out = append(out, c)
			}
		}
	}
	return out
}

// unwrapNot strips boolean negations, flipping polarity.
func unwrapNot(c Cond) Cond {
	for {
		u, ok := c.V.(*ssa.UnOp)
		if !ok || u.Op != token.NOT {
			return c
		}
		c = Cond{u.X, !c.True, c.If}
	}
}

// ---------- SSA value helpers ----------

// fieldOf: if v is &x.f or x.f returns the field var and base.
func fieldOf(v ssa.Value) (*types.Var, ssa.Value) {
	switch t := v.(type) {
	case *ssa.FieldAddr:
		st := derefStruct(t.X.Type())
		if st == nil {
			return nil, nil
		}
		return st.Field(t.Field), t.X
	case *ssa.Field:
		st, _ := t.X.Type().Underlying().(*types.Struct)
		if st == nil {
			return nil, nil
		}
		return st.Field(t.Field), t.X
	}
	return nil, nil
}

func derefStruct(t types.Type) *types.Struct {
	if p, ok := t.Underlying().(*types.Pointer); ok {
		t = p.Elem()
	}
	st, _ := t.Underlying().(*types.Struct)
	return st
}

// loadedField: if v is a load (*addr) of a struct field, returns the field.
func loadedField(v ssa.Value) (*types.Var, ssa.Value) {
	if u, ok := v.(*ssa.UnOp); ok && u.Op == token.MUL {
		return fieldOf(u.X)
	}
	if f, ok := v.(*ssa.Field); ok {
		return fieldOf(f)
	}
	return nil, nil
}

// constString returns the string constant value of v.
func constString(v ssa.Value) (string, bool) {
	c, ok := v.(*ssa.Const)
	if !ok || c.Value == nil {
		return "", false
	}
	if b, ok := c.Type().Underlying().(*types.Basic); ok && b.Info()&types.IsString != 0 {
		return constantStringVal(c), true
	}
	return "", false
}

// constInt returns the integer constant value of v.
func constInt(v ssa.Value) (int64, bool) {
	c, ok := v.(*ssa.Const)
	if !ok || c.Value == nil {
		return 0, false
	}
	if b, ok := c.Type().Underlying().(*types.Basic); ok && b.Info()&types.IsInteger != 0 {
		return c.Int64(), true
	}
	return 0, false
}

// stripConv looks through value-preserving conversions and interface boxing.
func stripConv(v ssa.Value) ssa.Value {
	for {
		switch t := v.(type) {
		case *ssa.ChangeType:
			v = t.X
		case *ssa.MakeInterface:
			v = t.X
		case *ssa.ChangeInterface:
			v = t.X
		default:
			return v
		}
	}
}

// callOf returns the CallCommon of a call-like instruction (Call, Go, Defer).
func callOf(in ssa.Instruction) *ssa.CallCommon {
	if c, ok := in.(ssa.CallInstruction); ok {
		return c.Common()
	}
	return nil
}

// calleeIs reports whether the static callee of cc is the function
// pkgpath.name or method (recv).name given as types full name, e.g.
// "strings.ToLower", "(*sync.WaitGroup).Wait".
func calleeName(cc *ssa.CallCommon) string {
	if cc == nil {
		return ""
	}
	if cc.IsInvoke() {
		return "(" + cc.Value.Type().String() + ")." + cc.Method.Name()
	}
	if f := cc.StaticCallee(); f != nil {
		if f.Object() != nil {
			if fo, ok := f.Object().(*types.Func); ok {
				return fo.FullName()
			}
		}
		return f.String()
	}
	if b, ok := cc.Value.(*ssa.Builtin); ok {
		return "builtin." + b.Name()
	}
	return ""
}

// funcInstrs iterates over all instructions of fn that are reachable from
// its entry by normal control flow (the builder's recover block and dead
// blocks are skipped).
func funcInstrs(fn *ssa.Function, f func(ssa.Instruction)) {
	if fn == nil || len(fn.Blocks) == 0 {
		return
	}
	reach := reachableBlocks(fn)
	for _, b := range fn.Blocks {
		if !reach[b] {
			continue
		}
		for _, in := range b.Instrs {
			f(in)
		}
	}
}

// retVal returns the value actually returned at result index i: functions
// with defers spill results to a cell (*t0 = v; rundefers; return *t0).
func retVal(rt *ssa.Return, i int) ssa.Value {
	v := rt.Results[i]
	u, ok := v.(*ssa.UnOp)
	if !ok || u.Op != token.MUL {
		return v
	}
	al, ok := u.X.(*ssa.Alloc)
	if !ok {
		return v
	}
	// a record modified field by field after it was stored is not the value that was stored
	for _, ref := range *al.Referrers() {
		if _, isFA := ref.(*ssa.FieldAddr); isFA {
			return v
		}
	}
	b := rt.Block()
	var last ssa.Value
	for _, in := range b.Instrs {
		if in == ssa.Instruction(u) {
			break
		}
		if st, ok := in.(*ssa.Store); ok && st.Addr == al {
			last = st.Val
		}
	}
	if last != nil {
		return last
	}
	return v
}

// reachableBlocks: blocks reachable from entry (go/ssa may keep dead ones).
func reachableBlocks(fn *ssa.Function) map[*ssa.BasicBlock]bool {
	seen := map[*ssa.BasicBlock]bool{}
	if len(fn.Blocks) == 0 {
		return seen
	}
	st := []*ssa.BasicBlock{fn.Blocks[0]}
	seen[fn.Blocks[0]] = true
	for len(st) > 0 {
		b := st[len(st)-1]
		st = st[:len(st)-1]
		for _, s := range b.Succs {
			if !seen[s] {
				seen[s] = true
				st = append(st, s)
			}
		}
	}
	return seen
}

// SameGuardDominates: target runs only on an edge of a branch on some value v,
// and an earlier branch on the same SSA value, taken the same way, leads into
// a region from which every path to the later branch passes an instruction
// satisfying before. Since v is one value, reaching target implies the
// earlier branch went that way too - so before has executed.
func SameGuardDominates(fn *ssa.Function, before func(ssa.Instruction) bool, target ssa.Instruction) bool {
	for _, cd := range CondsAt(target.Block()) {
		cd = unwrapNot(cd)
		if cd.If == nil {
			continue
		}
		for _, b := range fn.Blocks {
			if len(b.Instrs) == 0 || len(b.Succs) != 2 {
				continue
			}
			iff, ok := b.Instrs[len(b.Instrs)-1].(*ssa.If)
			if !ok || iff == cd.If || !blockDom(b, cd.If.Block()) {
				continue
			}
			c1 := unwrapNot(Cond{iff.Cond, true, iff})
			if c1.V != cd.V {
				continue
			}
			t := b.Succs[0]
			if c1.True != cd.True {
				t = b.Succs[1]
			}
			if len(t.Instrs) == 0 {
				continue
			}
			seen := ReachFrom(t.Instrs[0], true, before)
			if !seen[cd.If] {
				return true
			}
		}
	}
	return false
}
