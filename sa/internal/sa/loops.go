package sa

import (
	"fmt"
	"go/token"
	"go/types"
	"sort"
	"strings"

	"golang.org/x/tools/go/ssa"
)

// loopVariantRule: every loop in the code the event loop waits for - the
// built-in handlers, everything they call (command API, tracker) and the
// dispatch machinery - terminates by its shape: it walks a finite collection,
// counts towards a loop-invariant bound, consumes its own text, or follows a
// linked structure. A loop whose exit depends on anything else (a retry loop
// over a lookup, say) can keep the event loop busy for ever on some input.
func (c *Ctx) loopVariantRule(rule string, p *Prover) {
	r, a := c.R, c.A
	var roots []*ssa.Function
	for _, f := range a.IntTable {
		roots = append(roots, f)
	}
	for _, f := range a.StTable {
		roots = append(roots, f)
	}
	roots = append(roots, a.ConnDispatch, a.SetDispatch)
	reach := c.Closure(roots, func(from *ssa.Function, e Edge) bool {
		return e.Kind != EdgeGo && e.Callee != a.Teardown && e.Callee != a.TeardownCore && e.Callee != a.Connect && !a.IsMember(e.Callee)
	})
	n := 0
	for _, fn := range reach.Order {
		if !c.InModuleFn(fn) || len(fn.Blocks) == 0 {
			continue
		}
		li := c.Loops(fn)
		for _, h := range fn.Blocks {
			if !li.isHead[h] {
				continue
			}
			n++
			ok, why := c.loopTerminates(p, fn, h, li)
			r.Add(rule, fmt.Sprintf("loop:%s#b%d", c.FuncKey(fn), h.Index), c.Pos(loopPos(h)), c.FuncKey(fn), "the loop terminates by shape (finite collection, counter towards an invariant bound, shrinking text, or linked-structure walk)", ok, why)
		}
	}
	r.Floor(rule, "loops in code the event loop waits for", n, 10)
}

func loopPos(h *ssa.BasicBlock) token.Pos {
	for _, in := range h.Instrs {
		if in.Pos().IsValid() {
			return in.Pos()
		}
	}
	for _, s := range h.Succs {
		for _, in := range s.Instrs {
			if in.Pos().IsValid() {
				return in.Pos()
			}
		}
	}
	return token.NoPos
}

func (c *Ctx) loopTerminates(p *Prover, fn *ssa.Function, h *ssa.BasicBlock, li *loopInfo) (bool, string) {
	inLoop := func(b *ssa.BasicBlock) bool { return b == h || li.headers[b][h] }
	definedOutside := func(v ssa.Value) bool {
		switch t := v.(type) {
		case *ssa.Const, *ssa.Parameter, *ssa.Global, *ssa.FreeVar, *ssa.Function:
			return true
		case ssa.Instruction:
			return t.Block() != nil && !inLoop(t.Block())
		}
		return false
	}
	var invariant func(v ssa.Value, d int) bool
	invariant = func(v ssa.Value, d int) bool {
		if definedOutside(v) {
			return true
		}
		if d > 4 {
			return false
		}
		switch t := v.(type) {
		case *ssa.Phi:
			// a header phi that is carried round unchanged
			if t.Block() != h {
				return false
			}
			for i, e := range t.Edges {
				if inLoop(h.Preds[i]) && e != ssa.Value(t) {
					return false
				}
			}
			return true
		case *ssa.Call:
			// len / cap / a foreign (assumed pure) function of invariant operands
			if _, isB := t.Call.Value.(*ssa.Builtin); !isB {
				if cal := t.Call.StaticCallee(); cal == nil || c.InModuleFn(cal) {
					return false
				}
			}
			for _, x := range t.Call.Args {
				if !invariant(x, d+1) {
					return false
				}
			}
			return true
		case *ssa.BinOp:
			return invariant(t.X, d+1) && invariant(t.Y, d+1)
		case *ssa.Convert:
			return invariant(t.X, d+1)
		}
		return false
	}
	// the header's own exit test
	iff, _ := h.Instrs[len(h.Instrs)-1].(*ssa.If)
	var backPreds []*ssa.BasicBlock
	for _, pr := range h.Preds {
		if inLoop(pr) {
			backPreds = append(backPreds, pr)
		}
	}
	// A. range over a map or string: the exit is the ok flag of a Next
	for _, b := range fn.Blocks {
		if !inLoop(b) || len(b.Instrs) == 0 {
			continue
		}
		if bi, ok := b.Instrs[len(b.Instrs)-1].(*ssa.If); ok {
			if ex, isE := bi.Cond.(*ssa.Extract); isE && ex.Index == 0 {
				if nx, isN := ex.Tuple.(*ssa.Next); isN && definedOutside(nx.Iter) {
					exits := false
					for _, s := range b.Succs {
						if !inLoop(s) {
							exits = true
						}
					}
					if exits && blockDomAll(b, backPreds) {
						return true, "range over a map or string"
					}
				}
			}
		}
	}
	phiBack := func(ph *ssa.Phi) []ssa.Value {
		var out []ssa.Value
		for i, e := range ph.Edges {
			if inLoop(h.Preds[i]) {
				out = append(out, e)
			}
		}
		return out
	}
	if iff != nil && len(h.Succs) == 2 && (inLoop(h.Succs[0]) != inLoop(h.Succs[1])) {
		cd := unwrapNot(Cond{iff.Cond, true, iff})
		stay := inLoop(h.Succs[0]) == cd.True // the condition's truth value on which the loop continues
		if bo, isB := cd.V.(*ssa.BinOp); isB {
			// B. counter towards an invariant bound
			try := func(v, nval ssa.Value, op token.Token) (bool, string) {
				if !isIntType(v.Type()) || !invariant(nval, 0) {
					return false, ""
				}
				var ph *ssa.Phi
				if x, ok := v.(*ssa.Phi); ok && x.Block() == h {
					ph = x
				} else if add, ok := v.(*ssa.BinOp); ok && (add.Op == token.ADD || add.Op == token.SUB) {
					if x, ok2 := add.X.(*ssa.Phi); ok2 && x.Block() == h {
						if _, isK := constInt(add.Y); isK {
							ph = x
						}
					}
				}
				if ph == nil {
					return false, ""
				}
				up := op == token.LSS || op == token.LEQ || op == token.NEQ
				if !stay {
					up = op == token.GEQ || op == token.GTR || op == token.EQL
				}
				down := !up
				for _, w := range phiBack(ph) {
					good := false
					if add, ok := w.(*ssa.BinOp); ok && add.X == ssa.Value(ph) {
						if k, isK := constInt(add.Y); isK {
							if (add.Op == token.ADD && ((up && k > 0) || (down && k < 0))) || (add.Op == token.SUB && ((up && k < 0) || (down && k > 0))) {
								good = true
							}
						}
					}
					if !good {
						// ask the prover: the value carried round is at least one further
						var at ssa.Instruction
						for i, e := range ph.Edges {
							if e == w && inLoop(h.Preds[i]) {
								at = h.Preds[i].Instrs[len(h.Preds[i].Instrs)-1]
							}
						}
						if at == nil {
							return false, ""
						}
						okP, _ := p.ProveAt(at, func(fc *factCtx) []Lin {
							if up {
								return []Lin{leExpr(fc.iexpr(ph).plus(constLin(1), 1), fc.iexpr(w))}
							}
							return []Lin{leExpr(fc.iexpr(w).plus(constLin(1), 1), fc.iexpr(ph))}
						})
						good = okP
					}
					if !good {
						return false, "counter " + ph.Name() + " is not shown to advance on every iteration"
					}
				}
				return true, "counter " + ph.Name() + " advances towards an invariant bound"
			}
			switch bo.Op {
			case token.LSS, token.LEQ, token.GTR, token.GEQ, token.NEQ, token.EQL:
				if ok, why := try(bo.X, bo.Y, bo.Op); ok {
					return true, why
				}
				flip := map[token.Token]token.Token{token.LSS: token.GTR, token.LEQ: token.GEQ, token.GTR: token.LSS, token.GEQ: token.LEQ, token.NEQ: token.NEQ, token.EQL: token.EQL}
				if ok, why := try(bo.Y, bo.X, flip[bo.Op]); ok {
					return true, why
				}
			}
			// C. shrinking text: len(s) against an invariant, s continues as a proper suffix of itself
			lenOfPhi := func(v ssa.Value) *ssa.Phi {
				call, ok := v.(*ssa.Call)
				if !ok {
					return nil
				}
				if bi, isBi := call.Call.Value.(*ssa.Builtin); !isBi || bi.Name() != "len" {
					return nil
				}
				ph, _ := call.Call.Args[0].(*ssa.Phi)
				if ph == nil || ph.Block() != h {
					return nil
				}
				return ph
			}
			for _, side := range [][2]ssa.Value{{bo.X, bo.Y}, {bo.Y, bo.X}} {
				ph := lenOfPhi(side[0])
				if ph == nil || !invariant(side[1], 0) {
					continue
				}
				all := true
				for _, w := range phiBack(ph) {
					sl, isSl := w.(*ssa.Slice)
					if !isSl || sl.X != ssa.Value(ph) || sl.Low == nil || sl.High != nil {
						all = false
						break
					}
					low := sl.Low
					if okP, _ := p.ProveAt(sl, func(fc *factCtx) []Lin { return []Lin{leExpr(constLin(1), fc.iexpr(low))} }); !okP {
						all = false
						break
					}
				}
				if all && len(phiBack(ph)) > 0 {
					return true, "the loop continues with a strictly shorter " + ph.Name()
				}
			}
			// C2. text consumed through a helper: the loop runs while s != "" and continues with a result of an
			// unexported function of s that is, on every return, a proper suffix of its argument or ""
			for _, side := range [][2]ssa.Value{{bo.X, bo.Y}, {bo.Y, bo.X}} {
				ph, isPh := side[0].(*ssa.Phi)
				if !isPh || ph.Block() != h || !isStringType(ph.Type()) || (bo.Op != token.NEQ && bo.Op != token.EQL) {
					continue
				}
				if k, isK := constString(side[1]); !isK || k != "" {
					continue
				}
				all := true
				for _, w := range phiBack(ph) {
					ex, isE := w.(*ssa.Extract)
					var call *ssa.Call
					idx := 0
					if isE {
						call, _ = ex.Tuple.(*ssa.Call)
						idx = ex.Index
					} else {
						call, _ = w.(*ssa.Call)
					}
					if call == nil || call.Call.IsInvoke() {
						all = false
						break
					}
					hf := call.Call.StaticCallee()
					if hf == nil || !c.InModuleFn(hf) || hf.Blocks == nil {
						all = false
						break
					}
					pi := -1
					for i, av := range call.Call.Args {
						if av == ssa.Value(ph) {
							pi = i
						}
					}
					if pi < 0 || pi >= len(hf.Params) {
						all = false
						break
					}
					nR := 0
					funcInstrs(hf, func(in ssa.Instruction) {
						rt, isR := in.(*ssa.Return)
						if !isR || idx >= len(rt.Results) {
							return
						}
						nR++
						v := retVal(rt, idx)
						if k, isK := constString(v); isK && k == "" {
							return
						}
						sl, isSl := v.(*ssa.Slice)
						if !isSl || sl.X != ssa.Value(hf.Params[pi]) || sl.Low == nil || sl.High != nil {
							all = false
							return
						}
						low := sl.Low
						if okP, _ := p.ProveAt(sl, func(fc *factCtx) []Lin { return []Lin{leExpr(constLin(1), fc.iexpr(low))} }); !okP {
							all = false
						}
					})
					if nR == 0 {
						all = false
					}
				}
				if all && len(phiBack(ph)) > 0 {
					return true, "the loop runs while " + ph.Name() + " is not empty and continues with a strictly shorter rest of it"
				}
			}
			// D. walk of a linked structure: p != nil, p = p.next
			for _, side := range [][2]ssa.Value{{bo.X, bo.Y}, {bo.Y, bo.X}} {
				ph, isPh := side[0].(*ssa.Phi)
				if !isPh || ph.Block() != h || !isNilConst(side[1]) {
					continue
				}
				if _, isPtr := ph.Type().Underlying().(*types.Pointer); !isPtr {
					continue
				}
				all := true
				for _, w := range phiBack(ph) {
					ld, isLd := w.(*ssa.UnOp)
					if !isLd || ld.Op != token.MUL {
						all = false
						break
					}
					fa, isFA := ld.X.(*ssa.FieldAddr)
					if !isFA || fa.X != ssa.Value(ph) {
						all = false
						break
					}
				}
				if all && len(phiBack(ph)) > 0 {
					return true, "walk of a linked structure through " + ph.Name() + " (finite if the structure is acyclic)"
				}
			}
		}
	}
	return false, "no recognised variant: the exit does not depend on a finite collection, an advancing counter, a shrinking text or a linked-structure walk - the loop may run for ever"
}

func blockDomAll(b *ssa.BasicBlock, bs []*ssa.BasicBlock) bool {
	for _, x := range bs {
		if !blockDom(b, x) {
			return false
		}
	}
	return true
}

// formatRecursionRule: formatting never recurses without end. The call graph
// of the module, extended with the edges that fmt (and any logger that
// formats its arguments) adds - a value boxed into an interface in function F
// whose type has a String / Error / GoString / Format method in the module
// may have that method called while F's formatting runs - has no cycle
// through such a method. Two String methods that print each other's objects
// with %s recurse until the stack overflows - a fatal error no recover()
// stops - as soon as the objects refer to each other (a nick on a channel).
func (c *Ctx) formatRecursionRule(rule string) {
	r := c.R
	fmtMethods := []string{"String", "Error", "GoString", "Format"}
	methodsOf := func(t types.Type) []*ssa.Function {
		var out []*ssa.Function
		for _, tt := range []types.Type{t, types.NewPointer(t)} {
			if _, isP := t.Underlying().(*types.Pointer); isP && tt != t {
				continue
			}
			ms := c.SSA.MethodSets.MethodSet(tt)
			for _, name := range fmtMethods {
				for i := 0; i < ms.Len(); i++ {
					if ms.At(i).Obj().Name() == name {
						if f := c.SSA.MethodValue(ms.At(i)); f != nil && c.InModuleFn(c.unthunk(f)) {
							out = append(out, c.unthunk(f))
						}
					}
				}
			}
		}
		return out
	}
	adj := map[*ssa.Function]map[*ssa.Function]string{}
	add := func(from, to *ssa.Function, how string) {
		if adj[from] == nil {
			adj[from] = map[*ssa.Function]string{}
		}
		if _, ok := adj[from][to]; !ok {
			adj[from][to] = how
		}
	}
	isFmt := map[*ssa.Function]bool{}
	for _, fn := range c.ModFuncs {
		root := fn
		for root.Parent() != nil {
			root = root.Parent()
		}
		if fn.Signature.Recv() != nil {
			for _, name := range fmtMethods {
				if fn.Name() == name {
					isFmt[fn] = true
				}
			}
		}
		funcInstrs(fn, func(in ssa.Instruction) {
			if cs, ok := in.(ssa.CallInstruction); ok {
				for _, e := range c.Callees(cs) {
					if e.Callee != nil && c.InModuleFn(e.Callee) {
						add(fn, e.Callee, "calls")
					}
				}
			}
			if mc, ok := in.(*ssa.MakeClosure); ok {
				if cf, ok := mc.Fn.(*ssa.Function); ok {
					add(fn, cf, "runs closure")
				}
			}
			if mi, ok := in.(*ssa.MakeInterface); ok {
				// a value handed to package reflect only is inspected, not formatted
				onlyReflect := len(*mi.Referrers()) > 0
				for _, ref := range *mi.Referrers() {
					if _, isD := ref.(*ssa.DebugRef); isD {
						continue
					}
					call, isC := ref.(*ssa.Call)
					if !isC || call.Call.StaticCallee() == nil || call.Call.StaticCallee().Pkg == nil || call.Call.StaticCallee().Pkg.Pkg.Path() != "reflect" {
						onlyReflect = false
					}
				}
				if onlyReflect {
					return
				}
				for _, m := range methodsOf(mi.X.Type()) {
					add(fn, m, "formats a "+shortType(mi.X.Type())+" at "+c.InstrPos(mi))
				}
			}
		})
	}
	n := 0
	var names []*ssa.Function
	for f := range isFmt {
		names = append(names, f)
	}
	sort.Slice(names, func(i, j int) bool { return c.FuncKey(names[i]) < c.FuncKey(names[j]) })
	for _, m := range names {
		n++
		// shortest path from m back to m
		prev := map[*ssa.Function]*ssa.Function{}
		queue := []*ssa.Function{m}
		seen := map[*ssa.Function]bool{}
		found := false
		for len(queue) > 0 && !found {
			x := queue[0]
			queue = queue[1:]
			var succ []*ssa.Function
			for y := range adj[x] {
				succ = append(succ, y)
			}
			sort.Slice(succ, func(i, j int) bool { return c.FuncKey(succ[i]) < c.FuncKey(succ[j]) })
			for _, y := range succ {
				if y == m {
					prev[m] = x
					found = true
					break
				}
				if !seen[y] {
					seen[y] = true
					prev[y] = x
					queue = append(queue, y)
				}
			}
		}
		why := "no formatting cycle"
		if found {
			var path []string
			x := prev[m]
			path = append(path, c.FuncKey(m))
			for steps := 0; x != nil && x != m && steps < 20; steps++ {
				path = append([]string{c.FuncKey(x) + " (" + adj[x][pathNext(prev, x, m)] + ")"}, path...)
				x = prev[x]
			}
			why = "formatting cycle: " + c.FuncKey(m) + " -> " + strings.Join(path, " -> ")
		}
		r.Add(rule, "format-recursion:"+c.FuncKey(m), c.Pos(m.Pos()), c.FuncKey(m), "formatting a value of the module never comes back to the same method", !found, why)
	}
	r.Floor(rule, "String / Error / Format methods of the module", n, 8)
}

// pathNext: the successor of x on the recorded BFS tree path towards m.
func pathNext(prev map[*ssa.Function]*ssa.Function, x, m *ssa.Function) *ssa.Function {
	for y, p := range prev {
		if p == x {
			if y == m {
				return y
			}
		}
	}
	for y, p := range prev {
		if p == x {
			return y
		}
	}
	return nil
}
