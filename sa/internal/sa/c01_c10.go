package sa

import (
	"fmt"
	"go/token"
	"go/types"
	"sort"
	"strings"

	"golang.org/x/tools/go/ssa"
)

func init() {
	register(&PropertySpec{
		ID:        "C01",
		Technique: "constant-table agreement with the IRCv3 escape table; store/dominance rules on ParseLine; parse-to-enqueue value-flow chain in recv (static analysis)",
		Explain: "The round trip over the infinite message grammar is a value property and is NOT decided. Decided are structural necessary conditions: the tag-unescape table equals the IRCv3 table (five pairs, unambiguous); Raw stores the received text itself; a tag map exists only under the '@' test; the verb is upper-cased; the argument list is Fields(head) plus the text after the first \" :\" appended unconditionally; and recv hands ParseLine exactly the ReadString('\\n') result trimmed of CR/LF and enqueues the parse result touching only its Time field. " +
			"Not decided: source split, middle/trailing contents, CTCP rewriting values, Text/Target/Public agreement with components.",
		Assume: []string{"strings.Replacer replaces left to right with the given pairs", "C15.R2 (Copy completeness) is checked under C15"},
		Run:    runC01,
	})
	register(&PropertySpec{
		ID:        "C10",
		Technique: "SSA expression-tree agreement with Hybrid's formula; store/branch shape of the penalty update; control dependence and ordering of the delay (static analysis)",
		Explain:   "The wall-clock window bound and real-time decay are numerical/timing properties and are NOT decided. Decided is the rule's structure: the per-line charge is 2*Second + Duration(chars)*Second/120; the penalty is updated by + charge - (Now - last), floored at 0 on the < 0 branch, last is reset to Now on every path; the function returns the charge exactly on the penalty > 10*Second edge and 0 otherwise; the penalty and timestamp fields are written only by that function (and the constructor); write() calls it with len of the very string it then writes, waits for exactly the returned value iff non-zero before the socket write, and every wait in write() is control-dependent on Config.Flood being false.",
		Assume:    []string{"time.Duration arithmetic does not overflow for line lengths <= 512"},
		Run:       runC10,
	})
}

var ircv3Escapes = map[string]string{"\\:": ";", "\\s": " ", "\\\\": "\\", "\\r": "\r", "\\n": "\n"}

func runC01(c *Ctx) {
	r := c.R
	r.Rule("R1", "the constant pairs of the strings.NewReplacer applied to each raw tag in ParseLine equal the IRCv3 escape table (\\: ; \\s SP \\\\ \\ \\r CR \\n LF) and no pattern is a proper prefix of another")
	r.Rule("R2", "every store to Line.Raw of the line ParseLine returns stores ParseLine's parameter itself")
	r.Rule("R3", "every non-nil store to Line.Tags in ParseLine is dominated by the true edge of the first-byte == '@' test")
	r.Rule("R4", "every store to Line.Cmd in ParseLine stores a constant or a strings.ToUpper result")
	r.Rule("R5", "in recv the value sent on the inbound queue is the ParseLine result with no store through it except to Time; ParseLine's argument is the ReadString('\\n') result after strings.Trim(_, \"\\r\\n\"); no branch between read and parse can skip a non-error line")
	r.Rule("R6", "the argument list is strings.Fields(head) with the text after the first \" :\" appended on exactly the edge where the \" :\" split produced two parts (an empty trailing parameter is kept)")
	r.Rule("R7", "every comparison with the verb constants PRIVMSG / NOTICE / ACTION in ParseLine and its helpers compares an upper-cased value (strings.ToUpper result, Line.Cmd, or a constant), so CTCP rewriting does not depend on the letter case on the wire")
	pl := c.Func(c.Client, "ParseLine")
	r.Anchor("R1", "ParseLine", pl != nil)
	if pl == nil {
		return
	}
	r.Funcs[c.FuncKey(pl)] = true
	pl = c.parserBody(pl)
	r.Funcs[c.FuncKey(pl)] = true
	param := pl.Params[0]
	field := func(n string) *types.Var { return c.FieldVar(c.Client, "Line", n) }

	// ---- R1
	var repl *ssa.Global
	plReach := c.Closure([]*ssa.Function{pl}, func(from *ssa.Function, e Edge) bool {
		return !e.Site.Common().IsInvoke() && e.Kind != EdgeGo && e.Callee.Package() == c.Client
	})
	for _, fn := range plReach.Order {
		funcInstrs(fn, func(in ssa.Instruction) {
			if call, ok := in.(*ssa.Call); ok && calleeName(&call.Call) == "(*strings.Replacer).Replace" {
				if u, ok := call.Call.Args[0].(*ssa.UnOp); ok && u.Op == token.MUL {
					if g, ok := u.X.(*ssa.Global); ok {
						repl = g
					}
				}
			}
		})
	}
	r.Anchor("R1", "replacer applied to raw tags (package variable)", repl != nil)
	if repl != nil {
		var newRepl *ssa.Call
		nStores := 0
		for _, fn := range c.clientFuncs() {
			funcInstrs(fn, func(in ssa.Instruction) {
				if s, ok := in.(*ssa.Store); ok && s.Addr == ssa.Value(repl) {
					nStores++
					if call, ok := s.Val.(*ssa.Call); ok && calleeName(&call.Call) == "strings.NewReplacer" && fn.Name() == "init" {
						newRepl = call
					}
				}
			})
		}
		okT := newRepl != nil && nStores == 1
		why := ""
		if !okT {
			why = fmt.Sprintf("%d stores to the replacer variable; NewReplacer call found: %v", nStores, newRepl != nil)
		} else {
			els := c.varargElemsOrdered(newRepl.Call.Args[0])
			got := map[string]string{}
			var olds []string
			bad := ""
			for i := 0; i+1 < len(els); i += 2 {
				o, ok1 := constString(els[i])
				n, ok2 := constString(els[i+1])
				if !ok1 || !ok2 {
					bad = "non-constant pair"
					break
				}
				if _, dup := got[o]; dup {
					bad = "duplicate pattern " + strconvQuote(o)
				}
				got[o] = n
				olds = append(olds, o)
			}
			if len(els)%2 != 0 {
				bad = "odd number of replacer arguments"
			}
			sort.Strings(olds)
			for k, v := range ircv3Escapes {
				if g, ok := got[k]; !ok {
					bad += " missing " + strconvQuote(k) + ";"
				} else if g != v {
					bad += " " + strconvQuote(k) + " maps to " + strconvQuote(g) + ";"
				}
			}
			for k := range got {
				if _, ok := ircv3Escapes[k]; !ok {
					bad += " extra pattern " + strconvQuote(k) + ";"
				}
			}
			for _, x := range olds {
				for _, y := range olds {
					if x != y && strings.HasPrefix(y, x) {
						bad += " pattern " + strconvQuote(x) + " is a prefix of " + strconvQuote(y) + ";"
					}
				}
			}
			okT, why = bad == "", fmt.Sprintf("%d pairs; %s", len(got), bad)
		}
		pos := "-"
		if newRepl != nil {
			pos = c.InstrPos(newRepl)
		}
		r.Add("R1", "escape-table", pos, "init", "tag unescape table equals the IRCv3 table", okT, why)
	}

	// the returned line
	var lineAlloc *ssa.Alloc
	funcInstrs(pl, func(in ssa.Instruction) {
		if rt, ok := in.(*ssa.Return); ok && len(rt.Results) >= 1 {
			if al, ok := rt.Results[0].(*ssa.Alloc); ok {
				lineAlloc = al
			}
		}
	})
	r.Anchor("R2", "the line ParseLine returns (a local allocation)", lineAlloc != nil)
	if lineAlloc == nil {
		return
	}
	// the frame that fills the line in: ParseLine itself, or the one unexported function it hands the new line
	// and the text to (a thin-wrapper ParseLine)
	fpl, fline, fparam := c.parseFrame(pl, lineAlloc, param)
	storesTo := func(fv *types.Var) []*ssa.Store {
		var out []*ssa.Store
		funcInstrs(pl, func(in ssa.Instruction) {
			if s, ok := in.(*ssa.Store); ok {
				if f2, base := fieldOf(s.Addr); f2 == fv && base == ssa.Value(lineAlloc) {
					out = append(out, s)
				}
			}
		})
		if fpl != pl {
			funcInstrs(fpl, func(in ssa.Instruction) {
				if s, ok := in.(*ssa.Store); ok {
					if f2, base := fieldOf(s.Addr); f2 == fv && base == fline {
						out = append(out, s)
					}
				}
			})
		}
		return out
	}
	// ---- R2
	raws := storesTo(field("Raw"))
	r.Floor("R2", "stores to Line.Raw", len(raws), 1)
	for i, s := range raws {
		r.Add("R2", fmt.Sprintf("raw-store#%d", i+1), c.InstrPos(s), c.FuncKey(pl), "Raw is the text as received", s.Val == ssa.Value(param), "stored value "+s.Val.Name())
	}
	// ---- R3
	tags := storesTo(field("Tags"))
	nT := 0
	for i, s := range tags {
		if isNilConst(s.Val) {
			continue
		}
		nT++
		guarded := false
		for _, cd := range CondsAt(s.Block()) {
			cd = unwrapNot(cd)
			if bo, isB := cd.V.(*ssa.BinOp); isB && bo.Op == token.EQL && cd.True {
				var idx *ssa.Index
				var k ssa.Value
				if x, ok := bo.X.(*ssa.Index); ok {
					idx, k = x, bo.Y
				} else if y, ok := bo.Y.(*ssa.Index); ok {
					idx, k = y, bo.X
				}
				if idx != nil && (idx.X == ssa.Value(param) || idx.X == ssa.Value(fparam)) {
					if i0, ok := constInt(idx.Index); ok && i0 == 0 {
						if cv, isC := constInt(k); isC && cv == '@' {
							guarded = true
						}
					}
				}
			}
		}
		r.Add("R3", fmt.Sprintf("tags-store#%d", i+1), c.InstrPos(s), c.FuncKey(pl), "a tag map exists only when the line begins with '@'", guarded, "dominated by s[0] == '@'")
	}
	r.Floor("R3", "non-nil stores to Line.Tags", nT, 1)
	// ---- R4
	cmds := storesTo(field("Cmd"))
	for _, fn := range plReach.Order {
		if fn == pl {
			continue
		}
		funcInstrs(fn, func(in ssa.Instruction) {
			if s, ok := in.(*ssa.Store); ok {
				if f2, _ := fieldOf(s.Addr); f2 == field("Cmd") {
					cmds = append(cmds, s)
				}
			}
		})
	}
	r.Floor("R4", "stores to Line.Cmd (ParseLine and its helpers)", len(cmds), 2)
	for i, s := range cmds {
		ok := true
		why := ""
		for _, o := range c.originsLocal(s.Val) {
			if _, isC := constString(o); isC {
				continue
			}
			if call, isCall := o.(*ssa.Call); isCall && calleeName(&call.Call) == "strings.ToUpper" {
				continue
			}
			if c.constTableValue(o) {
				continue
			}
			if c.upperCasedResult(o, 0) {
				continue
			}
			ok, why = false, "verb derives from "+o.String()
		}
		r.Add("R4", fmt.Sprintf("cmd-store#%d", i+1), c.InstrPos(s), c.FuncKey(s.Parent()), "verb is a constant or upper-cased", ok, why)
	}
	// ---- R6
	c.trailingRule("R6", fpl, lineAlloc, fparam)
	r.Rule("R14", "a handler registered for the verb receives the line: every handler of the verb is started on its own iteration's value (shared with C04.R14 - no loop variable captured by the per-handler goroutine)")
	c.loopCaptureRule("R14")
	r.Rule("R15", "every parsed line reaches the event loop: the receive goroutine hands each accepted line over by a blocking send before the next read (shared with C03.R1)")
	if pf := c.producerFrame(); r.Anchor("R15", "the receive goroutine that feeds the inbound queue", pf != nil) {
		c.handoverRule("R15", pf.Member)
	}
	// ---- R13: who the line is from
	r.Rule("R13", "the source is split into nick, ident and host exactly when it has the nick!user@host form and is otherwise kept whole as the host: in the parser every store to Line.Nick / Line.Ident is the corresponding result of parseUserHost under its ok result, and every store to Line.Host is that function's host result under ok, or the source itself")
	{
		puh := c.Func(c.Client, "parseUserHost")
		nSrc := 0
		for _, fn := range plReach.Order {
			if !c.InModuleFn(fn) || fn == puh {
				continue
			}
			funcInstrs(fn, func(in ssa.Instruction) {
				st, ok := in.(*ssa.Store)
				if !ok {
					return
				}
				fv, base := fieldOf(st.Addr)
				if fv == nil || (fv != field("Nick") && fv != field("Ident") && fv != field("Host")) {
					return
				}
				nSrc++
				want := map[string]int{"Nick": 0, "Ident": 1, "Host": 2}[fv.Name()]
				okS, why := false, "stores "+st.Val.String()
				for _, o := range c.originsLocal(st.Val) {
					okS = false
					if ex, isE := o.(*ssa.Extract); isE && ex.Index == want {
						if call, isC := ex.Tuple.(*ssa.Call); isC && puh != nil && call.Call.StaticCallee() == puh {
							// under ok
							for _, cd := range CondsAt(st.Block()) {
								cd = unwrapNot(cd)
								if e2, isE2 := cd.V.(*ssa.Extract); isE2 && e2.Tuple == ex.Tuple && e2.Index == 3 && cd.True {
									okS, why = true, "parseUserHost result under ok"
								}
							}
							if !okS {
								why = "parseUserHost result stored without its ok result being true"
							}
						}
					}
					if !okS && fv.Name() == "Host" {
						// the whole source: a load of Src of the same line, or the very value stored to Src
						if f2, b2 := loadedField(o); f2 == field("Src") && b2 == base {
							okS, why = true, "the source itself"
						}
						funcInstrs(fn, func(x ssa.Instruction) {
							if s2, isS := x.(*ssa.Store); isS {
								if f3, b3 := fieldOf(s2.Addr); f3 == field("Src") && b3 == base && s2.Val == o {
									okS, why = true, "the source itself"
								}
							}
						})
						if _, isP := o.(*ssa.Parameter); isP && fn != pl && fn != fpl {
							okS, why = true, "the source handed to the helper"
						}
					}
					if !okS {
						break
					}
				}
				r.Add("R13", fmt.Sprintf("source-field#%d:%s", nSrc, fv.Name()), c.InstrPos(st), c.FuncKey(fn), "Line."+fv.Name()+" comes from the nick!user@host split (or, for Host, is the whole source)", okS, why)
			})
		}
		r.Floor("R13", "stores to Line.Nick / Ident / Host in the parser", nSrc, 4)
	}

	// ---- R1 (b): nothing but the replacer transforms a tag between the ';' split and the '=' split
	for _, fn := range plReach.Order {
		funcInstrs(fn, func(in ssa.Instruction) {
			call, ok := in.(*ssa.Call)
			if !ok || calleeName(&call.Call) != "(*strings.Replacer).Replace" {
				return
			}
			bad := ""
			var follow func(v ssa.Value, d int)
			follow = func(v ssa.Value, d int) {
				if d > 4 || v.Referrers() == nil {
					return
				}
				for _, ref := range *v.Referrers() {
					switch t := ref.(type) {
					case *ssa.DebugRef, *ssa.MapUpdate, *ssa.Slice, *ssa.Return, *ssa.Store:
					case *ssa.Phi:
						follow(t, d+1)
					case *ssa.Call:
						n := calleeName(&t.Call)
						switch n {
						case "strings.SplitN", "strings.Cut", "strings.Index", "strings.IndexByte", "builtin.len":
						default:
							if cal := t.Call.StaticCallee(); cal != nil && c.InModuleFn(cal) {
								continue // handed to a helper of the parser: its own uses are inspected when it calls Replace; otherwise opaque but in-module
							}
							bad = "the unescaped tag is further transformed by " + n + " at " + c.InstrPos(t)
						}
					case *ssa.BinOp:
						if t.Op == token.ADD {
							bad = "the unescaped tag is concatenated at " + c.InstrPos(t)
						}
					}
				}
			}
			follow(call, 0)
			r.Add("R1", "tag-purity:"+c.FuncKey(fn), c.InstrPos(call), c.FuncKey(fn), "only the replacer transforms a tag before it is split at '='", bad == "", bad)
		})
	}

	// ---- R7
	n7 := 0
	cmdVar := field("Cmd")
	for _, fn := range plReach.Order {
		funcInstrs(fn, func(in ssa.Instruction) {
			bo, ok := in.(*ssa.BinOp)
			if !ok || (bo.Op != token.EQL && bo.Op != token.NEQ) {
				return
			}
			var other ssa.Value
			for _, pair := range [][2]ssa.Value{{bo.X, bo.Y}, {bo.Y, bo.X}} {
				if k, isC := constString(pair[0]); isC && (k == "PRIVMSG" || k == "NOTICE" || k == "ACTION") {
					other = pair[1]
				}
			}
			if other == nil {
				return
			}
			n7++
			okU, why := true, "compared value is upper-cased"
			for _, o := range c.Origins(other) {
				if _, isC := constString(o); isC {
					continue
				}
				if call, isCall := o.(*ssa.Call); isCall && calleeName(&call.Call) == "strings.ToUpper" {
					continue
				}
				if fv, _ := loadedField(o); fv == cmdVar {
					continue
				}
				if c.upperCasedResult(o, 0) {
					continue
				}
				okU, why = false, "compared value derives from "+o.String()+", which is not upper-cased"
			}
			r.Add("R7", fmt.Sprintf("verb-compare:%s#%d", c.FuncKey(fn), n7), c.InstrPos(bo), c.FuncKey(fn), "verb comparisons are case-insensitive (upper-cased operand)", okU, why)
		})
	}
	r.Floor("R7", "comparisons with PRIVMSG/NOTICE/ACTION in the parser", n7, 2)

	c.c01Accessors()

	// ---- R5
	c.everyLineParsedRule("R5")
}

// originsLocal: phi/conversion closure within one function (no parameters-to-callers step).
func (c *Ctx) originsLocal(v ssa.Value) []ssa.Value {
	seen := map[ssa.Value]bool{}
	var out []ssa.Value
	var walk func(v ssa.Value)
	walk = func(v ssa.Value) {
		if seen[v] {
			return
		}
		seen[v] = true
		switch t := v.(type) {
		case *ssa.Phi:
			for _, e := range t.Edges {
				walk(e)
			}
		case *ssa.ChangeType:
			walk(t.X)
		default:
			out = append(out, v)
		}
	}
	walk(v)
	return out
}

// varargElemsOrdered: values stored into a varargs backing array, by index.
func (c *Ctx) varargElemsOrdered(v ssa.Value) []ssa.Value {
	sl, ok := v.(*ssa.Slice)
	if !ok {
		return nil
	}
	al, ok := sl.X.(*ssa.Alloc)
	if !ok {
		return nil
	}
	m := map[int64]ssa.Value{}
	var max int64 = -1
	for _, ref := range *al.Referrers() {
		if ia, ok := ref.(*ssa.IndexAddr); ok {
			k, okc := constInt(ia.Index)
			if !okc {
				return nil
			}
			for _, r2 := range *ia.Referrers() {
				if s, ok := r2.(*ssa.Store); ok && s.Addr == ssa.Value(ia) {
					m[k] = s.Val
					if k > max {
						max = k
					}
				}
			}
		}
	}
	var out []ssa.Value
	for i := int64(0); i <= max; i++ {
		out = append(out, m[i])
	}
	return out
}

// trailingRule (C01.R6): args = Fields(head) (+ trailing iff the " :" split found a second part),
// for the idioms parts := strings.SplitN(rest, " :", 2) and head, trailing, found := strings.Cut(rest, " :").
func (c *Ctx) trailingRule(rule string, pl *ssa.Function, lineAlloc *ssa.Alloc, param *ssa.Parameter) {
	r := c.R
	var split *ssa.Call
	isCut, isIdx := false, false
	// the split may sit in ParseLine itself or in a helper it calls (directly or through another helper)
	hosts := c.Closure([]*ssa.Function{pl}, func(from *ssa.Function, e Edge) bool {
		return e.Kind == EdgeCall && !e.Site.Common().IsInvoke() && e.Callee.Package() == c.Client
	})
	scan := func(in ssa.Instruction) {
		call, ok := in.(*ssa.Call)
		if !ok {
			return
		}
		switch calleeName(&call.Call) {
		case "strings.SplitN":
			if sep, ok := constString(call.Call.Args[1]); ok && sep == " :" {
				if n, ok := constInt(call.Call.Args[2]); ok && n == 2 {
					split = call
				}
			}
		case "strings.Cut":
			if sep, ok := constString(call.Call.Args[1]); ok && sep == " :" {
				split, isCut = call, true
			}
		case "strings.Index":
			if sep, ok := constString(call.Call.Args[1]); ok && sep == " :" {
				split, isIdx = call, true
			}
		default:
			// a module-local equivalent of strings.Cut
			if cal := call.Call.StaticCallee(); cal != nil && c.InModuleFn(cal) && len(call.Call.Args) == 2 && c.isCutLike(cal) {
				if sep, ok := constString(call.Call.Args[1]); ok && sep == " :" {
					split, isCut = call, true
				}
			}
		}
	}
	for _, h := range hosts.Order {
		if split == nil && c.InModuleFn(h) {
			funcInstrs(h, scan)
		}
	}
	host := pl
	if split != nil {
		host = split.Parent()
	}
	if split == nil {
		r.Add(rule, "trailing-split", c.Pos(pl.Pos()), c.FuncKey(pl), "the middle/trailing split is strings.SplitN(rest, \" :\", 2), strings.Cut(rest, \" :\") or strings.Index(rest, \" :\") with slicing", false, "no recognised idiom: undecided (fail closed)")
		return
	}
	rest := split.Call.Args[0]
	part := func(v ssa.Value, i int) bool {
		switch {
		case isCut:
			ex, ok := v.(*ssa.Extract)
			return ok && ex.Tuple == ssa.Value(split) && ex.Index == i
		case isIdx:
			sl, ok := v.(*ssa.Slice)
			if !ok || sl.X != rest {
				return false
			}
			if i == 0 {
				return sl.Low == nil && sl.High == ssa.Value(split)
			}
			if sl.High != nil || sl.Low == nil {
				return false
			}
			bo, ok := sl.Low.(*ssa.BinOp)
			if !ok || bo.Op != token.ADD {
				return false
			}
			k, okk := constInt(bo.Y)
			return okk && k == 2 && bo.X == ssa.Value(split)
		}
		return c.isElemOf(v, split, int64(i))
	}
	// find append(Fields(part0), part1)
	var app, fieldsCall *ssa.Call
	funcInstrs(host, func(in ssa.Instruction) {
		call, ok := in.(*ssa.Call)
		if !ok {
			return
		}
		if b, ok := call.Call.Value.(*ssa.Builtin); !ok || b.Name() != "append" {
			return
		}
		f, ok := call.Call.Args[0].(*ssa.Call)
		if !ok || calleeName(&f.Call) != "strings.Fields" || !part(f.Call.Args[0], 0) {
			return
		}
		el := c.singleVarargElem(call.Call.Args[1])
		if el != nil && part(el, 1) {
			app, fieldsCall = call, f
		}
	})
	if app == nil {
		r.Add(rule, "trailing-append", c.InstrPos(split), c.FuncKey(host), "the trailing parameter is appended to Fields(head)", false, "append(Fields(head), trailing) not found: undecided (fail closed)")
		return
	}
	// the append is control dependent exactly on "a second part exists"
	ok, why := false, "the append is not guarded by the presence of the \" :\" section alone"
	var conds []Cond
	for _, cd := range CondsAt(app.Block()) {
		if cd.If != nil && instrDominates(split, cd.If) {
			conds = append(conds, cd)
		}
	}
	if len(conds) == 1 {
		if isCut {
			cd := unwrapNot(conds[0])
			if ex, isE := cd.V.(*ssa.Extract); isE && ex.Tuple == ssa.Value(split) && ex.Index == 2 && cd.True {
				ok, why = true, "appended exactly when Cut found the separator (empty trailing kept)"
			}
		} else if isIdx {
			p := c.NewProver()
			fc := p.newCtx()
			fc.cond(conds[0])
			if fc.entails(leExpr(constLin(0), fc.iexpr(split))) {
				fc2 := p.newCtx()
				other := conds[0]
				other.True = !other.True
				fc2.cond(other)
				if fc2.entails(leExpr(fc2.iexpr(split), constLin(-1))) {
					ok, why = true, "appended exactly when Index found the separator (empty trailing kept)"
				}
			}
		} else {
			p := c.NewProver()
			fc := p.newCtx()
			fc.cond(conds[0])
			if fc.entails(leExpr(constLin(2), fc.lexpr(split))) {
				fc2 := p.newCtx()
				other := conds[0]
				other.True = !other.True
				fc2.cond(other)
				if fc2.entails(leExpr(fc2.lexpr(split), constLin(1))) {
					ok, why = true, "appended exactly when the split produced two parts (empty trailing kept)"
				}
			}
		}
	}
	r.Add(rule, "trailing-append", c.InstrPos(app), c.FuncKey(host), "trailing parameter appended iff a \" :\" section exists", ok, why)
	// the result feeds Cmd/Args: args phi = {app, Fields(head)}
	var argsPhi *ssa.Phi
	for _, ref := range *app.Referrers() {
		if ph, ok := ref.(*ssa.Phi); ok {
			argsPhi = ph
		}
	}
	okPhi := false
	if argsPhi != nil && len(argsPhi.Edges) == 2 {
		for _, e := range argsPhi.Edges {
			if e == ssa.Value(fieldsCall) {
				okPhi = true
			}
			if f, ok := e.(*ssa.Call); ok && calleeName(&f.Call) == "strings.Fields" && (part(f.Call.Args[0], 0) || (isIdx && f.Call.Args[0] == rest)) {
				okPhi = true
			}
		}
	}
	if host != pl {
		// helper form: every return of the helper is the append or Fields(head / whole operand)
		okPhi = true
		nRet := 0
		funcInstrs(host, func(in ssa.Instruction) {
			rt, isR := in.(*ssa.Return)
			if !isR || len(rt.Results) != 1 {
				return
			}
			for _, o := range c.originsLocal(retVal(rt, 0)) {
				nRet++
				if o == ssa.Value(app) {
					continue
				}
				if f, ok := o.(*ssa.Call); ok && calleeName(&f.Call) == "strings.Fields" && (part(f.Call.Args[0], 0) || f.Call.Args[0] == rest) {
					continue
				}
				okPhi = false
			}
		})
		okPhi = okPhi && nRet >= 2
	}
	r.Add(rule, "args-sources", c.InstrPos(app), c.FuncKey(host), "without a trailing section the arguments are Fields(head)", okPhi, "argument list is append(Fields(head), trailing) or Fields(head), nothing else")
	okSrc := c.suffixOf(split.Call.Args[0], param, 0)
	if host != pl {
		okSrc = false
		if hp, isP := split.Call.Args[0].(*ssa.Parameter); isP && hp.Parent() == host {
			idx := -1
			for i, q := range host.Params {
				if q == hp {
					idx = i
				}
			}
			sites := c.staticCallers(host)
			okSrc = len(sites) > 0 && idx >= 0
			for _, cs := range sites {
				if cs.Parent() != pl || idx >= len(cs.Common().Args) || !c.suffixOf(cs.Common().Args[idx], param, 0) {
					okSrc = false
				}
			}
		}
	}
	r.Add(rule, "split-operand", c.InstrPos(split), c.FuncKey(host), "the split is applied to a suffix of the received line", okSrc, "operand derives from the parameter by s[i:] slicing / the remainder of strings.Cut")
	// what is stored as the parameters is that list minus the verb, nothing re-joined or re-split in between
	sources := map[ssa.Value]bool{}
	if host == pl {
		sources[app] = true
		if fieldsCall != nil {
			sources[fieldsCall] = true
		}
		if argsPhi != nil {
			for _, e := range argsPhi.Edges {
				if f, ok := e.(*ssa.Call); ok && calleeName(&f.Call) == "strings.Fields" {
					sources[f] = true
				}
			}
		}
	} else {
		for _, cs := range c.staticCallers(host) {
			if v, ok := cs.(ssa.Value); ok && cs.Parent() == pl {
				sources[v] = true
			}
		}
	}
	argsF := c.FieldVar(c.Client, "Line", "Args")
	nSt := 0
	funcInstrs(pl, func(in ssa.Instruction) {
		st, ok := in.(*ssa.Store)
		if !ok {
			return
		}
		if fv, _ := fieldOf(st.Addr); fv != argsF {
			return
		}
		sl, isSl := st.Val.(*ssa.Slice)
		if !isSl {
			return // the CTCP rewrite prepends to the stored list; checked by the CTCP rules
		}
		nSt++
		okS, why := true, "Args = list[1:] of the split list"
		if k, isK := constInt(sl.Low); !isK || k != 1 || sl.High != nil {
			okS, why = false, "the stored parameters are not list[1:]"
		}
		for _, o := range c.originsLocal(sl.X) {
			if !sources[o] {
				okS, why = false, "the stored parameters derive from "+o.String()+", not from the split list itself (re-joined or re-split)"
			}
		}
		r.Add(rule, fmt.Sprintf("args-store#%d", nSt), c.InstrPos(st), c.FuncKey(pl), "the parameters stored in the line are the split list minus the verb", okS, why)
	})
	r.Floor(rule, "stores of the split list to Line.Args", nSt, 1)
}

// isElemOf: v is the load of element idx of the slice value sl.
func (c *Ctx) isElemOf(v ssa.Value, sl ssa.Value, idx int64) bool {
	u, ok := v.(*ssa.UnOp)
	if !ok || u.Op != token.MUL {
		return false
	}
	ia, ok := u.X.(*ssa.IndexAddr)
	if !ok || ia.X != sl {
		return false
	}
	k, ok := constInt(ia.Index)
	return ok && k == idx
}

// suffixOf: v is param or obtained from it by phis and s[i:] slices.
func (c *Ctx) suffixOf(v ssa.Value, param ssa.Value, depth int) bool {
	if v == param {
		return true
	}
	if depth > 6 {
		return false
	}
	switch t := v.(type) {
	case *ssa.Phi:
		for _, e := range t.Edges {
			if !c.suffixOf(e, param, depth+1) {
				return false
			}
		}
		return true
	case *ssa.Slice:
		return t.High == nil && c.suffixOf(t.X, param, depth+1)
	case *ssa.Extract:
		// a result of a module helper that is, on every return, a suffix of one of its parameters (or "" on a
		// failure path): a suffix of the corresponding argument
		if call, ok := t.Tuple.(*ssa.Call); ok && !call.Call.IsInvoke() {
			if callee := call.Call.StaticCallee(); callee != nil && c.InModuleFn(callee) && depth < 5 {
				for pi, pr := range callee.Params {
					if pi >= len(call.Call.Args) || !isStringType(pr.Type()) {
						continue
					}
					all, n := true, 0
					funcInstrs(callee, func(in ssa.Instruction) {
						rt, isR := in.(*ssa.Return)
						if !isR || t.Index >= len(rt.Results) {
							return
						}
						n++
						rv := retVal(rt, t.Index)
						if k, isK := constString(rv); isK && k == "" {
							return
						}
						if !c.suffixOf(rv, pr, depth+1) {
							all = false
						}
					})
					if all && n > 0 && c.suffixOf(call.Call.Args[pi], param, depth+1) {
						return true
					}
				}
			}
		}
		// the "after" result of strings.Cut is a suffix of its operand
		if call, ok := t.Tuple.(*ssa.Call); ok && calleeName(&call.Call) == "strings.Cut" && t.Index == 1 {
			return c.suffixOf(call.Call.Args[0], param, depth+1)
		}
	}
	return false
}

// ---------------- C10 ----------------

// durConst: v is the time.Duration constant k.
func durConst(v ssa.Value, k int64) bool {
	c, ok := constInt(v)
	return ok && c == k
}

const second = int64(1000000000)

func runC10(c *Ctx) {
	r, a := c.R, c.A
	r.Rule("R1", "the per-line charge is 2*Second + Duration(chars)*Second/120")
	r.Rule("R2", "penalty := penalty + charge - (Now - last); stored 0 on the penalty < 0 branch; last := Now on every path; the two fields are written only here and in the constructor")
	r.Rule("R3", "the function returns the charge exactly on the penalty > 10*Second edge, 0 otherwise")
	r.Rule("R5", "flood protection is on exactly when the application left Config.Flood false: the library itself never stores to Config.Flood (outside constructing a fresh Config)")
	r.Rule("R4", "write() calls the rate limiter with len of the string it then writes, waits for exactly the returned value iff it is non-zero, before the socket write; every timer/sleep in write() is control-dependent on Config.Flood being false")
	{
		nFl := 0
		for _, fn := range c.clientFuncs() {
			funcInstrs(fn, func(in ssa.Instruction) {
				st, ok := in.(*ssa.Store)
				if !ok {
					return
				}
				fv, base := fieldOf(st.Addr)
				if fv != c.A.CfgFlood || c.underConstruction(base, fn, 0) {
					return
				}
				nFl++
				r.Add("R5", "flood-store:"+c.FuncKey(fn), c.InstrPos(st), c.FuncKey(fn), "the library does not change the application's flood-protection setting", false, "store to Config.Flood in "+c.FuncKey(fn))
			})
		}
		r.Add("R5", "no-flood-store", "-", "", "no store to Config.Flood of an existing Config anywhere in package client", nFl == 0, fmt.Sprintf("%d stores", nFl))
	}
	r.Rule("R6", "Flood toggled by the application is the Flood the writer reads: the Conn keeps the caller's own Config object - every store to the Conn's config field stores the constructor's parameter or the result of a Config constructor, never the address of a copy")
	c.configIdentityRule("R6")
	// the rate limiter: the client method taking the line length and returning a time.Duration that reads the clock
	// (by shape, so that renaming it or moving it onto an embedded struct does not lose it)
	var rl *ssa.Function
	for _, fn := range c.clientFuncs() {
		sig := fn.Signature
		if fn.Synthetic != "" || sig.Recv() == nil || sig.Params().Len() != 1 || sig.Results().Len() != 1 || len(fn.Blocks) == 0 {
			continue
		}
		if !isIntType(sig.Params().At(0).Type()) || typeString(sig.Results().At(0).Type()) != "time.Duration" {
			continue
		}
		now := false
		funcInstrs(fn, func(in ssa.Instruction) {
			if cc := callOf(in); cc != nil {
				switch calleeName(cc) {
				case "time.Now", "time.Since":
					now = true
				}
			}
		})
		if now {
			rl = fn
		}
	}
	r.Anchor("R1", "rate limiter (method(int) time.Duration reading the clock)", rl != nil)
	if rl == nil {
		return
	}
	r.Funcs[c.FuncKey(rl)] = true
	// penalty and timestamp: the time.Duration and time.Time fields of the receiver that the limiter stores
	var bad, last *types.Var
	funcInstrs(rl, func(in ssa.Instruction) {
		if st, ok := in.(*ssa.Store); ok {
			if fv, _ := fieldOf(st.Addr); fv != nil {
				switch typeString(fv.Type()) {
				case "time.Duration":
					bad = fv
				case "time.Time":
					last = fv
				}
			}
		}
	})
	_ = a
	r.Anchor("R2", "penalty (time.Duration) and timestamp (time.Time) fields of Conn", bad != nil && last != nil)
	if bad == nil || last == nil {
		return
	}
	chars := rl.Params[1]
	// ---- R1: find the value returned on the non-zero return
	var charge ssa.Value
	funcInstrs(rl, func(in ssa.Instruction) {
		if rt, ok := in.(*ssa.Return); ok && len(rt.Results) == 1 {
			if k, isC := constInt(rt.Results[0]); !isC || k != 0 {
				charge = rt.Results[0]
			}
		}
	})
	r.Anchor("R1", "the non-zero return value (charge)", charge != nil)
	if charge == nil {
		return
	}
	okF, whyF := c.isHybridCharge(charge, chars)
	r.Add("R1", "charge-formula", c.Pos(charge.Pos()), c.FuncKey(rl), "charge = 2s + chars/120 s", okF, whyF)

	// ---- R2
	var badStores, lastStores []*ssa.Store
	for _, fn := range c.clientFuncs() {
		funcInstrs(fn, func(in ssa.Instruction) {
			s, ok := in.(*ssa.Store)
			if !ok {
				return
			}
			fv, base := fieldOf(s.Addr)
			if fv != bad && fv != last {
				return
			}
			if fn != rl {
				okCtor := c.allOriginsLocalAlloc(base, fn)
				r.Add("R2", "foreign-write:"+c.FuncKey(fn)+":"+fv.Name(), c.InstrPos(s), c.FuncKey(fn), "flood-control state is written only by the rate limiter (or while constructing the Conn)", okCtor, "store to "+fv.Name()+" in "+c.FuncKey(fn))
				return
			}
			if fv == bad {
				badStores = append(badStores, s)
			} else {
				lastStores = append(lastStores, s)
			}
		})
	}
	sort.Slice(badStores, func(i, j int) bool { return badStores[i].Pos() < badStores[j].Pos() })
	isBadLoad := func(v ssa.Value) bool { fv, _ := loadedField(v); return fv == bad }
	isLastLoad := func(v ssa.Value) bool { fv, _ := loadedField(v); return fv == last }
	isNow := func(v ssa.Value) bool {
		call, ok := v.(*ssa.Call)
		return ok && calleeName(&call.Call) == "time.Now"
	}
	// elapsed = Now.Sub(last) or time.Since(last)
	isElapsed := func(v ssa.Value) bool {
		call, ok := v.(*ssa.Call)
		if !ok {
			return false
		}
		switch calleeName(&call.Call) {
		case "(time.Time).Sub":
			return isNow(call.Call.Args[0]) && isLastLoad(call.Call.Args[1])
		case "time.Since":
			return isLastLoad(call.Call.Args[0])
		}
		return false
	}
	// two forms: (A) store the sum, then store 0 on the "< 0" edge; (B) compute the sum in a local, clamp it to 0
	// in a branch, store the result once
	var upd, floor *ssa.Store
	var updVal, finalVal ssa.Value
	var clampIf *ssa.If
	if len(badStores) == 1 {
		if ph, isPh := badStores[0].Val.(*ssa.Phi); isPh && len(ph.Edges) == 2 {
			for i, e := range ph.Edges {
				if k, ok := constInt(e); ok && k == 0 {
					other := ph.Edges[1-i]
					// the zero comes in along an edge taken exactly when the sum is negative
					pred := ph.Block().Preds[i]
					conds := append([]Cond{}, CondsAt(pred)...)
					if cd, okE := edgeCond(pred, ph.Block()); okE {
						conds = append(conds, cd)
					}
					for _, cd := range conds {
						cd = unwrapNot(cd)
						if bo, okB := cd.V.(*ssa.BinOp); okB {
							lt := (bo.Op == token.LSS && bo.X == other && durConst(bo.Y, 0) && cd.True) ||
								(bo.Op == token.GEQ && bo.X == other && durConst(bo.Y, 0) && !cd.True) ||
								(bo.Op == token.GTR && durConst(bo.X, 0) && bo.Y == other && cd.True)
							// ... and the other edge on the opposite outcome of the same test
							if lt && cd.If != nil && blockDom(cd.If.Block(), ph.Block().Preds[1-i]) {
								upd, updVal, finalVal, clampIf = badStores[0], other, ph, cd.If
							}
						}
					}
				}
			}
		}
		if upd == nil {
			r.Exactly("R2", "stores to the penalty field in the rate limiter", len(badStores), 2)
		}
	} else {
		r.Exactly("R2", "stores to the penalty field in the rate limiter", len(badStores), 2)
		for _, s := range badStores {
			if k, ok := constInt(s.Val); ok && k == 0 {
				floor = s
			} else {
				upd = s
			}
		}
		if upd != nil {
			updVal = upd.Val
		}
	}
	okU, whyU := false, "no update store"
	if upd != nil {
		// updVal = badLoad + (charge - elapsed)   (any association)
		pos, neg := linearTermsStop(updVal, charge)
		okU = len(pos) == 2 && len(neg) == 1 && isElapsed(neg[0]) &&
			((isBadLoad(pos[0]) && pos[1] == charge) || (isBadLoad(pos[1]) && pos[0] == charge))
		whyU = fmt.Sprintf("update has %d positive and %d negative terms", len(pos), len(neg))
		if okU {
			whyU = "penalty = penalty + charge - (Now - last)"
		}
	}
	r.Add("R2", "update", posOf(c, upd), c.FuncKey(rl), "penalty is updated by + charge - elapsed", okU, whyU)
	okFl, whyFl := false, "no store of 0"
	if clampIf != nil {
		okFl, whyFl = true, "the stored penalty is 0 exactly when the sum is < 0 (clamped before the single store)"
	}
	if floor != nil && upd != nil {
		// floor executes exactly on the edge (penalty < 0) evaluated after the update
		for _, cd := range CondsAt(floor.Block()) {
			cd = unwrapNot(cd)
			if bo, ok := cd.V.(*ssa.BinOp); ok {
				lt := (bo.Op == token.LSS && isBadLoadOrVal(bo.X, upd, isBadLoad) && durConst(bo.Y, 0) && cd.True) ||
					(bo.Op == token.GEQ && isBadLoadOrVal(bo.X, upd, isBadLoad) && durConst(bo.Y, 0) && !cd.True) ||
					(bo.Op == token.GTR && durConst(bo.X, 0) && isBadLoadOrVal(bo.Y, upd, isBadLoad) && cd.True)
				if lt && instrDominates(upd, cd.If) {
					okFl, whyFl = true, "0 stored exactly when the updated penalty is < 0"
				}
			}
		}
	}
	r.Add("R2", "floor", posOf(c, floor), c.FuncKey(rl), "penalty never drops below zero", okFl, whyFl)
	// last = Now on every path
	okL, whyL := false, fmt.Sprintf("%d stores to the timestamp", len(lastStores))
	if len(lastStores) >= 1 {
		allNow := true
		for _, s := range lastStores {
			if !isNow(s.Val) {
				allNow = false
			}
		}
		pass, badRet := AllPathsFromEntryPass(rl, func(in ssa.Instruction) bool {
			for _, s := range lastStores {
				if ssa.Instruction(s) == in {
					return true
				}
			}
			return false
		})
		okL = allNow && pass
		if !pass {
			whyL = "return at " + c.InstrPos(badRet) + " without resetting the timestamp"
		} else {
			whyL = "timestamp := Now on every path"
		}
		// the timestamp must be reset after elapsed was computed (elapsed uses the old value)
		if okL && upd != nil {
			for _, s := range lastStores {
				var anchor ssa.Instruction = upd
				if finalVal != nil {
					// form B: the sum (which reads the old timestamp) is computed where updVal is defined
					if in, isIn := updVal.(ssa.Instruction); isIn {
						anchor = in
					}
				}
				if !instrDominates(anchor, s) {
					okL, whyL = false, "timestamp reset before the penalty update uses the old timestamp"
				}
			}
		}
	}
	r.Add("R2", "timestamp", posOf2(c, lastStores), c.FuncKey(rl), "last-sent time is reset on every call", okL, whyL)

	// ---- R3
	n3 := 0
	funcInstrs(rl, func(in ssa.Instruction) {
		rt, ok := in.(*ssa.Return)
		if !ok || len(rt.Results) != 1 {
			return
		}
		n3++
		over, known := false, false
		for _, cd := range CondsAt(rt.Block()) {
			cd = unwrapNot(cd)
			bo, ok := cd.V.(*ssa.BinOp)
			if !ok {
				continue
			}
			isBadLoad := func(v ssa.Value) bool { return isBadLoad(v) || (finalVal != nil && v == finalVal) }
			switch {
			case bo.Op == token.GTR && isBadLoad(bo.X) && durConst(bo.Y, 10*second):
				known, over = true, cd.True
			case bo.Op == token.LSS && durConst(bo.X, 10*second) && isBadLoad(bo.Y):
				known, over = true, cd.True
			case bo.Op == token.LEQ && isBadLoad(bo.X) && durConst(bo.Y, 10*second):
				known, over = true, !cd.True
			}
		}
		k, isZero := constInt(rt.Results[0])
		ok3 := known && ((over && rt.Results[0] == charge) || (!over && isZero && k == 0))
		why := fmt.Sprintf("threshold test known=%v over=%v returns %s", known, over, rt.Results[0].Name())
		r.Add("R3", fmt.Sprintf("return#%d", n3), c.InstrPos(rt), c.FuncKey(rl), "charge returned iff penalty > 10s (strict)", ok3, why)
	})
	r.Exactly("R3", "returns of the rate limiter", n3, 2)

	// ---- R4
	wf := c.Func(c.Client, "(*Conn).write")
	r.Anchor("R4", "(*Conn).write", wf != nil)
	if wf == nil {
		return
	}
	r.Funcs[c.FuncKey(wf)] = true
	var rlCall *ssa.Call
	var wsCall ssa.Instruction
	funcInstrs(wf, func(in ssa.Instruction) {
		if call, ok := in.(*ssa.Call); ok && calleeName(&call.Call) == "(*bufio.Writer).WriteString" {
			wsCall = in
		}
	})
	if wsCall == nil {
		// the socket write may sit in a helper write calls once with its line: that call is the write event
		if _, via := c.writerLeaf(wf); via != nil {
			wsCall = via
		}
	}
	// the function that calls the rate limiter: write itself, or a helper write calls once
	hf := wf
	var helperSite *ssa.Call
	for _, cs := range c.Callers(rl) {
		if call, ok := cs.(*ssa.Call); ok {
			rlCall = call
		}
	}
	if rlCall != nil && rlCall.Parent() != wf {
		hf = rlCall.Parent()
		for _, cs := range c.Callers(hf) {
			if call, ok := cs.(*ssa.Call); ok && call.Parent() == wf {
				helperSite = call
			}
		}
		if helperSite == nil || len(c.Callers(hf)) != 1 {
			rlCall = nil
		}
	}
	r.Funcs[c.FuncKey(hf)] = true
	var waits []ssa.Instruction
	funcInstrs(hf, func(in ssa.Instruction) {
		if call, ok := in.(*ssa.Call); ok && calleeName(&call.Call) == "time.Sleep" {
			waits = append(waits, in)
		}
		if u, ok := in.(*ssa.UnOp); ok && u.Op == token.ARROW && isTimerChan(u.X) {
			waits = append(waits, in)
		}
	})
	if hf != wf {
		// no waits in write itself
		funcInstrs(wf, func(in ssa.Instruction) {
			if call, ok := in.(*ssa.Call); ok && calleeName(&call.Call) == "time.Sleep" {
				waits = append(waits, in)
			}
			if u, ok := in.(*ssa.UnOp); ok && u.Op == token.ARROW && isTimerChan(u.X) {
				waits = append(waits, in)
			}
		})
	}
	r.Anchor("R4", "rate-limiter call (in write or in a helper write calls once) and socket write in write()", rlCall != nil && wsCall != nil)
	if rlCall == nil || wsCall == nil {
		return
	}
	// one charge per line on the wire: the socket write happens once per limiter call (not in a loop over parts of
	// what was charged), and what it writes is the charged string itself plus the terminator
	{
		leaf, via := c.writerLeaf(wf)
		okOnce, whyOnce := c.LoopDepth(wsCall.Block()) == 0, "socket write outside any loop"
		if !okOnce {
			whyOnce = "the socket write sits in a loop: several lines go out for one charge"
		}
		if okOnce && leaf != nil {
			funcInstrs(leaf, func(in ssa.Instruction) {
				if cc := callOf(in); cc != nil && calleeName(cc) == "(*bufio.Writer).WriteString" {
					if c.LoopDepth(in.Block()) != 0 {
						okOnce, whyOnce = false, "WriteString in a loop at "+c.InstrPos(in)
					} else if okP, whyP := c.crlfOfParam(cc.Args[1], leaf); !okP {
						okOnce, whyOnce = false, "the written text is not the charged line + CRLF: "+whyP
					}
				}
			})
		}
		_ = via
		r.Add("R4", "one-line-per-charge", c.InstrPos(wsCall), c.FuncKey(wf), "each charge pays for exactly one line on the wire", okOnce, whyOnce)
	}
	line := wf.Params[1]
	okLen := false
	isLenOfLine := func(v ssa.Value) bool {
		lc, ok := v.(*ssa.Call)
		if !ok {
			return false
		}
		b, ok := lc.Call.Value.(*ssa.Builtin)
		return ok && b.Name() == "len" && lc.Call.Args[0] == ssa.Value(line)
	}
	if hf == wf {
		okLen = isLenOfLine(rlCall.Call.Args[1])
	} else if pr, ok := rlCall.Call.Args[1].(*ssa.Parameter); ok && pr.Parent() == hf {
		for i, q := range hf.Params {
			if q == pr && i < len(helperSite.Call.Args) {
				okLen = isLenOfLine(helperSite.Call.Args[i])
			}
		}
	}
	r.Add("R4", "charged-length", c.InstrPos(rlCall), c.FuncKey(hf), "the rate limiter is charged len(line) of the line that is written", okLen, "argument of rateLimit")
	floodGuard := func(in ssa.Instruction) bool {
		for _, cd := range CondsAt(in.Block()) {
			cd = unwrapNot(cd)
			if fv, _ := loadedField(cd.V); fv == a.CfgFlood && !cd.True {
				return true
			}
		}
		return false
	}
	floodAt := func(in ssa.Instruction) bool {
		return floodGuard(in) || (helperSite != nil && in.Parent() == hf && floodGuard(helperSite))
	}
	r.Add("R4", "limiter-under-flood-off", c.InstrPos(rlCall), c.FuncKey(hf), "rate limiting happens only when Config.Flood is false", floodAt(rlCall), "control-dependent on !Flood")
	r.Exactly("R4", "timer waits in write()", len(waits), 1)
	for i, w := range waits {
		okW := floodAt(w) && w.Parent() == hf && instrDominates(rlCall, w)
		why := "under !Flood, after the limiter call"
		// waits for exactly the returned value
		var dur ssa.Value
		switch t := w.(type) {
		case *ssa.UnOp:
			if call, ok := t.X.(*ssa.Call); ok {
				dur = call.Call.Args[0]
			}
		case *ssa.Call:
			dur = t.Call.Args[0]
		}
		if dur != ssa.Value(rlCall) {
			okW, why = false, "the wait is not for the value the rate limiter returned"
		}
		// taken iff non-zero
		nz := false
		for _, cd := range CondsAt(w.Block()) {
			cd = unwrapNot(cd)
			if bo, ok := cd.V.(*ssa.BinOp); ok && (bo.X == ssa.Value(rlCall) || bo.Y == ssa.Value(rlCall)) {
				other := bo.Y
				if bo.Y == ssa.Value(rlCall) {
					other = bo.X
				}
				if durConst(other, 0) && ((bo.Op == token.NEQ && cd.True) || (bo.Op == token.EQL && !cd.True) || (bo.Op == token.GTR && bo.X == ssa.Value(rlCall) && cd.True)) {
					nz = true
				}
			}
		}
		if okW && !nz {
			okW, why = false, "the wait is not guarded by the returned delay being non-zero"
		}
		// no other condition may decide whether a charged line is held
		if okW {
			for _, cd := range CondsAt(w.Block()) {
				cd2 := unwrapNot(cd)
				if fv, _ := loadedField(cd2.V); fv == a.CfgFlood {
					continue
				}
				if bo, ok := cd2.V.(*ssa.BinOp); ok && (bo.X == ssa.Value(rlCall) || bo.Y == ssa.Value(rlCall)) {
					continue
				}
				okW, why = false, "whether the line is held also depends on the condition at "+c.InstrPos(cd.If)+" ("+cd2.V.String()+")"
			}
		}
		// precedes the socket write on that path
		var anchor ssa.Instruction = w
		if hf != wf {
			anchor = helperSite
		}
		if okW && ReachFrom(wsCall, false, nil)[anchor] {
			okW, why = false, "the wait can happen after the socket write"
		}
		if okW && !ReachFrom(anchor, false, nil)[wsCall] {
			okW, why = false, "the socket write is not reached after the wait"
		}
		r.Add("R4", fmt.Sprintf("delay#%d", i+1), c.InstrPos(w), c.FuncKey(hf), "the line is held back for its own charge before being written", okW, why)
	}
	// the socket write is reached on every non-error path regardless of the delay branch (dominance by entry: WriteString not guarded by flood)
	for _, cd := range CondsAt(wsCall.Block()) {
		cd2 := unwrapNot(cd)
		if fv, _ := loadedField(cd2.V); fv == a.CfgFlood {
			r.Add("R4", "write-unconditional", c.InstrPos(wsCall), c.FuncKey(wf), "the socket write does not depend on the Flood setting", false, "write guarded by Flood")
		}
	}
}

func posOf(c *Ctx, s *ssa.Store) string {
	if s == nil {
		return "-"
	}
	return c.InstrPos(s)
}
func posOf2(c *Ctx, s []*ssa.Store) string {
	if len(s) == 0 {
		return "-"
	}
	return c.InstrPos(s[0])
}

func isBadLoadOrVal(v ssa.Value, upd *ssa.Store, isBadLoad func(ssa.Value) bool) bool {
	return isBadLoad(v) || v == upd.Val
}

// linearTerms flattens a +/- expression tree into positive and negative leaves.
func linearTerms(v ssa.Value) (pos, neg []ssa.Value) { return linearTermsStop(v, nil) }

// linearTermsStop is linearTerms that treats stop as a leaf.
func linearTermsStop(v ssa.Value, stop ssa.Value) (pos, neg []ssa.Value) {
	var walk func(v ssa.Value, sign bool)
	walk = func(v ssa.Value, sign bool) {
		if bo, ok := v.(*ssa.BinOp); ok && v != stop && (bo.Op == token.ADD || bo.Op == token.SUB) {
			walk(bo.X, sign)
			if bo.Op == token.ADD {
				walk(bo.Y, sign)
			} else {
				walk(bo.Y, !sign)
			}
			return
		}
		if sign {
			pos = append(pos, v)
		} else {
			neg = append(neg, v)
		}
	}
	walk(v, true)
	return
}

// isHybridCharge: v == 2*Second + Duration(chars)*Second/120 (modulo commutativity).
func (c *Ctx) isHybridCharge(v ssa.Value, chars ssa.Value) (bool, string) {
	// the formula may live in a pure helper of the line length: judge its single return value there
	if call, ok := v.(*ssa.Call); ok && !call.Call.IsInvoke() {
		if h := call.Call.StaticCallee(); h != nil && c.InModuleFn(h) && h.Blocks != nil && len(call.Call.Args) == len(h.Params) {
			idx := -1
			for i, a := range call.Call.Args {
				if a == chars {
					idx = i
				}
			}
			var rets []*ssa.Return
			funcInstrs(h, func(in ssa.Instruction) {
				if rt, isR := in.(*ssa.Return); isR {
					rets = append(rets, rt)
				}
			})
			if idx >= 0 && len(rets) == 1 && len(rets[0].Results) == 1 {
				return c.isHybridCharge(rets[0].Results[0], h.Params[idx])
			}
		}
	}
	pos, neg := linearTerms(v)
	if len(neg) != 0 || len(pos) != 2 {
		return false, fmt.Sprintf("charge is a sum of %d positive and %d negative terms, want 2 and 0", len(pos), len(neg))
	}
	isBase := func(x ssa.Value) bool { return durConst(x, 2*second) }
	isPerChar := func(x ssa.Value) bool {
		q, ok := x.(*ssa.BinOp)
		if !ok || q.Op != token.QUO || !durConst(q.Y, 120) {
			return false
		}
		m, ok := q.X.(*ssa.BinOp)
		if !ok || m.Op != token.MUL {
			return false
		}
		isChars := func(y ssa.Value) bool {
			cv, ok := y.(*ssa.Convert)
			if ok {
				return cv.X == chars
			}
			ct, ok := y.(*ssa.ChangeType)
			return ok && ct.X == chars
		}
		return (isChars(m.X) && durConst(m.Y, second)) || (isChars(m.Y) && durConst(m.X, second))
	}
	if (isBase(pos[0]) && isPerChar(pos[1])) || (isBase(pos[1]) && isPerChar(pos[0])) {
		return true, "2*Second + Duration(chars)*Second/120"
	}
	return false, "terms are not 2*Second and Duration(chars)*Second/120"
}

// constTableValue: v is read from a package-level map all of whose values
// (set in the package initialiser) are string constants.
func (c *Ctx) constTableValue(v ssa.Value) bool {
	var lk *ssa.Lookup
	switch t := v.(type) {
	case *ssa.Lookup:
		lk = t
	case *ssa.Extract:
		lk, _ = t.Tuple.(*ssa.Lookup)
		if t.Index != 0 {
			return false
		}
	}
	if lk == nil {
		return false
	}
	u, ok := lk.X.(*ssa.UnOp)
	if !ok || u.Op != token.MUL {
		return false
	}
	g, ok := u.X.(*ssa.Global)
	if !ok {
		return false
	}
	init := c.Client.Func("init")
	if init == nil {
		return false
	}
	var mm ssa.Value
	nStores := 0
	for _, fn := range c.clientFuncs() {
		funcInstrs(fn, func(in ssa.Instruction) {
			if s, ok := in.(*ssa.Store); ok && s.Addr == ssa.Value(g) {
				nStores++
				if fn == init {
					mm = s.Val
				}
			}
		})
	}
	if mm == nil || nStores != 1 {
		return false
	}
	n, allConst := 0, true
	for _, fn := range c.clientFuncs() {
		funcInstrs(fn, func(in ssa.Instruction) {
			mu, ok := in.(*ssa.MapUpdate)
			if !ok {
				return
			}
			if mu.Map == mm {
				n++
				if _, isC := constString(mu.Value); !isC || fn != init {
					allConst = false
				}
				return
			}
			// updates through a later load of the global
			if lu, ok := mu.Map.(*ssa.UnOp); ok && lu.Op == token.MUL && lu.X == ssa.Value(g) {
				allConst = false
			}
		})
	}
	return n > 0 && allConst
}

// parserTrailingRule runs the trailing-parameter rule of C01 under another
// property's rule id (the handlers of that property index line.Args).
func (c *Ctx) parserTrailingRule(rule string) {
	r := c.R
	pl := c.Func(c.Client, "ParseLine")
	if !r.Anchor(rule, "ParseLine", pl != nil) {
		return
	}
	pl = c.parserBody(pl)
	var lineAlloc *ssa.Alloc
	funcInstrs(pl, func(in ssa.Instruction) {
		if rt, ok := in.(*ssa.Return); ok && len(rt.Results) >= 1 {
			if al, ok := rt.Results[0].(*ssa.Alloc); ok {
				lineAlloc = al
			}
		}
	})
	if !r.Anchor(rule, "the line ParseLine returns (a local allocation)", lineAlloc != nil) {
		return
	}
	r.Funcs[c.FuncKey(pl)] = true
	fpl, _, fparam := c.parseFrame(pl, lineAlloc, pl.Params[0])
	c.trailingRule(rule, fpl, lineAlloc, fparam)
}

// parseFrame: the function in which the parsed line is filled in. Normally
// ParseLine itself; when ParseLine only allocates the line and hands it,
// together with its text parameter, to one unexported function of the package
// (called from nowhere else), that function with the corresponding parameters.
func (c *Ctx) parseFrame(pl *ssa.Function, lineAlloc *ssa.Alloc, param *ssa.Parameter) (*ssa.Function, ssa.Value, *ssa.Parameter) {
	var hit *ssa.Call
	n := 0
	for _, cs := range CallSites(pl) {
		call, ok := cs.(*ssa.Call)
		if !ok || call.Call.IsInvoke() {
			continue
		}
		m := call.Call.StaticCallee()
		if m == nil || !c.InModuleFn(m) || m.Package() != c.Client || (m.Object() != nil && m.Object().Exported()) || addrTaken(m) {
			continue
		}
		hasLine, hasText := false, false
		for _, a := range call.Call.Args {
			if a == ssa.Value(lineAlloc) {
				hasLine = true
			}
			if a == ssa.Value(param) {
				hasText = true
			}
		}
		if hasLine && hasText {
			hit = call
			n++
		}
	}
	if n != 1 || len(c.staticCallers(hit.Call.StaticCallee())) != 1 {
		return pl, lineAlloc, param
	}
	m := hit.Call.StaticCallee()
	var ml ssa.Value
	var mt *ssa.Parameter
	for i, a := range hit.Call.Args {
		if i >= len(m.Params) {
			break
		}
		if a == ssa.Value(lineAlloc) {
			ml = m.Params[i]
		}
		if a == ssa.Value(param) {
			mt = m.Params[i]
		}
	}
	if ml == nil || mt == nil {
		return pl, lineAlloc, param
	}
	return m, ml, mt
}

// isCutLike: fn(s, sep string) (before, after string, found bool) with the
// body of strings.Cut: i := strings.Index(s, sep); found: s[:i], s[i+len(sep):],
// true on the i >= 0 edge; otherwise s, "", false.
func (c *Ctx) isCutLike(fn *ssa.Function) bool {
	if fn == nil || fn.Blocks == nil || len(fn.Params) != 2 || fn.Signature.Results().Len() != 3 || fn.Signature.Recv() != nil {
		return false
	}
	for _, p := range fn.Params {
		if !isStringType(p.Type()) {
			return false
		}
	}
	p0, p1 := ssa.Value(fn.Params[0]), ssa.Value(fn.Params[1])
	var idx *ssa.Call
	nIdx := 0
	funcInstrs(fn, func(in ssa.Instruction) {
		if call, ok := in.(*ssa.Call); ok && calleeName(&call.Call) == "strings.Index" && call.Call.Args[0] == p0 && call.Call.Args[1] == p1 {
			idx = call
			nIdx++
		}
	})
	if nIdx != 1 {
		return false
	}
	found := func(b *ssa.BasicBlock) bool {
		for _, cd := range CondsAt(b) {
			cd = unwrapNot(cd)
			bo, ok := cd.V.(*ssa.BinOp)
			if !ok || bo.X != ssa.Value(idx) {
				continue
			}
			k, okK := constInt(bo.Y)
			if !okK {
				continue
			}
			switch {
			case bo.Op == token.GEQ && k == 0 && cd.True, bo.Op == token.LSS && k == 0 && !cd.True,
				bo.Op == token.NEQ && k == -1 && cd.True, bo.Op == token.EQL && k == -1 && !cd.True,
				bo.Op == token.GTR && k == -1 && cd.True, bo.Op == token.LEQ && k == -1 && !cd.True:
				return true
			}
		}
		return false
	}
	nT, nF, bad := 0, 0, false
	funcInstrs(fn, func(in ssa.Instruction) {
		rt, ok := in.(*ssa.Return)
		if !ok {
			return
		}
		if len(rt.Results) != 3 {
			bad = true
			return
		}
		r0, r1, r2 := retVal(rt, 0), retVal(rt, 1), retVal(rt, 2)
		k, isK := r2.(*ssa.Const)
		if !isK || k.Value == nil {
			bad = true
			return
		}
		if k.Value.String() == "true" {
			s0, ok0 := r0.(*ssa.Slice)
			s1, ok1 := r1.(*ssa.Slice)
			if !ok0 || !ok1 || s0.X != p0 || s1.X != p0 || s0.Low != nil || s0.High != ssa.Value(idx) || s1.High != nil || s1.Low == nil || !found(rt.Block()) {
				bad = true
				return
			}
			bo, okB := s1.Low.(*ssa.BinOp)
			if !okB || bo.Op != token.ADD || bo.X != ssa.Value(idx) {
				bad = true
				return
			}
			ln, okL := bo.Y.(*ssa.Call)
			if !okL {
				bad = true
				return
			}
			if b, isB := ln.Call.Value.(*ssa.Builtin); !isB || b.Name() != "len" || ln.Call.Args[0] != p1 {
				bad = true
				return
			}
			nT++
		} else {
			if e, okE := constString(r1); r0 != p0 || !okE || e != "" {
				bad = true
				return
			}
			nF++
		}
	})
	return !bad && nT >= 1 && nF >= 1
}

// everyLineParsedRule: in the receive goroutine the value sent on the inbound
// queue is the parser's result (only Time is touched in between), the parser's
// argument is the line read minus its terminator, no condition other than the
// read error decides whether a line is parsed, and a parsed line is always
// enqueued.
func (c *Ctx) everyLineParsedRule(rule string) {
	r := c.R
	pl := c.Func(c.Client, "ParseLine")
	if !r.Anchor(rule, "ParseLine", pl != nil) {
		return
	}
	pf := c.producerFrame()
	r.Anchor(rule, "receive goroutine with its send on the inbound queue", pf != nil)
	if pf == nil {
		return
	}
	// the frame that parses and enqueues: the goroutine's own body, or the one helper it calls per line
	producer, sendOp := pf.Frame, pf.Send
	r.Funcs[c.FuncKey(pf.Member)] = true
	r.Funcs[c.FuncKey(producer)] = true
	var sent ssa.Value
	if s, ok := sendOp.In.(*ssa.Send); ok {
		sent = s.X
	} else if sendOp.Sel != nil {
		sent = sendOp.Sel.States[sendOp.State].Send
	}
	call, isCall := sent.(*ssa.Call)
	okSent := isCall && call.Call.StaticCallee() == pl
	r.Add(rule, "enqueue-is-parse-result", c.InstrPos(sendOp.In), c.FuncKey(producer), "the enqueued line is ParseLine's result", okSent, "sent value "+sent.String())
	if !okSent {
		return
	}
	// stores through the result
	bad := ""
	for _, ref := range *call.Referrers() {
		fa, ok := ref.(*ssa.FieldAddr)
		if !ok {
			continue
		}
		fv, _ := fieldOf(fa)
		for _, r2 := range *fa.Referrers() {
			if s, ok := r2.(*ssa.Store); ok && s.Addr == ssa.Value(fa) && fv.Name() != "Time" {
				bad = "field " + fv.Name() + " is modified at " + c.InstrPos(s)
			}
		}
	}
	r.Add(rule, "only-time-touched", c.InstrPos(call), c.FuncKey(producer), "between parse and enqueue only Line.Time is set", bad == "", bad)
	// argument chain
	arg := call.Call.Args[0]
	condsFrom := call.Block()
	helperConds := 0
	if pr, isP := arg.(*ssa.Parameter); isP && pf.Via != nil && pr.Parent() == pf.Frame {
		// the line is handed to the helper by the goroutine: continue with the argument at that call, and count the
		// conditions inside the helper that decide whether the parser is reached at all (there must be none)
		for i, q := range pf.Frame.Params {
			if q == pr && i < len(pf.Via.Call.Args) {
				arg = pf.Via.Call.Args[i]
			}
		}
		helperConds = len(CondsAt(call.Block()))
		condsFrom = pf.Via.Block()
	}
	okArg, whyArg := false, "ParseLine's argument is not strings.Trim(<read result>, \"\\r\\n\")"
	// the text of a line read: result 0 of a bufio read, trimmed here; or result 0 of a read helper that trims
	var textOf ssa.Value = arg
	trimmedHere := false
	if tr, ok := arg.(*ssa.Call); ok && calleeName(&tr.Call) == "strings.Trim" {
		if cut, ok := constString(tr.Call.Args[1]); ok && (cut == "\r\n" || cut == "\n\r") {
			textOf, trimmedHere = tr.Call.Args[0], true
		}
	}
	{
		{
			if ex, ok := textOf.(*ssa.Extract); ok && ex.Index == 0 {
				if rd, ok := ex.Tuple.(*ssa.Call); ok {
					n := calleeName(&rd.Call)
					isRead := (n == "(*bufio.Reader).ReadString" || n == "(*bufio.Reader).ReadBytes") && trimmedHere
					if !isRead && !rd.Call.IsInvoke() {
						if _, trimmed, okH := c.readHelperInfo(rd.Call.StaticCallee()); okH && trimmed != trimmedHere {
							isRead = true
						}
					}
					if isRead {
						okArg, whyArg = true, "ParseLine(strings.Trim(ReadString('\\n'), \"\\r\\n\"))"
						// no branch between the read and the parse other than the error test
						if helperConds > 0 {
							okArg, whyArg = false, "a condition inside the per-line helper decides whether a line is parsed"
						}
						for _, cd := range CondsAt(condsFrom) {
							cd2 := unwrapNot(cd)
							isErr := false
							if bo, ok := cd2.V.(*ssa.BinOp); ok {
								for _, op := range []ssa.Value{bo.X, bo.Y} {
									if e2, ok := op.(*ssa.Extract); ok && e2.Tuple == ssa.Value(rd) && e2.Index == 1 {
										isErr = true
									}
								}
							}
							if !isErr && cd.If != nil && instrDominates(rd, cd.If) {
								okArg, whyArg = false, "a condition other than the read error decides whether a line is parsed (at "+c.InstrPos(cd.If)+")"
							}
						}
					}
				}
			}
		}
	}
	r.Add(rule, "parse-argument", c.InstrPos(call), c.FuncKey(producer), "the parser sees the received line minus its CR/LF terminator, for every line read without error", okArg, whyArg)
	// the send is reached whenever the result is non-nil: its only guard is the nil test of the result
	okGuard := true
	whyG := "guarded only by result != nil"
	for _, cd := range CondsAt(sendOp.In.Block()) {
		if cd.If == nil || !instrDominates(call, cd.If) {
			continue
		}
		cd2 := unwrapNot(cd)
		bo, ok := cd2.V.(*ssa.BinOp)
		if !ok || !((bo.X == ssa.Value(call) && isNilConst(bo.Y)) || (bo.Y == ssa.Value(call) && isNilConst(bo.X))) {
			okGuard, whyG = false, "the enqueue also depends on the condition at "+c.InstrPos(cd.If)
		}
	}
	r.Add(rule, "enqueue-guard", c.InstrPos(sendOp.In), c.FuncKey(producer), "every successfully parsed line is enqueued", okGuard, whyG)
}

// configIdentityRule: the Conn keeps the caller's own Config object.
func (c *Ctx) configIdentityRule(rule string) {
	r, a := c.R, c.A
	{
		nC := 0
		for _, fn := range c.clientFuncs() {
			funcInstrs(fn, func(in ssa.Instruction) {
				st, ok := in.(*ssa.Store)
				if !ok {
					return
				}
				if fv, _ := fieldOf(st.Addr); fv != a.Cfg {
					return
				}
				nC++
				okC, whyC := true, "the caller's Config (or a freshly constructed default)"
				for _, o := range c.Origins(st.Val) {
					switch t := o.(type) {
					case *ssa.Parameter:
					case *ssa.Call:
						if cal := t.Call.StaticCallee(); cal == nil || !c.InModuleFn(cal) {
							okC, whyC = false, "stores the result of "+calleeName(&t.Call)
						}
					case *ssa.Alloc:
						okC, whyC = false, "stores the address of a local copy made at "+c.InstrPos(t)+": the application's Config is no longer the one the client reads"
					default:
						okC, whyC = false, "stores "+o.String()
					}
				}
				r.Add(rule, "config-identity:"+c.FuncKey(fn), c.InstrPos(st), c.FuncKey(fn), "the client reads the application's own Config object", okC, whyC)
			})
		}
		r.Floor(rule, "stores to the Conn's config field", nC, 1)
	}
}

// upperCasedResult: v is a result of a module function (a helper that takes a
// CTCP message apart, say) every return of which yields, in that position, a
// constant or the result of strings.ToUpper.
func (c *Ctx) upperCasedResult(v ssa.Value, depth int) bool {
	if depth > 2 {
		return false
	}
	var call *ssa.Call
	idx := 0
	switch t := v.(type) {
	case *ssa.Extract:
		call, _ = t.Tuple.(*ssa.Call)
		idx = t.Index
	case *ssa.Call:
		call = t
	}
	if call == nil || call.Call.IsInvoke() {
		return false
	}
	callee := call.Call.StaticCallee()
	if callee == nil || !c.InModuleFn(callee) || callee.Blocks == nil {
		return false
	}
	n, ok := 0, true
	funcInstrs(callee, func(in ssa.Instruction) {
		rt, isR := in.(*ssa.Return)
		if !isR || idx >= len(rt.Results) {
			return
		}
		n++
		for _, o := range c.originsLocal(retVal(rt, idx)) {
			if _, isC := constString(o); isC {
				continue
			}
			if cl, isCall := o.(*ssa.Call); isCall && calleeName(&cl.Call) == "strings.ToUpper" {
				continue
			}
			if c.upperCasedResult(o, depth+1) {
				continue
			}
			ok = false
		}
	})
	return ok && n > 0
}

// parserBody: the function that does the parsing: ParseLine itself, or - when
// ParseLine only hands its parameter to one unexported function and passes on
// that function's first result (nil when it reports an error) - that function.
func (c *Ctx) parserBody(pl *ssa.Function) *ssa.Function {
	var inner *ssa.Call
	n, other := 0, false
	funcInstrs(pl, func(in ssa.Instruction) {
		switch t := in.(type) {
		case *ssa.Call:
			n++
			inner = t
		case *ssa.Store, *ssa.MapUpdate, *ssa.Go, *ssa.Defer, *ssa.Alloc, *ssa.MakeMap, *ssa.MakeSlice:
			other = true
		}
	})
	if n != 1 || other || inner == nil || inner.Call.IsInvoke() {
		return pl
	}
	h := inner.Call.StaticCallee()
	if h == nil || !c.InModuleFn(h) || h.Package() != c.Client || h.Blocks == nil || (h.Object() != nil && h.Object().Exported()) || addrTaken(h) || len(c.staticCallers(h)) != 1 {
		return pl
	}
	if len(inner.Call.Args) != 1 || inner.Call.Args[0] != ssa.Value(pl.Params[0]) || len(h.Params) != 1 {
		return pl
	}
	// every return of ParseLine is nil or the helper's first result
	ok := true
	funcInstrs(pl, func(in ssa.Instruction) {
		rt, isR := in.(*ssa.Return)
		if !isR || len(rt.Results) != 1 {
			return
		}
		for _, o := range c.originsLocal(rt.Results[0]) {
			if isNilConst(o) {
				continue
			}
			if o == ssa.Value(inner) {
				continue
			}
			if ex, isE := o.(*ssa.Extract); isE && ex.Tuple == ssa.Value(inner) && ex.Index == 0 {
				continue
			}
			ok = false
		}
	})
	if !ok {
		return pl
	}
	return h
}
