package sa

import (
	"go/token"
	"go/types"

	"golang.org/x/tools/go/ssa"
)

// Origins traces a value backwards through moves that do not change it:
// phis, conversions, parameters (to the actual arguments at every resolved
// call site), free variables (to their closure bindings) and loads of local
// cells (to the values stored). It returns the root values: field loads,
// call results, constants, allocations, globals, arithmetic...
// If a parameter of a function with no known caller is reached, the
// parameter itself is a root.
func (p *Prog) Origins(v ssa.Value) []ssa.Value {
	seen := map[ssa.Value]bool{}
	var roots []ssa.Value
	var walk func(v ssa.Value)
	walk = func(v ssa.Value) {
		if v == nil || seen[v] {
			return
		}
		seen[v] = true
		switch t := v.(type) {
		case *ssa.Phi:
			for _, e := range t.Edges {
				walk(e)
			}
		case *ssa.ChangeType:
			walk(t.X)
		case *ssa.MakeInterface:
			walk(t.X)
		case *ssa.ChangeInterface:
			walk(t.X)
		case *ssa.Parameter:
			fn := t.Parent()
			idx := -1
			for i, pr := range fn.Params {
				if pr == t {
					idx = i
				}
			}
			sites := p.Callers(fn)
			if idx < 0 || len(sites) == 0 {
				roots = append(roots, v)
				return
			}
			for _, cs := range sites {
				cc := cs.Common()
				args := cc.Args
				if cc.IsInvoke() {
					// receiver is cc.Value, params[0] is receiver
					if idx == 0 {
						walk(cc.Value)
						continue
					}
					if idx-1 < len(args) {
						walk(args[idx-1])
					}
					continue
				}
				if idx < len(args) {
					walk(args[idx])
				} else {
					roots = append(roots, v)
				}
			}
		case *ssa.FreeVar:
			fn := t.Parent()
			idx := -1
			for i, fv := range fn.FreeVars {
				if fv == t {
					idx = i
				}
			}
			found := false
			if par := fn.Parent(); par != nil && idx >= 0 {
				funcInstrs(par, func(in ssa.Instruction) {
					if mc, ok := in.(*ssa.MakeClosure); ok && mc.Fn == fn && idx < len(mc.Bindings) {
						found = true
						walk(mc.Bindings[idx])
					}
				})
			}
			if !found {
				roots = append(roots, v)
			}
		case *ssa.UnOp:
			if t.Op == token.MUL {
				// load of a local cell: follow stores
				if al, ok := cellOf(t.X); ok {
					n := 0
					for _, st := range cellStores(al) {
						n++
						walk(st.Val)
					}
					if n == 0 {
						roots = append(roots, v)
					}
					return
				}
			}
			roots = append(roots, v)
		default:
			roots = append(roots, v)
		}
	}
	walk(v)
	return roots
}

// cellOf: addr is a local variable cell (an Alloc of non-struct/non-array
// type used as a captured or address-taken variable), possibly reached through a
// FreeVar binding.
func cellOf(addr ssa.Value) (*ssa.Alloc, bool) {
	switch t := addr.(type) {
	case *ssa.Alloc:
		return t, true
	case *ssa.FreeVar:
		fn := t.Parent()
		idx := -1
		for i, fv := range fn.FreeVars {
			if fv == t {
				idx = i
			}
		}
		if par := fn.Parent(); par != nil && idx >= 0 {
			var al *ssa.Alloc
			n := 0
			funcInstrs(par, func(in ssa.Instruction) {
				if mc, ok := in.(*ssa.MakeClosure); ok && mc.Fn == fn && idx < len(mc.Bindings) {
					n++
					if a, ok2 := cellOf(mc.Bindings[idx]); ok2 {
						al = a
					}
				}
			})
			if n >= 1 && al != nil {
				return al, true
			}
		}
	}
	return nil, false
}

// cellStores returns all Stores whose address is the cell al itself (in the
// allocating function or in closures capturing it).
func cellStores(al *ssa.Alloc) []*ssa.Store {
	var out []*ssa.Store
	var visit func(v ssa.Value, fn *ssa.Function)
	seen := map[ssa.Value]bool{}
	visit = func(v ssa.Value, fn *ssa.Function) {
		if seen[v] {
			return
		}
		seen[v] = true
		refs := v.Referrers()
		if refs == nil {
			return
		}
		for _, r := range *refs {
			switch t := r.(type) {
			case *ssa.Store:
				if t.Addr == v {
					out = append(out, t)
				}
			case *ssa.MakeClosure:
				cf, _ := t.Fn.(*ssa.Function)
				if cf == nil {
					continue
				}
				for i, b := range t.Bindings {
					if b == v && i < len(cf.FreeVars) {
						visit(cf.FreeVars[i], cf)
					}
				}
			}
		}
	}
	visit(al, al.Parent())
	return out
}

// FieldRoot: if any origin of v is a load of struct field fv, returns true
// and whether ALL origins are.
func (p *Prog) OriginFields(v ssa.Value) (fields map[*types.Var]bool, other []ssa.Value) {
	fields = map[*types.Var]bool{}
	for _, r := range p.Origins(v) {
		if fv, _ := loadedField(r); fv != nil {
			fields[fv] = true
		} else {
			other = append(other, r)
		}
	}
	return
}

// IsOnlyField reports whether every origin of v is a load of field fv.
func (p *Prog) IsOnlyField(v ssa.Value, fv *types.Var) bool {
	fields, other := p.OriginFields(v)
	return len(other) == 0 && len(fields) == 1 && fields[fv]
}

// MayBeField reports whether some origin of v is a load of field fv.
func (p *Prog) MayBeField(v ssa.Value, fv *types.Var) bool {
	fields, _ := p.OriginFields(v)
	return fields[fv]
}
