package sa

import (
	"fmt"
	"go/constant"
	"go/token"
	"go/types"
	"sort"

	"golang.org/x/tools/go/ssa"
)

// argsElem: v is a load of recvLine.Args[k] (k constant) where the Args slice
// is loaded from a *Line; returns k.
func (c *Ctx) argsElem(v ssa.Value) (int64, bool) {
	u, ok := v.(*ssa.UnOp)
	if !ok || u.Op != token.MUL {
		return 0, false
	}
	ia, ok := u.X.(*ssa.IndexAddr)
	if !ok {
		return 0, false
	}
	k, ok := constInt(ia.Index)
	if !ok {
		// an index that is 0 or 1 on every path (the CTCP forms carry the target second), possibly computed by a helper
		if !c.targetIndexValue(ia.Index, 0) {
			return 0, false
		}
		k = 0
	}
	fv, _ := loadedField(ia.X)
	if fv == nil || fv.Name() != "Args" || fv != c.FieldVar(c.Client, "Line", "Args") {
		return 0, false
	}
	return k, true
}

// argAccessorCall: v is a call of a module function with index argument 0 or
// 1 whose every result is "" or the element of the receiver's Args at its
// index parameter.
func (c *Ctx) argAccessorCall(v ssa.Value) bool {
	call, ok := v.(*ssa.Call)
	if !ok || call.Call.IsInvoke() {
		return false
	}
	callee := call.Call.StaticCallee()
	if callee == nil || !c.InModuleFn(callee) || callee.Package() != c.Client {
		return false
	}
	okIdx := false
	for _, arg := range call.Call.Args {
		if isIntType(arg.Type()) && c.targetIndexValue(arg, 0) {
			okIdx = true
		}
	}
	if !okIdx {
		return false
	}
	argsF := c.FieldVar(c.Client, "Line", "Args")
	good, n := true, 0
	funcInstrs(callee, func(in ssa.Instruction) {
		rt, isR := in.(*ssa.Return)
		if !isR || len(rt.Results) != 1 {
			return
		}
		for _, o := range c.originsLocal(retVal(rt, 0)) {
			n++
			if k, isK := constString(o); isK && k == "" {
				continue
			}
			u, isU := o.(*ssa.UnOp)
			if !isU || u.Op != token.MUL {
				good = false
				continue
			}
			ia, isIA := u.X.(*ssa.IndexAddr)
			if !isIA {
				good = false
				continue
			}
			if fv, _ := loadedField(ia.X); fv != argsF || argsF == nil {
				good = false
			}
			if _, isP := ia.Index.(*ssa.Parameter); !isP {
				good = false
			}
		}
	})
	return good && n > 0
}

// targetIndexValue: v is 0 or 1 on every path: a constant, a phi of such, or
// the result of a module function all of whose results are such (a result of
// -1, "no target", is accepted: it cannot be used as an index without a panic).
func (c *Ctx) targetIndexValue(v ssa.Value, depth int) bool {
	if depth > 4 {
		return false
	}
	if k, ok := constInt(v); ok {
		return k == 0 || k == 1 || (depth > 0 && k == -1)
	}
	switch t := v.(type) {
	case *ssa.Phi:
		for _, e := range t.Edges {
			if e != ssa.Value(t) && !c.targetIndexValue(e, depth+1) {
				return false
			}
		}
		return len(t.Edges) > 0
	case *ssa.Call:
		callee := t.Call.StaticCallee()
		if callee == nil || t.Call.IsInvoke() || !c.InModuleFn(callee) {
			return false
		}
		ok, n := true, 0
		funcInstrs(callee, func(in ssa.Instruction) {
			if rt, isR := in.(*ssa.Return); isR && len(rt.Results) == 1 {
				n++
				if !c.targetIndexValue(retVal(rt, 0), depth+1) {
					ok = false
				}
			}
		})
		return ok && n > 0
	}
	return false
}

// c01Accessors adds R8 (handlers get their own copy of the parsed line) and
// R9 (Public / Target decide on the unmodified target parameter).
func (c *Ctx) c01Accessors() {
	r := c.R
	r.Rule("R8", "what a handler receives is the parsed line: at every handler-invocation site the line argument is a forwarded parameter of a Handle wrapper or a Line.Copy made for that invocation alone; the three handler sets and all handlers of one event start from the same parsed line, so a shared pointer would let one handler's edits change what another receives")
	r.Rule("R10", "the source is split by position only: every decision in parseUserHost compares positions of '!' and '@' (strings.Index results, lengths, constants); the nick is the text before the FIRST '!' (the user part may contain more); no byte of the nick, ident or host is inspected, so no legal nick (the backtick that the default nick generator produces, say) can make a nick!user@host source fall back to 'host only'")
	r.Rule("R9", "Public decides on byte 0 of the unmodified target parameter (Args[0], or Args[1] for CTCP/CTCPREPLY) compared against exactly the four RFC channel prefixes '#' '&' '+' '!'; Target returns only the sender's nick, a parameter or \"\", and the nick only where Public answered false")
	copyFn := c.Func(c.Client, "(*Line).Copy")
	if r.Anchor("R8", "(*Line).Copy", copyFn != nil) {
		c.perInvocationCopy("R8", copyFn)
		r.Rule("R12", "no tag map at all when no tag section was sent - also in the copy a handler receives: every map Line.Copy (or a helper it fills the copy with) allocates for a map-typed field of Line is allocated only under 'the source's map is not nil'")
		c.copyKeepsNilMapRule("R12", copyFn)
	}
	c.positionalSplitRule("R10")
	r.Rule("R11", "a handler registered for the verb is found whatever letter case either side used and however late it was registered: every map of the handler set is keyed by lower-cased names (= C04.R1) and each dispatch walks a list snapshot built afresh under the set's lock (= C05.R5), never a cached one")
	c.handlerKeysRule("R11")
	pub := c.Func(c.Client, "(*Line).Public")
	tgt := c.Func(c.Client, "(*Line).Target")
	if !r.Anchor("R9", "(*Line).Public, (*Line).Target", pub != nil && tgt != nil) {
		return
	}
	reach := c.Closure([]*ssa.Function{pub}, func(from *ssa.Function, e Edge) bool {
		return e.Kind == EdgeCall && e.Callee.Package() == c.Client
	})
	nIdx := 0
	for _, fn := range reach.Order {
		r.Funcs[c.FuncKey(fn)] = true
		funcInstrs(fn, func(in ssa.Instruction) {
			var x, idx ssa.Value
			switch t := in.(type) {
			case *ssa.Lookup:
				x, idx = t.X, t.Index
			case *ssa.Index:
				x, idx = t.X, t.Index
			default:
				return
			}
			if b, ok := x.Type().Underlying().(*types.Basic); !ok || b.Info()&types.IsString == 0 {
				return
			}
			nIdx++
			key := fmt.Sprintf("channel-byte:%s#%d", c.FuncKey(fn), nIdx)
			if k, ok := constInt(idx); !ok || k != 0 {
				r.Add("R9", key, c.InstrPos(in), c.FuncKey(fn), "the channel-type byte is byte 0 of the target", false, "index is not the constant 0")
				return
			}
			okSrc, whySrc := true, ""
			for _, o := range c.Origins(x) {
				if k, ok := c.argsElem(o); ok && (k == 0 || k == 1) {
					whySrc += fmt.Sprintf(" Args[%d]", k)
					continue
				}
				okSrc = false
				whySrc = "the examined text is not the target parameter itself but " + o.String()
				break
			}
			r.Add("R9", key+":source", c.InstrPos(in), c.FuncKey(fn), "the examined text is the unmodified target parameter", okSrc, whySrc)
			// what the byte is compared with
			set := map[byte]bool{}
			okUse, whyUse := true, ""
			var uses func(v ssa.Value, depth int)
			uses = func(v ssa.Value, depth int) {
				if v.Referrers() == nil || depth > 3 {
					return
				}
				for _, ref := range *v.Referrers() {
					switch t := ref.(type) {
					case *ssa.DebugRef:
					case *ssa.BinOp:
						other := t.Y
						if other == v {
							other = t.X
						}
						k, isC := other.(*ssa.Const)
						if (t.Op == token.EQL || t.Op == token.NEQ) && isC && k.Value != nil && k.Value.Kind() == constant.Int {
							n, _ := constant.Int64Val(k.Value)
							set[byte(n)] = true
							continue
						}
						okUse, whyUse = false, "the byte is used in "+t.String()
					case *ssa.Convert:
						uses(t, depth+1)
					case *ssa.Phi:
						uses(t, depth+1)
					case *ssa.Call:
						name := calleeName(&t.Call)
						switch name {
						case "strings.IndexByte", "strings.ContainsRune", "strings.IndexRune", "bytes.IndexByte":
							if s, ok := constString(t.Call.Args[0]); ok {
								for i := 0; i < len(s); i++ {
									set[s[i]] = true
								}
								continue
							}
						}
						okUse, whyUse = false, "the byte is passed to "+name
					default:
						okUse, whyUse = false, "the byte is used by "+ref.String()
					}
				}
			}
			uses(in.(ssa.Value), 0)
			var got []string
			for b := range set {
				got = append(got, string(rune(b)))
			}
			sort.Strings(got)
			want := map[byte]bool{'#': true, '&': true, '+': true, '!': true}
			if okUse {
				if len(set) != len(want) {
					okUse = false
				}
				for b := range want {
					if !set[b] {
						okUse = false
					}
				}
				whyUse = fmt.Sprintf("compared with %q", got)
			}
			r.Add("R9", key+":prefixes", c.InstrPos(in), c.FuncKey(fn), "the byte is compared with exactly # & + !", okUse, whyUse)
		})
	}
	r.Floor("R9", "channel-type byte tests in Public", nIdx, 1)

	// Target
	r.Funcs[c.FuncKey(tgt)] = true
	nickF := c.FieldVar(c.Client, "Line", "Nick")
	nRet := 0
	funcInstrs(tgt, func(in ssa.Instruction) {
		rt, ok := in.(*ssa.Return)
		if !ok || len(rt.Results) != 1 {
			return
		}
		for _, o := range c.Origins(retVal(rt, 0)) {
			nRet++
			key := fmt.Sprintf("target-return#%d", nRet)
			if s, ok := constString(o); ok && s == "" {
				r.Add("R9", key, c.InstrPos(rt), c.FuncKey(tgt), "Target returns \"\" when there is no parameter", true, "constant \"\"")
				continue
			}
			if _, ok := c.argsElem(o); ok {
				r.Add("R9", key, c.InstrPos(rt), c.FuncKey(tgt), "Target returns a parameter unchanged", true, o.String())
				continue
			}
			if c.argAccessorCall(o) {
				r.Add("R9", key, c.InstrPos(rt), c.FuncKey(tgt), "Target returns a parameter unchanged (through an accessor that yields Args[i] or \"\")", true, o.String())
				continue
			}
			if fv, _ := loadedField(o); fv != nil && fv == nickF {
				// must be on the false edge of a Public() call
				where := rt.Block()
				if oi, ok := o.(ssa.Instruction); ok {
					where = oi.Block()
				}
				okP := false
				for _, cd := range append(CondsAt(where), CondsAt(rt.Block())...) {
					cd = unwrapNot(cd)
					if call, ok := cd.V.(*ssa.Call); ok && call.Call.StaticCallee() == pub && !cd.True {
						okP = true
					}
				}
				r.Add("R9", key, c.InstrPos(rt), c.FuncKey(tgt), "the sender's nick is the target only where Public() answered false", okP, "Line.Nick returned at a point not dominated by the false edge of a Public() call")
				continue
			}
			r.Add("R9", key, c.InstrPos(rt), c.FuncKey(tgt), "Target returns the nick, a parameter or \"\"", false, "returns "+o.String())
		}
	})
	r.Floor("R9", "return values of Target", nRet, 3)
}

// positionalSplitRule: parseUserHost decides and splits by the positions of
// '!' and '@' alone - no byte of the nick, ident or host is inspected, so any
// nick the server (or the library's own nick generator) produces is accepted.
func (c *Ctx) positionalSplitRule(rule string) {
	r := c.R
	fn := c.Func(c.Client, "parseUserHost")
	if !r.Anchor(rule, "parseUserHost", fn != nil) {
		return
	}
	r.Funcs[c.FuncKey(fn)] = true
	var positional func(v ssa.Value, d int) (bool, string)
	positional = func(v ssa.Value, d int) (bool, string) {
		if d > 8 {
			return false, "expression too deep"
		}
		switch t := v.(type) {
		case *ssa.Const:
			return true, ""
		case *ssa.BinOp:
			if ok, w := positional(t.X, d+1); !ok {
				return false, w
			}
			return positional(t.Y, d+1)
		case *ssa.UnOp:
			if t.Op == token.NOT || t.Op == token.SUB {
				return positional(t.X, d+1)
			}
			return false, "depends on " + v.String()
		case *ssa.Phi:
			for _, e := range t.Edges {
				if ok, w := positional(e, d+1); !ok {
					return false, w
				}
			}
			return true, ""
		case *ssa.Call:
			if b, ok := t.Call.Value.(*ssa.Builtin); ok && b.Name() == "len" {
				return true, ""
			}
			switch calleeName(&t.Call) {
			case "strings.Index", "strings.IndexByte", "strings.LastIndex", "strings.IndexRune", "strings.IndexAny", "strings.LastIndexByte":
				if _, isK := t.Call.Args[1].(*ssa.Const); isK {
					return true, ""
				}
			}
			return false, "depends on the result of " + calleeName(&t.Call)
		case *ssa.Extract:
			if call, ok := t.Tuple.(*ssa.Call); ok && calleeName(&call.Call) == "strings.Cut" && t.Index == 2 {
				return true, ""
			}
			return false, "depends on " + v.String()
		}
		return false, "depends on " + v.String() + " (content of the source, not a position)"
	}
	n := 0
	funcInstrs(fn, func(in ssa.Instruction) {
		iff, ok := in.(*ssa.If)
		if !ok {
			return
		}
		n++
		okP, why := positional(iff.Cond, 0)
		if okP {
			why = "compares positions of the separators only"
		}
		r.Add(rule, fmt.Sprintf("positional#%d", n), c.InstrPos(iff), c.FuncKey(fn), "whether a source splits into nick!user@host depends only on where '!' and '@' are", okP, why)
	})
	r.Floor(rule, "decisions in parseUserHost", n, 1)
	// the nick ends at the FIRST '!': RFC 2812 lets the user part contain '!' but not the nick
	bang := func(v ssa.Value) bool {
		if s, ok := constString(v); ok {
			return s == "!"
		}
		k, ok := constInt(v)
		return ok && k == '!'
	}
	var firstBang func(v ssa.Value, d int) bool
	firstBang = func(v ssa.Value, d int) bool {
		if d > 4 {
			return false
		}
		switch t := v.(type) {
		case *ssa.Const:
			s, ok := constString(t)
			return ok && s == ""
		case *ssa.Phi:
			for _, e := range t.Edges {
				if !firstBang(e, d+1) {
					return false
				}
			}
			return len(t.Edges) > 0
		case *ssa.Slice:
			if t.Low != nil || t.High == nil {
				return false
			}
			call, ok := t.High.(*ssa.Call)
			if !ok {
				return false
			}
			switch calleeName(&call.Call) {
			case "strings.Index", "strings.IndexByte", "strings.IndexRune":
				return call.Call.Args[0] == t.X && bang(call.Call.Args[1])
			}
		case *ssa.Extract:
			if call, ok := t.Tuple.(*ssa.Call); ok && calleeName(&call.Call) == "strings.Cut" && t.Index == 0 {
				return bang(call.Call.Args[1])
			}
		case *ssa.UnOp:
			// element 0 of SplitN(x, "!", 2)
			if ia, ok := t.X.(*ssa.IndexAddr); ok && t.Op == token.MUL {
				if k, okK := constInt(ia.Index); okK && k == 0 {
					if call, okC := ia.X.(*ssa.Call); okC && (calleeName(&call.Call) == "strings.SplitN" || calleeName(&call.Call) == "strings.Split") {
						return bang(call.Call.Args[1])
					}
				}
			}
		}
		return false
	}
	nRet := 0
	funcInstrs(fn, func(in ssa.Instruction) {
		rt, ok := in.(*ssa.Return)
		if !ok || len(rt.Results) < 1 {
			return
		}
		nRet++
		v := retVal(rt, 0)
		r.Add(rule, fmt.Sprintf("nick-first-bang#%d", nRet), c.InstrPos(rt), c.FuncKey(fn), "the nick returned is the source up to its first '!' (or empty)", firstBang(v, 0), "nick result is "+v.String())
	})
}

// copyKeepsNilMapRule: C01.R12.
func (c *Ctx) copyKeepsNilMapRule(rule string, copyFn *ssa.Function) {
	r := c.R
	n := 0
	// guarded: m's block is dominated by a test "v != nil" where v is a map-typed load of a field of a parameter,
	// or a map-typed parameter itself
	guarded := func(fn *ssa.Function, m ssa.Instruction) (bool, string) {
		for _, cd := range CondsAt(m.Block()) {
			cd = unwrapNot(cd)
			bo, ok := cd.V.(*ssa.BinOp)
			if !ok || (bo.Op != token.NEQ && bo.Op != token.EQL) {
				continue
			}
			var other ssa.Value
			if isNilConst(bo.Y) {
				other = bo.X
			} else if isNilConst(bo.X) {
				other = bo.Y
			} else {
				continue
			}
			if _, isMap := other.Type().Underlying().(*types.Map); !isMap {
				continue
			}
			if (bo.Op == token.NEQ) != cd.True {
				continue // the nil side
			}
			if _, isP := other.(*ssa.Parameter); isP {
				return true, "under " + other.Name() + " != nil"
			}
			if fv, base := loadedField(other); fv != nil {
				if _, isP := base.(*ssa.Parameter); isP {
					return true, "under " + fv.Name() + " != nil"
				}
			}
		}
		return false, "the map is allocated whether or not the source has one: a line without tags gets an empty tag map"
	}
	var scan func(fn *ssa.Function, depth int)
	seen := map[*ssa.Function]bool{}
	scan = func(fn *ssa.Function, depth int) {
		if fn == nil || seen[fn] || depth > 2 || !c.InModuleFn(fn) {
			return
		}
		seen[fn] = true
		funcInstrs(fn, func(in ssa.Instruction) {
			switch t := in.(type) {
			case *ssa.MakeMap:
				n++
				ok, why := guarded(fn, t)
				r.Add(rule, fmt.Sprintf("copy-map#%d:%s", n, c.FuncKey(fn)), c.InstrPos(t), c.FuncKey(fn), "a map in the copy exists only if the source has one", ok, why)
			case *ssa.Call:
				if cal := t.Call.StaticCallee(); cal != nil && !t.Call.IsInvoke() && cal.Package() == c.Client {
					if _, isMap := t.Type().Underlying().(*types.Map); isMap {
						scan(cal, depth+1)
					}
				}
			}
		})
	}
	scan(copyFn, 0)
	hasMapField := false
	if st, ok := c.A.Line.Underlying().(*types.Struct); ok {
		for i := 0; i < st.NumFields(); i++ {
			if _, isMap := st.Field(i).Type().Underlying().(*types.Map); isMap {
				hasMapField = true
			}
		}
	}
	if hasMapField {
		r.Floor(rule, "map allocations in Line.Copy", n, 1)
	}
}
