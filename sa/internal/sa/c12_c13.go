package sa

import (
	"fmt"
	"go/constant"
	"go/token"
	"go/types"
	"sort"
	"strings"

	"golang.org/x/tools/go/ssa"
)

func init() {
	register(&PropertySpec{
		ID:        "C12",
		Technique: "effect classification of map writes; balanced two-sided edits, ownership, rename re-keying, garbage-collection and self-protection path rules; no-overwrite dominance; argument-consumption pairing in mode parsing (static analysis)",
		Explain: "Equality with a relational model over all operation histories is a value/heap-shape property and is NOT decided. Decided are structural disciplines the model relies on, each a necessary condition: membership is edited on both sides together with the same privilege pointer; the four membership maps are written only by the edit functions, constructors and the rename; a successful rename re-keys the nick map and every channel's lookup; nicks left without channels are collected, never the client itself (guard on every call chain); the client's own record is never replaced; inserting into the nick/channel map never overwrites an existing entry; Wipe deletes every tracked channel; in mode parsing every path that writes state from a mode argument also consumes that argument. " +
			"Not decided: mode-string semantics, return values, operation sequences as such.",
		Assume: []string{"field/type-based aliasing: the four membership maps are reached only through their struct fields"},
		Run:    runC12,
	})
	register(&PropertySpec{
		ID:        "C13",
		Technique: "protocol-to-tracker effect table over resolved call sites with argument provenance and guard whitelist; guard dominance for channel/nick creation (static analysis)",
		Explain:   "Equality of tracked state with the server's ground truth over sessions is NOT decided. Decided is the translation layer: for every state-changing verb the registered handler calls the tracker method the protocol prescribes with arguments taken from the prescribed parts of the line, guarded only by the listed guard kinds (argument count, known channel/nick, own-nick test); channels are created only for the client's own join and are followed by an association; new nicks are always associated; plus the tracker-side safety rules shared with C12 (rename re-keys, GC, self-protection, no overwrite, mode-argument consumption) and the wipe on every connect (C07.R4).",
		Assume:    []string{"RFC 2812 / numeric parameter layouts as embedded in the table", "C12's structural rules (shared code)"},
		Run:       runC13,
	})
}

// ---------- map operations ----------

type mapOp struct {
	In    ssa.Instruction
	Kind  string // update | delete | lookup | range
	Field *types.Var
	Base  ssa.Value // the struct pointer the map field belongs to
	Key   ssa.Value
	Val   ssa.Value
	Map   ssa.Value
}

func mapFieldOf(m ssa.Value) (*types.Var, ssa.Value) {
	fv, base := loadedField(m)
	if fv == nil {
		return nil, nil
	}
	if _, ok := fv.Type().Underlying().(*types.Map); !ok {
		return nil, nil
	}
	return fv, base
}

func mapOps(fn *ssa.Function) []mapOp {
	var out []mapOp
	funcInstrs(fn, func(in ssa.Instruction) {
		switch t := in.(type) {
		case *ssa.MapUpdate:
			if fv, b := mapFieldOf(t.Map); fv != nil {
				out = append(out, mapOp{in, "update", fv, b, t.Key, t.Value, t.Map})
			}
		case *ssa.Lookup:
			if fv, b := mapFieldOf(t.X); fv != nil {
				out = append(out, mapOp{in, "lookup", fv, b, t.Index, nil, t.X})
			}
		case *ssa.Range:
			if fv, b := mapFieldOf(t.X); fv != nil {
				out = append(out, mapOp{in, "range", fv, b, nil, nil, t.X})
			}
		case *ssa.Call:
			if bi, ok := t.Call.Value.(*ssa.Builtin); ok && bi.Name() == "delete" {
				if fv, b := mapFieldOf(t.Call.Args[0]); fv != nil {
					out = append(out, mapOp{in, "delete", fv, b, t.Call.Args[1], nil, t.Call.Args[0]})
				}
			}
		}
	})
	return out
}

type trackerModel struct {
	c                                    *Ctx
	chNicks, chLookup, nkChans, nkLookup *types.Var
	stNicks, stChans, stMe               *types.Var
	chanAdd, chanDel, nickAdd, nickDel   map[*ssa.Function]bool
	delNickFn, delChanFn                 *ssa.Function // functions deleting from st.nicks / st.chans
	funcs                                []*ssa.Function
}

func (c *Ctx) newTrackerModel() *trackerModel {
	m := &trackerModel{c: c, chanAdd: map[*ssa.Function]bool{}, chanDel: map[*ssa.Function]bool{}, nickAdd: map[*ssa.Function]bool{}, nickDel: map[*ssa.Function]bool{}}
	m.chNicks = c.FieldVar(c.State, "channel", "nicks")
	m.chLookup = c.FieldVar(c.State, "channel", "lookup")
	m.nkChans = c.FieldVar(c.State, "nick", "chans")
	m.nkLookup = c.FieldVar(c.State, "nick", "lookup")
	m.stNicks = c.FieldVar(c.State, "stateTracker", "nicks")
	m.stChans = c.FieldVar(c.State, "stateTracker", "chans")
	m.stMe = c.FieldVar(c.State, "stateTracker", "me")
	m.funcs = c.stateFuncs()
	for _, fn := range m.funcs {
		up, del := map[*types.Var]bool{}, map[*types.Var]bool{}
		for _, op := range mapOps(fn) {
			if c.allOriginsLocalAlloc(op.Base, fn) {
				continue
			}
			switch op.Kind {
			case "update":
				up[op.Field] = true
			case "delete":
				del[op.Field] = true
			}
		}
		if up[m.chNicks] && up[m.chLookup] && !up[m.stNicks] {
			m.chanAdd[fn] = true
		}
		if del[m.chNicks] && del[m.chLookup] {
			m.chanDel[fn] = true
		}
		if up[m.nkChans] && up[m.nkLookup] {
			m.nickAdd[fn] = true
		}
		if del[m.nkChans] && del[m.nkLookup] {
			m.nickDel[fn] = true
		}
		if del[m.stNicks] && !up[m.stNicks] {
			m.delNickFn = fn
		}
		if del[m.stChans] {
			m.delChanFn = fn
		}
	}
	return m
}

func (m *trackerModel) ok() bool {
	return m.chNicks != nil && m.chLookup != nil && m.nkChans != nil && m.nkLookup != nil && m.stNicks != nil && m.stChans != nil && m.stMe != nil &&
		len(m.chanAdd) == 1 && len(m.chanDel) == 1 && len(m.nickAdd) == 1 && len(m.nickDel) == 1 && m.delNickFn != nil && m.delChanFn != nil
}

func sameBlockOrPaired(c *Ctx, a, b ssa.Instruction) bool {
	if a.Block() == b.Block() {
		return true
	}
	return c.OncePer(a, b) || c.OncePer(b, a)
}

// trackerRules evaluates the tracker-side structural rules; ruleMap maps the
// canonical C12 rule ids to the ids used by the calling property.
func (c *Ctx) trackerRules(rm map[string]string) {
	r := c.R
	m := c.newTrackerModel()
	r.Anchor(rm["R1"], "tracker model: four membership maps, nick/channel maps, me, and the four edit functions classified by their write effects", m.ok())
	if !m.ok() {
		r.Note("edit functions found: chanAdd=%d chanDel=%d nickAdd=%d nickDel=%d delNick=%v delChan=%v", len(m.chanAdd), len(m.chanDel), len(m.nickAdd), len(m.nickDel), m.delNickFn != nil, m.delChanFn != nil)
		return
	}
	one := func(s map[*ssa.Function]bool) *ssa.Function {
		for f := range s {
			return f
		}
		return nil
	}
	chanAdd, chanDel, nickAdd, nickDel := one(m.chanAdd), one(m.chanDel), one(m.nickAdd), one(m.nickDel)
	for _, f := range []*ssa.Function{chanAdd, chanDel, nickAdd, nickDel, m.delNickFn, m.delChanFn} {
		r.Funcs[c.FuncKey(f)] = true
	}
	// ---- R1 (inside the edit functions): both maps of a side are edited in the same block
	if id := rm["R1"]; id != "" {
		for _, fn := range []*ssa.Function{chanAdd, chanDel, nickAdd, nickDel} {
			ops := mapOps(fn)
			var w []mapOp
			for _, op := range ops {
				if op.Kind == "update" || op.Kind == "delete" {
					w = append(w, op)
				}
			}
			ok := len(w) == 2 && w[0].In.Block() == w[1].In.Block() && w[0].Field != w[1].Field && w[0].Kind == w[1].Kind
			r.Add(id, "edit-atomic:"+c.FuncKey(fn), c.Pos(fn.Pos()), c.FuncKey(fn), "both maps of one side are edited together", ok, fmt.Sprintf("%d map writes", len(w)))
		}
		// call sites: channel-side and nick-side edits paired
		nPairs := 0
		for _, fn := range m.funcs {
			var cs []ssa.CallInstruction
			for _, x := range CallSites(fn) {
				if cal := x.Common().StaticCallee(); cal == chanAdd || cal == chanDel || cal == nickAdd || cal == nickDel {
					cs = append(cs, x)
				}
			}
			for _, x := range cs {
				cal := x.Common().StaticCallee()
				var want *ssa.Function
				switch cal {
				case chanAdd:
					want = nickAdd
				case chanDel:
					want = nickDel
				case nickAdd:
					want = chanAdd
				case nickDel:
					want = chanDel
				}
				ax := x.Common().Args
				found := false
				for _, y := range cs {
					if y.Common().StaticCallee() != want {
						continue
					}
					ay := y.Common().Args
					if len(ax) < 2 || len(ay) < 2 || ax[0] != ay[1] || ax[1] != ay[0] {
						continue
					}
					if len(ax) > 2 && (len(ay) < 3 || ax[2] != ay[2]) {
						continue // different privilege pointer
					}
					if sameBlockOrPaired(c, x, y) {
						found = true
					}
				}
				nPairs++
				r.Add(id, fmt.Sprintf("paired:%s:%s", c.FuncKey(fn), cal.Name()), c.InstrPos(x), c.FuncKey(fn), "membership edit "+cal.Name()+" is paired with the other side's edit for the same channel, nick and privilege pointer", found, "counterpart "+want.Name())
			}
		}
		r.Floor(id, "membership edit call sites", nPairs, 4)
	}
	// ---- R2 ownership
	if id := rm["R2"]; id != "" {
		n := 0
		renHelpers := c.renameHelpers()
		for _, fn := range m.funcs {
			for _, op := range mapOps(fn) {
				if op.Kind != "update" && op.Kind != "delete" {
					continue
				}
				if op.Field != m.chNicks && op.Field != m.chLookup && op.Field != m.nkChans && op.Field != m.nkLookup {
					continue
				}
				n++
				if c.allOriginsLocalAlloc(op.Base, fn) {
					continue
				}
				ok := fn == chanAdd || fn == chanDel || fn == nickAdd || fn == nickDel || (renHelpers[fn] && op.Field == m.chLookup)
				r.Add(id, fmt.Sprintf("owner:%s:%s:%s", c.FuncKey(fn), op.Field.Name(), op.Kind), c.InstrPos(op.In), c.FuncKey(fn), "membership maps are written only by the edit functions, constructors and the rename's re-keying", ok, "write in "+c.FuncKey(fn))
			}
		}
		r.Floor(id, "writes to the membership maps", n, 8)
	}
	// ---- R3 rename
	if id := rm["R3"]; id != "" {
		c.renameRule(id, m)
	}
	// ---- R4 GC
	if id := rm["R4"]; id != "" {
		c.gcRule(id, m, nickDel)
	}
	// ---- R5 self never deleted
	if id := rm["R5"]; id != "" {
		c.selfRule(id, m)
	}
	// ---- R6 Wipe
	if id := rm["R6"]; id != "" {
		wipe := c.lockedBody(c.Func(c.State, "(*stateTracker).Wipe"))
		ok, why := false, "Wipe not found"
		if wipe != nil {
			r.Funcs[c.FuncKey(wipe)] = true
			why = "Wipe does not range over the tracker's channel map deleting each channel"
			for _, op := range mapOps(wipe) {
				if op.Kind == "range" && op.Field == m.stChans {
					// loop body calls delChan with the range value
					for _, cs := range CallSites(wipe) {
						if cs.Common().StaticCallee() == m.delChanFn && c.LoopDepth(cs.Block()) == 1 {
							if ex, isE := cs.Common().Args[1].(*ssa.Extract); isE {
								if nx, isN := ex.Tuple.(*ssa.Next); isN && nx.Iter == ssa.Value(op.In.(*ssa.Range)) {
									ok, why = true, "ranges over st.chans, deleting each channel"
								}
							}
						}
					}
				}
			}
		}
		if !ok && wipe != nil {
			// ... or over a snapshot of the table taken by a helper that collects every channel of it
			for _, cs := range CallSites(wipe) {
				if cs.Common().StaticCallee() != m.delChanFn || c.LoopDepth(cs.Block()) != 1 || len(cs.Common().Args) < 2 {
					continue
				}
				ld, isLd := cs.Common().Args[1].(*ssa.UnOp)
				if !isLd || ld.Op != token.MUL {
					continue
				}
				ia, isIA := ld.X.(*ssa.IndexAddr)
				if !isIA {
					continue
				}
				hc, isHC := ia.X.(*ssa.Call)
				if !isHC || hc.Call.IsInvoke() || hc.Call.StaticCallee() == nil || !c.InModuleFn(hc.Call.StaticCallee()) {
					continue
				}
				h := hc.Call.StaticCallee()
				collects := false
				for _, op := range mapOps(h) {
					if op.Kind != "range" || op.Field != m.stChans {
						continue
					}
					// every element of the range is appended to what the helper returns
					funcInstrs(h, func(in ssa.Instruction) {
						call, isC := in.(*ssa.Call)
						if !isC {
							return
						}
						if b, isB := call.Call.Value.(*ssa.Builtin); !isB || b.Name() != "append" || c.LoopDepth(call.Block()) != 1 {
							return
						}
						for _, el := range c.varargElems(call.Call.Args[1]) {
							if ex, isE := el.(*ssa.Extract); isE {
								if nx, isN := ex.Tuple.(*ssa.Next); isN && nx.Iter == ssa.Value(op.In.(*ssa.Range)) {
									if all, _ := AllPathsFromEntryPass(h, func(y ssa.Instruction) bool { return y == op.In }); all {
										collects = true
									}
								}
							}
						}
					})
				}
				if collects {
					ok, why = true, "ranges over a snapshot of st.chans taken by "+c.FuncKey(h)+", deleting each channel"
				}
			}
		}
		r.Add(id, "wipe-all-channels", posFn(c, wipe), "(*state.stateTracker).Wipe", "Wipe forgets every tracked channel", ok, why)
	}
	// ---- R7 me never replaced
	if id := rm["R7"]; id != "" {
		n := 0
		for _, fn := range m.funcs {
			funcInstrs(fn, func(in ssa.Instruction) {
				s, ok := in.(*ssa.Store)
				if !ok {
					return
				}
				fv, base := fieldOf(s.Addr)
				if fv != m.stMe {
					return
				}
				n++
				okC := c.allOriginsLocalAlloc(base, fn)
				r.Add(id, "me-store:"+c.FuncKey(fn), c.InstrPos(s), c.FuncKey(fn), "the client's own record is set only while constructing the tracker", okC, "store to me in "+c.FuncKey(fn))
			})
		}
		r.Floor(id, "stores to stateTracker.me", n, 1)
	}
	// ---- R8 no overwrite
	if id := rm["R8"]; id != "" {
		n := 0
		for _, fn := range m.funcs {
			ops := mapOps(fn)
			for _, op := range ops {
				if op.Kind != "update" || (op.Field != m.stNicks && op.Field != m.stChans) {
					continue
				}
				if c.allOriginsLocalAlloc(op.Base, fn) {
					continue
				}
				n++
				ok := false
				for _, cd := range CondsAt(op.In.Block()) {
					cd = unwrapNot(cd)
					// the table holds no nil entries (every insertion stores a fresh record): "m[k] == nil" is "not found"
					if bo, isB := cd.V.(*ssa.BinOp); isB && (bo.Op == token.EQL || bo.Op == token.NEQ) && (bo.Op == token.EQL) == cd.True {
						var other ssa.Value
						if isNilConst(bo.Y) {
							other = bo.X
						} else if isNilConst(bo.X) {
							other = bo.Y
						}
						if lk, isL := other.(*ssa.Lookup); isL && !lk.CommaOk {
							if fv, _ := mapFieldOf(lk.X); fv == op.Field && lk.Index == op.Key {
								ok = true
							}
						}
					}
					ex, isE := cd.V.(*ssa.Extract)
					if !isE || ex.Index != 1 || cd.True {
						continue
					}
					lk, isL := ex.Tuple.(*ssa.Lookup)
					if !isL {
						continue
					}
					if fv, _ := mapFieldOf(lk.X); fv == op.Field && lk.Index == op.Key {
						ok = true
					}
				}
				r.Add(id, fmt.Sprintf("no-overwrite:%s:%s", c.FuncKey(fn), op.Field.Name()), c.InstrPos(op.In), c.FuncKey(fn), "an entry is inserted only after a lookup of the same key found nothing", ok, "dominated by the not-found edge of a lookup of the same key")
			}
		}
		r.Floor(id, "insertions into the nick/channel maps", n, 3)
	}
	// ---- R9 mode-argument consumption
	if id := rm["R9"]; id != "" {
		c.modeArgRule(id)
	}
	// ---- R10 answers are built from live state on every call
	if id := rm["R10"]; id != "" {
		trk := c.Named(c.State, "stateTracker")
		fc := c.newFresh()
		n := 0
		if trk != nil {
			ms := c.SSA.MethodSets.MethodSet(types.NewPointer(trk))
			for i := 0; i < ms.Len(); i++ {
				if !ms.At(i).Obj().Exported() {
					continue
				}
				fn := c.SSA.MethodValue(ms.At(i))
				if fn == nil || fn.Blocks == nil {
					continue
				}
				for ri := 0; ri < fn.Signature.Results().Len(); ri++ {
					if !isRefType(fn.Signature.Results().At(ri).Type()) {
						continue
					}
					n++
					ok := fc.funcDeepFresh(fn, ri, 0)
					why := "built from the tracker's state on this call"
					if !ok {
						why = fc.why
					}
					r.Add(id, fmt.Sprintf("answer-fresh:%s#%d", fn.Name(), ri), c.Pos(fn.Pos()), c.FuncKey(fn), "the answer is a new snapshot of the current state (no cached or shared value can go stale)", ok, why)
				}
			}
		}
		r.Floor(id, "snapshot-returning tracker methods", n, 10)
	}
}

func posFn(c *Ctx, fn *ssa.Function) string {
	if fn == nil {
		return "-"
	}
	return c.Pos(fn.Pos())
}

// renameRule: every non-nil return of ReNick is preceded by the name store,
// the nick-map delete(old) and update(neu) of the same object, and a range
// over the nick's channels whose body deletes old and stores neu in the
// channel's lookup.
// renStep is one effect of the rename, found in ReNick itself or in an
// unexported helper it calls (ctx = the chain of call sites from ReNick down).
type renStep struct {
	in  ssa.Instruction
	ctx []ssa.CallInstruction
}

func (s renStep) top() ssa.Instruction {
	if len(s.ctx) > 0 {
		return s.ctx[0]
	}
	return s.in
}

// renResolve follows parameters of helper instances back to the arguments of
// the call sites in ctx.
func renResolve(v ssa.Value, ctx []ssa.CallInstruction) (ssa.Value, []ssa.CallInstruction) {
	for len(ctx) > 0 {
		pr, ok := v.(*ssa.Parameter)
		if !ok {
			return v, ctx
		}
		cs := ctx[len(ctx)-1]
		callee := cs.Common().StaticCallee()
		idx := -1
		for i, q := range callee.Params {
			if q == pr {
				idx = i
			}
		}
		if idx < 0 || idx >= len(cs.Common().Args) {
			return v, ctx
		}
		v, ctx = cs.Common().Args[idx], ctx[:len(ctx)-1]
	}
	return v, ctx
}

// renBefore: step a executes before step b on every path that executes both
// (compared at the deepest function instance they share).
func renBefore(a, b renStep) bool {
	p := 0
	for p < len(a.ctx) && p < len(b.ctx) && a.ctx[p] == b.ctx[p] {
		p++
	}
	ia, ib := a.in, b.in
	if len(a.ctx) > p {
		ia = a.ctx[p]
	}
	if len(b.ctx) > p {
		ib = b.ctx[p]
	}
	return ia != ib && instrDominates(ia, ib)
}

func (c *Ctx) renameRule(id string, m *trackerModel) {
	r := c.R
	fn := c.lockedBody(c.Func(c.State, "(*stateTracker).ReNick"))
	r.Anchor(id, "(*stateTracker).ReNick", fn != nil)
	if fn == nil {
		return
	}
	r.Funcs[c.FuncKey(fn)] = true
	old, neu := ssa.Value(fn.Params[1]), ssa.Value(fn.Params[2])
	nameVar := c.FieldVar(c.State, "nick", "nick")
	// function instances: ReNick and the unexported state helpers it calls, two levels deep
	type inst struct {
		fn  *ssa.Function
		ctx []ssa.CallInstruction
	}
	insts := []inst{{fn, nil}}
	for i := 0; i < len(insts); i++ {
		if len(insts[i].ctx) >= 2 {
			continue
		}
		for _, cs := range CallSites(insts[i].fn) {
			cal := cs.Common().StaticCallee()
			if cal == nil || cs.Common().IsInvoke() || cal.Package() != c.State || !c.InModuleFn(cal) || (cal.Object() != nil && cal.Object().Exported()) {
				continue
			}
			if _, isCall := cs.(*ssa.Call); !isCall {
				continue
			}
			insts = append(insts, inst{cal, append(append([]ssa.CallInstruction{}, insts[i].ctx...), cs)})
		}
	}
	res := func(v ssa.Value, ctx []ssa.CallInstruction) ssa.Value {
		v2, _ := renResolve(v, ctx)
		return v2
	}
	// the name store: nk.nick = neu
	var nameStore *renStep
	var nk ssa.Value
	nNameStores := 0
	for _, it := range insts {
		funcInstrs(it.fn, func(in ssa.Instruction) {
			if s, ok := in.(*ssa.Store); ok {
				if fv, base := fieldOf(s.Addr); fv == nameVar && !c.allOriginsLocalAlloc(base, it.fn) {
					nNameStores++
					if res(s.Val, it.ctx) == neu {
						nameStore = &renStep{in, it.ctx}
						nk = res(base, it.ctx)
					}
				}
			}
		})
	}
	// name(v): v is the new / old name of nk
	nameLoad := func(v ssa.Value, ctx []ssa.CallInstruction) (renStep, bool) {
		v2, ctx2 := renResolve(v, ctx)
		u, ok := v2.(*ssa.UnOp)
		if !ok || u.Op != token.MUL {
			return renStep{}, false
		}
		fv, base := fieldOf(u.X)
		if fv != nameVar || res(base, ctx2) != nk {
			return renStep{}, false
		}
		return renStep{u, ctx2}, true
	}
	isOld := func(v ssa.Value, ctx []ssa.CallInstruction) bool {
		if res(v, ctx) == old {
			return true
		}
		if ld, ok := nameLoad(v, ctx); ok && nameStore != nil && nNameStores == 1 {
			return renBefore(ld, *nameStore) // the name as it was before the store
		}
		return false
	}
	isNeu := func(v ssa.Value, ctx []ssa.CallInstruction) bool {
		if res(v, ctx) == neu {
			return true
		}
		if ld, ok := nameLoad(v, ctx); ok && nameStore != nil && nNameStores == 1 {
			return renBefore(*nameStore, ld)
		}
		return false
	}
	var del, upd, rng, loopDel, loopUpd *renStep
	var rngs []*renStep // every range over the nick's channels (a snapshot helper has one too)
	depthOf := func(st renStep) int {
		d := c.LoopDepth(st.in.Block())
		for _, cs := range st.ctx {
			d += c.LoopDepth(cs.Block())
		}
		return d
	}
	for _, it := range insts {
		for _, op := range mapOps(it.fn) {
			st := &renStep{op.In, it.ctx}
			switch {
			case op.Field == m.stNicks && op.Kind == "delete" && isOld(op.Key, it.ctx):
				del = st
			case op.Field == m.stNicks && op.Kind == "update" && isNeu(op.Key, it.ctx) && nk != nil && res(op.Val, it.ctx) == nk:
				upd = st
			case op.Kind == "range" && op.Field == m.nkChans && nk != nil && res(op.Base, it.ctx) == nk:
				rngs = append(rngs, st)
			case op.Field == m.chLookup && op.Kind == "delete" && isOld(op.Key, it.ctx) && depthOf(*st) == 1:
				loopDel = st
			case op.Field == m.chLookup && op.Kind == "update" && isNeu(op.Key, it.ctx) && nk != nil && res(op.Val, it.ctx) == nk && depthOf(*st) == 1:
				loopUpd = st
			}
		}
	}
	// the range that matters is the one whose body holds the lookup edits
	for _, cand := range rngs {
		if loopDel == nil {
			rng = cand
			break
		}
		if len(loopDel.ctx) < len(cand.ctx) {
			continue
		}
		same := true
		for i := range cand.ctx {
			if cand.ctx[i] != loopDel.ctx[i] {
				same = false
			}
		}
		var inBody ssa.Instruction = loopDel.in
		if len(loopDel.ctx) > len(cand.ctx) {
			inBody = loopDel.ctx[len(cand.ctx)]
		}
		if same && inBody.Parent() == cand.in.Parent() && blockDom(cand.in.Block(), inBody.Block()) {
			rng = cand
			break
		}
	}
	if rng == nil && len(rngs) > 0 {
		rng = rngs[0]
	}
	have := nameStore != nil && del != nil && upd != nil && rng != nil && loopDel != nil && loopUpd != nil
	r.Add(id, "rename-steps", c.Pos(fn.Pos()), c.FuncKey(fn), "ReNick (with its helpers) contains: name store, nick-map delete(old)+store(neu), range over the nick's channels with lookup delete(old)+store(neu)", have,
		fmt.Sprintf("name=%v del=%v upd=%v range=%v loopDel=%v loopUpd=%v", nameStore != nil, del != nil, upd != nil, rng != nil, loopDel != nil, loopUpd != nil))
	if !have {
		return
	}
	// both lookup edits happen once per iteration of the range over the nick's channels: they sit in the same block of
	// the same function instance, and the path down to them enters the range's body
	sameInst := len(loopDel.ctx) == len(loopUpd.ctx)
	for i := range loopDel.ctx {
		if sameInst && loopDel.ctx[i] != loopUpd.ctx[i] {
			sameInst = false
		}
	}
	okLoop := sameInst && loopDel.in.Block() == loopUpd.in.Block()
	if okLoop {
		var inBody ssa.Instruction = loopDel.in
		if len(loopDel.ctx) > len(rng.ctx) {
			inBody = loopDel.ctx[len(rng.ctx)]
		}
		okLoop = len(loopDel.ctx) >= len(rng.ctx) && blockDom(rng.in.Block(), inBody.Block()) && c.LoopDepth(inBody.Block()) == 1
		for i := range rng.ctx {
			if okLoop && rng.ctx[i] != loopDel.ctx[i] {
				okLoop = false
			}
		}
		// inside deeper helpers the edits are unconditional
		for lvl := len(rng.ctx) + 1; okLoop && lvl <= len(loopDel.ctx); lvl++ {
			hf := loopDel.ctx[lvl-1].Common().StaticCallee()
			var tgt1, tgt2 ssa.Instruction = loopDel.in, loopUpd.in
			if lvl < len(loopDel.ctx) {
				tgt1, tgt2 = loopDel.ctx[lvl], loopDel.ctx[lvl]
			}
			p1, _ := AllPathsFromEntryPass(hf, func(x ssa.Instruction) bool { return x == tgt1 })
			p2, _ := AllPathsFromEntryPass(hf, func(x ssa.Instruction) bool { return x == tgt2 })
			okLoop = p1 && p2
		}
	}
	r.Add(id, "rename-loop-body", c.InstrPos(loopDel.in), c.FuncKey(loopDel.in.Parent()), "each channel of the nick is re-keyed (delete old, store new in the same iteration)", okLoop, "both edits unconditionally inside the range over the nick's channels")
	// every success return passes all steps: the step (or the call leading to it) dominates the return, and inside
	// each helper on the way the next call / the step lies on every path
	funcInstrs(fn, func(in ssa.Instruction) {
		rt, ok := in.(*ssa.Return)
		if !ok || len(rt.Results) != 1 || isNilConst(retVal(rt, 0)) {
			return
		}
		okAll := true
		why := "all re-keying steps precede this success return on every path"
		for _, step := range []*renStep{nameStore, del, upd, rng} {
			if !instrDominates(step.top(), rt) {
				okAll, why = false, "success return not preceded by the step at "+c.InstrPos(step.in)
				continue
			}
			for lvl := 1; lvl <= len(step.ctx); lvl++ {
				hf := step.ctx[lvl-1].Common().StaticCallee()
				var tgt ssa.Instruction = step.in
				if lvl < len(step.ctx) {
					tgt = step.ctx[lvl]
				}
				if p, _ := AllPathsFromEntryPass(hf, func(x ssa.Instruction) bool { return x == tgt }); !p {
					okAll, why = false, "the step at "+c.InstrPos(step.in)+" is conditional inside "+c.FuncKey(hf)
				}
			}
		}
		r.Add(id, "rename-complete", c.InstrPos(rt), c.FuncKey(fn), "a successful rename has re-keyed everything", okAll, why)
	})
}

// renameHelpers: unexported state functions all of whose callers are ReNick
// or other such helpers (the rename's own re-keying code).
func (c *Ctx) renameHelpers() map[*ssa.Function]bool {
	out := map[*ssa.Function]bool{}
	renick := c.lockedBody(c.Func(c.State, "(*stateTracker).ReNick"))
	if renick == nil {
		return out
	}
	out[renick] = true
	for changed := true; changed; {
		changed = false
		for _, fn := range c.stateFuncs() {
			if out[fn] || fn.Object() == nil || fn.Object().Exported() || addrTaken(fn) {
				continue
			}
			sites := c.staticCallers(fn)
			if len(sites) == 0 {
				continue
			}
			all := true
			for _, cs := range sites {
				if !out[cs.Parent()] {
					all = false
				}
			}
			if all {
				out[fn] = true
				changed = true
			}
		}
	}
	return out
}

// gcRule: after a nick-side delete (outside the nick deletion itself) the
// nick is collected when it has no channels left.
func (c *Ctx) gcRule(id string, m *trackerModel, nickDel *ssa.Function) {
	r := c.R
	n := 0
	for _, fn := range m.funcs {
		if fn == m.delNickFn {
			continue
		}
		for _, cs := range CallSites(fn) {
			if cs.Common().StaticCallee() != nickDel {
				continue
			}
			n++
			nk := cs.Common().Args[0]
			// a later test len(nk.chans) == 0 whose true edge calls delNickFn(nk)
			ok, why := false, "no emptiness test of the nick's channel set leading to its deletion"
			for x := range ReachFrom(cs, false, nil) {
				call, isC := x.(*ssa.Call)
				if !isC || len(call.Call.Args) < 2 || call.Call.Args[1] != nk {
					continue
				}
				if cal := call.Call.StaticCallee(); cal != m.delNickFn {
					// ... or a wrapper that deletes the nick it is given unless it is the client's own record
					wraps := false
					if cal != nil && c.InModuleFn(cal) && cal.Package() == c.State && cal.Blocks != nil && len(cal.Params) == 2 {
						for _, y := range CallSites(cal) {
							if y.Common().StaticCallee() == m.delNickFn && len(y.Common().Args) == 2 && y.Common().Args[1] == ssa.Value(cal.Params[1]) {
								onlyMe := true
								for _, cd := range CondsAt(y.Block()) {
									if _, _, okMe := c.meCompare(cd, m.stMe); !okMe {
										onlyMe = false
									}
								}
								if onlyMe {
									wraps = true
								}
							}
						}
					}
					if !wraps {
						continue
					}
				}
				for _, cd := range CondsAt(call.Block()) {
					cd = unwrapNot(cd)
					bo, isB := cd.V.(*ssa.BinOp)
					if !isB {
						continue
					}
					// ... or the count of remaining channels that the nick-side delete itself hands back
					remaining := false
					if call0, isCall0 := cs.(*ssa.Call); isCall0 && bo.X == ssa.Value(call0) && len(nickDel.Params) > 0 {
						nR, all := 0, true
						funcInstrs(nickDel, func(y ssa.Instruction) {
							if rt, isR := y.(*ssa.Return); isR && len(rt.Results) == 1 {
								nR++
								if !lenOfField(retVal(rt, 0), m.nkChans, nickDel.Params[0]) {
									all = false
								}
							}
						})
						remaining = all && nR > 0
					}
					if (lenOfField(bo.X, m.nkChans, nk) || remaining) && isZero(bo.Y) && ((bo.Op == token.EQL && cd.True) || (bo.Op == token.NEQ && !cd.True) || (bo.Op == token.GTR && !cd.True)) {
						if instrDominates(cs, cd.If) {
							ok, why = true, "len(nk.chans) == 0 leads to the nick's deletion"
						}
					}
				}
			}
			r.Add(id, "gc:"+c.FuncKey(fn), c.InstrPos(cs), c.FuncKey(fn), "a nick left without channels is deleted", ok, why)
		}
	}
	r.Floor(id, "nick-side delete call sites outside nick deletion", n, 1)
	// Dissociate of the client itself deletes the channel
	dis := c.lockedBody(c.Func(c.State, "(*stateTracker).Dissociate"))
	okSelf := false
	if dis != nil {
		for _, cs := range CallSites(dis) {
			if cs.Common().StaticCallee() == m.delChanFn {
				for _, cd := range CondsAt(cs.Block()) {
					if _, isMe, ok := c.meCompare(cd, m.stMe); ok && isMe {
						okSelf = true
					}
				}
			}
		}
	}
	r.Add(id, "self-part-deletes-channel", posFn(c, dis), "(*state.stateTracker).Dissociate", "removing the client itself from a channel forgets the channel", okSelf, "delChannel under nk == st.me")
	// every destructive step of Dissociate happens only when the nick is actually on the channel
	if dis != nil {
		one := func(s map[*ssa.Function]bool) *ssa.Function {
			for f := range s {
				return f
			}
			return nil
		}
		chanDel := one(m.chanDel)
		nEd := 0
		for _, cs := range CallSites(dis) {
			cal := cs.Common().StaticCallee()
			if cal == nil {
				continue
			}
			destructive := cal == m.delChanFn || cal == chanDel || cal == nickDel || cal == m.delNickFn
			if !destructive && cal.Package() == c.State {
				// a helper that performs the unlink
				for _, x := range CallSites(cal) {
					if xc := x.Common().StaticCallee(); xc == m.delChanFn || xc == chanDel || xc == nickDel || xc == m.delNickFn {
						destructive = true
					}
				}
			}
			if !destructive {
				continue
			}
			nEd++
			member := false
			for _, cd := range CondsAt(cs.Block()) {
				cd = unwrapNot(cd)
				var call *ssa.Call
				if ex, ok := cd.V.(*ssa.Extract); ok && ex.Index == 1 {
					call, _ = ex.Tuple.(*ssa.Call)
				} else if cl, ok := cd.V.(*ssa.Call); ok {
					call = cl
				}
				if call != nil && cd.True && call.Call.StaticCallee() != nil && c.readsMembership(call.Call.StaticCallee(), m) {
					member = true
				}
			}
			r.Add(id, "dissociate-needs-membership:"+cal.Name(), c.InstrPos(cs), c.FuncKey(dis), "Dissociate changes state only when the nick is on the channel", member, "dominated by the membership test being true")
		}
		r.Floor(id, "destructive steps in Dissociate", nEd, 1)
	}
}

// readsMembership: fn is a membership query: it looks the channel up in the nick's (or the nick in the channel's) membership map.
func (c *Ctx) readsMembership(fn *ssa.Function, m *trackerModel) bool {
	for _, op := range mapOps(fn) {
		if op.Kind == "lookup" && (op.Field == m.nkChans || op.Field == m.chNicks) {
			return true
		}
	}
	return false
}

func isZero(v ssa.Value) bool { k, ok := constInt(v); return ok && k == 0 }

func lenOfField(v ssa.Value, fv *types.Var, base ssa.Value) bool {
	call, ok := v.(*ssa.Call)
	if !ok {
		return false
	}
	if b, ok := call.Call.Value.(*ssa.Builtin); !ok || b.Name() != "len" {
		return false
	}
	f2, b2 := loadedField(call.Call.Args[0])
	return f2 == fv && b2 == base
}

func isMeLoad(v ssa.Value, me *types.Var) bool { fv, _ := loadedField(v); return fv == me }

// meCompare reads a branch condition as "obj is (not) the client's own
// record": a pointer comparison with a load of the tracker's me field, or a
// call of a predicate helper whose body is exactly such a comparison of its
// parameter. Returns the compared object and whether the edge means "is me".
func (c *Ctx) meCompare(cd Cond, me *types.Var) (obj ssa.Value, isMe bool, ok bool) {
	cd = unwrapNot(cd)
	switch v := cd.V.(type) {
	case *ssa.BinOp:
		if v.Op != token.EQL && v.Op != token.NEQ {
			return nil, false, false
		}
		switch {
		case isMeLoad(v.Y, me):
			obj = v.X
		case isMeLoad(v.X, me):
			obj = v.Y
		default:
			return nil, false, false
		}
		return obj, (v.Op == token.EQL) == cd.True, true
	case *ssa.Call:
		h := v.Call.StaticCallee()
		if h == nil || v.Call.IsInvoke() || !c.InModuleFn(h) || h.Package() != c.State {
			return nil, false, false
		}
		// every return of h is <param> == st.me (or its negation)
		var pIdx = -1
		eq, n, good := true, 0, true
		funcInstrs(h, func(in ssa.Instruction) {
			rt, isR := in.(*ssa.Return)
			if !isR || len(rt.Results) != 1 {
				return
			}
			n++
			bo, isB := retVal(rt, 0).(*ssa.BinOp)
			if !isB || (bo.Op != token.EQL && bo.Op != token.NEQ) {
				good = false
				return
			}
			var other ssa.Value
			switch {
			case isMeLoad(bo.Y, me):
				other = bo.X
			case isMeLoad(bo.X, me):
				other = bo.Y
			default:
				good = false
				return
			}
			pr, isP := other.(*ssa.Parameter)
			if !isP {
				good = false
				return
			}
			for i, q := range h.Params {
				if q == pr {
					pIdx = i
				}
			}
			eq = bo.Op == token.EQL
		})
		if !good || n != 1 || pIdx < 0 || pIdx >= len(v.Call.Args) {
			return nil, false, false
		}
		return v.Call.Args[pIdx], eq == cd.True, true
	}
	return nil, false, false
}

// selfRule: every delete on the tracker's nick map is a rename (followed by a
// store of the same object) or guarded by nk != st.me on every call chain.
func (c *Ctx) selfRule(id string, m *trackerModel) {
	r := c.R
	n := 0
	var guarded func(fn *ssa.Function, at ssa.Instruction, obj ssa.Value, depth int) (bool, string)
	guarded = func(fn *ssa.Function, at ssa.Instruction, obj ssa.Value, depth int) (bool, string) {
		// guard in this function: dominating edge nk != st.me
		for _, cd := range CondsAt(at.Block()) {
			if o, isMe, ok := c.meCompare(cd, m.stMe); ok && !isMe && o == obj {
				return true, "guarded by != me in " + c.FuncKey(fn)
			}
		}
		if depth > 4 {
			return false, "call chain too deep"
		}
		pr, isParam := obj.(*ssa.Parameter)
		if !isParam {
			return false, "no != me guard in " + c.FuncKey(fn)
		}
		idx := -1
		for i, q := range fn.Params {
			if q == pr {
				idx = i
			}
		}
		sites := c.Callers(fn)
		if len(sites) == 0 || idx < 0 {
			return false, "unguarded entry " + c.FuncKey(fn)
		}
		for _, cs := range sites {
			if ok, why := guarded(cs.Parent(), cs, cs.Common().Args[idx], depth+1); !ok {
				return false, "via " + c.FuncKey(cs.Parent()) + ": " + why
			}
		}
		return true, "every call chain tests != me"
	}
	for _, fn := range m.funcs {
		for _, op := range mapOps(fn) {
			if op.Kind != "delete" || op.Field != m.stNicks {
				continue
			}
			n++
			// rename: followed on all paths by an update of the same map storing an object
			isRename := false
			for _, o2 := range mapOps(fn) {
				if o2.Kind == "update" && o2.Field == m.stNicks && instrDominates(op.In, o2.In) && o2.In.Block() == op.In.Block() {
					isRename = true
				}
			}
			if isRename {
				r.Add(id, "delete-is-rename:"+c.FuncKey(fn), c.InstrPos(op.In), c.FuncKey(fn), "nick-map delete is immediately followed by re-insertion (rename)", true, "same block")
				continue
			}
			// the deleted object: key is obj.nick
			var obj ssa.Value
			if fv, base := loadedField(op.Key); fv != nil && fv == c.FieldVar(c.State, "nick", "nick") {
				obj = base
			}
			ok, why := false, "deleted object not identified"
			if obj != nil {
				ok, why = guarded(fn, op.In, obj, 0)
			}
			r.Add(id, "delete-guarded:"+c.FuncKey(fn), c.InstrPos(op.In), c.FuncKey(fn), "the client's own nick can never be deleted", ok, why)
		}
	}
	r.Floor(id, "deletes on the tracker's nick map", n, 2)
}

// modeArgRule: in the channel mode parser (and helpers it hands the argument
// list to), every path from a read of the next mode argument that writes
// tracker state also advances the argument list (args[1:] fed back to the
// loop variable, or returned to the caller) before the next mode character.
func (c *Ctx) modeArgRule(id string) {
	r := c.R
	fn := c.Func(c.State, "(*channel).parseModes")
	r.Anchor(id, "(*channel).parseModes", fn != nil)
	if fn == nil {
		return
	}
	// state writers: functions storing to ChanMode / ChanPrivs fields
	isModeStore := func(in ssa.Instruction) bool {
		s, ok := in.(*ssa.Store)
		if !ok {
			return false
		}
		fa, ok := s.Addr.(*ssa.FieldAddr)
		if !ok {
			return false
		}
		if n, ok := fa.X.Type().Underlying().(*types.Pointer); ok {
			if nm, ok := n.Elem().(*types.Named); ok {
				return nm.Obj().Name() == "ChanMode" || nm.Obj().Name() == "ChanPrivs"
			}
		}
		return false
	}
	writers := map[*ssa.Function]bool{}
	for _, f := range c.stateFuncs() {
		funcInstrs(f, func(in ssa.Instruction) {
			if isModeStore(in) {
				writers[f] = true
			}
		})
	}
	roProver := c.NewProver()
	// functions to check: parseModes and the state-package functions it passes a []string on to
	todo := []*ssa.Function{fn}
	for _, cs := range CallSites(fn) {
		cal := cs.Common().StaticCallee()
		if cal == nil || cal.Package() != c.State || cal == fn {
			continue
		}
		for _, a := range cs.Common().Args {
			if _, isSl := a.Type().Underlying().(*types.Slice); isSl && !cs.Common().IsInvoke() {
				todo = append(todo, cal)
				break
			}
		}
	}
	// ... and the closures in which it does its work on a captured argument list (a per-character callback)
	for _, an := range fn.AnonFuncs {
		todo = append(todo, an)
	}
	n := 0
	for _, f := range todo {
		r.Funcs[c.FuncKey(f)] = true
		// candidate argument lists: slice-typed parameters and loop variables fed by them
		var lists []ssa.Value
		cellList := map[ssa.Value]bool{}
		for _, pr := range f.Params {
			if sl, ok := pr.Type().Underlying().(*types.Slice); ok && isStringType(sl.Elem()) {
				lists = append(lists, pr)
			}
		}
		for _, fv := range f.FreeVars {
			// a captured variable holding the list: *[]string
			if pt, ok := fv.Type().Underlying().(*types.Pointer); ok {
				if sl, ok := pt.Elem().Underlying().(*types.Slice); ok && isStringType(sl.Elem()) {
					lists = append(lists, fv)
					cellList[fv] = true
				}
			}
		}
		funcInstrs(f, func(in ssa.Instruction) {
			if ph, ok := in.(*ssa.Phi); ok && c.IsLoopHeader(ph.Block()) {
				if sl, ok := ph.Type().Underlying().(*types.Slice); ok && isStringType(sl.Elem()) {
					lists = append(lists, ph)
				}
			}
		})
		for _, args := range lists {
			var hdr ssa.Instruction
			if ph, ok := args.(*ssa.Phi); ok {
				hdr = ph.Block().Instrs[0]
			}
			isCell := cellList[args]
			// isList: v denotes the current argument list
			isList := func(v ssa.Value) bool {
				if !isCell {
					return v == args
				}
				u, ok := v.(*ssa.UnOp)
				return ok && u.Op == token.MUL && u.X == args
			}
			isAdvance := func(in ssa.Instruction) bool {
				if isCell {
					// *cell = (*cell)[1:]
					st, ok := in.(*ssa.Store)
					if !ok || st.Addr != args {
						return false
					}
					sl, ok := st.Val.(*ssa.Slice)
					if !ok || !isList(sl.X) || sl.High != nil {
						return false
					}
					k, okc := constInt(sl.Low)
					return okc && k == 1
				}
				s, ok := in.(*ssa.Slice)
				if !ok || s.X != args || s.High != nil {
					return false
				}
				if k, okc := constInt(s.Low); !okc || k != 1 {
					return false
				}
				if ph, ok := args.(*ssa.Phi); ok && c.feedsPhi(s, ph, 0) {
					return true
				}
				// handed back to the caller (directly, or as one arm of the value that is returned)
				var back func(v ssa.Value, d int) bool
				back = func(v ssa.Value, d int) bool {
					if d > 4 {
						return false
					}
					for _, ref := range *v.Referrers() {
						switch t := ref.(type) {
						case *ssa.Return:
							return true
						case *ssa.Store:
							if _, isAl := t.Addr.(*ssa.Alloc); isAl {
								return true // result spill
							}
						case *ssa.Phi:
							if back(t, d+1) {
								return true
							}
						}
					}
					return false
				}
				return back(s, 0)
			}
			isStateWrite := func(in ssa.Instruction) bool {
				if isModeStore(in) {
					return true
				}
				if cs, ok := in.(*ssa.Call); ok {
					if cal := cs.Call.StaticCallee(); cal != nil && writers[cal] && cal != f {
						// a helper that writes state and is NOT itself handed the list (otherwise it is checked on its own)
						for _, a := range cs.Call.Args {
							if isList(a) {
								return false
							}
						}
						return true
					}
				}
				return false
			}
			end := func(x ssa.Instruction) bool { return isAdvance(x) || (hdr != nil && x == hdr) }
			funcInstrs(f, func(in ssa.Instruction) {
				ia, ok := in.(*ssa.IndexAddr)
				if !ok || !isList(ia.X) {
					return
				}
				if k, okc := constInt(ia.Index); !okc || k != 0 {
					return
				}
				n++
				bad := ""
				reach := ReachFrom(in, false, end)
				for x := range reach {
					if !isStateWrite(x) {
						continue
					}
					r2 := ReachFrom(x, false, end)
					for y := range r2 {
						if (hdr != nil && y == hdr) || (isReturn(y) && !isAdvance(y)) {
							bad = "state written at " + c.InstrPos(x) + " with the argument list not advanced before the next mode character"
						}
					}
				}
				// an argument that is parsed or stored (handed to a non-logging call, or written) counts as consumed:
				// every path from that use to the next mode character must advance the list
				for _, ref := range *ia.Referrers() {
					ld, ok := ref.(*ssa.UnOp)
					if !ok || ld.Op != token.MUL {
						continue
					}
					for _, use := range *ld.Referrers() {
						consuming := false
						switch t := use.(type) {
						case *ssa.Call:
							nme := calleeName(&t.Call)
							if _, isB := t.Call.Value.(*ssa.Builtin); !isB && !strings.HasPrefix(nme, modPath+"/logging.") && !t.Call.IsInvoke() {
								consuming = true
								// a module function that only looks something up (no store, no map update, nothing
								// handed on) does not use the argument up
								if cal := t.Call.StaticCallee(); cal != nil && c.InModuleFn(cal) && roProver.readOnlyFn(cal) {
									consuming = false
								}
							}
						case *ssa.Store:
							if _, local := t.Addr.(*ssa.Alloc); !local && t.Val == ssa.Value(ld) {
								consuming = true
							}
						}
						if !consuming || !reach[use] {
							continue // not a consuming use, or the list was already advanced before it on every path
						}
						r3 := ReachFrom(use, false, end)
						for y := range r3 {
							if (hdr != nil && y == hdr) || (isReturn(y) && !isAdvance(y)) {
								bad = "argument used at " + c.InstrPos(use) + " but the list is not advanced on every path to the next mode character"
							}
						}
					}
				}
				r.Add(id, fmt.Sprintf("arg-consumed:%s#%d", f.Name(), n), c.InstrPos(in), c.FuncKey(f), "a mode argument that is parsed or written into tracker state is also consumed", bad == "", bad)
			})
		}
	}
	r.Floor(id, "reads of the next mode argument", n, 1)
}

// feedsPhi: v reaches phi through phi edges only.
func (c *Ctx) feedsPhi(v ssa.Value, target *ssa.Phi, depth int) bool {
	if depth > 6 {
		return false
	}
	for _, ref := range *v.Referrers() {
		if ph, ok := ref.(*ssa.Phi); ok {
			if ph == target || c.feedsPhi(ph, target, depth+1) {
				return true
			}
		}
	}
	return false
}

func runC12(c *Ctx) {
	r := c.R
	r.Rule("R1", "two-sided membership edits are balanced: inside each edit function both maps of a side are written together; every channel-side edit call is paired with the nick-side edit for the same channel, nick and privilege pointer")
	r.Rule("R2", "the four membership maps are written only by the edit functions, constructors and the rename's re-keying")
	r.Rule("R3", "a successful ReNick stores the name, re-keys the nick map with the same object and re-keys every channel's lookup inside a range over the nick's channels")
	r.Rule("R4", "after a nick-side delete the nick is deleted when it has no channels left; the client leaving a channel deletes the channel")
	r.Rule("R5", "every delete on the tracker's nick map is a rename or is guarded by != me on every call chain from an exported method")
	r.Rule("R6", "Wipe ranges over all tracked channels deleting each")
	r.Rule("R7", "the client's own record (me) is stored only while constructing the tracker")
	r.Rule("R8", "every insertion into the nick or channel map is dominated by the not-found edge of a lookup of the same key (no overwrite of a tracked entry)")
	r.Rule("R9", "in channel mode parsing every path that parses, stores or writes state from the next mode argument advances the argument list before the next mode character")
	r.Rule("R10", "every pointer/map answer of an exported tracker method is built anew from the tracker's state on that call (deep-fresh), so no answer can lag behind the state")
	r.Rule("R11", "an attribute passed to an exported tracker method and stored into a tracked nick or channel (ident, host, real name, topic, new name) is stored on every path on which the method succeeds - no conditional store can leave a stale attribute")
	c.trackerRules(map[string]string{"R1": "R1", "R2": "R2", "R3": "R3", "R4": "R4", "R5": "R5", "R6": "R6", "R7": "R7", "R8": "R8", "R9": "R9", "R10": "R10"})
	c.setterRule("R11")
	r.Rule("R12", "names are not special to queries and removals: an exported tracker method that creates nothing returns nil / false only under a condition computed from tracker state (a lookup that found nothing, a membership test, the own-record test), never because of the argument's value alone")
	r.Rule("R14", "a mode change is applied whatever its argument says: the mode parsers decide only on the mode character, the sign, the number of arguments left and whether the named nick is on the channel - never on the text of an argument or of the stored value (the model removes a key on -k whichever key the line quotes)")
	c.modeDecisionsRule("R14")
	r.Rule("R16", "a mode character changes its own flag and nothing else, in the direction of the sign in force: every store to a boolean field of ChanMode / NickMode in the mode parsers stores the sign variable (never a constant), each such field is stored at one site only, and the sign starts out as 'remove' (letters before the first '+' or '-' clear, as in the model)")
	c.modeFlagStoresRule("R16")
	r.Rule("R17", "names are compared exactly, as in the model: every index of the tracker's nick and channel tables (lookup, insert, delete) is a string parameter, the name field of a tracked object, or a loop key of the table - never a value computed from a name (a case-folded key used for lookups but not for the delete leaves entries that can never be removed)")
	c.rawKeysRule("R17")
	r.Rule("R18", "a refused operation is the identity, as in the model: in every exported tracker method with a pointer result that can mutate, no return of nil is reachable from a mutation of tracker state (map update / delete on tracked storage, store to a tracked object, call of a mutating function of the package) - 'the client's own nick can never be deleted' includes that the refusal forgets none of its channels")
	c.refusalInertRule("R18")
	r.Rule("R15", "every operation returns: no value whose String / Error / Format method takes the tracker lock (the tracker itself) is handed to a logging or fmt call while that lock is held - a logger that formats its arguments would acquire the lock a second time on the same stack (shared with C14.R1: the mutex is never acquired while already held)")
	c.formatterReacquireRule("R15", c.stateFuncs())
	r.Rule("R13", "every name the server uses can be tracked: a method that creates a nick or a channel (NewNick, NewChannel) refuses only the empty name and a name the tracker already holds - every condition its nil returns depend on is an emptiness test of an argument or is computed from tracker state (no alphabet or format check: a legal nick such as one with a backtick would never be tracked)")
	c.stateDecidedRule("R12", "R13")
}

// ---------------- C13 ----------------

// argSpec describes where a tracker-call argument must come from.
type argSpec struct {
	kind string // "args" (line.Args[i]), "nick" (line.Nick), "ident", "host", "const", "rest" (Args[i:]), "snapnick" (Nick field of GetNick(Args[i])), "snapname" (Name of GetChannel(Args[i])), "any"
	idx  int
	val  string
}

type effectSpec struct {
	method   string
	args     []argSpec
	optional bool
}

var a0 = func(i int) argSpec { return argSpec{kind: "args", idx: i} }

var effectTable = map[string][]effectSpec{
	"JOIN":  {{method: "Associate", args: []argSpec{a0(0), {kind: "nick"}}}},
	"PART":  {{method: "Dissociate", args: []argSpec{a0(0), {kind: "nick"}}}},
	"KICK":  {{method: "Dissociate", args: []argSpec{a0(0), a0(1)}}},
	"QUIT":  {{method: "DelNick", args: []argSpec{{kind: "nick"}}}},
	"NICK":  {{method: "ReNick", args: []argSpec{{kind: "nick"}, a0(0)}}},
	"MODE":  {{method: "ChannelModes", args: []argSpec{a0(0), a0(1), {kind: "rest", idx: 2}}}, {method: "NickModes", args: []argSpec{a0(0), a0(1)}}},
	"TOPIC": {{method: "Topic", args: []argSpec{a0(0), a0(1)}}},
	"332":   {{method: "Topic", args: []argSpec{a0(1), a0(2)}}},
	"324":   {{method: "ChannelModes", args: []argSpec{a0(1), a0(2), {kind: "rest", idx: 3}}}},
	"311":   {{method: "NickInfo", args: []argSpec{a0(1), a0(2), a0(3), a0(5)}}},
	"352":   {{method: "NickInfo", args: []argSpec{{kind: "snapnick", idx: 5}, a0(2), a0(3), {kind: "any"}}}},
	"671":   {{method: "NickModes", args: []argSpec{{kind: "snapnick", idx: 1}, {kind: "const", val: "+z"}}}},
}

// lineArgIndex: v is line.Args[i] (load) for the handler's line parameter.
func (c *Ctx) lineArgIndex(v ssa.Value, line ssa.Value) (int, bool) {
	u, ok := v.(*ssa.UnOp)
	if !ok || u.Op != token.MUL {
		return 0, false
	}
	ia, ok := u.X.(*ssa.IndexAddr)
	if !ok {
		return 0, false
	}
	off, ok := c.argsView(ia.X, line, 0)
	if !ok {
		return 0, false
	}
	k, ok := constInt(ia.Index)
	return off + int(k), ok
}

// argsView: v denotes line.Args[off:] - the field itself, a tail slice of such
// a view, or (inside a helper, see argSubst) a parameter the handler passed
// such a view for.
func (c *Ctx) argsView(v ssa.Value, line ssa.Value, depth int) (int, bool) {
	if depth > 4 {
		return 0, false
	}
	if fv, base := loadedField(v); fv != nil && fv.Name() == "Args" && base == line {
		return 0, true
	}
	switch t := v.(type) {
	case *ssa.Slice:
		if t.High != nil || t.Max != nil {
			return 0, false
		}
		off, ok := c.argsView(t.X, line, depth+1)
		if !ok {
			return 0, false
		}
		if t.Low == nil {
			return off, true
		}
		k, okk := constInt(t.Low)
		return off + int(k), okk
	case *ssa.Parameter:
		if sub, ok := c.argSubst[t]; ok {
			return c.argsView(sub, line, depth+1)
		}
	}
	return 0, false
}

func (c *Ctx) lineField(v ssa.Value, line ssa.Value, name string) bool {
	fv, base := loadedField(v)
	return fv != nil && fv.Name() == name && base == line
}

// matchArg checks one tracker-call argument against its spec.
func (c *Ctx) matchArg(v ssa.Value, spec argSpec, line ssa.Value) (bool, string) {
	switch spec.kind {
	case "any":
		return true, ""
	case "args":
		if i, ok := c.lineArgIndex(v, line); ok && i == spec.idx {
			return true, ""
		}
		return false, fmt.Sprintf("want line.Args[%d], got %s", spec.idx, v.String())
	case "nick":
		if c.lineField(v, line, "Nick") {
			return true, ""
		}
		return false, "want line.Nick, got " + v.String()
	case "const":
		if s, ok := constString(v); ok && s == spec.val {
			return true, ""
		}
		return false, "want constant " + spec.val
	case "rest":
		// varargs slice: line.Args[idx:]
		if _, isSl := v.(*ssa.Slice); isSl {
			if off, ok := c.argsView(v, line, 0); ok && off == spec.idx {
				return true, ""
			}
		}
		return false, fmt.Sprintf("want line.Args[%d:]...", spec.idx)
	case "snapnick":
		// Nick field of the snapshot returned by GetNick(line.Args[idx])
		if fv, base := loadedField(v); fv != nil && fv.Name() == "Nick" {
			if call, ok := base.(*ssa.Call); ok && call.Call.IsInvoke() && call.Call.Method.Name() == "GetNick" {
				if i, ok := c.lineArgIndex(call.Call.Args[0], line); ok && i == spec.idx {
					return true, ""
				}
			}
			if call, ok := base.(*ssa.Call); ok {
				if m, arg, isL := c.lookupHelper(call); isL && m == "GetNick" {
					if i, ok := c.lineArgIndex(arg, line); ok && i == spec.idx {
						return true, ""
					}
				}
			}
		}
		if i, ok := c.lineArgIndex(v, line); ok && i == spec.idx {
			return true, ""
		}
		return false, fmt.Sprintf("want the nick of GetNick(line.Args[%d])", spec.idx)
	}
	return false, "unknown spec"
}

// ownNickTest: v is the client's own-nick test: Me().Equals(x), or the call of
// an unexported client function that returns just that.
func (c *Ctx) ownNickTest(v ssa.Value, depth int) bool {
	call, ok := v.(*ssa.Call)
	if !ok || depth > 2 {
		return false
	}
	if calleeName(&call.Call) == "(*"+modPath+"/state.Nick).Equals" {
		return true
	}
	cal := call.Call.StaticCallee()
	if cal == nil || call.Call.IsInvoke() || cal.Package() != c.Client || !c.InModuleFn(cal) || cal.Object() == nil || cal.Object().Exported() || cal.Blocks == nil {
		return false
	}
	if res := cal.Signature.Results(); res.Len() != 1 {
		return false
	}
	n, okAll := 0, true
	funcInstrs(cal, func(in ssa.Instruction) {
		rt, isR := in.(*ssa.Return)
		if !isR {
			return
		}
		n++
		if !c.ownNickTest(retVal(rt, 0), depth+1) {
			okAll = false
		}
	})
	return okAll && n > 0
}

// lookupHelper: call is a call of an unexported client function every return
// of which hands back what one read-only tracker query on one of its
// parameters answered (GetChannel(name), GetNick(name)). Result: the query's
// method name and the argument standing for that parameter at this call.
func (c *Ctx) lookupHelper(call *ssa.Call) (string, ssa.Value, bool) {
	cal := call.Call.StaticCallee()
	if cal == nil || call.Call.IsInvoke() || cal.Package() != c.Client || !c.InModuleFn(cal) || cal.Object() == nil || cal.Object().Exported() || cal.Blocks == nil || cal.Signature.Results().Len() != 1 {
		return "", nil, false
	}
	var q *ssa.Call
	nq, okAll, nRet := 0, true, 0
	funcInstrs(cal, func(in ssa.Instruction) {
		if tc, ok := in.(*ssa.Call); ok && c.isTrackerCall(tc) {
			if !trackerReadOnly[tc.Call.Method.Name()] {
				okAll = false
			}
			q = tc
			nq++
		}
	})
	if nq != 1 || !okAll || len(q.Call.Args) != 1 {
		return "", nil, false
	}
	pr, isP := q.Call.Args[0].(*ssa.Parameter)
	if !isP {
		return "", nil, false
	}
	funcInstrs(cal, func(in ssa.Instruction) {
		rt, ok := in.(*ssa.Return)
		if !ok {
			return
		}
		nRet++
		for _, o := range c.Origins(retVal(rt, 0)) {
			if o != ssa.Value(q) && !isNilConst(o) {
				okAll = false
			}
		}
	})
	if !okAll || nRet == 0 {
		return "", nil, false
	}
	for i, p2 := range cal.Params {
		if p2 == pr && i < len(call.Call.Args) {
			return q.Call.Method.Name(), call.Call.Args[i], true
		}
	}
	return "", nil, false
}

// guardHelper: cal is an unexported client function returning one bool whose
// every branch condition is itself an allowed guard and whose every return
// value is a boolean constant (so its answer is decided by those guards).
func (c *Ctx) guardHelper(cal *ssa.Function) bool {
	if cal.Package() != c.Client || !c.InModuleFn(cal) || cal.Object() == nil || cal.Object().Exported() {
		return false
	}
	res := cal.Signature.Results()
	if res.Len() != 1 {
		return false
	}
	if b, ok := res.At(0).Type().Underlying().(*types.Basic); !ok || b.Kind() != types.Bool {
		return false
	}
	if c.guardBusy == nil {
		c.guardBusy = map[*ssa.Function]bool{}
	}
	if c.guardBusy[cal] {
		return false
	}
	c.guardBusy[cal] = true
	defer delete(c.guardBusy, cal)
	ok := true
	funcInstrs(cal, func(in ssa.Instruction) {
		switch t := in.(type) {
		case *ssa.If:
			if !c.allowedGuard(Cond{V: t.Cond, True: true, If: t}, nil) {
				ok = false
			}
		case *ssa.Return:
			for _, o := range c.originsLocal(retVal(t, 0)) {
				if k, isK := o.(*ssa.Const); !isK || k.Value == nil || k.Value.Kind() != constant.Bool {
					if !c.allowedGuard(Cond{V: o, True: true}, nil) {
						ok = false
					}
				}
			}
		}
	})
	return ok
}

// allowedGuard: the condition is one of the guard kinds a state handler may
// use: argument count, nil test of a tracker snapshot / IsOn result, the
// own-nick test Me().Equals(nk), or an emptiness test on a split name.
func (c *Ctx) allowedGuard(cd Cond, line ssa.Value) bool {
	cd = unwrapNot(cd)
	switch v := cd.V.(type) {
	case *ssa.Call:
		n := calleeName(&v.Call)
		if cal := v.Call.StaticCallee(); cal != nil && cal.Name() == c.nm("argslen") {
			return true
		}
		if n == "(*"+modPath+"/state.Nick).Equals" {
			// Me().Equals(nk)
			if mc, ok := v.Call.Args[0].(*ssa.Call); ok && mc.Call.StaticCallee() != nil && mc.Call.StaticCallee().Name() == "Me" {
				return true
			}
		}
		if c.ownNickTest(v, 0) && n != "(*"+modPath+"/state.Nick).Equals" {
			return true
		}
		// an unexported helper of the client whose boolean answer is decided by guards of these kinds alone
		// (e.g. "the tracker knows this channel")
		if cal := v.Call.StaticCallee(); cal != nil && !v.Call.IsInvoke() && c.guardHelper(cal) {
			return true
		}
		return false
	case *ssa.BinOp:
		// nil test of a tracker query result
		for _, side := range []ssa.Value{v.X, v.Y} {
			if isNilConst(side) {
				other := v.X
				if side == v.X {
					other = v.Y
				}
				if call, ok := other.(*ssa.Call); ok && c.isTrackerCall(call) && trackerReadOnly[call.Call.Method.Name()] {
					return true
				}
				if call, ok := other.(*ssa.Call); ok {
					if _, _, isL := c.lookupHelper(call); isL {
						return true
					}
				}
			}
		}
		// len(line.Args) comparisons
		for _, side := range []ssa.Value{v.X, v.Y} {
			if call, ok := side.(*ssa.Call); ok {
				if b, ok := call.Call.Value.(*ssa.Builtin); ok && b.Name() == "len" {
					if fv, base := loadedField(call.Call.Args[0]); fv != nil && fv.Name() == "Args" && base == line {
						return true
					}
				}
			}
		}
		return false
	case *ssa.Extract:
		// _, ok := st.IsOn(...) / range iteration ok
		switch t := v.Tuple.(type) {
		case *ssa.Call:
			return c.isTrackerCall(t) && trackerReadOnly[t.Call.Method.Name()]
		case *ssa.Next:
			return true
		}
	}
	return false
}

func runC13(c *Ctx) {
	r, a := c.R, c.A
	r.Rule("R1", "for each state-changing verb the handler registered in the state table contains a reachable call of the prescribed tracker method, every call of that method takes its arguments from the prescribed parts of the line, and only listed guard kinds (argument count, known channel/nick, own-nick test) decide whether it is reached")
	r.Rule("R2", "NewChannel is called only under the own-nick test for the joining nick and is followed on all paths by Associate of that channel and nick")
	r.Rule("R3", "every NewNick in the handlers is followed on all paths by an Associate of that nick (the only accepted intervening condition: IsOn false)")
	r.Rule("R4", "tracker-side safety (shared with C12): rename re-keys everything, GC and self-protection guards, own record never replaced, no overwrite on insert, mode arguments consumed; EnableStateTracking seeds the tracker with the configured nick")
	r.Rule("R5", "every successful connect wipes the tracker (shared with C07.R4)")
	r.Rule("R6", "the parameters the handlers index are the ones the server sent: the parser keeps a trailing parameter whenever a \" :\" section exists, an empty one included - TOPIC #chan : clears the topic (shared with C01.R6)")
	c.parserTrailingRule("R6")
	r.Rule("R8", "the tracker changes only as the protocol prescribes: every mutating tracker call made by a state-table handler (directly or in its helpers) is one of the effects listed for that verb - JOIN: NewChannel/NewNick/NickInfo/Associate, PART/KICK: Dissociate, QUIT: DelNick, NICK: ReNick, MODE/324: ChannelModes/NickModes, TOPIC/332: Topic, 311/352: NickInfo (+ WHO-flag NickModes), 353: NewNick/Associate/ChannelModes, 671: NickModes; a handler for any other verb (a 366 that purges users NAMES did not list, say) may not mutate the tracker")
	c.closedEffectsRule("R8")
	r.Rule("R9", "the tracker can only hold a channel's modes and its users' details if the client asks: once the client's own JOIN has created the channel, every path of the JOIN handler sends MODE and WHO for it (directly or through a helper that does so on every path) - a query put in a queue whose state survives a dropped connection is never sent")
	c.joinQueriesRule("R9")
	r.Rule("R10", "the MODE and WHO queries the tracker depends on reach the server: Raw enqueues every line, by a plain blocking send in its own body on every path (shared with C09.R1) - a Raw that sheds load when the queue is full leaves joined channels without modes and users without details")
	c.rawSenderRule("R10")
	r.Rule("R7", "every name the server uses can be tracked: a method that creates a nick or a channel (NewNick, NewChannel) refuses only the empty name and a name the tracker already holds - every condition its nil returns depend on is an emptiness test of an argument or is computed from tracker state (no alphabet or format check: a legal nick such as one with a backtick would never be tracked) (shared with C12.R13)")
	c.stateDecidedRule("", "R7")
	r.Rule("R11", "user@host details and topics follow the latest reply: what NickInfo / Topic / ReNick store into a tracked nick or channel is the value given, on every successful path - never a value computed from the old attribute (shared with C12.R11); a WHO reply that corrects an ident or host learned from a JOIN line then takes effect")
	c.setterRule("R11")
	r.Rule("R12", "the channels' modes are all tracked: every boolean field of ChanMode, NickMode and ChanPrivs is written by the mode parsers, each at one site, with the sign in force (shared with C12.R16) - a mode character that falls through to 'unknown' leaves the tracked modes behind the server's")
	c.modeFlagStoresRule("R12")
	r.Rule("R13", "the state handlers see every line the server sends: in the receive goroutine no condition other than the read error decides whether a line is parsed, and a parsed line is always enqueued (shared with C01.R5) - a length check that counts the terminator twice drops the 510-character NAMES lines of large channels")
	c.everyLineParsedRule("R13")

	nCalls := c.effectsRule("R1", nil)
	r.Floor("R1", "tracker effect call sites checked", nCalls, 13)
	// 353: per name Associate(channel of Args[2], name) and prefix->mode map
	c.namesRule(a.StTable["353"])

	// ---- R2 / R3 (tracker calls made directly or one unexported helper level down, arguments resolved to the
	// handler's own values; the handler-level position of such a call is its anchor)
	nNC, nNN := 0, 0
	var stKeys []string
	for k := range a.StTable {
		stKeys = append(stKeys, k)
	}
	sort.Strings(stKeys)
	doneH := map[*ssa.Function]bool{}
	for _, k := range stKeys {
		h := a.StTable[k]
		if doneH[h] {
			continue
		}
		doneH[h] = true
		line := ssa.Value(h.Params[1])
		assoc := c.deepTrackerCalls(h, "Associate")
		isAssoc := func(in ssa.Instruction, idx int, val ssa.Value) bool {
			for _, dc := range assoc {
				if dc.Anchor == in && idx < len(dc.Args) && c.sameLineExpr(dc.Args[idx], val, line) {
					return true
				}
			}
			return false
		}
		for _, dc := range c.deepTrackerCalls(h, "NewChannel") {
			nNC++
			okMe := false
			for _, cd := range append(append([]Cond{}, CondsAt(dc.Anchor.Block())...), dc.Inner...) {
				cd2 := unwrapNot(cd)
				if cd2.True && c.ownNickTest(cd2.V, 0) {
					okMe = true
				}
			}
			if !okMe {
				// guard-clause form: "if ch == nil && !own { return }; if ch == nil { NewChannel }". On the CFG
				// without the edges that contradict a condition dominating the call (the same comparison with the
				// other outcome) and without the edges on which the own-nick test holds, the call is unreachable:
				// every way to it passes the own-nick test
				if anchorIn, isIn := dc.Anchor.(ssa.Instruction); isIn && anchorIn.Parent() == h && len(h.Blocks) > 0 {
					dom := CondsAt(anchorIn.Block())
					sameCond := func(x, y ssa.Value) bool {
						if x == y {
							return true
						}
						bx, okx := x.(*ssa.BinOp)
						by, oky := y.(*ssa.BinOp)
						if !okx || !oky || bx.Op != by.Op {
							return false
						}
						same := func(p, q ssa.Value) bool {
							return p == q || (isNilConst(p) && isNilConst(q)) || sameExpr(p, q, 0)
						}
						return same(bx.X, by.X) && same(bx.Y, by.Y)
					}
					skip := func(from, to *ssa.BasicBlock) bool {
						cd, ok := edgeCond(from, to)
						if !ok {
							return false
						}
						cd = unwrapNot(cd)
						if cd.True && c.ownNickTest(cd.V, 0) {
							return true
						}
						for _, d := range dom {
							d2 := unwrapNot(d)
							if sameCond(d2.V, cd.V) && d2.True != cd.True {
								return true
							}
						}
						return false
					}
					reach := ReachFromFiltered(h.Blocks[0].Instrs[0], true, nil, skip)
					if !reach[anchorIn] {
						okMe = true
					}
				}
			}
			ch := dc.Args[0]
			okAssoc, _ := AllPathsPass(dc.Anchor, false, func(in ssa.Instruction) bool { return isAssoc(in, 0, ch) })
			r.Add("R2", "newchannel:"+c.FuncKey(h), c.InstrPos(dc.Site), c.FuncKey(h), "a channel is tracked only for the client's own join and is then associated", okMe && okAssoc, fmt.Sprintf("own-nick test=%v, Associate on all paths=%v", okMe, okAssoc))
		}
		for _, dc := range c.deepTrackerCalls(h, "NewNick") {
			nNN++
			nk := dc.Args[0]
			okAssoc, bad := AllPathsPass(dc.Anchor, false, func(in ssa.Instruction) bool { return isAssoc(in, 1, nk) })
			why := "Associate of the new nick on every path"
			if !okAssoc && dc.Site.Parent() != h {
				// creation and association both live in a per-name helper: judge them in that frame
				hf := dc.Site.Parent()
				local := dc.Site.Common().Args[0]
				inHelper := func(in ssa.Instruction) bool {
					for _, as := range assoc {
						if as.Site == in && as.Site.Parent() == hf && len(as.Site.Common().Args) > 1 && as.Site.Common().Args[1] == local {
							return true
						}
					}
					return false
				}
				okAssoc, bad = AllPathsPass(dc.Site, false, inHelper)
				if !okAssoc {
					okAssoc = c.onlySkippedByIsOn(dc.Site, local)
				}
				if okAssoc {
					why = "Associate of the new nick on every path of the per-name helper " + c.FuncKey(hf)
				}
			}
			if !okAssoc {
				// accept paths that skip Associate only through the IsOn-true edge (already associated)
				if cs, isCS := dc.Anchor.(ssa.CallInstruction); isCS {
					okAssoc = c.onlySkippedByIsOn(cs, nk)
				}
				if !okAssoc {
					why = "a path to " + c.InstrPos(bad) + " leaves the new nick without a channel"
				}
			}
			r.Add("R3", "newnick:"+c.FuncKey(h), c.InstrPos(dc.Site), c.FuncKey(h), "a new nick is always associated with a channel", okAssoc, why)
		}
	}
	r.Floor("R2", "NewChannel call sites", nNC, 1)
	r.Floor("R3", "NewNick call sites", nNN, 2)

	// ---- R4
	c.trackerRules(map[string]string{"R1": "R4", "R3": "R4", "R4": "R4", "R5": "R4", "R7": "R4", "R8": "R4", "R9": "R4", "R10": "R4"})
	est := c.Func(c.Client, "(*Conn).EnableStateTracking")
	okSeed := false
	// the function that makes the tracker: EnableStateTracking itself, or what it delegates to
	seeders := []*ssa.Function{}
	if est != nil {
		seeders = append(seeders, est)
		for _, cs := range CallSites(est) {
			if sc := cs.Common().StaticCallee(); sc != nil && c.InModuleFn(sc) && sc.Package() == c.Client && !cs.Common().IsInvoke() {
				seeders = append(seeders, sc)
			}
		}
	}
	for _, sf := range seeders {
		funcInstrs(sf, func(in ssa.Instruction) {
			if call, ok := in.(*ssa.Call); ok && !call.Call.IsInvoke() && call.Call.StaticCallee() != nil {
				if ok2, _ := c.newTrackerForMe(call, nil, 0); ok2 {
					okSeed = true
				}
			}
		})
	}
	c.trackerInstalledFreshRule("R4")
	r.Add("R4", "seed-tracker", posFn(c, est), "(*client.Conn).EnableStateTracking", "the tracker is created for the configured nick", okSeed, "NewTracker(cfg.Me.Nick)")

	// ---- R5 (same construct as C07.R4)
	wipe, bad := c.connectWipes()
	r.Add("R5", "wipe-on-connect", c.Pos(a.Connect.Pos()), c.FuncKey(a.Connect), "channels of a previous connection are not carried over", bad == "" && len(wipe) > 0, "success return without wipe: "+bad)
}

// sameLineExpr: a and b are the same SSA value or both denote the same part
// of the handler's line (go/ssa does not merge repeated loads).
// sameExpr: a and b are the same value, or the same pure read expression
// (field of / load through / element of equal sub-expressions) - go/ssa makes
// a new instruction for each textual occurrence of e.nick or line.Args[0].
func sameExpr(a, b ssa.Value, depth int) bool {
	if a == b {
		return true
	}
	if a == nil || b == nil || depth > 5 {
		return false
	}
	switch x := a.(type) {
	case *ssa.Field:
		y, ok := b.(*ssa.Field)
		return ok && x.Field == y.Field && sameExpr(x.X, y.X, depth+1)
	case *ssa.FieldAddr:
		y, ok := b.(*ssa.FieldAddr)
		return ok && x.Field == y.Field && sameExpr(x.X, y.X, depth+1)
	case *ssa.UnOp:
		y, ok := b.(*ssa.UnOp)
		return ok && x.Op == y.Op && x.Op == token.MUL && sameExpr(x.X, y.X, depth+1)
	case *ssa.IndexAddr:
		y, ok := b.(*ssa.IndexAddr)
		return ok && sameExpr(x.X, y.X, depth+1) && sameExpr(x.Index, y.Index, depth+1)
	case *ssa.Const:
		y, ok := b.(*ssa.Const)
		return ok && x.Value != nil && y.Value != nil && x.Value.String() == y.Value.String() && types.Identical(x.Type(), y.Type())
	}
	return false
}

func (c *Ctx) sameLineExpr(a, b, line ssa.Value) bool {
	if a == b || sameExpr(a, b, 0) {
		return true
	}
	if i, ok := c.lineArgIndex(a, line); ok {
		if j, ok2 := c.lineArgIndex(b, line); ok2 && i == j {
			return true
		}
	}
	for _, f := range []string{"Nick", "Ident", "Host", "Src", "Cmd"} {
		if c.lineField(a, line, f) && c.lineField(b, line, f) {
			return true
		}
	}
	return false
}

// onlySkippedByIsOn: every path from cs to a return that has no
// Associate(_, nk) passes the true edge of an IsOn(_, nk) result.
func (c *Ctx) onlySkippedByIsOn(cs ssa.Instruction, nk ssa.Value) bool {
	fn := cs.Parent()
	type edge struct{ from, to *ssa.BasicBlock }
	skip := map[edge]bool{}
	for _, b := range fn.Blocks {
		for _, s := range b.Succs {
			cd, ok := edgeCond(b, s)
			if !ok {
				continue
			}
			cd = unwrapNot(cd)
			if ex, ok := cd.V.(*ssa.Extract); ok && ex.Index == 1 && cd.True {
				if call, ok := ex.Tuple.(*ssa.Call); ok && c.isTrackerCall(call) && call.Call.Method.Name() == "IsOn" && sameExpr(call.Call.Args[1], nk, 0) {
					skip[edge{b, s}] = true
				}
			}
		}
	}
	reach := ReachFromFiltered(cs, false, func(in ssa.Instruction) bool {
		return c.isTrackerCall(in) && callOf(in).Method.Name() == "Associate" && sameExpr(callOf(in).Args[1], nk, 0)
	}, func(from, to *ssa.BasicBlock) bool { return skip[edge{from, to}] })
	// the loop head (next name) also ends the obligation for this nick: accept reaching the range's Next
	for in := range reach {
		if isReturn(in) {
			return false
		}
	}
	return true
}

// namesRule: the 353 handler associates every listed name with the channel
// and maps the prefixes ~ & @ % + to q a o h v.
func (c *Ctx) namesRule(h *ssa.Function) { c.namesRuleAs("R1", h) }

func (c *Ctx) namesRuleAs(rule string, h *ssa.Function) {
	r := c.R
	if h == nil {
		r.Add(rule, "handler:353", "-", "", "a state handler is registered for 353", false, "no entry")
		return
	}
	r.Funcs[c.FuncKey(h)] = true
	line := ssa.Value(h.Params[1])
	// channel from GetChannel(line.Args[2])
	var getCh *ssa.Call
	for _, cs := range CallSites(h) {
		if c.isTrackerCall(cs) && cs.Common().Method.Name() == "GetChannel" {
			if i, ok := c.lineArgIndex(cs.Common().Args[0], line); ok && i == 2 {
				getCh, _ = cs.(*ssa.Call)
			}
		}
	}
	r.Add(rule, "353:channel", posIn(c, getCh), c.FuncKey(h), "the NAMES channel is line.Args[2]", getCh != nil, "GetChannel(line.Args[2])")
	want := map[byte]string{'~': "+q", '&': "+a", '@': "+o", '%': "+h", '+': "+v"}
	got := map[string]bool{}
	nAssoc := 0
	type namedCall struct {
		name string
		dc   deepCall
	}
	var calls []namedCall
	for _, nm := range []string{"Associate", "ChannelModes"} {
		for _, dc := range c.deepTrackerCalls(h, nm) {
			calls = append(calls, namedCall{nm, dc})
		}
	}
	for _, nc := range calls {
		cs := nc.dc.Site
		conds := append(append([]Cond{}, CondsAt(nc.dc.Anchor.Block())...), nc.dc.Inner...)
		switch nc.name {
		case "Associate":
			nAssoc++
			ok := c.LoopDepth(nc.dc.Anchor.Block()) >= 1
			why := "inside the loop over names"
			// in a per-name helper only the empty entry and "already on the channel" may skip it
			for _, cd := range nc.dc.Inner {
				cd2 := unwrapNot(cd)
				allowed := false
				if ex, isE := cd2.V.(*ssa.Extract); isE {
					if tc, isC := ex.Tuple.(*ssa.Call); isC && c.isTrackerCall(tc) && tc.Call.Method.Name() == "IsOn" {
						allowed = true
					}
				}
				if bo, isB := cd2.V.(*ssa.BinOp); isB {
					if s0, okS := constString(bo.Y); okS && s0 == "" {
						allowed = true
					}
					if s0, okS := constString(bo.X); okS && s0 == "" {
						allowed = true
					}
				}
				if !allowed {
					ok, why = false, "in the per-name helper the association also depends on "+cd2.V.String()+" at "+c.InstrPos(cd.If)
				}
			}
			// in the handler itself: argument count, known channel, the loop over the names, the empty entry and the
			// prefix byte - nothing else may keep a listed name from being associated on this very line
			for _, cd := range CondsAt(nc.dc.Anchor.Block()) {
				cd2 := unwrapNot(cd)
				allowed := c.allowedGuard(cd, line) || (cd.If != nil && c.IsLoopHeader(cd.If.Block()))
				if bo, isB := cd2.V.(*ssa.BinOp); isB && !allowed {
					if s0, okS := constString(bo.Y); okS && s0 == "" {
						allowed = true
					}
					if s0, okS := constString(bo.X); okS && s0 == "" {
						allowed = true
					}
					if isByte(bo.X.Type()) || isByte(bo.Y.Type()) {
						allowed = true
					}
				}
				if !allowed {
					ok, why = false, "whether a listed name is associated also depends on "+cd2.V.String()+" at "+c.InstrPos(cd.If)
				}
			}
			r.Add(rule, "353:associate", c.InstrPos(cs), c.FuncKey(h), "each listed name is associated with the channel", ok, why)
		case "ChannelModes":
			// the privilege shown by NAMES is recorded for every listed name: not only for names first seen on this line
			for _, cd := range conds {
				cd2 := unwrapNot(cd)
				if ex, ok := cd2.V.(*ssa.Extract); ok {
					if tc, ok := ex.Tuple.(*ssa.Call); ok && c.isTrackerCall(tc) && tc.Call.Method.Name() == "IsOn" {
						r.Add(rule, "353:prefix-unconditional", c.InstrPos(cs), c.FuncKey(h), "the NAMES prefix is applied whether or not the nick was already on the channel", false, "the privilege update depends on the IsOn result at "+c.InstrPos(cd.If))
					}
				}
				if bo, ok := cd2.V.(*ssa.BinOp); ok && (isNilConst(bo.X) || isNilConst(bo.Y)) {
					other := bo.X
					if isNilConst(bo.X) {
						other = bo.Y
					}
					if tc, ok := other.(*ssa.Call); ok && c.isTrackerCall(tc) && tc.Call.Method.Name() == "GetNick" {
						r.Add(rule, "353:prefix-unconditional", c.InstrPos(cs), c.FuncKey(h), "the NAMES prefix is applied whether or not the nick was already known", false, "the privilege update depends on GetNick at "+c.InstrPos(cd.If))
					}
				}
			}
			modeArg := cs.Common().Args[1]
			// the mode may come out of a parsed entry (a struct field filled in by a parsing helper): read the table
			// from the constant stores to that field
			var modeField *types.Var
			switch t := modeArg.(type) {
			case *ssa.Field:
				if st, okS := t.X.Type().Underlying().(*types.Struct); okS {
					modeField = st.Field(t.Field)
				}
			case *ssa.UnOp:
				if t.Op == token.MUL {
					modeField, _ = fieldOf(t.X)
				}
			}
			if modeField != nil && modeField.Pkg() == c.Client.Pkg {
				for _, sf := range c.clientFuncs() {
					funcInstrs(sf, func(in ssa.Instruction) {
						st, okS := in.(*ssa.Store)
						if !okS {
							return
						}
						if fv, _ := fieldOf(st.Addr); fv != modeField {
							return
						}
						m, isC := constString(st.Val)
						if !isC || m == "" {
							return
						}
						for _, cd := range CondsAt(st.Block()) {
							cd = unwrapNot(cd)
							if bo, okB := cd.V.(*ssa.BinOp); okB && bo.Op == token.EQL && cd.True {
								if k, okK := constInt(bo.Y); okK && k < 256 {
									if want[byte(k)] == m {
										got[m] = true
									} else if _, isPfx := want[byte(k)]; isPfx {
										r.Add(rule, "353:prefix:"+string(rune(k)), c.InstrPos(st), c.FuncKey(sf), "prefix maps to the right privilege", false, fmt.Sprintf("prefix %q sets %s", rune(k), m))
									}
								}
							}
						}
					})
				}
			}
			resIdx := 0
			if ex, isE := modeArg.(*ssa.Extract); isE {
				modeArg, resIdx = ex.Tuple, ex.Index
			}
			if hc, ok := modeArg.(*ssa.Call); ok && !hc.Call.IsInvoke() && hc.Call.StaticCallee() != nil && c.InModuleFn(hc.Call.StaticCallee()) {
				// prefix -> mode mapping computed by a helper: read it from the helper's returns
				hf := hc.Call.StaticCallee()
				r.Funcs[c.FuncKey(hf)] = true
				funcInstrs(hf, func(in ssa.Instruction) {
					rt, isR := in.(*ssa.Return)
					if !isR || resIdx >= len(rt.Results) {
						return
					}
					m, isC := constString(retVal(rt, resIdx))
					if !isC || m == "" {
						return
					}
					for _, cd := range CondsAt(rt.Block()) {
						cd = unwrapNot(cd)
						if bo, ok := cd.V.(*ssa.BinOp); ok && bo.Op == token.EQL && cd.True {
							if k, ok := constInt(bo.Y); ok && k < 256 {
								if want[byte(k)] == m {
									got[m] = true
								} else if _, isPfx := want[byte(k)]; isPfx {
									r.Add(rule, "353:prefix:"+string(rune(k)), c.InstrPos(rt), c.FuncKey(hf), "prefix maps to the right privilege", false, fmt.Sprintf("prefix %q sets %s", rune(k), m))
								}
							}
						}
					}
				})
			}
			if m, ok := constString(cs.Common().Args[1]); ok {
				// which prefix guards it?
				for _, cd := range conds {
					cd = unwrapNot(cd)
					if bo, ok := cd.V.(*ssa.BinOp); ok && bo.Op == token.EQL && cd.True {
						if k, ok := constInt(bo.Y); ok && k < 256 {
							if want[byte(k)] == m {
								got[m] = true
							} else if _, isPfx := want[byte(k)]; isPfx {
								r.Add(rule, "353:prefix:"+string(rune(k)), c.InstrPos(cs), c.FuncKey(h), "prefix maps to the right privilege", false, fmt.Sprintf("prefix %q sets %s", rune(k), m))
							}
						}
					}
				}
			}
		}
	}
	var miss []string
	for _, m := range want {
		if !got[m] {
			miss = append(miss, m)
		}
	}
	sort.Strings(miss)
	r.Add(rule, "353:prefix-table", c.Pos(h.Pos()), c.FuncKey(h), "NAMES prefixes ~ & @ % + set q a o h v", len(miss) == 0, "missing "+strings.Join(miss, ","))
	r.Floor(rule, "Associate calls in the 353 handler", nAssoc, 1)
}

func posIn(c *Ctx, in ssa.Instruction) string {
	if in == nil || (fmt.Sprintf("%v", in) == "<nil>") {
		return "-"
	}
	return c.InstrPos(in)
}

// setterRule: an attribute handed to an exported tracker method and stored
// into a tracked nick or channel is stored on every path on which the method
// succeeds (returns a non-nil / true answer), so the stored attribute always
// equals the argument of the last successful call, as in the model.
func (c *Ctx) setterRule(rule string) {
	r := c.R
	trk := c.Named(c.State, "stateTracker")
	if !r.Anchor(rule, "state.stateTracker", trk != nil) {
		return
	}
	tracked := map[*types.Struct]string{}
	for _, n := range []string{"nick", "channel"} {
		if nt := c.Named(c.State, n); nt != nil {
			if st, ok := nt.Underlying().(*types.Struct); ok {
				tracked[st] = n
			}
		}
	}
	ms := c.SSA.MethodSets.MethodSet(types.NewPointer(trk))
	n := 0
	for i := 0; i < ms.Len(); i++ {
		sel := ms.At(i)
		if !sel.Obj().Exported() {
			continue
		}
		fn := c.SSA.MethodValue(sel)
		if fn == nil || fn.Blocks == nil {
			continue
		}
		for pi, pr := range fn.Params {
			if pi == 0 {
				continue
			}
			byField := map[*types.Var][]ssa.Instruction{}
			funcInstrs(fn, func(in ssa.Instruction) {
				s, ok := in.(*ssa.Store)
				if !ok || s.Val != ssa.Value(pr) {
					return
				}
				fv, base := fieldOf(s.Addr)
				if fv == nil {
					return
				}
				if _, ok := tracked[derefStruct(base.Type())]; ok {
					byField[fv] = append(byField[fv], in)
				}
			})
			// ... or handed to a setter of the tracked object that stores it on every one of its paths: the call then
			// stands for the store
			funcInstrs(fn, func(in ssa.Instruction) {
				call, ok := in.(*ssa.Call)
				if !ok || call.Call.IsInvoke() {
					return
				}
				h := call.Call.StaticCallee()
				if h == nil || !c.InModuleFn(h) || h.Package() != c.State || h.Blocks == nil || (h.Object() != nil && h.Object().Exported()) {
					return
				}
				for j, arg := range call.Call.Args {
					if arg != ssa.Value(pr) || j >= len(h.Params) {
						continue
					}
					hp := h.Params[j]
					funcInstrs(h, func(x ssa.Instruction) {
						s2, isS := x.(*ssa.Store)
						if !isS || s2.Val != ssa.Value(hp) {
							return
						}
						fv, base := fieldOf(s2.Addr)
						if fv == nil {
							return
						}
						if _, isT := tracked[derefStruct(base.Type())]; !isT {
							return
						}
						if all, _ := AllPathsFromEntryPass(h, func(y ssa.Instruction) bool { return y == x }); all {
							byField[fv] = append(byField[fv], in)
						}
					})
				}
			})
			for fv, stores := range byField {
				isStore := func(in ssa.Instruction) bool {
					for _, s := range stores {
						if s == in {
							return true
						}
					}
					return false
				}
				funcInstrs(fn, func(in ssa.Instruction) {
					rt, ok := in.(*ssa.Return)
					if !ok {
						return
					}
					if len(rt.Results) > 0 {
						fail := true
						for _, o := range c.Origins(retVal(rt, 0)) {
							if isNilConst(o) {
								continue
							}
							if k, ok := o.(*ssa.Const); ok && k.Value != nil && k.Value.Kind() == constant.Bool && !constant.BoolVal(k.Value) {
								continue
							}
							fail = false
						}
						if fail {
							return
						}
					}
					n++
					ok = SetDominates(fn, isStore, rt)
					if ph, isPh := retVal(rt, 0).(*ssa.Phi); isPh && !ok && len(rt.Results) > 0 && ph.Block() == rt.Block() {
						// one return for success and failure (a named result): the store must come before every
						// edge that brings a non-nil answer
						ok = true
						for i, e := range ph.Edges {
							if isNilConst(e) {
								continue
							}
							pred := ph.Block().Preds[i]
							if len(pred.Instrs) == 0 || !SetDominates(fn, isStore, pred.Instrs[len(pred.Instrs)-1]) {
								ok = false
							}
						}
					}
					if ld, isLd := retVal(rt, 0).(*ssa.UnOp); isLd && !ok && ld.Op == token.MUL {
						// a named result kept in a cell (the function defers): the store must come before every
						// assignment of a non-nil answer to the result
						if al, isAl := ld.X.(*ssa.Alloc); isAl {
							nReal := 0
							ok = true
							for _, st := range cellStores(al) {
								if l2, isL2 := st.Val.(*ssa.UnOp); isL2 && l2.Op == token.MUL && l2.X == ssa.Value(al) {
									continue
								}
								if isNilConst(st.Val) {
									continue
								}
								nReal++
								if st.Parent() != fn || !SetDominates(fn, isStore, st) {
									ok = false
								}
							}
							if nReal == 0 {
								ok = false
							}
						}
					}
					r.Add(rule, fmt.Sprintf("setter:%s:%s", c.FuncKey(fn), fv.Name()), c.InstrPos(rt), c.FuncKey(fn),
						"parameter "+pr.Name()+" is stored to "+fv.Name()+" on every successful path", ok,
						"the success return is reachable without storing "+pr.Name()+" to "+fv.Name()+" (conditional store: the attribute can keep a stale value)")
				})
			}
		}
	}
	// ... and what is stored IS the attribute given: every store to a string field of a tracked nick or channel
	// (outside construction) stores a parameter of the enclosing function, and a helper that does so is handed a
	// parameter of its caller - a value computed from the old attribute ("keep what we know when the new one is
	// empty") makes the tracker disagree with the model, and with the server after a WHO reply
	nAttr := 0
	paramLike := func(v ssa.Value) bool {
		switch t := v.(type) {
		case *ssa.Parameter, *ssa.FreeVar:
			return true
		case *ssa.UnOp:
			if t.Op == token.MUL {
				switch a := t.X.(type) {
				case *ssa.FreeVar:
					return true
				case *ssa.Alloc:
					// a parameter spilled to a cell because a closure captures it
					for _, ref := range *a.Referrers() {
						if st, ok := ref.(*ssa.Store); ok && st.Addr == ssa.Value(a) {
							if _, isP := st.Val.(*ssa.Parameter); !isP {
								return false
							}
						}
					}
					return true
				}
			}
		}
		return false
	}
	for _, fn := range c.stateFuncs() {
		funcInstrs(fn, func(in ssa.Instruction) {
			s, ok := in.(*ssa.Store)
			if !ok || !isStringType(s.Val.Type()) {
				return
			}
			fv, base := fieldOf(s.Addr)
			if fv == nil {
				return
			}
			if _, isT := tracked[derefStruct(base.Type())]; !isT {
				return
			}
			if c.allOriginsLocalAlloc(s.Addr, fn) {
				return
			}
			nAttr++
			okV := paramLike(s.Val)
			why := "stores " + s.Val.String() + ", not the value given"
			if p, isP := s.Val.(*ssa.Parameter); isP && okV && (fn.Object() == nil || !fn.Object().Exported()) && fn.Parent() == nil {
				// helper: judged at its call sites
				idx := -1
				for i, q := range fn.Params {
					if q == p {
						idx = i
					}
				}
				for _, cs := range c.staticCallers(fn) {
					if idx >= 0 && idx < len(cs.Common().Args) && !paramLike(cs.Common().Args[idx]) {
						if _, isK := cs.Common().Args[idx].(*ssa.Const); !isK {
							okV, why = false, "helper is handed "+cs.Common().Args[idx].String()+" at "+c.InstrPos(cs)+", not the value given"
						}
					}
				}
			}
			r.Add(rule, fmt.Sprintf("attr-is-given:%s:%s", c.FuncKey(fn), fv.Name()), c.InstrPos(s), c.FuncKey(fn), "the attribute stored is the one given", okV, why)
		})
	}
	r.Floor(rule, "stores to string attributes of tracked nicks and channels", nAttr, 3)
	// the same inside closures an exported method hands to a locked "update" helper: a captured parameter stored
	// into a tracked object is stored on every path of the closure
	for i := 0; i < ms.Len(); i++ {
		sel := ms.At(i)
		if !sel.Obj().Exported() {
			continue
		}
		fn := c.SSA.MethodValue(sel)
		if fn == nil || fn.Blocks == nil {
			continue
		}
		for _, anon := range fn.AnonFuncs {
			var mc *ssa.MakeClosure
			funcInstrs(fn, func(in ssa.Instruction) {
				if m2, ok := in.(*ssa.MakeClosure); ok && m2.Fn == ssa.Value(anon) {
					mc = m2
				}
			})
			if mc == nil {
				continue
			}
			funcInstrs(anon, func(in ssa.Instruction) {
				st, ok := in.(*ssa.Store)
				if !ok {
					return
				}
				// captured variables are cells: the stored value is a load of the free variable
				var fvv *ssa.FreeVar
				if u, isU := st.Val.(*ssa.UnOp); isU && u.Op == token.MUL {
					fvv, _ = u.X.(*ssa.FreeVar)
				} else {
					fvv, _ = st.Val.(*ssa.FreeVar)
				}
				if fvv == nil {
					return
				}
				bound := false
				for bi, fv2 := range anon.FreeVars {
					if fv2 == fvv && bi < len(mc.Bindings) {
						switch bv := mc.Bindings[bi].(type) {
						case *ssa.Parameter:
							bound = true
						case *ssa.Alloc:
							sts := cellStores(bv)
							if len(sts) == 1 {
								_, bound = sts[0].Val.(*ssa.Parameter)
							}
						}
					}
				}
				fv, base := fieldOf(st.Addr)
				if !bound || fv == nil {
					return
				}
				if _, ok := tracked[derefStruct(base.Type())]; !ok {
					return
				}
				n++
				okAll, _ := AllPathsFromEntryPass(anon, func(x ssa.Instruction) bool {
					s2, isS := x.(*ssa.Store)
					if !isS {
						return false
					}
					same := s2.Val == st.Val
					if u2, isU := s2.Val.(*ssa.UnOp); isU && u2.Op == token.MUL && u2.X == ssa.Value(fvv) {
						same = true
					}
					f2, _ := fieldOf(s2.Addr)
					return same && f2 == fv
				})
				r.Add(rule, fmt.Sprintf("setter:%s:%s", c.FuncKey(anon), fv.Name()), c.InstrPos(st), c.FuncKey(anon),
					"captured parameter "+fvv.Name()+" is stored to "+fv.Name()+" on every path of the update closure", okAll,
					"the closure can return without storing "+fvv.Name()+" to "+fv.Name())
			})
		}
	}
	r.Floor(rule, "attribute stores of exported tracker methods checked on success returns", n, 3)
}

// stateDecidedRule: an exported tracker method that does not create a nick or
// a channel answers nil / false only because of what the tracker holds: every
// such return is dominated by at least one condition computed from tracker
// state (a map lookup, a loaded field, the result of a helper applied to
// state). A refusal decided by the argument alone (say the empty name, which a
// rename can produce) makes the method disagree with the other views.
func (c *Ctx) stateDecidedRule(rule, creatorRule string) {
	r := c.R
	nc := 0
	trk := c.Named(c.State, "stateTracker")
	if !r.Anchor(rule, "state.stateTracker", trk != nil) {
		return
	}
	nickT, chanT := c.Named(c.State, "nick"), c.Named(c.State, "channel")
	ms := c.SSA.MethodSets.MethodSet(types.NewPointer(trk))
	n := 0
	for i := 0; i < ms.Len(); i++ {
		sel := ms.At(i)
		if !sel.Obj().Exported() {
			continue
		}
		fn := c.SSA.MethodValue(sel)
		if fn == nil || fn.Blocks == nil || fn.Signature.Results().Len() == 0 {
			continue
		}
		// creators allocate a tracked object (directly or through a constructor)
		creator := false
		reach := c.Closure([]*ssa.Function{fn}, func(from *ssa.Function, e Edge) bool {
			return e.Kind == EdgeCall && !e.Site.Common().IsInvoke() && e.Callee.Package() == c.State
		})
		for _, f := range reach.Order {
			if !c.InModuleFn(f) {
				continue
			}
			funcInstrs(f, func(in ssa.Instruction) {
				if al, ok := in.(*ssa.Alloc); ok {
					if nt := namedOf(al.Type()); nt != nil && (nt == nickT || nt == chanT) {
						creator = true
					}
				}
			})
		}
		var fromState func(v ssa.Value, d int) bool
		fromState = func(v ssa.Value, d int) bool {
			if d > 6 {
				return false
			}
			switch t := v.(type) {
			case *ssa.Lookup:
				return true
			case *ssa.Extract:
				return fromState(t.Tuple, d+1)
			case *ssa.UnOp:
				if t.Op == token.MUL {
					if fv, _ := fieldOf(t.X); fv != nil {
						return true
					}
				}
				return fromState(t.X, d+1)
			case *ssa.BinOp:
				return fromState(t.X, d+1) || fromState(t.Y, d+1)
			case *ssa.Phi:
				for _, e := range t.Edges {
					if fromState(e, d+1) {
						return true
					}
				}
			case *ssa.Call:
				if b, isB := t.Call.Value.(*ssa.Builtin); isB && b.Name() == "len" {
					return fromState(t.Call.Args[0], d+1)
				}
				// a method of the tracker or of a tracked object: its answer is computed from state
				if cal := t.Call.StaticCallee(); cal != nil && !t.Call.IsInvoke() {
					if rn := recvNamed(cal); rn != nil && (rn == trk || rn == nickT || rn == chanT) {
						return true
					}
				}
				for _, a := range t.Call.Args {
					if fromState(a, d+1) {
						return true
					}
				}
			}
			return false
		}
		if creator {
			if creatorRule != "" {
				nc += c.creatorRefusals(creatorRule, fn, fromState)
			}
			continue
		}
		if rule == "" {
			continue
		}
		funcInstrs(fn, func(in ssa.Instruction) {
			rt, ok := in.(*ssa.Return)
			if !ok {
				return
			}
			v := retVal(rt, len(rt.Results)-1)
			refusal := isNilConst(v)
			if k, isK := v.(*ssa.Const); isK && k.Value != nil && k.Value.Kind() == constant.Bool && !constant.BoolVal(k.Value) {
				refusal = true
			}
			if !refusal {
				return
			}
			n++
			// control dependence on a state condition: some branch on tracker state has exactly one edge from
			// which this return can still be reached
			okS := false
			funcInstrs(fn, func(x ssa.Instruction) {
				iff, isIf := x.(*ssa.If)
				if !isIf || okS || !fromState(unwrapNot(Cond{V: iff.Cond, True: true}).V, 0) {
					return
				}
				b := iff.Block()
				if len(b.Succs) != 2 {
					return
				}
				reaches := func(sb *ssa.BasicBlock) bool {
					if len(sb.Instrs) == 0 {
						return false
					}
					if sb == rt.Block() {
						return true
					}
					return ReachFrom(sb.Instrs[0], true, nil)[rt]
				}
				if reaches(b.Succs[0]) != reaches(b.Succs[1]) {
					okS = true
				}
			})
			r.Add(rule, fmt.Sprintf("state-decided:%s#%d", c.FuncKey(fn), n), c.InstrPos(rt), c.FuncKey(fn), "a nil / false answer of a non-creating method follows from tracker state", okS, "this refusal is decided by the arguments alone: the method disagrees with the other views for such arguments")
		})
	}
	if rule != "" {
		r.Floor(rule, "refusal returns of non-creating exported tracker methods", n, 5)
	}
	if creatorRule != "" {
		r.Floor(creatorRule, "refusal returns of creating tracker methods", nc, 4)
	}
}

// creatorRefusals: every nil return of a method that creates a tracked object
// is decided only by the emptiness of a name argument and by tracker state.
func (c *Ctx) creatorRefusals(rule string, fn *ssa.Function, fromState func(ssa.Value, int) bool) int {
	r := c.R
	n := 0
	emptyTest := func(v ssa.Value) bool {
		bo, ok := v.(*ssa.BinOp)
		if !ok {
			return false
		}
		isP := func(x ssa.Value) bool {
			if _, ok := x.(*ssa.Parameter); ok {
				return true
			}
			if cl, ok := x.(*ssa.Call); ok {
				if b, isB := cl.Call.Value.(*ssa.Builtin); isB && b.Name() == "len" {
					_, ok := cl.Call.Args[0].(*ssa.Parameter)
					return ok
				}
			}
			return false
		}
		isE := func(x ssa.Value) bool {
			if s, ok := constString(x); ok && s == "" {
				return true
			}
			return isZero(x)
		}
		return (isP(bo.X) && isE(bo.Y)) || (isP(bo.Y) && isE(bo.X))
	}
	funcInstrs(fn, func(in ssa.Instruction) {
		rt, ok := in.(*ssa.Return)
		if !ok || !isNilConst(retVal(rt, len(rt.Results)-1)) {
			return
		}
		n++
		bad := ""
		funcInstrs(fn, func(x ssa.Instruction) {
			iff, isIf := x.(*ssa.If)
			if !isIf {
				return
			}
			b := iff.Block()
			if len(b.Succs) != 2 {
				return
			}
			reaches := func(sb *ssa.BasicBlock) bool {
				if len(sb.Instrs) == 0 {
					return false
				}
				if sb == rt.Block() {
					return true
				}
				return ReachFrom(sb.Instrs[0], true, nil)[rt]
			}
			if reaches(b.Succs[0]) == reaches(b.Succs[1]) {
				return
			}
			cv := unwrapNot(Cond{V: iff.Cond, True: true}).V
			if !fromState(cv, 0) && !emptyTest(cv) {
				bad = "decided by " + cv.String() + " at " + c.InstrPos(iff) + ": a test of the name other than emptiness"
			}
		})
		r.Add(rule, fmt.Sprintf("creator-refusal:%s#%d", c.FuncKey(fn), n), c.InstrPos(rt), c.FuncKey(fn), "a creating method refuses only the empty name and what the tracker already holds", bad == "", bad)
	})
	return n
}

// effectsRule checks the effect-table entries of the given verbs (all when
// nil) under rule; it returns the number of tracker call sites checked.
func (c *Ctx) effectsRule(rule string, only []string) int {
	r, a := c.R, c.A
	verbs := make([]string, 0, len(effectTable))
	for v := range effectTable {
		if only != nil && !containsStr(only, v) {
			continue
		}
		verbs = append(verbs, v)
	}
	sort.Strings(verbs)
	nCalls := 0
	for _, verb := range verbs {
		h := a.StTable[verb]
		if h == nil {
			r.Add(rule, "handler:"+verb, "-", "", "a state handler is registered for "+verb, false, "no entry in the state table")
			continue
		}
		r.Funcs[c.FuncKey(h)] = true
		line := ssa.Value(h.Params[1])
		for _, spec := range effectTable[verb] {
			found := 0
			for _, dc := range c.deepTrackerCalls(h, spec.method) {
				found++
				nCalls++
				args := dc.Args
				c.argSubst = dc.Subst
				ok, why := len(args) == len(spec.args), fmt.Sprintf("%d arguments, want %d", len(args), len(spec.args))
				if ok {
					why = "arguments from the prescribed line parts"
					for i, sp := range spec.args {
						if okA, w := c.matchArg(args[i], sp, line); !okA {
							ok, why = false, fmt.Sprintf("argument %d: %s", i, w)
						}
					}
				}
				if ok {
					conds := append(append([]Cond{}, CondsAt(dc.Anchor.Block())...), dc.Inner...)
					for _, cd := range conds {
						if !c.allowedGuard(cd, line) {
							ok, why = false, "reached only under an unlisted condition at "+c.InstrPos(cd.If)+" ("+cd.V.String()+")"
						}
					}
				}
				c.argSubst = nil
				r.Add(rule, fmt.Sprintf("effect:%s:%s#%d", verb, spec.method, found), c.InstrPos(dc.Site), c.FuncKey(h), verb+" -> "+spec.method+" with the protocol's parameter layout", ok, why)
			}
			if found == 0 {
				r.Add(rule, fmt.Sprintf("effect:%s:%s", verb, spec.method), c.Pos(h.Pos()), c.FuncKey(h), verb+" handler calls "+spec.method, false, "no call of "+spec.method+" in the handler")
			}
		}
	}
	return nCalls
}

func containsStr(l []string, s string) bool {
	for _, x := range l {
		if x == s {
			return true
		}
	}
	return false
}

// allowedEffects: which mutating tracker methods the state handler of a verb
// may call at all (the effect table plus the creation calls of JOIN and NAMES
// and the WHO-flag modes). A handler for another verb may not mutate the
// tracker: nothing in the protocol prescribes an effect for it.
var allowedEffects = map[string][]string{
	"JOIN": {"Associate", "NewChannel", "NewNick", "NickInfo"}, "PART": {"Dissociate"}, "KICK": {"Dissociate"}, "QUIT": {"DelNick"},
	"NICK": {"ReNick"}, "MODE": {"ChannelModes", "NickModes"}, "TOPIC": {"Topic"}, "332": {"Topic"}, "324": {"ChannelModes"},
	"311": {"NickInfo"}, "352": {"NickInfo", "NickModes"}, "353": {"NewNick", "Associate", "ChannelModes"}, "671": {"NickModes"},
}

// closedEffectsRule: every mutating tracker call made by a state-table
// handler (directly or in helpers it calls) is one the protocol prescribes
// for that verb.
func (c *Ctx) closedEffectsRule(rule string) {
	r, a := c.R, c.A
	var verbs []string
	for v := range a.StTable {
		verbs = append(verbs, v)
	}
	sort.Strings(verbs)
	n := 0
	for _, verb := range verbs {
		h := a.StTable[verb]
		reach := c.Closure([]*ssa.Function{h}, func(from *ssa.Function, e Edge) bool {
			return e.Kind != EdgeGo && !e.Site.Common().IsInvoke() && e.Callee.Package() == c.Client && (e.Callee.Object() == nil || !e.Callee.Object().Exported())
		})
		for _, fn := range reach.Order {
			for _, cs := range CallSites(fn) {
				if !c.isTrackerCall(cs) {
					continue
				}
				m := cs.Common().Method.Name()
				if trackerReadOnly[m] {
					continue
				}
				n++
				r.Add(rule, fmt.Sprintf("effect-allowed:%s:%s@%s", verb, m, c.FuncKey(fn)), c.InstrPos(cs), c.FuncKey(fn), "the "+verb+" handler changes the tracker only in the way the protocol prescribes for "+verb, containsStr(allowedEffects[verb], m), m+" is not an effect of "+verb+" (allowed: "+strings.Join(allowedEffects[verb], ", ")+")")
			}
		}
	}
	r.Floor(rule, "mutating tracker calls in state handlers", n, 13)
}

// modeDecisionsRule: the mode parsers of the tracker decide only on the mode
// character, the sign, the number of arguments left and whether a named nick
// is on the channel.
func (c *Ctx) modeDecisionsRule(rule string) {
	r := c.R
	n := 0
	for _, name := range []string{"(*channel).parseModes", "(*nick).parseModes"} {
		fn := c.Func(c.State, name)
		if !r.Anchor(rule, name, fn != nil) {
			continue
		}
		reach := c.Closure([]*ssa.Function{fn}, func(from *ssa.Function, e Edge) bool {
			return e.Kind == EdgeCall && !e.Site.Common().IsInvoke() && e.Callee.Package() == c.State
		})
		for _, f := range reach.Order {
			if !c.InModuleFn(f) {
				continue
			}
			seenPhi := map[*ssa.Phi]bool{}
			var helperResult func(call *ssa.Call, idx int, d int) (bool, string)
			var okV func(v ssa.Value, d int) (bool, string)
			okV = func(v ssa.Value, d int) (bool, string) {
				if d > 12 {
					return false, "expression too deep"
				}
				if ph, isPh := v.(*ssa.Phi); isPh {
					if seenPhi[ph] {
						return true, ""
					}
					seenPhi[ph] = true
				}
				switch t := v.(type) {
				case *ssa.FieldAddr, *ssa.Alloc:
					return true, "" // an address (which field a mode character maps to): no text involved
				case *ssa.Const, *ssa.Parameter:
					// a boolean or byte parameter of a helper (the sign, the mode character)
					if isStringType(t.Type()) {
						return false, "compares the text of " + v.Name()
					}
					return true, ""
				case *ssa.Phi:
					for _, e := range t.Edges {
						if e == ssa.Value(t) {
							continue
						}
						if ok, w := okV(e, d+1); !ok {
							return false, w
						}
					}
					return true, ""
				case *ssa.UnOp:
					if t.Op == token.NOT {
						return okV(t.X, d+1)
					}
					if t.Op == token.MUL {
						// modes[i]: a byte of the mode string; a local bool cell
						if ia, isIA := t.X.(*ssa.IndexAddr); isIA && isByte(t.Type()) {
							_ = ia
							return true, ""
						}
						if al, isAl := t.X.(*ssa.Alloc); isAl && !isStringType(t.Type()) {
							_ = al
							return true, ""
						}
						// a byte or flag kept in a record (a tokenised mode change: character, sign)
						if _, isFA := t.X.(*ssa.FieldAddr); isFA {
							if b, isB := t.Type().Underlying().(*types.Basic); isB && b.Info()&types.IsString == 0 {
								return true, ""
							}
						}
					}
					return false, "depends on " + v.String()
				case *ssa.Index:
					if isByte(t.Type()) {
						return true, ""
					}
					return false, "depends on " + v.String()
				case *ssa.BinOp:
					if isStringType(t.X.Type()) {
						// the sign kept as "+" / "-": a comparison among constants and single mode characters
						// converted to strings involves no argument text
						onlyConsts := func(v ssa.Value) bool {
							for _, o := range c.originsLocal(v) {
								switch cv := o.(type) {
								case *ssa.Const:
								case *ssa.Convert:
									if !isByte(cv.X.Type()) {
										return false
									}
								default:
									return false
								}
							}
							return true
						}
						if onlyConsts(t.X) && onlyConsts(t.Y) {
							return true, ""
						}
						return false, "compares strings (" + t.X.Name() + " " + t.Op.String() + " " + t.Y.Name() + ")"
					}
					if ok, w := okV(t.X, d+1); !ok {
						return false, w
					}
					return okV(t.Y, d+1)
				case *ssa.Call:
					if b, isB := t.Call.Value.(*ssa.Builtin); isB && b.Name() == "len" {
						return true, ""
					}
					if !isStringType(t.Type()) {
						return helperResult(t, 0, d)
					}
					return false, "depends on the result of " + calleeName(&t.Call)
				case *ssa.Extract:
					if lk, isL := t.Tuple.(*ssa.Lookup); isL && lk.CommaOk && t.Index == 1 {
						return true, ""
					}
					if call, isC := t.Tuple.(*ssa.Call); isC {
						return helperResult(call, t.Index, d)
					}
					return false, "depends on " + v.String()
				case *ssa.Convert:
					return okV(t.X, d+1)
				}
				return false, "depends on " + v.String()
			}
			// helperResult: a boolean answer of a state-package helper is acceptable when every value the helper
			// returns there is (the helper's own decisions are judged by this rule as well)
			helperResult = func(call *ssa.Call, idx int, d int) (bool, string) {
				cal := call.Call.StaticCallee()
				if cal == nil || call.Call.IsInvoke() || cal.Package() != c.State || !c.InModuleFn(cal) || cal.Blocks == nil {
					return false, "depends on the result of " + calleeName(&call.Call)
				}
				okAll, why := true, ""
				funcInstrs(cal, func(in ssa.Instruction) {
					rt, isR := in.(*ssa.Return)
					if !isR || idx >= len(rt.Results) {
						return
					}
					if ok2, w := okV(retVal(rt, idx), d+1); !ok2 {
						okAll, why = false, w
					}
				})
				return okAll, why
			}
			funcInstrs(f, func(in ssa.Instruction) {
				iff, ok := in.(*ssa.If)
				if !ok {
					return
				}
				n++
				okC, why := okV(iff.Cond, 0)
				if okC {
					why = "decides on the mode character, the sign, the argument count or membership"
				}
				r.Add(rule, fmt.Sprintf("mode-decision:%s#%d", c.FuncKey(f), n), c.InstrPos(iff), c.FuncKey(f), "mode parsing decides only on the mode character, the sign, the number of arguments left and whether the named nick is on the channel", okC, why)
			})
		}
	}
	r.Floor(rule, "decisions in the mode parsers", n, 20)
}

// mustCall: instruction in is a plain call of target, or of a module function
// every path of which makes such a call.
func (c *Ctx) mustCall(in ssa.Instruction, target *ssa.Function, seen map[*ssa.Function]bool) bool {
	if _, isGo := in.(*ssa.Go); isGo {
		return false
	}
	if _, isD := in.(*ssa.Defer); isD {
		return false
	}
	cc := callOf(in)
	if cc == nil || cc.IsInvoke() {
		return false
	}
	cal := cc.StaticCallee()
	if cal == nil {
		return false
	}
	if cal == target {
		return true
	}
	if !c.InModuleFn(cal) || cal.Blocks == nil || seen[cal] {
		return false
	}
	seen[cal] = true
	defer delete(seen, cal)
	ok, _ := AllPathsFromEntryPass(cal, func(x ssa.Instruction) bool { return c.mustCall(x, target, seen) })
	return ok
}

// joinQueriesRule: C13.R9 - once the client's own JOIN has created the
// channel, every path of the handler asks the server for the channel's modes
// (MODE) and its users (WHO).
func (c *Ctx) joinQueriesRule(rule string) {
	r, a := c.R, c.A
	h := a.StTable["JOIN"]
	modeFn, whoFn := c.Func(c.Client, "(*Conn).Mode"), c.Func(c.Client, "(*Conn).Who")
	if !r.Anchor(rule, "JOIN state handler, (*Conn).Mode, (*Conn).Who", h != nil && modeFn != nil && whoFn != nil) {
		return
	}
	n := 0
	for _, dc := range c.deepTrackerCalls(h, "NewChannel") {
		n++
		at := dc.Anchor
		for _, q := range []struct {
			name string
			fn   *ssa.Function
		}{{"MODE", modeFn}, {"WHO", whoFn}} {
			ok, bad := AllPathsPass(at, false, func(x ssa.Instruction) bool { return c.mustCall(x, q.fn, map[*ssa.Function]bool{}) })
			if !ok && dc.Site.Parent() != h {
				// the channel is created in a helper: the queries may follow it there
				ok2, _ := AllPathsPass(dc.Site, false, func(x ssa.Instruction) bool { return c.mustCall(x, q.fn, map[*ssa.Function]bool{}) })
				ok = ok2
			}
			why := "every path after the channel is created sends " + q.name
			if !ok {
				why = "the return at " + c.InstrPos(bad) + " is reached without " + q.name + " having been sent"
			}
			r.Add(rule, fmt.Sprintf("join-query:%s#%d", q.name, n), c.InstrPos(at), c.FuncKey(h), "the client's own JOIN is followed by a "+q.name+" query for the channel on every path", ok, why)
		}
	}
	r.Floor(rule, "NewChannel sites in the JOIN handler", n, 1)
}

// modeFlagStoresRule: C12.R16.
func (c *Ctx) modeFlagStoresRule(rule string) {
	r := c.R
	nSt, nPhi := 0, 0
	for _, name := range []string{"(*channel).parseModes", "(*nick).parseModes"} {
		fn := c.Func(c.State, name)
		if !r.Anchor(rule, name, fn != nil) {
			continue
		}
		frames := []*ssa.Function{fn}
		reach := c.Closure([]*ssa.Function{fn}, func(from *ssa.Function, e Edge) bool {
			return e.Kind == EdgeCall && !e.Site.Common().IsInvoke() && e.Callee.Package() == c.State
		})
		for _, f := range reach.Order {
			if f != fn && c.InModuleFn(f) {
				frames = append(frames, f)
			}
		}
		frames = append(frames, fn.AnonFuncs...)
		perField := map[*types.Var][]*ssa.Store{}
		seenFrame := map[*ssa.Function]bool{}
		for _, f := range frames {
			if seenFrame[f] {
				continue
			}
			seenFrame[f] = true
			funcInstrs(f, func(in ssa.Instruction) {
				st, ok := in.(*ssa.Store)
				if !ok {
					return
				}
				fa, ok := st.Addr.(*ssa.FieldAddr)
				if !ok {
					return
				}
				fv, _ := fieldOf(fa)
				if fv == nil {
					return
				}
				if b, isB := fv.Type().Underlying().(*types.Basic); !isB || b.Kind() != types.Bool {
					return
				}
				pt, isP := fa.X.Type().Underlying().(*types.Pointer)
				if !isP {
					return
				}
				nt, isN := pt.Elem().(*types.Named)
				if !isN || (nt.Obj().Name() != "ChanMode" && nt.Obj().Name() != "NickMode" && nt.Obj().Name() != "ChanPrivs") {
					return
				}
				nSt++
				perField[fv] = append(perField[fv], st)
				_, isConst := st.Val.(*ssa.Const)
				r.Add(rule, "flag-store:"+nt.Obj().Name()+"."+fv.Name()+"@"+c.FuncKey(f), c.InstrPos(st), c.FuncKey(f), "the flag is set to the sign of its own mode character", !isConst, "stores the constant "+st.Val.String()+": another character's flag is forced")
			})
			// the sign variable: a boolean loop-header phi fed with both constants; its value on entry is false
			funcInstrs(f, func(in ssa.Instruction) {
				ph, ok := in.(*ssa.Phi)
				if !ok || !c.IsLoopHeader(ph.Block()) {
					return
				}
				if b, isB := ph.Type().Underlying().(*types.Basic); !isB || b.Kind() != types.Bool {
					return
				}
				nPhi++
				li := c.Loops(f)
				for i, e := range ph.Edges {
					pred := ph.Block().Preds[i]
					if pred == ph.Block() || li.headers[pred][ph.Block()] {
						continue // back edge
					}
					k, isK := e.(*ssa.Const)
					okE := isK && k.Value != nil && k.Value.String() == "false"
					r.Add(rule, "sign-starts-remove:"+c.FuncKey(f), c.InstrPos(ph), c.FuncKey(f), "the sign in force before the first '+' or '-' is 'remove'", okE, "initial value "+e.String())
				}
			})
		}
		// every flag the snapshot type has is tracked: each boolean field of the mode structures this parser
		// writes is addressed somewhere in the parser's frames (stored to, or handed out by a lookup helper)
		addressed := map[*types.Var]bool{}
		owners := map[*types.Named]bool{}
		for _, f := range frames {
			funcInstrs(f, func(in ssa.Instruction) {
				fa, ok := in.(*ssa.FieldAddr)
				if !ok {
					return
				}
				fv, _ := fieldOf(fa)
				pt, isP := fa.X.Type().Underlying().(*types.Pointer)
				if fv == nil || !isP {
					return
				}
				if nt, isN := pt.Elem().(*types.Named); isN && (nt.Obj().Name() == "ChanMode" || nt.Obj().Name() == "NickMode" || nt.Obj().Name() == "ChanPrivs") {
					addressed[fv] = true
					owners[nt] = true
				}
			})
		}
		for nt := range owners {
			st, _ := nt.Underlying().(*types.Struct)
			for i := 0; st != nil && i < st.NumFields(); i++ {
				fv := st.Field(i)
				if b, isB := fv.Type().Underlying().(*types.Basic); !isB || b.Kind() != types.Bool {
					continue
				}
				nSt++
				r.Add(rule, "flag-tracked:"+nt.Obj().Name()+"."+fv.Name(), c.Pos(fv.Pos()), c.FuncKey(fn), "every boolean mode of "+nt.Obj().Name()+" is written by the mode parser", addressed[fv], "no code of "+name+" (or its helpers) addresses "+fv.Name()+": the mode character that should switch it is ignored")
			}
		}
		for fv, sts := range perField {
			if len(sts) > 1 {
				r.Add(rule, "flag-one-site:"+fv.Name(), c.InstrPos(sts[1]), c.FuncKey(sts[1].Parent()), "each mode flag is written at one site", false, fmt.Sprintf("%s is stored at %d sites", fv.Name(), len(sts)))
			}
		}
	}
	r.Add(rule, "flag-stores-examined", "-", "", "stores to mode flags and sign variables examined", nSt+nPhi > 0, fmt.Sprintf("%d flag stores, %d sign variables", nSt, nPhi))
}

// lockedBody: when fn only takes its receiver's lock and delegates to one
// unexported method of the same receiver (the "lock wrapper + body" split),
// the body; otherwise fn itself.
func (c *Ctx) lockedBody(fn *ssa.Function) *ssa.Function {
	if fn == nil || fn.Blocks == nil || fn.Signature.Recv() == nil {
		return fn
	}
	var inner *ssa.Function
	n := 0
	okShape := true
	funcInstrs(fn, func(in ssa.Instruction) {
		switch t := in.(type) {
		case *ssa.Call:
			if op, isL := c.lockOpOf(in); isL && (op.Method == "Lock" || op.Method == "RLock" || op.Method == "Unlock" || op.Method == "RUnlock") {
				return
			}
			cal := t.Call.StaticCallee()
			isRecv := func(v ssa.Value) bool {
				if v == ssa.Value(fn.Params[0]) {
					return true
				}
				// the receiver spilled to a cell because a closure captures it
				if u, ok := v.(*ssa.UnOp); ok && u.Op == token.MUL {
					if al, ok := u.X.(*ssa.Alloc); ok {
						for _, st := range cellStores(al) {
							if st.Val != ssa.Value(fn.Params[0]) {
								return false
							}
						}
						return len(cellStores(al)) > 0
					}
				}
				return false
			}
			if cal == nil || t.Call.IsInvoke() || !c.InModuleFn(cal) || cal.Signature.Recv() == nil || (cal.Object() != nil && cal.Object().Exported()) || len(t.Call.Args) == 0 || !isRecv(t.Call.Args[0]) {
				okShape = false
				return
			}
			inner = cal
			n++
		case *ssa.Defer:
			if op, isL := c.lockOpOf(in); !isL || (op.Method != "Unlock" && op.Method != "RUnlock") {
				okShape = false
			}
		case *ssa.Store:
			// spilling a parameter to the cell a closure captures is not work
			if _, isP := t.Val.(*ssa.Parameter); isP {
				if _, isAl := t.Addr.(*ssa.Alloc); isAl {
					return
				}
			}
			okShape = false
		case *ssa.MapUpdate, *ssa.Go, *ssa.Send, *ssa.If, *ssa.Lookup:
			okShape = false
		}
	})
	if okShape && n == 1 && inner != nil {
		// "run this closure under the lock": the work is the closure
		if len(fn.AnonFuncs) == 1 {
			handsClosure := false
			funcInstrs(fn, func(in ssa.Instruction) {
				if call, ok := in.(*ssa.Call); ok && call.Call.StaticCallee() == inner {
					for _, av := range call.Call.Args[1:] {
						if mc, isMC := av.(*ssa.MakeClosure); isMC && mc.Fn == ssa.Value(fn.AnonFuncs[0]) {
							handsClosure = true
						}
					}
				}
			})
			if handsClosure && c.callsOnlyItsFuncParam(inner) {
				return fn.AnonFuncs[0]
			}
		}
		return inner
	}
	return fn
}

// callsOnlyItsFuncParam: h takes its receiver's lock (released by a deferred
// unlock) and calls its function-typed parameter - nothing else.
func (c *Ctx) callsOnlyItsFuncParam(h *ssa.Function) bool {
	ok, called := true, 0
	funcInstrs(h, func(in ssa.Instruction) {
		switch t := in.(type) {
		case *ssa.Call:
			if _, isL := c.lockOpOf(in); isL {
				return
			}
			if pr, isP := t.Call.Value.(*ssa.Parameter); isP && pr.Parent() == h {
				called++
				return
			}
			ok = false
		case *ssa.Defer:
			if op, isL := c.lockOpOf(in); !isL || (op.Method != "Unlock" && op.Method != "RUnlock") {
				ok = false
			}
		case *ssa.Store, *ssa.MapUpdate, *ssa.Go, *ssa.Send:
			ok = false
		}
	})
	return ok && called == 1
}

// rawKeysRule: the tracker's tables are keyed by names exactly as given: every
// index of stateTracker.nicks / stateTracker.chans (lookup, update, delete) is
// a string parameter of the enclosing function, the name field of a tracked
// object (under which it was filed), or a loop key of the same table. A key
// computed from a name (case folding, trimming) makes tables filed under one
// spelling and looked up or deleted under another disagree - and the model
// compares names exactly.
func (c *Ctx) rawKeysRule(rule string) {
	r := c.R
	m := c.newTrackerModel()
	if !r.Anchor(rule, "tracker tables", m.stNicks != nil && m.stChans != nil) {
		return
	}
	nameField := func(v ssa.Value) bool {
		fv, base := loadedField(v)
		if fv == nil || !isStringType(fv.Type()) {
			return false
		}
		if st := derefStruct(base.Type()); st != nil {
			for _, n := range []string{"nick", "channel"} {
				if nt := c.Named(c.State, n); nt != nil && nt.Underlying() == types.Type(st) {
					return true
				}
			}
		}
		return false
	}
	n := 0
	for _, fn := range m.funcs {
		for _, op := range mapOps(fn) {
			if (op.Field != m.stNicks && op.Field != m.stChans) || op.Key == nil {
				continue
			}
			if c.allOriginsLocalAlloc(op.Base, fn) {
				continue
			}
			n++
			ok, why := true, "the name as given"
			for _, o := range c.originsLocal(op.Key) {
				if c.capturedParam(o) {
					continue
				}
				// a parameter spilled to a cell because closures of this function capture it
				if ld, isLd := o.(*ssa.UnOp); isLd && ld.Op == token.MUL {
					if al, isAl := ld.X.(*ssa.Alloc); isAl && al.Parent() == fn {
						sts := cellStores(al)
						onlyParam := len(sts) > 0
						for _, st := range sts {
							if _, isP := st.Val.(*ssa.Parameter); !isP {
								onlyParam = false
							}
						}
						if onlyParam {
							continue
						}
					}
				}
				switch t := o.(type) {
				case *ssa.Parameter:
				case *ssa.Extract:
					if _, isNext := t.Tuple.(*ssa.Next); !isNext {
						ok, why = false, "key is "+o.String()
					}
				default:
					if !nameField(o) {
						ok, why = false, "key is computed: "+o.String()
					}
				}
			}
			r.Add(rule, fmt.Sprintf("raw-key:%s:%s#%d", c.FuncKey(fn), op.Field.Name(), n), c.InstrPos(op.In), c.FuncKey(fn), "the tracker's tables are indexed by names exactly as given", ok, why)
		}
	}
	r.Floor(rule, "keyed operations on the tracker's nick and channel tables", n, 10)
}

// refusalInertRule: C12.R18. An operation that reports failure has changed
// nothing: in every exported tracker method with a pointer result, no return
// of the nil constant is reachable from an instruction that mutates tracker
// state (a map update or delete on tracked storage, a store to a field of a
// tracked object, a call of a function of the package that does any of
// these). In the model a refused operation - deleting the client's own nick,
// a name that is not tracked, a name already in use - is the identity.
func (c *Ctx) refusalInertRule(rule string) {
	r := c.R
	m := c.newTrackerModel()
	tracked := func(t types.Type) bool {
		if p, ok := t.Underlying().(*types.Pointer); ok {
			t = p.Elem()
		}
		nt, ok := t.(*types.Named)
		if !ok || nt.Obj().Pkg() == nil || nt.Obj().Pkg() != c.State.Pkg {
			return false
		}
		switch nt.Obj().Name() {
		case "stateTracker", "nick", "channel", "ChanMode", "NickMode", "ChanPrivs":
			return true
		}
		return false
	}
	direct := func(fn *ssa.Function, in ssa.Instruction) bool {
		switch t := in.(type) {
		case *ssa.MapUpdate:
			return !c.allOriginsLocalAlloc(t.Map, fn)
		case *ssa.Store:
			fa, ok := t.Addr.(*ssa.FieldAddr)
			if !ok || !tracked(fa.X.Type()) {
				return false
			}
			return !c.allOriginsLocalAlloc(fa, fn)
		case *ssa.Call:
			if b, ok := t.Call.Value.(*ssa.Builtin); ok && b.Name() == "delete" {
				return !c.allOriginsLocalAlloc(t.Call.Args[0], fn)
			}
		}
		return false
	}
	mut := map[*ssa.Function]bool{}
	for changed := true; changed; {
		changed = false
		for _, fn := range m.funcs {
			if mut[fn] {
				continue
			}
			funcInstrs(fn, func(in ssa.Instruction) {
				if mut[fn] {
					return
				}
				if direct(fn, in) {
					mut[fn] = true
				} else if cs, ok := in.(ssa.CallInstruction); ok {
					if cal := cs.Common().StaticCallee(); cal != nil && mut[cal] {
						mut[fn] = true
					}
				}
				if mut[fn] {
					changed = true
				}
			})
		}
	}
	// mutReach: the instructions reachable from a mutation in fn. A call of a helper that itself answers nil only
	// when it has changed nothing (a "track it unless it is there" helper) counts as a mutation only where its
	// result is not nil.
	inertMemo := map[*ssa.Function]int{}
	var nilInert func(fn *ssa.Function) bool
	var mutReach func(fn *ssa.Function) map[ssa.Instruction]bool
	mutReach = func(fn *ssa.Function) map[ssa.Instruction]bool {
		reach := map[ssa.Instruction]bool{}
		funcInstrs(fn, func(in ssa.Instruction) {
			isM := direct(fn, in)
			var res *ssa.Call
			if cs, ok := in.(*ssa.Call); ok && !isM {
				if cal := cs.Call.StaticCallee(); cal != nil && mut[cal] {
					isM = true
					if nilInert(cal) {
						res = cs
					}
				}
			}
			if !isM || reach[in] {
				return
			}
			skip := func(from, to *ssa.BasicBlock) bool {
				if res == nil {
					return false
				}
				cd, ok := edgeCond(from, to)
				if !ok {
					return false
				}
				cd = unwrapNot(cd)
				bo, isB := cd.V.(*ssa.BinOp)
				if !isB || (bo.Op != token.EQL && bo.Op != token.NEQ) {
					return false
				}
				var other ssa.Value
				if isNilConst(bo.Y) {
					other = bo.X
				} else if isNilConst(bo.X) {
					other = bo.Y
				}
				// the edge on which the helper's result is nil: nothing was changed
				return other == ssa.Value(res) && (bo.Op == token.EQL) == cd.True
			}
			for x := range ReachFromFiltered(in, true, nil, skip) {
				reach[x] = true
			}
		})
		return reach
	}
	nilInert = func(fn *ssa.Function) bool {
		if v, ok := inertMemo[fn]; ok {
			return v == 1
		}
		inertMemo[fn] = 2 // recursion: not inert
		if fn.Blocks == nil || fn.Signature.Results().Len() != 1 {
			return false
		}
		if _, isP := fn.Signature.Results().At(0).Type().Underlying().(*types.Pointer); !isP {
			return false
		}
		reach := mutReach(fn)
		ok, nNil := true, 0
		funcInstrs(fn, func(in ssa.Instruction) {
			if rt, isR := in.(*ssa.Return); isR && len(rt.Results) == 1 && isNilConst(retVal(rt, 0)) {
				nNil++
				if reach[rt] {
					ok = false
				}
			}
		})
		// ... and a nil answer is always one of those returns (no nil smuggled through a variable)
		funcInstrs(fn, func(in ssa.Instruction) {
			if rt, isR := in.(*ssa.Return); isR && len(rt.Results) == 1 && !isNilConst(retVal(rt, 0)) {
				for _, o := range c.originsLocal(retVal(rt, 0)) {
					if isNilConst(o) {
						ok = false
					}
				}
			}
		})
		if ok && nNil > 0 {
			inertMemo[fn] = 1
		}
		return ok && nNil > 0
	}
	n := 0
	for _, fn := range m.funcs {
		if fn.Object() == nil || !fn.Object().Exported() || fn.Signature.Recv() == nil || fn.Signature.Results().Len() == 0 || !mut[fn] {
			continue
		}
		if _, isP := fn.Signature.Results().At(0).Type().Underlying().(*types.Pointer); !isP {
			continue
		}
		k := 0
		reach := mutReach(fn)
		funcInstrs(fn, func(in ssa.Instruction) {
			rt, ok := in.(*ssa.Return)
			if !ok || len(rt.Results) == 0 || !isNilConst(retVal(rt, 0)) {
				return
			}
			n++
			k++
			r.Add(rule, fmt.Sprintf("refusal-inert:%s#%d", c.FuncKey(fn), k), c.InstrPos(rt), c.FuncKey(fn), "an operation that answers nil has changed nothing", !reach[rt], "this nil return is reachable after a mutation of tracker state")
		})
	}
	r.Floor(rule, "nil returns of mutating tracker operations", n, 10)
}

// capturedParam: v, inside a closure, is (a load of) a free variable that the
// enclosing function binds to one of its own parameters (to the cell the
// parameter was spilled to, written by nothing else).
func (c *Ctx) capturedParam(v ssa.Value) bool {
	var fvv *ssa.FreeVar
	if u, ok := v.(*ssa.UnOp); ok && u.Op == token.MUL {
		fvv, _ = u.X.(*ssa.FreeVar)
	} else {
		fvv, _ = v.(*ssa.FreeVar)
	}
	if fvv == nil {
		return false
	}
	anon := fvv.Parent()
	outer := anon.Parent()
	if outer == nil {
		return false
	}
	idx := -1
	for i, f := range anon.FreeVars {
		if f == fvv {
			idx = i
		}
	}
	found, ok := false, true
	funcInstrs(outer, func(in ssa.Instruction) {
		mc, isMC := in.(*ssa.MakeClosure)
		if !isMC || mc.Fn != ssa.Value(anon) || idx < 0 || idx >= len(mc.Bindings) {
			return
		}
		found = true
		switch b := mc.Bindings[idx].(type) {
		case *ssa.Parameter:
		case *ssa.Alloc:
			for _, ref := range *b.Referrers() {
				if st, isSt := ref.(*ssa.Store); isSt && st.Addr == ssa.Value(b) {
					if _, isP := st.Val.(*ssa.Parameter); !isP {
						ok = false
					}
				}
			}
			// ... and the closure itself does not assign it
			for _, ref := range *fvv.Referrers() {
				if st, isSt := ref.(*ssa.Store); isSt && st.Addr == ssa.Value(fvv) {
					ok = false
				}
			}
		default:
			ok = false
		}
	})
	return found && ok
}

// connectWipes: the places in the connect routine that wipe the tracker - a
// call of a module function that does (on its own st != nil guard), or a
// direct Wipe call guarded by st != nil - and the success return, if any,
// reachable from entry without passing one of them while tracking is on
// (edges that imply "there is no tracker" are not followed).
func (c *Ctx) connectWipes() ([]ssa.Instruction, string) {
	a := c.A
	cn := a.Connect
	seenE := map[*ssa.Function]*connEffects{}
	var wipe []ssa.Instruction
	funcInstrs(cn, func(in ssa.Instruction) {
		cs, ok := in.(ssa.CallInstruction)
		if !ok {
			return
		}
		if c.isTrackerCall(in) && callOf(in).Method.Name() == "Wipe" {
			if _, isCall := in.(*ssa.Call); isCall {
				wipe = append(wipe, in)
			}
			return
		}
		if cal := cs.Common().StaticCallee(); cal != nil && c.InModuleFn(cal) && c.connEffectsOf(cal, seenE).wipes {
			wipe = append(wipe, in)
		}
	})
	if len(cn.Blocks) == 0 {
		return wipe, ""
	}
	isWipe := func(in ssa.Instruction) bool {
		for _, w := range wipe {
			if w == in {
				return true
			}
		}
		return false
	}
	noTracker := func(from, to *ssa.BasicBlock) bool {
		cd, ok := edgeCond(from, to)
		if !ok {
			return false
		}
		cd = unwrapNot(cd)
		bo, isB := cd.V.(*ssa.BinOp)
		if !isB || (bo.Op != token.EQL && bo.Op != token.NEQ) {
			return false
		}
		var other ssa.Value
		if isNilConst(bo.Y) {
			other = bo.X
		} else if isNilConst(bo.X) {
			other = bo.Y
		}
		fv, _ := loadedField(other)
		return fv == a.St && (bo.Op == token.EQL) == cd.True
	}
	bad := ""
	for in := range ReachFromFiltered(cn.Blocks[0].Instrs[0], true, isWipe, noTracker) {
		if rt, ok := in.(*ssa.Return); ok && len(rt.Results) == 1 && isNilConst(retVal(rt, 0)) {
			bad = c.InstrPos(rt)
		}
	}
	return wipe, bad
}
