// Package sa is the static checker for fluffle/goirc: loader, engines and
// rule tables. Nothing here executes goirc code.
package sa

import (
	"fmt"
	"go/token"
	"go/types"
	"os"
	"path/filepath"
	"sort"
	"strings"

	"golang.org/x/tools/go/packages"
	"golang.org/x/tools/go/ssa"
	"golang.org/x/tools/go/ssa/ssautil"
)

const modPath = "github.com/fluffle/goirc"

// LoadConfig selects one build configuration of the repository.
type LoadConfig struct {
	Dir    string   // repository root
	GOOS   string   // "" = host
	GOARCH string   // "" = host
	Tags   []string // extra build tags
}

func (lc LoadConfig) String() string {
	s := "host"
	if lc.GOOS != "" || lc.GOARCH != "" {
		s = lc.GOOS + "/" + lc.GOARCH
	}
	if len(lc.Tags) > 0 {
		s += " tags=" + strings.Join(lc.Tags, ",")
	}
	return s
}

// Prog is the resolved program: type-checked packages, SSA, module packages.
type Prog struct {
	Cfg     LoadConfig
	Fset    *token.FileSet
	Pkgs    []*packages.Package
	SSA     *ssa.Program
	Client  *ssa.Package
	State   *ssa.Package
	Logging *ssa.Package
	// ModFuncs are all source functions (incl. anonymous) of module packages
	// client, state, logging, excluding generated mock files.
	ModFuncs []*ssa.Function
	mockFile map[string]bool
	NPkgs    int

	idom            map[*ssa.Function]bool
	loops           map[*ssa.Function]*loopInfo
	impls           map[*types.Interface][]types.Type
	callersOf       map[*ssa.Function][]ssa.CallInstruction
	scanCutMemo     map[*ssa.Function]scanCutRes
	resolving       map[*ssa.Function]bool
	staticCallersOf map[*ssa.Function][]ssa.CallInstruction
	wrapMemo        map[*ssa.Function]*wrapInfo
	names           map[string]string
	evHelper        map[*ssa.Function]int
	mapMemo         map[ssa.Value]*ssa.BasicBlock
}

// Load type-checks and builds SSA for the three library packages and all
// their dependencies from the current working tree. Any error is fatal
// (fail closed).
func Load(lc LoadConfig) (*Prog, error) {
	env := os.Environ()
	out := env[:0:0]
	for _, e := range env {
		if strings.HasPrefix(e, "GOWORK=") || strings.HasPrefix(e, "GOFLAGS=") ||
			strings.HasPrefix(e, "GOOS=") || strings.HasPrefix(e, "GOARCH=") {
			continue
		}
		out = append(out, e)
	}
	out = append(out, "GOWORK=off", "GOFLAGS=-mod=mod", "GOPROXY=off", "GOSUMDB=off", "GOTOOLCHAIN=local", "CGO_ENABLED=0")
	if lc.GOOS != "" {
		out = append(out, "GOOS="+lc.GOOS)
	}
	if lc.GOARCH != "" {
		out = append(out, "GOARCH="+lc.GOARCH)
	}
	cfg := &packages.Config{
		Mode:  packages.LoadAllSyntax,
		Dir:   lc.Dir,
		Env:   out,
		Tests: false,
	}
	if len(lc.Tags) > 0 {
		cfg.BuildFlags = []string{"-tags=" + strings.Join(lc.Tags, ",")}
	}
	pkgs, err := packages.Load(cfg, "./client", "./state", "./logging")
	if err != nil {
		return nil, fmt.Errorf("packages.Load: %v", err)
	}
	if len(pkgs) != 3 {
		return nil, fmt.Errorf("expected 3 root packages, got %d", len(pkgs))
	}
	var errs []string
	n := 0
	packages.Visit(pkgs, nil, func(p *packages.Package) {
		n++
		for _, e := range p.Errors {
			errs = append(errs, e.Error())
		}
	})
	if len(errs) > 0 {
		sort.Strings(errs)
		return nil, fmt.Errorf("load/type errors: %s", strings.Join(errs, "; "))
	}
	prog, _ := ssautil.AllPackages(pkgs, ssa.SanityCheckFunctions)
	prog.Build()
	p := &Prog{Cfg: lc, Fset: pkgs[0].Fset, Pkgs: pkgs, SSA: prog, NPkgs: n,
		mockFile: map[string]bool{}, loops: map[*ssa.Function]*loopInfo{}, impls: map[*types.Interface][]types.Type{}, scanCutMemo: map[*ssa.Function]scanCutRes{}, resolving: map[*ssa.Function]bool{}}
	for _, pk := range pkgs {
		sp := prog.Package(pk.Types)
		if sp == nil {
			return nil, fmt.Errorf("no SSA package for %s", pk.PkgPath)
		}
		switch pk.PkgPath {
		case modPath + "/client":
			p.Client = sp
		case modPath + "/state":
			p.State = sp
		case modPath + "/logging":
			p.Logging = sp
		}
		for i, f := range pk.Syntax {
			name := pk.CompiledGoFiles[i]
			for _, cg := range f.Comments {
				if cg.Pos() < f.Package && (strings.Contains(cg.Text(), "MockGen") || strings.Contains(cg.Text(), "DO NOT EDIT")) {
					p.mockFile[name] = true
				}
				break
			}
		}
	}
	if p.Client == nil || p.State == nil || p.Logging == nil {
		return nil, fmt.Errorf("module packages not all found")
	}
	// Source functions of the module.
	all := ssautil.AllFunctions(prog)
	for f := range all {
		if f.Pkg == nil && f.Parent() == nil {
			// wrappers/thunks: have no Pkg; keep those whose origin is ours
			continue
		}
		pk := f.Package()
		if pk != p.Client && pk != p.State && pk != p.Logging {
			continue
		}
		if f.Blocks == nil {
			continue
		}
		if f.Synthetic != "" && f.Name() != "init" {
			continue
		}
		if p.IsMock(f) {
			continue
		}
		p.ModFuncs = append(p.ModFuncs, f)
	}
	sort.Slice(p.ModFuncs, func(i, j int) bool { return p.FuncKey(p.ModFuncs[i]) < p.FuncKey(p.ModFuncs[j]) })
	// named functions used as values (method values, table entries, arguments): go/ssa keeps referrers only for
	// anonymous functions, so record these uses here
	namedValueUses = map[*ssa.Function]int{}
	for f := range all {
		if f.Blocks == nil {
			continue
		}
		for _, b := range f.Blocks {
			for _, in := range b.Instrs {
				var callee ssa.Value
				if ci, ok := in.(ssa.CallInstruction); ok {
					callee = ci.Common().Value
				}
				for _, op := range in.Operands(nil) {
					if op == nil || *op == nil {
						continue
					}
					fn, ok := (*op).(*ssa.Function)
					if !ok {
						continue
					}
					if *op == callee && f.Synthetic == "" {
						continue // plain call position
					}
					if f.Synthetic != "" {
						continue // a wrapper calling its target: counted where the wrapper itself is used
					}
					namedValueUses[p.unthunk(fn)]++
				}
			}
		}
	}
	if len(p.ModFuncs) < 100 {
		return nil, fmt.Errorf("only %d module functions found", len(p.ModFuncs))
	}
	return p, nil
}

// IsMock reports whether fn is declared in a generated mock file.
func (p *Prog) IsMock(fn *ssa.Function) bool {
	pos := fn.Pos()
	if !pos.IsValid() && fn.Parent() != nil {
		pos = fn.Parent().Pos()
	}
	if !pos.IsValid() {
		return false
	}
	return p.mockFile[p.Fset.Position(pos).Filename]
}

// Pos renders a position relative to the repository root.
func (p *Prog) Pos(pos token.Pos) string {
	if !pos.IsValid() {
		return "-"
	}
	ps := p.Fset.Position(pos)
	rel, err := filepath.Rel(p.Cfg.Dir, ps.Filename)
	if err != nil || strings.HasPrefix(rel, "..") {
		rel = ps.Filename
	}
	return fmt.Sprintf("%s:%d:%d", rel, ps.Line, ps.Column)
}

// InstrPos finds the best position for an instruction.
func (p *Prog) InstrPos(in ssa.Instruction) string {
	if in == nil {
		return "-"
	}
	if in.Pos().IsValid() {
		return p.Pos(in.Pos())
	}
	// fall back: operands
	for _, op := range in.Operands(nil) {
		if *op != nil && (*op).Pos().IsValid() {
			return p.Pos((*op).Pos())
		}
	}
	// fall back: neighbouring instructions in block
	b := in.Block()
	if b != nil {
		for _, x := range b.Instrs {
			if x.Pos().IsValid() {
				return p.Pos(x.Pos())
			}
		}
		if b.Parent() != nil {
			return p.Pos(b.Parent().Pos())
		}
	}
	return "-"
}

// FuncKey is the stable name of a function: pkg.(Recv).Name or parent$n.
func (p *Prog) FuncKey(fn *ssa.Function) string {
	if fn == nil {
		return "<nil>"
	}
	s := fn.String()
	s = strings.ReplaceAll(s, modPath+"/", "")
	return s
}

// Func finds a package-level function or method by package and name, e.g.
// ("client","ParseLine") or ("client","(*Conn).Close").
func (p *Prog) Func(pkg *ssa.Package, name string) *ssa.Function {
	if f := p.funcByName(pkg, name); f != nil {
		return f
	}
	// an unexported function or method that was renamed: find it by role
	if f := p.funcByRole(name); f != nil {
		return f
	}
	if strings.HasPrefix(name, "(") {
		// method of a renamed unexported type: translate the receiver name
		i := strings.Index(name, ").")
		recv := strings.TrimPrefix(name[1:i], "*")
		if act := p.nm(recv); act != recv {
			star := ""
			if strings.HasPrefix(name[1:i], "*") {
				star = "*"
			}
			if f := p.funcByName(pkg, "("+star+act+")."+name[i+2:]); f != nil {
				return f
			}
		}
	} else if act := p.nm(name); act != name {
		return pkg.Func(act)
	}
	return nil
}

// Named returns the named type pkg.name, or nil.
func (p *Prog) Named(pkg *ssa.Package, name string) *types.Named {
	tn := pkg.Type(name)
	if tn == nil {
		if n := p.typeByRole(name); n != nil && n.Obj().Pkg() == pkg.Pkg {
			return n
		}
		return nil
	}
	n, _ := tn.Type().(*types.Named)
	return n
}

// FieldVar returns the *types.Var of field `field` of struct type pkg.typ.
func (p *Prog) FieldVar(pkg *ssa.Package, typ, field string) *types.Var {
	n := p.Named(pkg, typ)
	if n == nil {
		return nil
	}
	st, ok := n.Underlying().(*types.Struct)
	if !ok {
		return nil
	}
	for i := 0; i < st.NumFields(); i++ {
		if st.Field(i).Name() == field {
			return st.Field(i)
		}
	}
	// an unexported field that was renamed: find it by role
	return p.fieldByRole(typ, field)
}
