package sa

import (
	"fmt"
	"go/token"
	"go/types"
	"sort"
	"strings"

	"golang.org/x/tools/go/ssa"
)

func init() {
	register(&PropertySpec{
		ID:        "C17",
		Technique: "nilability of every store to Config.Me; effect table with guard whitelist for 001/433/NICK; interval proof for the default nick generator (static analysis)",
		Explain:   "Agreement of Me() with the server over a session is NOT decided. Decided: every value ever stored to Config.Me is non-nil (fresh allocation, result of a tracker method none of whose implementations returns nil, or guarded by != nil); the 001, 433 and NICK handlers apply the prescribed update (adopt the 001 target; answer 433 with Nick(NewNick(refused)) on every path and adopt it only when the refused nick was the current one; follow NICK lines) guarded only by the listed conditions; DefaultNewNick returns old[:len-1] + one byte < 0x80 (same length, same prefix).",
		Assume:    []string{"the configured NewNick is called with the refused nick (checked) and is otherwise opaque"},
		Run:       runC17,
	})
	register(&PropertySpec{
		ID:        "C18",
		Technique: "call-sequence and guard rules on the REGISTER handler; address/port dataflow to every dial site; PING->PONG effect; spawn guard of the ping goroutine (static analysis)",
		Explain: "Decided for all configurations: the REGISTER handler calls CAP LS iff negotiation is enabled, PASS(Config.Pass) iff a password is set, then NICK(Me.Nick) and USER(Me.Ident, Me.Name) unconditionally, once each and in that order; every dial site dials Config.Server, to which the connect routine has added :6697 (SSL) or :6667 on the no-port edge before any dial; the PING handler answers Pong(Args[0]); lines reach it whole (delimiter framing); the ping goroutine is spawned exactly under PingFreq > 0 and pings on each tick of a PingFreq ticker. " +
			"Not decided: hasPort's string logic, tick timing.",
		Assume: []string{"net.JoinHostPort and the dialers' contracts"},
		Run:    runC18,
	})
	register(&PropertySpec{
		ID:        "C19",
		Technique: "set-object identity dataflow for the CAP request; flag-sensitive path-protocol exploration for 'always ends'; who-may-call rule for AUTHENTICATE; no-element-skipped rule for request splitting (static analysis)",
		Explain: "Decided for all reply orders: CAP REQ carries Slice() of the very set built by the wanted-set constructor and intersected with the advertised set, REQ iff it is non-empty else END; the wanted set adds sasl iff SASL is configured plus the configured capabilities; NAK, 903, 904, 908 end negotiation on every path; on every path of the ACK handler exactly one of {Authenticate was started, CAP END is sent} happens; Authenticate is called only from the ACK handler under cap == sasl and SASL configured, and from the AUTHENTICATE handler; the held-set is written only by the ACK handler; request splitting skips no element. " +
			"Not decided: capSet's set algebra, SASL encodings.",
		Assume: []string{"a malformed 908/CAP line that makes a handler panic (recovered) is outside the enumerated replies"},
		Run:    runC19,
	})
}

// ---------------- C17 ----------------

// nonNilResult: every return of fn (result 0) is a non-nil pointer.
func (c *Ctx) nonNilResult(fn *ssa.Function, depth int) bool {
	if fn == nil || fn.Blocks == nil || depth > 9 {
		return false
	}
	ok := true
	funcInstrs(fn, func(in ssa.Instruction) {
		rt, isR := in.(*ssa.Return)
		if !isR || len(rt.Results) == 0 {
			return
		}
		if !c.nonNilValue(retVal(rt, 0), rt, depth+1) {
			ok = false
		}
	})
	return ok
}

func (c *Ctx) nonNilValue(v ssa.Value, at ssa.Instruction, depth int) bool {
	switch t := v.(type) {
	case *ssa.Alloc:
		return true
	case *ssa.Const:
		return t.Value != nil
	case *ssa.Phi:
		for _, e := range t.Edges {
			if !c.nonNilValue(e, at, depth+1) {
				return false
			}
		}
		return true
	case *ssa.Call:
		if t.Call.IsInvoke() {
			edges := c.Callees(t)
			if len(edges) == 0 {
				return false
			}
			for _, e := range edges {
				if e.Callee == nil || !c.nonNilResult(e.Callee, depth+1) {
					// guarded?
					return c.guardedNonNil(v, at)
				}
			}
			return true
		}
		if cal := t.Call.StaticCallee(); cal != nil && c.InModuleFn(cal) && c.nonNilResult(cal, depth+1) {
			return true
		}
		// a function that answers nil only for a nil argument, called with a non-nil one
		if cal := t.Call.StaticCallee(); cal != nil && c.InModuleFn(cal) && depth < 7 {
			if i := c.nilOnlyForNilParam(cal, depth+1); i >= 0 && i < len(t.Call.Args) && c.nonNilValue(t.Call.Args[i], at, depth+1) {
				return true
			}
		}
	case *ssa.UnOp:
		if fv, _ := loadedField(t); fv != nil && c.fieldNeverNil(fv, depth+1) {
			return true
		}
		// a field of a record a module constructor has just built: non-nil when the constructor stores a non-nil
		// value there in every record it returns (NewConfig(...).Me)
		if fa, isFA := t.X.(*ssa.FieldAddr); isFA && t.Op == token.MUL && depth < 8 {
			if call, isC := fa.X.(*ssa.Call); isC && !call.Call.IsInvoke() && call.Call.StaticCallee() != nil && c.InModuleFn(call.Call.StaticCallee()) && call.Call.StaticCallee().Blocks != nil {
				ctor := call.Call.StaticCallee()
				nR, all := 0, true
				funcInstrs(ctor, func(in ssa.Instruction) {
					rt, isR := in.(*ssa.Return)
					if !isR || len(rt.Results) != 1 {
						return
					}
					nR++
					al, isAl := rt.Results[0].(*ssa.Alloc)
					if !isAl {
						all = false
						return
					}
					stored := false
					for _, ref := range *al.Referrers() {
						f2, isF2 := ref.(*ssa.FieldAddr)
						if !isF2 || f2.Field != fa.Field {
							continue
						}
						for _, r2 := range *f2.Referrers() {
							if st, isSt := r2.(*ssa.Store); isSt && st.Addr == ssa.Value(f2) {
								if c.nonNilValue(st.Val, st, depth+1) && instrDominates(st, rt) {
									stored = true
								} else {
									all = false
								}
							}
						}
					}
					if !stored {
						all = false
					}
				})
				if all && nR > 0 {
					return true
				}
			}
		}
		// a result variable filled in by a closure that a "run this under the lock" helper has called by now:
		// the cell is assigned only inside that closure, on every path of it, with a non-nil value
		realStores := func(al *ssa.Alloc) int {
			k := 0
			for _, st := range cellStores(al) {
				// "return me" with a named result stores the variable to itself
				if ld, ok := st.Val.(*ssa.UnOp); ok && ld.Op == token.MUL && ld.X == ssa.Value(al) {
					continue
				}
				if st.Parent() != al.Parent() {
					continue // assignments inside closures are looked at below
				}
				k++
			}
			return k
		}
		if al, isAl := t.X.(*ssa.Alloc); isAl && t.Op == token.MUL && realStores(al) == 0 && depth < 8 {
			fn := al.Parent()
			for _, anon := range fn.AnonFuncs {
				idx := -1
				var mcl *ssa.MakeClosure
				funcInstrs(fn, func(in ssa.Instruction) {
					if mc, ok := in.(*ssa.MakeClosure); ok && mc.Fn == ssa.Value(anon) {
						for i, b := range mc.Bindings {
							if b == ssa.Value(al) {
								idx, mcl = i, mc
							}
						}
					}
				})
				if idx < 0 || mcl == nil {
					continue
				}
				// the closure is handed to a helper that calls it, and that call dominates the load
				ran := false
				for _, ref := range *mcl.Referrers() {
					if call, ok := ref.(*ssa.Call); ok && !call.Call.IsInvoke() && call.Call.StaticCallee() != nil && c.callsOnlyItsFuncParam(call.Call.StaticCallee()) && instrDominates(call, t) {
						ran = true
					}
				}
				if !ran {
					continue
				}
				fvv := anon.FreeVars[idx]
				var sts []*ssa.Store
				okAll := true
				for _, ref := range *fvv.Referrers() {
					if st, ok := ref.(*ssa.Store); ok && st.Addr == ssa.Value(fvv) {
						sts = append(sts, st)
						if !c.nonNilValue(st.Val, st, depth+1) {
							okAll = false
						}
					}
				}
				if okAll && len(sts) > 0 {
					if all, _ := AllPathsFromEntryPass(anon, func(in ssa.Instruction) bool {
						for _, st := range sts {
							if in == ssa.Instruction(st) {
								return true
							}
						}
						return false
					}); all {
						return true
					}
				}
			}
		}
	}
	return c.guardedNonNil(v, at)
}

// nilOnlyForNilParam: every return of fn whose value may be nil is dominated
// by the true edge of <param i> == nil, for one parameter i; returns i or -1.
func (c *Ctx) nilOnlyForNilParam(fn *ssa.Function, depth int) int {
	for i, pr := range fn.Params {
		if _, isPtr := pr.Type().Underlying().(*types.Pointer); !isPtr {
			continue
		}
		ok, n := true, 0
		funcInstrs(fn, func(in ssa.Instruction) {
			rt, isR := in.(*ssa.Return)
			if !isR || len(rt.Results) == 0 {
				return
			}
			n++
			if c.nonNilValue(retVal(rt, 0), rt, depth+1) {
				return
			}
			guarded := false
			for _, cd := range CondsAt(rt.Block()) {
				cd = unwrapNot(cd)
				if bo, isB := cd.V.(*ssa.BinOp); isB && (bo.Op == token.EQL || bo.Op == token.NEQ) && (bo.Op == token.EQL) == cd.True {
					if (bo.X == ssa.Value(pr) && isNilConst(bo.Y)) || (bo.Y == ssa.Value(pr) && isNilConst(bo.X)) {
						guarded = true
					}
				}
			}
			if !guarded {
				ok = false
			}
		})
		if ok && n > 0 {
			return i
		}
	}
	return -1
}

// fieldNeverNil: pointer field fv of a module struct is never nil: every
// store to it in the module stores a non-nil value, and every allocation of
// the struct is in a function that stores the field of that allocation.
func (c *Ctx) fieldNeverNil(fv *types.Var, depth int) bool {
	if depth > 8 {
		return false
	}
	if c.neverNilMemo == nil {
		c.neverNilMemo = map[*types.Var]int{}
	}
	switch c.neverNilMemo[fv] {
	case 1:
		return false // in progress
	case 2:
		return true
	case 3:
		return false
	}
	c.neverNilMemo[fv] = 1
	var owner types.Type
	for _, pk := range []*ssa.Package{c.Client, c.State} {
		for _, m := range pk.Members {
			if tn, ok := m.(*ssa.Type); ok {
				if st, ok := tn.Type().Underlying().(*types.Struct); ok {
					for i := 0; i < st.NumFields(); i++ {
						if st.Field(i) == fv {
							owner = tn.Type()
						}
					}
				}
			}
		}
	}
	ok := owner != nil
	nStore, nAlloc := 0, 0
	for _, fn := range c.ModFuncs {
		if !ok {
			break
		}
		funcInstrs(fn, func(in ssa.Instruction) {
			switch t := in.(type) {
			case *ssa.Store:
				if f, _ := fieldOf(t.Addr); f == fv {
					nStore++
					if !c.nonNilValue(t.Val, t, depth+1) {
						ok = false
					}
				}
				if pt, isP := t.Addr.Type().Underlying().(*types.Pointer); isP && owner != nil && types.Identical(pt.Elem(), owner) {
					ok = false // whole-struct store
				}
			case *ssa.Alloc:
				pt, _ := t.Type().Underlying().(*types.Pointer)
				if pt == nil || owner == nil || !types.Identical(pt.Elem(), owner) {
					return
				}
				nAlloc++
				set := false
				for _, ref := range *t.Referrers() {
					if fa, isFA := ref.(*ssa.FieldAddr); isFA {
						if f, _ := fieldOf(fa); f == fv {
							for _, r2 := range *fa.Referrers() {
								if st, isSt := r2.(*ssa.Store); isSt && st.Addr == ssa.Value(fa) {
									set = true
								}
							}
						}
					}
				}
				if !set {
					ok = false
				}
			}
		})
	}
	ok = ok && nStore > 0 && nAlloc > 0
	if ok {
		c.neverNilMemo[fv] = 2
	} else {
		c.neverNilMemo[fv] = 3
	}
	return ok
}

func (c *Ctx) guardedNonNil(v ssa.Value, at ssa.Instruction) bool {
	for _, cd := range CondsAt(at.Block()) {
		cd = unwrapNot(cd)
		if bo, ok := cd.V.(*ssa.BinOp); ok && (bo.Op == token.NEQ || bo.Op == token.EQL) && (bo.Op == token.NEQ) == cd.True {
			if (bo.X == v && isNilConst(bo.Y)) || (bo.Y == v && isNilConst(bo.X)) {
				return true
			}
		}
	}
	return false
}

// condKind classifies a branch condition for the guard whitelists.
func (c *Ctx) condKind(cd Cond, line ssa.Value) string {
	a := c.A
	cd = unwrapNot(cd)
	switch v := cd.V.(type) {
	case *ssa.Call:
		if cal := v.Call.StaticCallee(); cal != nil && cal.Name() == c.nm("argslen") {
			return "argslen"
		}
		// a predicate method of the client that answers "is there a tracker": every return is st != nil
		if cal := v.Call.StaticCallee(); cal != nil && !v.Call.IsInvoke() && c.InModuleFn(cal) && cal.Package() == c.Client && cal.Blocks != nil && len(cal.Params) == 1 {
			nR, all := 0, true
			funcInstrs(cal, func(in ssa.Instruction) {
				rt, isR := in.(*ssa.Return)
				if !isR || len(rt.Results) != 1 {
					return
				}
				nR++
				bo, isB := retVal(rt, 0).(*ssa.BinOp)
				if !isB || bo.Op != token.NEQ {
					all = false
					return
				}
				f1, _ := loadedField(bo.X)
				f2, _ := loadedField(bo.Y)
				if !((f1 == a.St && isNilConst(bo.Y)) || (f2 == a.St && isNilConst(bo.X))) {
					all = false
				}
			})
			if all && nR > 0 {
				return "tracking"
			}
		}
	case *ssa.BinOp:
		isSt := func(x ssa.Value) bool { fv, _ := loadedField(x); return fv == a.St }
		if (isSt(v.X) && isNilConst(v.Y)) || (isSt(v.Y) && isNilConst(v.X)) {
			return "tracking"
		}
		if isNilConst(v.X) || isNilConst(v.Y) {
			other := v.X
			if isNilConst(v.X) {
				other = v.Y
			}
			if call, ok := other.(*ssa.Call); ok && c.isTrackerCall(call) {
				return "tracker-result-nil"
			}
		}
		// string comparisons between a line part and the current nick
		isNickOfMe := func(x ssa.Value) bool {
			fv, base := loadedField(x)
			if fv == nil || fv.Name() != "Nick" {
				return false
			}
			if f2, _ := loadedField(base); f2 == a.CfgMe {
				return true
			}
			if call, ok := base.(*ssa.Call); ok && call.Call.StaticCallee() != nil && call.Call.StaticCallee().Name() == "Me" {
				return true
			}
			return false
		}
		isLinePart := func(x ssa.Value) bool {
			if _, ok := c.lineArgIndex(x, line); ok {
				return true
			}
			return c.lineField(x, line, "Nick")
		}
		if v.Op == token.EQL || v.Op == token.NEQ {
			if (isNickOfMe(v.X) && isLinePart(v.Y)) || (isNickOfMe(v.Y) && isLinePart(v.X)) {
				return "is-my-nick"
			}
		}
	}
	return "other:" + cd.V.String()
}

func (c *Ctx) onlyKinds(in ssa.Instruction, line ssa.Value, allowed ...string) (bool, string) {
	for _, cd := range CondsAt(in.Block()) {
		k := c.condKind(cd, line)
		ok := false
		for _, a := range allowed {
			if a == k {
				ok = true
			}
		}
		if !ok {
			return false, "depends on unlisted condition " + k + " at " + c.InstrPos(cd.If)
		}
	}
	return true, "guards: " + strings.Join(allowed, ",")
}

func (c *Ctx) hasKind(in ssa.Instruction, line ssa.Value, kind string) bool {
	for _, cd := range CondsAt(in.Block()) {
		if c.condKind(cd, line) == kind {
			return true
		}
	}
	return false
}

// storesToMyNick: stores to Config.Me.Nick in fn.
func (c *Ctx) storesToMyNick(fn *ssa.Function) []*ssa.Store {
	var out []*ssa.Store
	funcInstrs(fn, func(in ssa.Instruction) {
		s, ok := in.(*ssa.Store)
		if !ok {
			return
		}
		fa, ok := s.Addr.(*ssa.FieldAddr)
		if !ok {
			return
		}
		fv, _ := fieldOf(fa)
		if fv == nil || fv.Name() != "Nick" {
			return
		}
		if f2, _ := loadedField(fa.X); f2 == c.A.CfgMe {
			out = append(out, s)
		}
	})
	return out
}

func (c *Ctx) trackerCallsNamed(fn *ssa.Function, name string) []ssa.CallInstruction {
	var out []ssa.CallInstruction
	for _, cs := range CallSites(fn) {
		if c.isTrackerCall(cs) && cs.Common().Method.Name() == name {
			out = append(out, cs)
		}
	}
	return out
}

// deepCall is a tracker call made by a handler directly or through one level
// of unexported *Conn helper; Args are resolved into the handler's values
// and Anchor is the instruction in the handler whose guards decide it.
type deepCall struct {
	Site   ssa.CallInstruction
	Args   []ssa.Value
	Anchor ssa.Instruction
	Inner  []Cond                       // conditions inside the helper guarding the call
	Subst  map[*ssa.Parameter]ssa.Value // helper parameter -> what the handler passes
}

func (c *Ctx) deepTrackerCalls(h *ssa.Function, name string) []deepCall {
	var out []deepCall
	for _, cs := range c.trackerCallsNamed(h, name) {
		out = append(out, deepCall{Site: cs, Args: cs.Common().Args, Anchor: cs})
	}
	for _, hs := range CallSites(h) {
		cal := hs.Common().StaticCallee()
		if cal == nil || hs.Common().IsInvoke() || cal.Package() != c.Client || (cal.Object() != nil && cal.Object().Exported()) {
			continue
		}
		if _, isGo := hs.(*ssa.Go); isGo {
			continue
		}
		for _, cs := range c.trackerCallsNamed(cal, name) {
			var args []ssa.Value
			for _, a := range cs.Common().Args {
				res := a
				if pr, ok := a.(*ssa.Parameter); ok {
					for i, q := range cal.Params {
						if q == pr && i < len(hs.Common().Args) {
							res = hs.Common().Args[i]
						}
					}
				}
				args = append(args, res)
			}
			sub := map[*ssa.Parameter]ssa.Value{}
			for i, q := range cal.Params {
				if i < len(hs.Common().Args) {
					sub[q] = hs.Common().Args[i]
				}
			}
			out = append(out, deepCall{Site: cs, Args: args, Anchor: hs, Inner: CondsAt(cs.Block()), Subst: sub})
		}
	}
	return out
}

func runC17(c *Ctx) {
	r, a := c.R, c.A
	r.Rule("R1", "every store to Config.Me stores a non-nil value: a fresh allocation, the result of a function none of whose module implementations returns nil, or a value guarded by a dominating != nil; Me() returns that field")
	r.Rule("R2", "001 adopts line.Target() (ReNick(me.Nick, target) when tracking, store to Config.Me.Nick otherwise); 433 calls Nick(NewNick(Args[1])) on every path and adopts it only when Args[1] is the current nick; the untracked NICK handler stores Args[0] under line.Nick == current nick; the tracked one calls ReNick(line.Nick, Args[0]) unconditionally; only listed conditions guard these effects")
	r.Rule("R3", "DefaultNewNick returns old[:len(old)-1] + string(c) with c < 0x80 on every arm (one byte: same length, same prefix)")
	r.Rule("R4", "with tracking on Me() is the tracker's record, so it follows a rename only if the tracker's ReNick re-keys everything on every successful path (shared with C12.R3) and the record Me() reads is the one filed in the nick table: it is set only while the tracker is constructed (shared with C12.R7) - a Wipe that installs a fresh record leaves renames to the old one")
	r.Rule("R6", "the nick handlers compare Line.Nick with the client's nick, so the parser must hand over every nick unaltered: the nick!user@host split is positional only (shared with C01.R10) - a nick alphabet check in the parser would make the client deaf to changes of a nick such as the backtick one its own generator yields")
	r.Rule("R7", "with tracking on a rename to a nick the tracker still knows is refused, so the tracker must forget every user who quits: the QUIT state handler calls DelNick(line.Nick) under no condition of its own (shared with C13.R1) - a ghost left behind, say after a netsplit, blocks the client's own change to that nick and Me() goes stale")
	if n := c.effectsRule("R7", []string{"QUIT"}); true {
		r.Floor("R7", "QUIT effect call sites", n, 1)
	}
	r.Rule("R8", "the nick handlers see every 433, 001 and NICK line the server sends: in the receive goroutine every accepted line is handed to the event loop by a blocking send before the next read (shared with C03.R1) - a line given up on when the queue stays full for a while may be the client's own NICK confirmation")
	if pf := c.producerFrame(); r.Anchor("R8", "the receive goroutine that feeds the inbound queue", pf != nil) {
		c.handoverRule("R8", pf.Member)
	}
	r.Rule("R10", "the nick handlers that are registered are the ones that run: each dispatch on a handler set iterates over a snapshot built afresh under the set's lock (shared with C05.R5) - a cached list that add() forgets to invalidate leaves the state NICK handler out after tracking is switched on, and Me() never follows the client's nick again")
	c.snapshotRule("R10", c.ComputeLocksets(c.clientFuncs()), c.lockFieldName(c.Client, "hSet"))
	r.Rule("R11", "the nick handlers see whole lines, however long: socket reads in the receive goroutine are ReadString / ReadBytes('\\n') on the connection's reader (shared with C18.R3) - ReadLine with its isPrefix result dropped cuts a long tagged 433, 001 or NICK line in two")
	c.framingRule("R11")
	r.Rule("R9", "switching tracking on starts from the current nick: every non-nil value stored to the client's tracker field is the result of state.NewTracker(Config.Me.Nick) called in the same function - a tracker kept from before (whose own record still has the nick of that time) is never put back into service")
	c.trackerInstalledFreshRule("R9")
	r.Rule("R5", "the built-in handlers that keep the nick current (internal table: 001, 433, NICK) stay registered for the life of the client: no Remover obtained by registering an internal-table handler is ever invoked, whichever way tracking is switched")
	c.trackerRules(map[string]string{"R3": "R4", "R7": "R4"})
	c.positionalSplitRule("R6")
	if g, _ := c.Client.Members[c.nm("intHandlers")].(*ssa.Global); r.Anchor("R5", "intHandlers table and (*Conn).handle", g != nil && c.Func(c.Client, "(*Conn).handle") != nil) {
		nRegs, bad := c.permanentRegistrations(g, c.Func(c.Client, "(*Conn).handle"))
		r.Floor("R5", "registration calls fed from the internal table", nRegs, 1)
		why := "no Remover of an internal-table registration reaches a Remove call"
		if len(bad) > 0 {
			why = strings.Join(bad, "; ")
		}
		r.Add("R5", "internal-handlers-permanent", "-", "", "built-in handlers are never unregistered", len(bad) == 0, why)
	}
	// ---- R1
	n := 0
	for _, fn := range c.clientFuncs() {
		funcInstrs(fn, func(in ssa.Instruction) {
			if !c.isFieldStore(in, a.CfgMe) {
				return
			}
			n++
			s := in.(*ssa.Store)
			ok := c.nonNilValue(s.Val, s, 0)
			r.Add("R1", fmt.Sprintf("me-store:%s#%d", c.FuncKey(fn), c.ordinalStore(fn, s, a.CfgMe)), c.InstrPos(s), c.FuncKey(fn), "value stored to Config.Me is never nil", ok, "value "+s.Val.String())
			r.Funcs[c.FuncKey(fn)] = true
		})
	}
	r.Floor("R1", "stores to Config.Me", n, 2)
	if me := c.Func(c.Client, "(*Conn).Me"); me != nil {
		ok := true
		funcInstrs(me, func(in ssa.Instruction) {
			if rt, isR := in.(*ssa.Return); isR {
				if fv, _ := loadedField(rt.Results[0]); fv != a.CfgMe {
					ok = false
				}
			}
		})
		r.Add("R1", "me-returns-field", c.Pos(me.Pos()), c.FuncKey(me), "Me() returns Config.Me", ok, "return value is a load of Config.Me")
	}

	// ---- R2: 001
	if h := a.IntTable["001"]; h != nil {
		r.Funcs[c.FuncKey(h)] = true
		line := ssa.Value(h.Params[1])
		isTargetOf := func(v, ln ssa.Value) bool {
			call, ok := v.(*ssa.Call)
			return ok && call.Call.StaticCallee() != nil && call.Call.StaticCallee().Name() == "Target" && call.Call.Args[0] == ln
		}
		isTarget := func(v ssa.Value) bool {
			if isTargetOf(v, line) {
				return true
			}
			// a field of the struct a parsing helper builds from the line: every store to that field in the helper
			// is Target() of the helper's line parameter
			var hc *ssa.Call
			var want *types.Var
			if fld, ok := v.(*ssa.Field); ok {
				hc, _ = fld.X.(*ssa.Call)
				if st, okS := fld.X.Type().Underlying().(*types.Struct); okS {
					want = st.Field(fld.Field)
				}
			} else if ld, ok := v.(*ssa.UnOp); ok && ld.Op == token.MUL {
				// the struct sits in a local variable: stored once, whole, from the helper's result
				if fa, okF := ld.X.(*ssa.FieldAddr); okF {
					if al, okA := fa.X.(*ssa.Alloc); okA {
						want, _ = fieldOf(fa)
						nWhole := 0
						for _, ref := range *al.Referrers() {
							switch t := ref.(type) {
							case *ssa.Store:
								if t.Addr == ssa.Value(al) {
									nWhole++
									hc, _ = t.Val.(*ssa.Call)
								}
							case *ssa.FieldAddr:
								for _, r2 := range *t.Referrers() {
									if s2, isS := r2.(*ssa.Store); isS && s2.Addr == ssa.Value(t) {
										if f2, _ := fieldOf(t); f2 == want {
											nWhole = 99 // the field is also written here
										}
									}
								}
							}
						}
						if nWhole != 1 {
							hc = nil
						}
					}
				}
			}
			if hc == nil || want == nil || hc.Call.IsInvoke() {
				return false
			}
			hf := hc.Call.StaticCallee()
			if hf == nil || !c.InModuleFn(hf) || hf.Package() != c.Client || hf.Blocks == nil {
				return false
			}
			var lp ssa.Value
			for i, a0 := range hc.Call.Args {
				if a0 == line && i < len(hf.Params) {
					lp = hf.Params[i]
				}
			}
			if lp == nil {
				return false
			}
			n, good := 0, true
			funcInstrs(hf, func(in ssa.Instruction) {
				s2, isS := in.(*ssa.Store)
				if !isS {
					return
				}
				if fv, _ := fieldOf(s2.Addr); fv != want {
					return
				}
				n++
				if !isTargetOf(s2.Val, lp) {
					good = false
				}
			})
			return good && n > 0
		}
		rn := c.deepTrackerCalls(h, "ReNick")
		r.Exactly("R2", "ReNick calls in the 001 handler", len(rn), 1)
		for _, dc := range rn {
			ok, why := isTarget(dc.Args[1]), "new nick is line.Target()"
			if !ok {
				why = "second argument is not line.Target()"
			}
			if ok {
				ok, why = c.onlyKinds(dc.Anchor, line, "tracking")
			}
			if ok && len(dc.Inner) > 0 {
				ok, why = false, "the helper performs the rename only under a further condition"
			}
			r.Add("R2", "001:tracked", c.InstrPos(dc.Site), c.FuncKey(h), "tracked client adopts the welcome's nick", ok, why)
		}
		st := c.storesToMyNick(h)
		r.Exactly("R2", "stores to Config.Me.Nick in the 001 handler", len(st), 1)
		for _, s := range st {
			ok, why := isTarget(s.Val), "stores line.Target()"
			if !ok {
				why = "stored value is not line.Target()"
			}
			if ok {
				ok, why = c.onlyKinds(s, line, "tracking")
			}
			r.Add("R2", "001:untracked", c.InstrPos(s), c.FuncKey(h), "untracked client adopts the welcome's nick", ok, why)
		}
	} else {
		r.Anchor("R2", "001 handler", false)
	}
	// 433
	if h := a.IntTable["433"]; h != nil {
		r.Funcs[c.FuncKey(h)] = true
		line := ssa.Value(h.Params[1])
		nickFn := c.Func(c.Client, "(*Conn).Nick")
		var gen *ssa.Call
		funcInstrs(h, func(in ssa.Instruction) {
			if call, ok := in.(*ssa.Call); ok && !call.Call.IsInvoke() && call.Call.StaticCallee() == nil {
				if fv, _ := loadedField(call.Call.Value); fv != nil && fv.Name() == "NewNick" {
					gen = call
				}
			}
		})
		okGen := false
		if gen != nil {
			if i, ok := c.lineArgIndex(gen.Call.Args[0], line); ok && i == 1 {
				okGen = true
			}
		}
		r.Add("R2", "433:generator", posIn(c, gen), c.FuncKey(h), "the proposed nick is Config.NewNick(refused nick)", okGen, "NewNick(line.Args[1])")
		okAll := false
		if gen != nil && nickFn != nil {
			okAll, _ = AllPathsFromEntryPass(h, func(in ssa.Instruction) bool {
				cc := callOf(in)
				return cc != nil && cc.StaticCallee() == nickFn && cc.Args[1] == ssa.Value(gen)
			})
		}
		r.Add("R2", "433:answer", c.Pos(h.Pos()), c.FuncKey(h), "a collision is always answered by NICK <generated nick>", okAll, "Nick(neu) on every path")
		n433 := 0
		for _, dc := range c.deepTrackerCalls(h, "ReNick") {
			n433++
			ok := gen != nil && dc.Args[1] == ssa.Value(gen) && c.hasKind(dc.Anchor, line, "is-my-nick")
			why := "adopts the generated nick under Args[1] == current nick"
			if ok {
				ok, why = c.onlyKinds(dc.Anchor, line, "tracking", "is-my-nick", "argslen")
			}
			if ok && len(dc.Inner) > 0 {
				ok, why = false, "the helper performs the rename only under a further condition"
			}
			r.Add("R2", "433:tracked", c.InstrPos(dc.Site), c.FuncKey(h), "tracked client adopts the new nick only when the refused nick was the current one", ok, why)
		}
		for _, s := range c.storesToMyNick(h) {
			n433++
			ok := gen != nil && s.Val == ssa.Value(gen) && c.hasKind(s, line, "is-my-nick")
			why := "adopts the generated nick under Args[1] == current nick"
			if ok {
				ok, why = c.onlyKinds(s, line, "tracking", "is-my-nick", "argslen")
			}
			r.Add("R2", "433:untracked", c.InstrPos(s), c.FuncKey(h), "untracked client adopts the new nick only when the refused nick was the current one", ok, why)
		}
		r.Floor("R2", "adoption sites in the 433 handler", n433, 2)
	} else {
		r.Anchor("R2", "433 handler", false)
	}
	// NICK untracked
	if h := a.IntTable["NICK"]; h != nil {
		r.Funcs[c.FuncKey(h)] = true
		line := ssa.Value(h.Params[1])
		st := c.storesToMyNick(h)
		r.Exactly("R2", "stores to Config.Me.Nick in the untracked NICK handler", len(st), 1)
		for _, s := range st {
			i, isArg := c.lineArgIndex(s.Val, line)
			ok := isArg && i == 0 && c.hasKind(s, line, "is-my-nick") && c.hasKind(s, line, "tracking")
			why := "stores Args[0] under st == nil && line.Nick == current nick"
			if ok {
				ok, why = c.onlyKinds(s, line, "tracking", "is-my-nick")
			}
			r.Add("R2", "NICK:untracked", c.InstrPos(s), c.FuncKey(h), "untracked client follows its own NICK lines", ok, why)
		}
	} else {
		r.Anchor("R2", "untracked NICK handler", false)
	}
	if h := a.StTable["NICK"]; h != nil {
		r.Funcs[c.FuncKey(h)] = true
		line := ssa.Value(h.Params[1])
		rn := c.trackerCallsNamed(h, "ReNick")
		r.Exactly("R2", "ReNick calls in the tracked NICK handler", len(rn), 1)
		for _, cs := range rn {
			i, isArg := c.lineArgIndex(cs.Common().Args[1], line)
			ok := c.lineField(cs.Common().Args[0], line, "Nick") && isArg && i == 0
			why := "ReNick(line.Nick, line.Args[0])"
			if ok {
				ok, why = c.onlyKinds(cs, line, "argslen")
				if ok {
					if pass, _ := AllPathsFromEntryPass(h, func(in ssa.Instruction) bool { return in == ssa.Instruction(cs) }); !pass && !c.hasKind(cs, line, "argslen") {
						ok, why = false, "a path through the handler skips the rename"
					}
				}
			}
			r.Add("R2", "NICK:tracked", c.InstrPos(cs), c.FuncKey(h), "tracked client applies every NICK line", ok, why)
		}
	} else {
		r.Anchor("R2", "tracked NICK handler", false)
	}

	// ---- R3
	dn := c.Func(c.Client, "DefaultNewNick")
	r.Anchor("R3", "DefaultNewNick", dn != nil)
	if dn != nil {
		r.Funcs[c.FuncKey(dn)] = true
		p := c.NewProver()
		nRet := 0
		funcInstrs(dn, func(in ssa.Instruction) {
			rt, ok := in.(*ssa.Return)
			if !ok {
				return
			}
			nRet++
			v := rt.Results[0]
			if s, isC := constString(v); isC {
				r.Add("R3", fmt.Sprintf("return#%d", nRet), c.InstrPos(rt), c.FuncKey(dn), "constant result only for the empty nick", len(s) == 1 && c.emptyGuard(rt, dn.Params[0]), "returns "+strconvQuote(s)+" under len(old) == 0")
				return
			}
			bo, isB := v.(*ssa.BinOp)
			okS, why := false, "result is not old[:len(old)-1] + string(c)"
			if isB && bo.Op == token.ADD {
				sl, isSl := bo.X.(*ssa.Slice)
				cv, isCv := bo.Y.(*ssa.Convert)
				if isSl && isCv && sl.X == ssa.Value(dn.Params[0]) && sl.Low == nil && sl.High != nil {
					// High == len(old) - 1
					okHi, _ := p.ProveAt(rt, func(fc *factCtx) []Lin {
						h := fc.iexpr(sl.High)
						l := fc.lexpr(dn.Params[0])
						l.K--
						return []Lin{leExpr(h, l), leExpr(l, h)}
					})
					ch := cv.X
					okCh, whyCh := p.ProveAt(rt, func(fc *factCtx) []Lin {
						return []Lin{leExpr(fc.iexpr(ch), constLin(127))}
					})
					okS = okHi && okCh
					why = fmt.Sprintf("prefix old[:len-1]=%v; last byte < 0x80: %v (%s)", okHi, okCh, whyCh)
				}
			}
			if cvS, isCvS := v.(*ssa.Convert); isCvS && !okS {
				// the same on a copy of the bytes: string(b) with b = []byte(old), whose only writes replace
				// b[len-1] by a byte < 0x80
				if b, isB2 := cvS.X.(*ssa.Convert); isB2 && b.X == ssa.Value(dn.Params[0]) {
					okS, why = true, "copy of old's bytes with the last one replaced by an ASCII byte"
					isLenMinus1 := func(idx ssa.Value) bool {
						bo2, ok := idx.(*ssa.BinOp)
						if !ok || bo2.Op != token.SUB {
							return false
						}
						k, isK := bo2.Y.(*ssa.Const)
						if !isK || k.Value == nil || k.Value.String() != "1" {
							return false
						}
						call, isC := bo2.X.(*ssa.Call)
						if !isC || !c.isLenCall(call) {
							return false
						}
						return call.Call.Args[0] == ssa.Value(b) || call.Call.Args[0] == ssa.Value(dn.Params[0])
					}
					for _, ref := range *b.Referrers() {
						switch t := ref.(type) {
						case *ssa.DebugRef:
						case *ssa.Convert:
							if t != cvS {
								okS, why = false, "the byte copy is converted elsewhere"
							}
						case *ssa.Call:
							if !c.isLenCall(t) {
								okS, why = false, "the byte copy is passed to "+t.String()
							}
						case *ssa.IndexAddr:
							if !isLenMinus1(t.Index) {
								okS, why = false, "a byte other than the last one is addressed at "+c.InstrPos(t)
							}
							for _, r2 := range *t.Referrers() {
								st, isSt := r2.(*ssa.Store)
								if !isSt {
									continue
								}
								okCh, whyCh := p.ProveAt(st, func(fc *factCtx) []Lin {
									return []Lin{leExpr(fc.iexpr(st.Val), constLin(127))}
								})
								if !okCh {
									okS, why = false, "the byte stored at "+c.InstrPos(st)+" is not proved < 0x80: "+whyCh
								}
							}
						default:
							okS, why = false, "the byte copy is used by "+ref.String()
						}
					}
				}
			}
			r.Add("R3", fmt.Sprintf("return#%d", nRet), c.InstrPos(rt), c.FuncKey(dn), "same length, same prefix, one ASCII byte appended", okS, why)
		})
		r.Floor("R3", "returns of DefaultNewNick", nRet, 2)
	}
}

func (c *Ctx) emptyGuard(at ssa.Instruction, s ssa.Value) bool {
	p := c.NewProver()
	ok, _ := p.ProveAt(at, func(fc *factCtx) []Lin { return []Lin{leExpr(fc.lexpr(s), constLin(0))} })
	return ok
}

func (c *Ctx) ordinalStore(fn *ssa.Function, s *ssa.Store, fv *types.Var) int {
	var all []*ssa.Store
	funcInstrs(fn, func(in ssa.Instruction) {
		if c.isFieldStore(in, fv) {
			all = append(all, in.(*ssa.Store))
		}
	})
	sort.Slice(all, func(i, j int) bool { return all[i].Pos() < all[j].Pos() })
	for i, x := range all {
		if x == s {
			return i + 1
		}
	}
	return 0
}

// ---------------- C18 ----------------

func (c *Ctx) cfgFieldLoad(v ssa.Value, name string) bool {
	fv, base := loadedField(v)
	if fv == nil || fv.Name() != name {
		return false
	}
	f2, _ := loadedField(base)
	return f2 == c.A.Cfg
}

func (c *Ctx) meFieldLoad(v ssa.Value, name string) bool {
	fv, base := loadedField(v)
	if fv == nil || fv.Name() != name {
		return false
	}
	f2, _ := loadedField(base)
	return f2 == c.A.CfgMe
}

func runC18(c *Ctx) {
	r, a := c.R, c.A
	r.Rule("R1", "the REGISTER handler calls, once each, outside loops and in this order: Cap(LS) iff EnableCapabilityNegotiation, Pass(Config.Pass) iff Pass != \"\", Nick(Config.Me.Nick), User(Config.Me.Ident, Config.Me.Name) unconditionally")
	r.Rule("R2", "every dial call dials Config.Server; in the connect routine the only stores to it are JoinHostPort(Server, \"6697\") under SSL / \"6667\" otherwise, both on the !hasPort(Server) edge, before any dial")
	r.Rule("R3", "the PING handler calls Pong(line.Args[0]); lines reach handlers whole (delimiter framing, shared with C03.R1)")
	r.Rule("R4", "the ping goroutine is spawned exactly under PingFreq > 0; it pings on each tick of a ticker of period PingFreq")
	r.Rule("R10", "every PONG (and every registration line) handed to Raw reaches the send goroutine: Raw enqueues each line by a plain blocking send in its own body on every path (shared with C09.R1) - a Raw that drops lines when the queue is full leaves a server PING unanswered under load")
	c.rawSenderRule("R10")
	r.Rule("R11", "... and is written when its turn comes: in the send goroutine every line received from the outbound queue is handed, unmodified and exactly once per receive, to the write function and used for nothing else (shared with C09.R3) - a sender that holds lines back by their verb (say, all but the registration commands until 001) leaves a PING sent during registration unanswered")
	c.senderForwards("R11", "R11")
	r.Rule("R9", "PINGs of its own exactly when PingFreq is positive: the library never stores to Config.PingFreq of an existing Config (only while a Config is being constructed), so a configured 0 stays 0 at connect time")
	r.Rule("R8", "PASS is sent exactly when the application set a password: inside the library Config.Pass of an existing Config is only ever stored with a value the API caller passed in (ConnectTo's argument) - never cleared or rewritten by the library")
	r.Rule("R5", "the registration lines are the first the new connection sends: every successful connect starts from a newly made outbound (and inbound) queue on every path, so nothing queued during or before an outage precedes or duplicates PASS/NICK/USER (shared with C07.R4)")
	c.freshQueuesRule("R5")
	r.Rule("R6", "with tracking on, NICK and USER are sent from the tracker's own record, which keeps nick, ident and real name for the life of the client: that record is stored only while the tracker is constructed (shared with C12.R7), so no reset on reconnect can blank the ident or name")
	c.trackerRules(map[string]string{"R7": "R6"})
	r.Rule("R7", "the nick registered is the current one: the REGISTER handler reads Config.Me, so with tracking on every built-in handler that renames a nick in the tracker which may be the client's own stores the snapshot ReNick returns to Config.Me - whenever the rename succeeded and the old nick is the one Config.Me holds")
	c.ownRenameRule("R7")
	// ---- R1
	h := a.IntTable["REGISTER"]
	r.Anchor("R1", "REGISTER handler", h != nil)
	hRaw := a.IntTableRaw["REGISTER"]
	r.Rule("R12", "registration and PONGs are written whatever the configured Timeout: no deadline stays armed on the socket (shared with C07.R8) - a per-line write deadline of now + Config.Timeout has already passed when Timeout is 0, the first write fails and nothing is ever sent")
	c.noArmedDeadlineRule("R12")
	r.Rule("R13", "the registration is sent once per connect: the REGISTER handler runs only because the REGISTER event was dispatched (once per successful connect, C06.R1) - no function of the library calls it directly or takes its value outside the handler table (a numeric handler that 're-sends the registration' repeats CAP LS / PASS / NICK / USER on the same connection)")
	if h != nil && hRaw != nil {
		nCall := 0
		for _, cs := range c.Callers(hRaw) {
			nCall++
			r.Add("R13", "register-called:"+c.FuncKey(cs.Parent()), c.InstrPos(cs), c.FuncKey(cs.Parent()), "the REGISTER handler is reached only through the handler table", false, "called directly from "+c.FuncKey(cs.Parent()))
		}
		r.Add("R13", "register-only-dispatched", c.Pos(h.Pos()), c.FuncKey(h), "the REGISTER handler has no direct callers", nCall == 0, fmt.Sprintf("%d direct calls", nCall))
		inTables := 0
		for _, f := range a.IntTableRaw {
			if f == hRaw {
				inTables++
			}
		}
		r.Add("R13", "register-one-entry", c.Pos(h.Pos()), c.FuncKey(h), "the REGISTER handler is registered under one event only", inTables == 1, fmt.Sprintf("%d table entries", inTables))
	}
	if h != nil {
		r.Funcs[c.FuncKey(h)] = true
		// the handler may only hand over to one unexported method of the client that does the sending
		if hb := c.soleDelegate(h); hb != nil {
			h = hb
			r.Funcs[c.FuncKey(h)] = true
		}
		byName := map[string][]ssa.CallInstruction{}
		for _, cs := range CallSites(h) {
			cal := cs.Common().StaticCallee()
			if cal != nil && recvNamed(cal) == a.Conn && cal.Object() != nil && cal.Object().Exported() {
				byName[cal.Name()] = append(byName[cal.Name()], cs)
			}
		}
		var order []ssa.CallInstruction
		for _, nme := range []string{"Cap", "Pass", "Nick", "User"} {
			r.Exactly("R1", nme+" calls in the REGISTER handler", len(byName[nme]), 1)
			if len(byName[nme]) == 1 {
				order = append(order, byName[nme][0])
			}
		}
		for k := range byName {
			if k != "Cap" && k != "Pass" && k != "Nick" && k != "User" {
				r.Add("R1", "extra-command:"+k, c.InstrPos(byName[k][0]), c.FuncKey(h), "registration sends only CAP/PASS/NICK/USER", false, "also calls "+k)
			}
		}
		if len(order) == 4 {
			capC, passC, nickC, userC := order[0], order[1], order[2], order[3]
			// guards
			condIs := func(cs ssa.CallInstruction, pred func(Cond) bool) (bool, string) {
				cds := CondsAt(cs.Block())
				if len(cds) != 1 {
					return false, fmt.Sprintf("%d guarding conditions, want 1", len(cds))
				}
				if !pred(unwrapNot(cds[0])) {
					return false, "guard is " + cds[0].V.String()
				}
				return true, "guarded by the prescribed test only"
			}
			ok, why := condIs(capC, func(cd Cond) bool { return c.cfgFieldLoad(cd.V, "EnableCapabilityNegotiation") && cd.True })
			if ok {
				if s, isC := constString(capC.Common().Args[1]); !isC || s != "LS" {
					ok, why = false, "subcommand is not LS"
				}
			}
			r.Add("R1", "cap-ls", c.InstrPos(capC), c.FuncKey(h), "CAP LS iff negotiation is enabled", ok, why)
			ok, why = condIs(passC, func(cd Cond) bool {
				bo, isB := cd.V.(*ssa.BinOp)
				if !isB {
					return false
				}
				var other ssa.Value
				if s, k := constString(bo.Y); k && s == "" {
					other = bo.X
				} else if s, k := constString(bo.X); k && s == "" {
					other = bo.Y
				}
				return other != nil && c.cfgFieldLoad(other, "Pass") && (bo.Op == token.NEQ) == cd.True
			})
			if ok && !c.cfgFieldLoad(passC.Common().Args[1], "Pass") {
				ok, why = false, "argument is not Config.Pass"
			}
			r.Add("R1", "pass", c.InstrPos(passC), c.FuncKey(h), "PASS <Config.Pass> iff a password is set", ok, why)
			okN := len(CondsAt(nickC.Block())) == 0 && c.meFieldLoad(nickC.Common().Args[1], "Nick") && c.LoopDepth(nickC.Block()) == 0
			r.Add("R1", "nick", c.InstrPos(nickC), c.FuncKey(h), "NICK <current nick> unconditionally", okN, "Nick(Config.Me.Nick)")
			okU := len(CondsAt(userC.Block())) == 0 && c.meFieldLoad(userC.Common().Args[1], "Ident") && c.meFieldLoad(userC.Common().Args[2], "Name") && c.LoopDepth(userC.Block()) == 0
			r.Add("R1", "user", c.InstrPos(userC), c.FuncKey(h), "USER <ident> <real name> unconditionally", okU, "User(Config.Me.Ident, Config.Me.Name)")
			// order: no later command can precede an earlier one
			okO := true
			whyO := "CAP < PASS < NICK < USER on every path"
			for i := 0; i < 4; i++ {
				for j := i + 1; j < 4; j++ {
					if ReachFrom(order[j], false, nil)[order[i]] {
						okO, whyO = false, "a later command can be sent before an earlier one"
					}
				}
			}
			if !instrDominates(nickC, userC) {
				okO, whyO = false, "NICK does not precede USER"
			}
			r.Add("R1", "order", c.Pos(h.Pos()), c.FuncKey(h), "relative order CAP LS, PASS, NICK, USER", okO, whyO)
		}
	}

	// ---- R2
	cn := a.Connect
	r.Funcs[c.FuncKey(cn)] = true
	nDial := 0
	for _, fn := range c.clientFuncs() {
		for _, cs := range CallSites(fn) {
			cc := cs.Common()
			n := calleeName(cc)
			var addr ssa.Value
			switch {
			case n == "(*net.Dialer).DialContext" && len(cc.Args) == 4:
				addr = cc.Args[3]
			case cc.IsInvoke() && cc.Method.Name() == "DialContext" && len(cc.Args) == 3:
				addr = cc.Args[2]
			case cc.IsInvoke() && cc.Method.Name() == "Dial" && len(cc.Args) == 2:
				addr = cc.Args[1]
			case n == "(*net.Dialer).Dial" && len(cc.Args) == 3:
				addr = cc.Args[2]
			case n == "net.Dial" || n == "net.DialTimeout" || n == "crypto/tls.Dial":
				addr = cc.Args[1]
			default:
				continue
			}
			nDial++
			// the address: a load of Config.Server here, or in a caller that passes it down as an argument
			ok, why := true, "dials Config.Server"
			for _, o := range c.Origins(addr) {
				if !c.cfgFieldLoad(o, "Server") {
					ok, why = false, "dialled address is not Config.Server: "+o.String()
					break
				}
				ld, _ := o.(ssa.Instruction)
				if ld == nil {
					ok, why = false, "address origin is not an instruction"
					break
				}
				// the load must happen after the connect routine's port normalisation
				at := ssa.Instruction(cs)
				if ld.Parent() != fn {
					at = ld
				}
				if ok2, why2 := c.afterPortNormalisation(at.Parent(), at); !ok2 {
					ok, why = false, why2
					break
				}
			}
			r.Add("R2", "dial:"+c.FuncKey(fn)+":"+calleeShort(cc), c.InstrPos(cs), c.FuncKey(fn), "the dialled address is Config.Server with the default port added", ok, why)
		}
	}
	r.Floor("R2", "dial call sites", nDial, 3)
	// registration is sent once per dial: every success return of the connect routine follows a dial on that path
	isDialCall := func(in ssa.Instruction) bool {
		cc := callOf(in)
		if cc == nil {
			return false
		}
		if _, isGo := in.(*ssa.Go); isGo {
			return false
		}
		n := calleeName(cc)
		return strings.Contains(n, "DialContext") || strings.HasSuffix(n, ").Dial") || n == "net.Dial" || n == "net.DialTimeout" || n == "crypto/tls.Dial"
	}
	var dialHelper func(fn *ssa.Function, depth int) bool
	isDialStep := func(in ssa.Instruction) bool {
		if isDialCall(in) {
			return true
		}
		cc := callOf(in)
		if cc == nil || cc.IsInvoke() {
			return false
		}
		if _, isGo := in.(*ssa.Go); isGo {
			return false
		}
		cal := cc.StaticCallee()
		if cal == nil {
			// a dial strategy chosen as a function value: every possible target must be a dial helper
			cs, isCS := in.(ssa.CallInstruction)
			if !isCS {
				return false
			}
			edges := c.Callees(cs)
			if len(edges) == 0 {
				return false
			}
			for _, e := range edges {
				if e.Callee == nil || e.Callee.Package() != c.Client || !dialHelper(e.Callee, 0) {
					return false
				}
			}
			return true
		}
		return cal.Package() == c.Client && dialHelper(cal, 0)
	}
	// a helper counts as a dial step when every return that is not definitely an error follows a dial
	dialHelper = func(fn *ssa.Function, depth int) bool {
		if depth > 2 || fn.Blocks == nil {
			return false
		}
		ok := true
		nRet := 0
		funcInstrs(fn, func(in ssa.Instruction) {
			rt, isR := in.(*ssa.Return)
			if !isR || len(rt.Results) == 0 {
				return
			}
			nRet++
			ev := retVal(rt, len(rt.Results)-1)
			if call, isC := ev.(*ssa.Call); isC {
				n := calleeName(&call.Call)
				if n == "fmt.Errorf" || n == "errors.New" {
					return
				}
			}
			if c.guardedNonNil(ev, rt) {
				return
			}
			step := func(x ssa.Instruction) bool {
				if isDialCall(x) {
					return true
				}
				xc := callOf(x)
				if xc == nil || xc.IsInvoke() {
					return false
				}
				if c2 := xc.StaticCallee(); c2 != nil && c2.Package() == c.Client && c2 != fn {
					return dialHelper(c2, depth+1)
				}
				return false
			}
			if !SetDominates(fn, step, rt) {
				ok = false
			}
		})
		return ok && nRet > 0
	}
	funcInstrs(cn, func(in ssa.Instruction) {
		rt, ok := in.(*ssa.Return)
		if !ok || len(rt.Results) != 1 || !isNilConst(retVal(rt, 0)) {
			return
		}
		okD := SetDominates(cn, isDialStep, rt)
		r.Add("R2", "success-follows-dial", c.InstrPos(rt), c.FuncKey(cn), "Connect reports success (and registration is sent) only after dialling on that path", okD, "a dial step dominates the success return")
	})
	// stores to Config.Server in the connect routine
	c.portCover = [2]bool{}
	nSrv := 0
	funcInstrs(cn, func(in ssa.Instruction) {
		s, ok := in.(*ssa.Store)
		if !ok {
			return
		}
		fa, ok := s.Addr.(*ssa.FieldAddr)
		if !ok {
			return
		}
		if fv, base := fieldOf(fa); fv != a.CfgServer {
			return
		} else if f2, _ := loadedField(base); f2 != a.Cfg {
			return
		}
		nSrv++
		ok2, why, _ := c.serverStoreOK(s)
		r.Add("R2", fmt.Sprintf("default-port#%d", nSrv), c.InstrPos(s), c.FuncKey(cn), "default port 6697 with SSL / 6667 without, only when none was given", ok2, why)
	})
	r.Floor("R2", "stores to Config.Server in the connect routine", nSrv, 1)
	// the password registered is the one the application configured
	{
		nP := 0
		for _, fn := range c.clientFuncs() {
			funcInstrs(fn, func(in ssa.Instruction) {
				st, ok := in.(*ssa.Store)
				if !ok {
					return
				}
				fv, base := fieldOf(st.Addr)
				if fv != a.CfgPass || c.underConstruction(base, fn, 0) {
					return
				}
				nP++
				okV, why := true, "caller-supplied password"
				for _, o := range c.Origins(st.Val) {
					if u, isU := o.(*ssa.UnOp); isU && u.Op == token.MUL {
						if ia, isIA := u.X.(*ssa.IndexAddr); isIA {
							o = ia.X
						}
					}
					if _, isP := o.(*ssa.Parameter); !isP {
						okV, why = false, "stores "+o.String()+": the library replaces the configured password with a value of its own"
					}
				}
				r.Add("R8", "pass-store:"+c.FuncKey(fn), c.InstrPos(st), c.FuncKey(fn), "Config.Pass of an existing Config only receives a caller-supplied password", okV, why)
			})
		}
		r.Add("R8", "pass-stores", "-", "", "stores to Config.Pass of an existing Config examined", true, fmt.Sprintf("%d stores", nP))
	}
	// client pings exactly when the application's PingFreq is positive
	{
		pf := c.FieldVar(c.Client, "Config", "PingFreq")
		if r.Anchor("R9", "Config.PingFreq", pf != nil) {
			nS := 0
			for _, fn := range c.clientFuncs() {
				funcInstrs(fn, func(in ssa.Instruction) {
					st, ok := in.(*ssa.Store)
					if !ok {
						return
					}
					fv, base := fieldOf(st.Addr)
					if fv != pf || c.underConstruction(base, fn, 0) {
						return
					}
					nS++
					r.Add("R9", "pingfreq-store:"+c.FuncKey(fn), c.InstrPos(st), c.FuncKey(fn), "the library does not change the application's PingFreq", false, "store to Config.PingFreq of an existing Config in "+c.FuncKey(fn)+": a configured 0 (no client pings) does not survive")
				})
			}
			r.Add("R9", "no-pingfreq-store", "-", "", "no store to Config.PingFreq of an existing Config anywhere in package client", nS == 0, fmt.Sprintf("%d stores", nS))
		}
	}
	// elsewhere the configured address is only ever replaced by a caller-supplied one: a port joined on outside the
	// connect routine would freeze the default chosen with the SSL setting of that moment, not of connect time
	for _, fn := range c.clientFuncs() {
		if fn == cn {
			continue
		}
		funcInstrs(fn, func(in ssa.Instruction) {
			st, ok := in.(*ssa.Store)
			if !ok {
				return
			}
			if fv, _ := fieldOf(st.Addr); fv != a.CfgServer {
				return
			}
			okV, why := true, "caller-supplied address"
			for _, o := range c.Origins(st.Val) {
				switch o.(type) {
				case *ssa.Parameter, *ssa.Const:
				default:
					okV, why = false, "stores "+o.String()+": the address is rewritten outside the connect routine"
				}
			}
			r.Add("R2", "server-store:"+c.FuncKey(fn), c.InstrPos(st), c.FuncKey(fn), "outside the connect routine Config.Server only receives a caller-supplied address", okV, why)
		})
	}
	r.Add("R2", "default-port-cover", c.Pos(cn.Pos()), c.FuncKey(cn), "both defaults exist: 6697 under SSL and 6667 without", c.portCover[0] && c.portCover[1], fmt.Sprintf("SSL default seen=%v, plain default seen=%v", c.portCover[0], c.portCover[1]))

	// ---- R3
	hp := a.IntTable["PING"]
	r.Anchor("R3", "PING handler", hp != nil)
	if hp != nil {
		r.Funcs[c.FuncKey(hp)] = true
		line := ssa.Value(hp.Params[1])
		pong := c.Func(c.Client, "(*Conn).Pong")
		n := 0
		for _, cs := range CallSites(hp) {
			if cs.Common().StaticCallee() == pong && pong != nil {
				n++
				i, isArg := c.lineArgIndex(cs.Common().Args[1], line)
				ok := isArg && i == 0
				why := "Pong(line.Args[0])"
				if ok {
					ok, why = c.onlyKinds(cs, line, "argslen")
				}
				if ok {
					if pass, _ := AllPathsFromEntryPass(hp, func(in ssa.Instruction) bool { return in == ssa.Instruction(cs) }); !pass && !c.hasKind(cs, line, "argslen") {
						ok, why = false, "a path skips the PONG"
					}
				}
				r.Add("R3", "pong", c.InstrPos(cs), c.FuncKey(hp), "every PING with a token is answered with the same token", ok, why)
			}
		}
		r.Exactly("R3", "Pong calls in the PING handler", n, 1)
	}
	c.framingRule("R3")

	// ---- R4
	var pingFn *ssa.Function
	pingCmd := c.Func(c.Client, "(*Conn).Ping")
	// the frame that holds the tick loop: the member itself, or the one unexported helper it calls for the loop
	var loopFn *ssa.Function
	for _, m := range a.Members {
		for _, cs := range CallSites(m) {
			sc := cs.Common().StaticCallee()
			if sc == pingCmd && pingCmd != nil {
				pingFn, loopFn = m, m
			}
			if _, isCall := cs.(*ssa.Call); isCall && sc != nil && pingCmd != nil && sc != pingCmd && c.InModuleFn(sc) && sc.Package() == c.Client && (sc.Object() == nil || !sc.Object().Exported()) && len(c.staticCallers(sc)) == 1 && c.LoopDepth(cs.Block()) == 0 {
				for _, c2 := range CallSites(sc) {
					if c2.Common().StaticCallee() == pingCmd && pingFn == nil {
						pingFn, loopFn = m, sc
					}
				}
			}
		}
	}
	r.Anchor("R4", "ping goroutine (member that calls Ping)", pingFn != nil)
	if pingFn != nil {
		r.Funcs[c.FuncKey(pingFn)] = true
		for _, g := range c.GoSites(pingFn) {
			cds := CondsAt(g.Block())
			ok, why := false, "spawn is not guarded exactly by PingFreq > 0"
			nFreq := 0
			for _, cd := range cds {
				cd = unwrapNot(cd)
				if bo, isB := cd.V.(*ssa.BinOp); isB {
					if (bo.Op == token.GTR && c.cfgFieldLoad(bo.X, "PingFreq") && durConst(bo.Y, 0) && cd.True) ||
						(bo.Op == token.LSS && durConst(bo.X, 0) && c.cfgFieldLoad(bo.Y, "PingFreq") && cd.True) ||
						(bo.Op == token.LEQ && c.cfgFieldLoad(bo.X, "PingFreq") && durConst(bo.Y, 0) && !cd.True) {
						nFreq++
					}
				}
			}
			// other conditions allowed: the `start` parameter of the post-connect helper (test hook)
			other := 0
			for _, cd := range cds {
				cd = unwrapNot(cd)
				if _, isP := cd.V.(*ssa.Parameter); isP {
					continue
				}
				if bo, isB := cd.V.(*ssa.BinOp); isB && (c.cfgFieldLoad(bo.X, "PingFreq") || c.cfgFieldLoad(bo.Y, "PingFreq")) {
					continue
				}
				other++
			}
			if nFreq == 1 && other == 0 {
				ok, why = true, "spawned iff PingFreq > 0"
			}
			r.Add("R4", "ping-spawn", c.InstrPos(g), c.FuncKey(g.Parent()), "client pings exactly when PingFreq is positive", ok, why)
		}
		// ticker period and ping per tick
		var ticker *ssa.Call
		funcInstrs(pingFn, func(in ssa.Instruction) {
			if call, ok := in.(*ssa.Call); ok && calleeName(&call.Call) == "time.NewTicker" {
				ticker = call
			}
		})
		okT := ticker != nil && c.cfgFieldLoad(ticker.Call.Args[0], "PingFreq")
		r.Add("R4", "ticker-period", posIn(c, ticker), c.FuncKey(pingFn), "the ticker period is PingFreq", okT, "time.NewTicker(Config.PingFreq)")
		okP := false
		whyP := "no tick case found"
		for _, op := range ChanOps(loopFn) {
			if op.Kind == "recv" && op.InSelect && isTimerChan(op.Chan) {
				if blk := selectCaseBlock(op.Sel, op.State); blk != nil {
					// every path from the tick case back to the select passes a Ping call
					isPing := func(x ssa.Instruction) bool {
						cc := callOf(x)
						return cc != nil && cc.StaticCallee() == pingCmd
					}
					reach := ReachFrom(blk.Instrs[0], true, isPing)
					okP, whyP = true, "Ping is called on every path of the tick case"
					for x := range reach {
						if (x == ssa.Instruction(op.Sel) || isReturn(x)) && !isPing(x) {
							okP, whyP = false, "a tick can pass without a PING being sent"
						}
					}
				}
			}
		}
		r.Add("R4", "ping-per-tick", c.Pos(pingFn.Pos()), c.FuncKey(pingFn), "a PING is sent on each tick", okP, whyP)
	}
}

// afterPortNormalisation: the dial site is reached only after the connect
// routine's port-normalising branch (the If on hasPort) has been passed.
func (c *Ctx) afterPortNormalisation(fn *ssa.Function, at ssa.Instruction) (bool, string) {
	cn := c.A.Connect
	if fn != cn {
		sites := c.Callers(fn)
		if len(sites) == 0 {
			return false, c.FuncKey(fn) + " has no caller"
		}
		for _, cs := range sites {
			if ok, why := c.afterPortNormalisation(cs.Parent(), cs); !ok {
				return false, "via " + c.FuncKey(cs.Parent()) + ": " + why
			}
		}
		return true, "every call chain passes the port normalisation"
	}
	// in the connect routine: an If on hasPort(Config.Server) dominates `at`, and `at` is not inside its branches before the stores
	var iff *ssa.If
	funcInstrs(cn, func(in ssa.Instruction) {
		if i, ok := in.(*ssa.If); ok {
			cd := unwrapNot(Cond{V: i.Cond, True: true})
			if hc, isH := cd.V.(*ssa.Call); isH && hc.Call.StaticCallee() != nil && hc.Call.StaticCallee().Name() == c.nm("hasPort") && c.cfgFieldLoad(hc.Call.Args[0], "Server") {
				iff = i
			}
		}
	})
	if iff == nil {
		// the port test may live in a helper that returns the address: then a store of a value that is the
		// configured address when it has a port, and the address with the default port otherwise, must dominate the dial
		okN := false
		funcInstrs(cn, func(in ssa.Instruction) {
			if st, ok := in.(*ssa.Store); ok {
				if fv, base := fieldOf(st.Addr); fv == c.A.CfgServer {
					if f2, _ := loadedField(base); f2 == c.A.Cfg && instrDominates(in, at) {
						if good, _, keeps := c.serverStoreOK(st); good && keeps {
							okN = true
						}
					}
				}
			}
		})
		if okN {
			return true, "after a store of the port-normalised address"
		}
		return false, "no hasPort(Config.Server) test in the connect routine"
	}
	if !instrDominates(iff, at) {
		return false, "dial not dominated by the port test"
	}
	// every store to Config.Server must precede (cannot follow) the dial
	bad := ""
	funcInstrs(cn, func(in ssa.Instruction) {
		if s, ok := in.(*ssa.Store); ok {
			if fa, ok := s.Addr.(*ssa.FieldAddr); ok {
				if fv, _ := fieldOf(fa); fv == c.A.CfgServer && ReachFrom(at, false, nil)[in] {
					bad = c.InstrPos(in)
				}
			}
		}
	})
	if bad != "" {
		return false, "Config.Server is modified at " + bad + " after the dial"
	}
	// the dial must not be on the no-port edge before the store: require that no store is reachable... and that on the no-port edge a store dominates
	for _, cd := range CondsAt(at.Block()) {
		if cd.If == iff {
			return false, "dial sits inside the port test's branch"
		}
	}
	return true, "after the hasPort branch of the connect routine"
}

// framingRule: socket reads in the receive goroutine are delimiter-framed.
func (c *Ctx) framingRule(rule string) {
	r := c.R
	var producer *ssa.Function
	if pf := c.producerFrame(); pf != nil {
		producer = pf.Member
	}
	if producer == nil {
		r.Anchor(rule, "receive goroutine", false)
		return
	}
	nGood := 0
	frameInstrs := func(f func(ssa.Instruction)) {
		funcInstrs(producer, f)
		for _, lr := range c.lineReads(producer) {
			if lr.Site != lr.Inner {
				funcInstrs(lr.Inner.Parent(), f)
			}
		}
	}
	frameInstrs(func(in ssa.Instruction) {
		cc := callOf(in)
		if cc == nil {
			return
		}
		n := calleeName(cc)
		if !strings.HasPrefix(n, "(*bufio.") && !strings.HasPrefix(n, "(net.Conn)") && !strings.HasPrefix(n, "(io.Reader)") {
			return
		}
		good := false
		if n == "(*bufio.Reader).ReadString" || n == "(*bufio.Reader).ReadBytes" {
			if k, ok := constInt(cc.Args[1]); ok && k == '\n' {
				good = c.derivesFromIO(cc.Args[0])
			}
		}
		if good {
			nGood++
		}
		r.Add(rule, "framing:"+n, c.InstrPos(in), c.FuncKey(producer), "socket reads are ReadString/ReadBytes('\\n') (whole lines of any length)", good, n)
	})
	r.Floor(rule, "delimiter-framed read in the receive goroutine", nGood, 1)
}

// ---------------- C19 ----------------

func (c *Ctx) capCallArg(cs ssa.CallInstruction) string {
	s, _ := constString(cs.Common().Args[1])
	return s
}

func runC19(c *Ctx) {
	r, a := c.R, c.A
	r.Rule("R1", "Cap(REQ, x...) passes Slice() of the set built by the wanted-set constructor after Intersect with the supported set; REQ iff Size() > 0 else END; the wanted set adds sasl iff Config.Sasl != nil and adds Config.Capabilites")
	r.Rule("R2", "NAK, 903, 904, 908 handlers call Cap(END) on every path; on every path of the ACK handler exactly one of {Authenticate called, Cap(END) called} holds (flag-sensitive exploration)")
	r.Rule("R3", "Authenticate is called only from the ACK handler under cap == sasl && Sasl != nil and from the AUTHENTICATE handler; the held-set is modified only by the ACK handler")
	r.Rule("R4", "request splitting: every element read from the argument list is used (concatenated, measured, stored or passed on) on every path before the next iteration or the return (no element is read and then dropped)")
	r.Rule("R5", "the CAP handler passes every LS, ACK and NAK reply - whatever its capability list, an empty one included - to its sub-handler: the only conditions that decide whether a sub-handler is reached are argument-count tests and the comparison of the subcommand parameter with LS / ACK / NAK")
	c.capDispatchRule("R5")
	r.Rule("R6", "SASL data is encoded as a whole: every argument of Authenticate in the AUTHENTICATE exchange is the constant \"+\" or base64 EncodeToString of the mechanism's complete response (the result of Sasl.Next or the stored initial response), never of a slice or other part of it (per-chunk encoding yields padding inside the stream)")
	c.saslEncodingRule("R6")
	capFn := c.Func(c.Client, "(*Conn).Cap")
	authFn := c.Func(c.Client, "(*Conn).Authenticate")
	r.Anchor("R1", "(*Conn).Cap and (*Conn).Authenticate", capFn != nil && authFn != nil)
	if capFn == nil || authFn == nil {
		return
	}
	r.Rule("R9", "advertised / held means that very name: the capability set's Has answers with the map entry of its argument and nothing else (no prefix or pattern match: 'away' is not 'away-notify')")
	c.capHasRule("R9")
	r.Rule("R10", "SASL data reaches the wire as encoded: what Raw enqueues is its parameter cut at CR/LF and nothing else (shared with C09.R1 enqueue identity) - a length clamp in Raw truncates a long AUTHENTICATE payload after it was encoded correctly")
	c.enqueueIdentityRule("R10")
	r.Rule("R8", "held exactly when the latest acknowledgement enabled it: the capability set's Add stores false under name for a token \"-name\" (decided by HasPrefix(token, \"-\"), key token[1:]) and true under the token itself otherwise - nothing else decides, nothing is trimmed by character class")
	c.capAddRule("R8")
	r.Rule("R7", "Cap(END) said is CAP END sent: on every path through Cap on which no capability list was given, a line is handed to Raw - no state of the client (a count of pending requests, say) can hold the line back")
	c.capAlwaysSendsRule("R7", capFn)
	// endWrapper: a client function every path of which says Cap(END) (directly or through another such
	// function) - calling it is saying Cap(END)
	endMemo := map[*ssa.Function]int{}
	var endWrapper func(fn *ssa.Function) bool
	endWrapper = func(fn *ssa.Function) bool {
		if fn == nil || fn == capFn || !c.InModuleFn(fn) || fn.Package() != c.Client || fn.Blocks == nil {
			return false
		}
		switch endMemo[fn] {
		case 1:
			return false
		case 2:
			return true
		case 3:
			return false
		}
		endMemo[fn] = 1
		ok, _ := AllPathsFromEntryPass(fn, func(in ssa.Instruction) bool {
			cc := callOf(in)
			if cc == nil || cc.IsInvoke() {
				return false
			}
			if _, isGo := in.(*ssa.Go); isGo {
				return false
			}
			if cc.StaticCallee() == capFn {
				s, _ := constString(cc.Args[1])
				return s == "END"
			}
			return endWrapper(cc.StaticCallee())
		})
		if ok {
			endMemo[fn] = 2
		} else {
			endMemo[fn] = 3
		}
		return ok
	}
	capCalls := func(fn *ssa.Function, sub string) []ssa.CallInstruction {
		var out []ssa.CallInstruction
		for _, cs := range CallSites(fn) {
			if cs.Common().IsInvoke() {
				continue
			}
			if cs.Common().StaticCallee() == capFn && c.capCallArg(cs) == sub {
				out = append(out, cs)
			} else if sub == "END" && fn != cs.Common().StaticCallee() && endWrapper(cs.Common().StaticCallee()) && len(c.ackReachesAuth(cs.Common().StaticCallee(), authFn)) == 0 {
				out = append(out, cs)
			}
		}
		return out
	}
	r.Rule("R11", "CAP END is only ever said while handling a server reply of the current connection: every call that says Cap(END) (directly or through a function every path of which says it) lies in a function reached from the built-in handler table by plain static calls - never in a closure handed to a timer, a goroutine or any other function value (a watchdog armed for one connection fires into the next and ends its negotiation in the middle of SASL)")
	{
		var roots []*ssa.Function
		for _, f := range a.IntTable {
			roots = append(roots, f)
		}
		sort.Slice(roots, func(i, j int) bool { return c.FuncKey(roots[i]) < c.FuncKey(roots[j]) })
		inH := map[*ssa.Function]bool{}
		var walk func(fn *ssa.Function, d int)
		walk = func(fn *ssa.Function, d int) {
			if fn == nil || inH[fn] || d > 8 || !c.InModuleFn(fn) {
				return
			}
			inH[fn] = true
			for _, cs := range CallSites(fn) {
				if _, isCall := cs.(*ssa.Call); !isCall || cs.Common().IsInvoke() {
					continue
				}
				if sc := cs.Common().StaticCallee(); sc != nil {
					walk(sc, d+1)
					continue
				}
				// a sub-handler picked from a table by the subcommand: still a plain call made by the handler
				for _, e := range c.Callees(cs) {
					if e.Callee != nil && e.Kind == EdgeCall {
						walk(e.Callee, d+1)
					}
				}
			}
		}
		for _, f := range roots {
			walk(f, 0)
		}
		nEnd := 0
		for _, fn := range c.clientFuncs() {
			if fn == capFn {
				continue
			}
			for _, cs := range capCalls(fn, "END") {
				nEnd++
				ok := inH[fn] && kindName(cs) == "call"
				why := "in the handler context"
				if !ok {
					why = kindName(cs) + " in " + c.FuncKey(fn) + ", which is not reached from a built-in handler by plain calls (a timer callback, goroutine or stored closure)"
				}
				r.Add("R11", fmt.Sprintf("end-in-handler:%s#%d", c.FuncKey(fn), nEnd), c.InstrPos(cs), c.FuncKey(fn), "CAP END is said only while handling a server reply", ok, why)
			}
		}
		r.Floor("R11", "sites that say CAP END", nEnd, 4)
	}
	r.Rule("R12", "what was negotiated on a connection is not wiped under the next one: after dispatching DISCONNECTED the teardown writes nothing and calls nothing of the library (shared with C07.R12) - a DISCONNECTED handler may already have reconnected and negotiated")
	c.nothingAfterDisconnectedRule("R12")
	// ---- R1: find the function with Cap(REQ)
	var neg *ssa.Function
	for _, fn := range c.clientFuncs() {
		if len(capCalls(fn, "REQ")) > 0 {
			neg = fn
		}
	}
	r.Anchor("R1", "function sending CAP REQ", neg != nil)
	if neg != nil {
		r.Funcs[c.FuncKey(neg)] = true
		req := capCalls(neg, "REQ")
		r.Exactly("R1", "Cap(REQ) call sites", len(req), 1)
		supVar := c.FieldVar(c.Client, "Conn", "supportedCaps")
		for _, cs := range req {
			ok, why := false, "variadic argument is not <set>.Slice()"
			// the slice of names may be taken here, or in a helper that builds the set, intersects it and returns
			// its Slice(): then the helper is where the set lives, and its call stands for the slice in this function
			host := neg
			var measure ssa.Value
			sl, isC := cs.Common().Args[2].(*ssa.Call)
			var hostCall *ssa.Call
			if isC && sl.Call.StaticCallee() != nil && c.capRole(sl.Call.StaticCallee()) != "Slice" && !sl.Call.IsInvoke() && c.InModuleFn(sl.Call.StaticCallee()) && sl.Call.StaticCallee().Package() == c.Client {
				h := sl.Call.StaticCallee()
				var inner *ssa.Call
				nRet := 0
				funcInstrs(h, func(in ssa.Instruction) {
					if rt, okR := in.(*ssa.Return); okR && len(rt.Results) == 1 {
						nRet++
						if x, okX := rt.Results[0].(*ssa.Call); okX && x.Call.StaticCallee() != nil && c.capRole(x.Call.StaticCallee()) == "Slice" {
							inner = x
						}
					}
				})
				if nRet == 1 && inner != nil {
					hostCall, host, sl = sl, h, inner
				}
			}
			if isC {
				measure = sl
				if hostCall != nil {
					measure = hostCall
				}
			}
			if isC && sl.Call.StaticCallee() != nil && c.capRole(sl.Call.StaticCallee()) == "Slice" {
				set := sl.Call.Args[0]
				ctor, isCtor := set.(*ssa.Call)
				switch {
				case !isCtor || ctor.Call.StaticCallee() == nil || !c.InModuleFn(ctor.Call.StaticCallee()):
					why = "the requested set is not the result of the wanted-set constructor"
				default:
					// Intersect(set, supported) dominates; Size() on the same set guards
					var inter ssa.Instruction
					for _, x := range CallSites(host) {
						if cal := x.Common().StaticCallee(); cal != nil && c.capRole(cal) == "Intersect" && x.Common().Args[0] == set {
							if fv, _ := loadedField(x.Common().Args[1]); fv == supVar && supVar != nil {
								inter = x
							}
						}
					}
					sizeOK := false
					for _, cd := range CondsAt(cs.Block()) {
						cd = unwrapNot(cd)
						if bo, isB := cd.V.(*ssa.BinOp); isB {
							sc, isS := bo.X.(*ssa.Call)
							measures := isS && sc.Call.StaticCallee() != nil && c.capRole(sc.Call.StaticCallee()) == "Size" && sc.Call.Args[0] == set
							if isS && !measures {
								// len(<the requested slice>) is the same measure
								if b, isB := sc.Call.Value.(*ssa.Builtin); isB && b.Name() == "len" && sc.Call.Args[0] == measure {
									measures = true
								}
							}
							if measures {
								one := func(v ssa.Value) bool { k, ok := constInt(v); return ok && k == 1 }
								if (bo.Op == token.GTR && isZero(bo.Y) && cd.True) || (bo.Op == token.NEQ && isZero(bo.Y) && cd.True) ||
									(bo.Op == token.EQL && isZero(bo.Y) && !cd.True) || (bo.Op == token.LEQ && isZero(bo.Y) && !cd.True) ||
									(bo.Op == token.GEQ && one(bo.Y) && cd.True) || (bo.Op == token.LSS && one(bo.Y) && !cd.True) {
									sizeOK = true
									// the other edge sends END
									endOK := false
									for _, e := range capCalls(neg, "END") {
										for _, c2 := range CondsAt(e.Block()) {
											if c2.If == cd.If && unwrapNot(c2).True != cd.True {
												endOK = true
											}
										}
									}
									if !endOK {
										sizeOK = false
									}
								}
							}
						}
					}
					// nothing else may modify the request set between its construction and Slice()
					extra := ""
					for _, x := range CallSites(host) {
						cal := x.Common().StaticCallee()
						if cal == nil || x.Common().IsInvoke() || len(x.Common().Args) == 0 || x.Common().Args[0] != set {
							continue
						}
						switch c.capRole(cal) {
						case "Intersect", "Size", "Slice", "Has":
						case "Add":
							if host == neg {
								extra = cal.Name() + " at " + c.InstrPos(x)
							} // in a builder the additions are judged by the wanted-set rule below
						default:
							extra = cal.Name() + " at " + c.InstrPos(x)
						}
					}
					switch {
					case extra != "":
						why = "the request set is also modified by " + extra
					case inter == nil || !instrDominates(inter, sl):
						why = "the set is not intersected with the supported set before Slice()"
					case !sizeOK:
						why = "REQ/END is not decided by Size() > 0 of the same set"
					default:
						ok, why = true, "Slice() of wanted ∩ supported; REQ iff non-empty else END"
						// supported set filled from the handler's argument before the intersection
						addOK := false
						for _, x := range CallSites(neg) {
							if cal := x.Common().StaticCallee(); cal != nil && c.capRole(cal) == "Add" {
								anchor := inter
								if hostCall != nil {
									anchor = hostCall
								}
								if fv, _ := loadedField(x.Common().Args[0]); fv == supVar && instrDominates(x, anchor) {
									if c.isCapListOf(x.Common().Args[1], neg, 0) {
										addOK = true
									}
								}
							}
						}
						if !addOK {
							ok, why = false, "the advertised capabilities are not added to the supported set before intersecting"
						}
					}
					// the constructor: adds sasl iff Sasl != nil, adds Config.Capabilites unconditionally
					if hostCall != nil {
						c.wantedSetRuleFor(host, set)
					} else {
						c.wantedSetRule(ctor.Call.StaticCallee())
					}
				}
			}
			r.Add("R1", "request-set", c.InstrPos(cs), c.FuncKey(neg), "requested capabilities = wanted ∩ advertised", ok, why)
		}
	}

	// ---- R2
	ends := func(fn *ssa.Function) (bool, string) {
		ok, bad := AllPathsFromEntryPass(fn, func(in ssa.Instruction) bool {
			cc := callOf(in)
			if cc == nil || cc.IsInvoke() {
				return false
			}
			if cc.StaticCallee() != capFn {
				return endWrapper(cc.StaticCallee())
			}
			s, _ := constString(cc.Args[1])
			return s == "END"
		})
		if !ok {
			return false, "return at " + c.InstrPos(bad) + " without CAP END"
		}
		return true, "CAP END on every path"
	}
	for _, num := range []string{"903", "904", "908"} {
		if h := a.IntTable[num]; h != nil {
			ok, why := ends(h)
			r.Add("R2", "ends:"+num, c.Pos(h.Pos()), c.FuncKey(h), "negotiation ends after "+num, ok, why)
			r.Funcs[c.FuncKey(h)] = true
		} else {
			r.Anchor("R2", "handler for "+num, false)
		}
	}
	// NAK / ACK handling: reached from the CAP handler's switch on the subcommand
	hcap := a.IntTable["CAP"]
	var ackFn, nakFn *ssa.Function
	nakInline, nakSeen := false, false
	isEndCall := func(in ssa.Instruction) bool {
		cc := callOf(in)
		if cc == nil || cc.IsInvoke() {
			return false
		}
		if cc.StaticCallee() == capFn {
			s, _ := constString(cc.Args[1])
			return s == "END"
		}
		if cal := cc.StaticCallee(); cal != nil && cal.Package() == c.Client && cal != capFn {
			ok, _ := ends(cal)
			return ok
		}
		return false
	}
	if hcap != nil {
		r.Funcs[c.FuncKey(hcap)] = true
		for _, b := range hcap.Blocks {
			sub := ""
			for _, cd := range CondsAt(b) {
				cd = unwrapNot(cd)
				if bo, ok := cd.V.(*ssa.BinOp); ok && bo.Op == token.EQL && cd.True {
					if s, ok := constString(bo.Y); ok {
						sub = s
					}
				}
			}
			if sub != "ACK" && sub != "NAK" {
				continue
			}
			for _, in := range b.Instrs {
				cs, ok := in.(*ssa.Call)
				if !ok {
					continue
				}
				cal := cs.Call.StaticCallee()
				if cal == nil || !c.InModuleFn(cal) {
					continue
				}
				switch sub {
				case "ACK":
					if cal != capFn {
						ackFn = cal
					}
				case "NAK":
					nakSeen = true
					if cal == capFn {
						nakInline = isEndCall(in)
					} else {
						nakFn = cal
					}
				}
			}
		}
	}
	if hcap != nil && ackFn == nil {
		// table-driven dispatch: handler := table[subcommand]; handler(conn, caps)
		funcInstrs(hcap, func(in ssa.Instruction) {
			lk, ok := in.(*ssa.Lookup)
			if !ok {
				return
			}
			if tab := c.tableEntries(lk.X); tab != nil {
				if f := tab["ACK"]; f != nil {
					ackFn = f
				}
				if f := tab["NAK"]; f != nil {
					nakFn, nakSeen = f, true
				}
			}
		})
	}
	r.Anchor("R2", "ACK handler and NAK handling (dispatched from the CAP handler by subcommand)", ackFn != nil && nakSeen)
	if nakFn != nil {
		ok, why := ends(nakFn)
		r.Add("R2", "ends:NAK", c.Pos(nakFn.Pos()), c.FuncKey(nakFn), "negotiation ends after a NAK", ok, why)
		r.Funcs[c.FuncKey(nakFn)] = true
	} else if nakSeen {
		r.Add("R2", "ends:NAK", posFn(c, hcap), c.FuncKey(hcap), "negotiation ends after a NAK", nakInline, "Cap(END) called in the NAK case of the CAP handler")
	}
	if ackFn != nil {
		r.Funcs[c.FuncKey(ackFn)] = true
		ok, why := c.ackProtocol(ackFn, capFn, authFn)
		r.Add("R2", "ack-protocol", c.Pos(ackFn.Pos()), c.FuncKey(ackFn), "after an ACK exactly one of {SASL started, CAP END sent}", ok, why)
	}

	// ---- R3
	nAuth := 0
	saslVar := "Sasl"
	ackGuard := func(cs ssa.CallInstruction) (bool, bool) {
		isSasl, hasCfg := false, false
		for _, cd := range CondsAt(cs.Block()) {
			cd = unwrapNot(cd)
			if bo, ok := cd.V.(*ssa.BinOp); ok && (bo.Op == token.EQL || bo.Op == token.NEQ) && (bo.Op == token.EQL) == cd.True {
				if s, ok := constString(bo.Y); ok && s == "sasl" {
					isSasl = true
				}
				if s, ok := constString(bo.X); ok && s == "sasl" {
					isSasl = true
				}
			}
			if bo, ok := cd.V.(*ssa.BinOp); ok && (bo.Op == token.NEQ) == cd.True {
				if (c.cfgFieldLoad(bo.X, saslVar) && isNilConst(bo.Y)) || (c.cfgFieldLoad(bo.Y, saslVar) && isNilConst(bo.X)) {
					hasCfg = true
				}
			}
		}
		return isSasl, hasCfg
	}
	// siteOK: the call is in the AUTHENTICATE handler, in the ACK handler under the sasl guard, or in an
	// unexported helper all of whose callers satisfy the same
	var siteOK func(cs ssa.CallInstruction, depth int) (bool, string)
	siteOK = func(cs ssa.CallInstruction, depth int) (bool, string) {
		fn := cs.Parent()
		switch {
		case fn == a.IntTable["AUTHENTICATE"]:
			return true, "AUTHENTICATE handler"
		case fn == ackFn:
			isSasl, hasCfg := ackGuard(cs)
			return isSasl && hasCfg, fmt.Sprintf("ACK handler: cap == sasl: %v, Sasl != nil: %v", isSasl, hasCfg)
		}
		if depth >= 3 || fn.Object() == nil || fn.Object().Exported() || addrTaken(fn) {
			return false, "called from " + c.FuncKey(fn)
		}
		sites := c.staticCallers(fn)
		if len(sites) == 0 {
			return false, "called from " + c.FuncKey(fn) + ", which has no caller"
		}
		for _, s2 := range sites {
			if ok, why := siteOK(s2, depth+1); !ok {
				return false, "via " + c.FuncKey(fn) + ": " + why
			}
		}
		return true, "helper reached only from the ACK handler (under the sasl guard) / the AUTHENTICATE handler"
	}
	for _, cs := range c.Callers(authFn) {
		fn := cs.Parent()
		nAuth++
		ok, why := siteOK(cs, 0)
		r.Add("R3", "auth-site:"+c.FuncKey(fn)+fmt.Sprintf("#%d", nAuth), c.InstrPos(cs), c.FuncKey(fn), "Authenticate is called only in answer to AUTHENTICATE, or from the ACK handler when sasl was acknowledged and SASL is configured", ok, why)
	}
	r.Floor("R3", "Authenticate call sites", nAuth, 3)
	curVar := c.FieldVar(c.Client, "Conn", "currCaps")
	nHeld := 0
	for _, fn := range c.clientFuncs() {
		for _, cs := range CallSites(fn) {
			cal := cs.Common().StaticCallee()
			if cal == nil || recvNamed(cal) == nil || recvNamed(cal).Obj().Name() != c.nm("capSet") {
				continue
			}
			if c.capRole(cal) != "Add" && c.capRole(cal) != "Intersect" {
				continue
			}
			if fv, _ := loadedField(cs.Common().Args[0]); fv != curVar || curVar == nil {
				continue
			}
			nHeld++
			r.Add("R3", "held-write:"+c.FuncKey(fn), c.InstrPos(cs), c.FuncKey(fn), "the held-capabilities set changes only on an ACK", fn == ackFn, "modified in "+c.FuncKey(fn))
		}
	}
	r.Floor("R3", "writes to the held-capabilities set", nHeld, 1)

	// ---- R4
	if sa := c.Func(c.Client, "splitArgs"); sa != nil {
		r.Funcs[c.FuncKey(sa)] = true
		ok, why := c.noElementSkipped(sa, sa.Params[0])
		r.Add("R4", "split-no-skip", c.Pos(sa.Pos()), c.FuncKey(sa), "every capability given to the splitter appears in some request line", ok, why)
	} else {
		r.Anchor("R4", "splitArgs", false)
	}
}

// wantedSetRule: the constructor adds the sasl capability iff Config.Sasl != nil
// and adds Config.Capabilites unconditionally, returning that set.
func (c *Ctx) wantedSetRule(ctor *ssa.Function) {
	var set ssa.Value
	funcInstrs(ctor, func(in ssa.Instruction) {
		if rt, ok := in.(*ssa.Return); ok && len(rt.Results) == 1 {
			set = rt.Results[0]
		}
	})
	c.wantedSetRuleFor(ctor, set)
}

// wantedSetRuleFor: in ctor, the additions to set are sasl iff SASL is
// configured and the configured capabilities unconditionally.
func (c *Ctx) wantedSetRuleFor(ctor *ssa.Function, set ssa.Value) {
	r := c.R
	r.Funcs[c.FuncKey(ctor)] = true
	okSasl, okUser := false, false
	saslGuard := func(cds []Cond) bool {
		if len(cds) != 1 {
			return false
		}
		cd := unwrapNot(cds[0])
		if bo, ok := cd.V.(*ssa.BinOp); ok && (bo.Op == token.NEQ) == cd.True {
			return (c.cfgFieldLoad(bo.X, "Sasl") && isNilConst(bo.Y)) || (c.cfgFieldLoad(bo.Y, "Sasl") && isNilConst(bo.X))
		}
		return false
	}
	// contribution: what is added (directly, or to a name list that is later added as a whole) and under which conditions
	var contribute func(arg ssa.Value, cds []Cond, depth int)
	contribute = func(arg ssa.Value, cds []Cond, depth int) {
		if depth > 6 {
			return
		}
		if fv, base := loadedField(arg); fv != nil && fv.Name() == "Capabilites" {
			if f2, _ := loadedField(base); f2 == c.A.Cfg && len(cds) == 0 {
				okUser = true
			}
		}
		for _, el := range c.varargElems(arg) {
			if s, ok := constString(el); ok && s == "sasl" && saslGuard(cds) {
				okSasl = true
			}
		}
		switch t := arg.(type) {
		case *ssa.Call:
			if b, ok := t.Call.Value.(*ssa.Builtin); ok && b.Name() == "append" {
				rel := CondsAt(t.Block())
				contribute(t.Call.Args[0], cds, depth+1)
				if len(t.Call.Args) > 1 {
					contribute(t.Call.Args[1], append(append([]Cond{}, cds...), rel...), depth+1)
				}
			}
		case *ssa.Phi:
			for _, e := range t.Edges {
				contribute(e, cds, depth+1)
			}
		case *ssa.Slice:
			contribute(t.X, cds, depth+1)
		}
	}
	for _, cs := range CallSites(ctor) {
		cal := cs.Common().StaticCallee()
		if cal == nil || c.capRole(cal) != "Add" || cs.Common().Args[0] != set {
			continue
		}
		contribute(cs.Common().Args[1], CondsAt(cs.Block()), 0)
	}
	r.Add("R1", "wanted:sasl", c.Pos(ctor.Pos()), c.FuncKey(ctor), "sasl is wanted iff SASL is configured", okSasl, "Add(sasl) under Config.Sasl != nil only")
	r.Add("R1", "wanted:configured", c.Pos(ctor.Pos()), c.FuncKey(ctor), "the configured capabilities are wanted", okUser, "Add(Config.Capabilites...) unconditionally")
}

// ackProtocol explores every path of the ACK handler tracking whether
// Authenticate / Cap(END) were called and the value of boolean flag phis
// whose operands are constants; at every return exactly one must hold.
func (c *Ctx) ackProtocol(fn, capFn, authFn *ssa.Function) (bool, string) {
	outs, n := c.ackExplore(fn, capFn, authFn, 0, map[*ssa.Function]bool{})
	for _, o := range outs {
		if o.auth == o.end {
			return false, fmt.Sprintf("a path reaches the return at %s with Authenticate=%v and CAP END=%v", o.at, o.auth, o.end)
		}
	}
	return true, fmt.Sprintf("%d (position, auth, end, flags) states explored; every return has exactly one of the two", n)
}

type ackOutcome struct {
	auth, end bool
	ret       int // boolean result: 0 unknown, 1 false, 2 true
	at        string
}

// ackExplore walks every path of fn, tracking whether Authenticate and
// Cap(END) have been called and the values of boolean flags (phis, results of
// helpers explored the same way), and returns the outcomes at its returns.
func (c *Ctx) ackExplore(fn, capFn, authFn *ssa.Function, depth int, open map[*ssa.Function]bool) ([]ackOutcome, int) {
	type state struct {
		b         *ssa.BasicBlock
		idx       int
		auth, end bool
		flags     string
	}
	var tracked []ssa.Value
	funcInstrs(fn, func(in ssa.Instruction) {
		v, ok := in.(ssa.Value)
		if !ok {
			return
		}
		if b, ok := v.Type().Underlying().(*types.Basic); !ok || b.Kind() != types.Bool {
			return
		}
		switch in.(type) {
		case *ssa.Phi, *ssa.Call:
			tracked = append(tracked, v)
		}
	})
	enc := func(m map[ssa.Value]int) string {
		s := ""
		for _, p := range tracked {
			s += fmt.Sprint(m[p])
		}
		return s
	}
	valOf := func(v ssa.Value, m map[ssa.Value]int) int {
		if k, ok := v.(*ssa.Const); ok && k.Value != nil {
			if k.Value.String() == "true" {
				return 2
			}
			if k.Value.String() == "false" {
				return 1
			}
		}
		return m[v]
	}
	reaches := func(cal *ssa.Function) bool {
		rc := c.Closure([]*ssa.Function{cal}, func(from *ssa.Function, e Edge) bool {
			return e.Kind == EdgeCall && !e.Site.Common().IsInvoke()
		})
		_, a1 := rc.Funcs[authFn]
		_, a2 := rc.Funcs[capFn]
		return a1 || a2
	}
	seen := map[state]bool{}
	var outs []ackOutcome
	seenOut := map[ackOutcome]bool{}
	var visit func(b *ssa.BasicBlock, idx int, auth, end bool, flags map[ssa.Value]int)
	enter := func(b, from *ssa.BasicBlock, auth, end bool, flags map[ssa.Value]int) {
		nf := map[ssa.Value]int{}
		for k, v := range flags {
			nf[k] = v
		}
		pi := -1
		for i, p := range b.Preds {
			if p == from {
				pi = i
			}
		}
		for _, in := range b.Instrs {
			ph, ok := in.(*ssa.Phi)
			if !ok {
				break
			}
			if pi >= 0 {
				nf[ph] = valOf(ph.Edges[pi], flags)
			}
		}
		visit(b, 0, auth, end, nf)
	}
	visit = func(b *ssa.BasicBlock, idx int, auth, end bool, nf map[ssa.Value]int) {
		st := state{b, idx, auth, end, enc(nf)}
		if seen[st] || len(seen) > 20000 {
			return
		}
		seen[st] = true
		for i := idx; i < len(b.Instrs); i++ {
			in := b.Instrs[i]
			if cc := callOf(in); cc != nil {
				if _, isGo := in.(*ssa.Go); !isGo {
					cal := cc.StaticCallee()
					switch {
					case cal == authFn && cal != nil:
						auth = true
					case cal == capFn && cal != nil:
						if s, _ := constString(cc.Args[1]); s == "END" {
							end = true
						}
					case cal != nil && !cc.IsInvoke() && cal.Package() == c.Client && c.InModuleFn(cal) && depth < 3 && !open[cal] && reaches(cal):
						open[cal] = true
						subs, _ := c.ackExplore(cal, capFn, authFn, depth+1, open)
						delete(open, cal)
						for _, sub := range subs {
							nf2 := map[ssa.Value]int{}
							for k, v := range nf {
								nf2[k] = v
							}
							if v, ok := in.(ssa.Value); ok {
								nf2[v] = sub.ret
							}
							visit(b, i+1, auth || sub.auth, end || sub.end, nf2)
						}
						return
					}
				}
			}
			if rt, ok := in.(*ssa.Return); ok {
				o := ackOutcome{auth: auth, end: end, at: c.InstrPos(in)}
				if len(rt.Results) == 1 {
					o.ret = valOf(retVal(rt, 0), nf)
				}
				if !seenOut[o] {
					seenOut[o] = true
					outs = append(outs, o)
				}
				return
			}
			if iff, ok := in.(*ssa.If); ok {
				cd := unwrapNot(Cond{V: iff.Cond, True: true})
				v := valOf(cd.V, nf)
				takeTrue, takeFalse := true, true
				if v != 0 {
					isTrue := (v == 2) == cd.True
					takeTrue, takeFalse = isTrue, !isTrue
				}
				if takeTrue {
					enter(b.Succs[0], b, auth, end, nf)
				}
				if takeFalse {
					enter(b.Succs[1], b, auth, end, nf)
				}
				return
			}
		}
		for _, s := range b.Succs {
			enter(s, b, auth, end, nf)
		}
	}
	if len(fn.Blocks) > 0 {
		visit(fn.Blocks[0], 0, false, false, map[ssa.Value]int{})
	}
	return outs, len(seen)
}

func containsPhi(l []*ssa.Phi, p *ssa.Phi) bool {
	for _, x := range l {
		if x == p {
			return true
		}
	}
	return false
}

// noElementSkipped: for the slice parameter args indexed by a loop counter:
// every load args[i] is used (concatenated, appended, stored, passed) on
// every path from the load to the next increment of i, and every increment
// of i is preceded in its block chain by such a load of the same i.
func (c *Ctx) noElementSkipped(fn *ssa.Function, args ssa.Value) (bool, string) {
	type rd struct {
		load *ssa.UnOp
		idx  ssa.Value
	}
	var reads []rd
	funcInstrs(fn, func(in ssa.Instruction) {
		if u, ok := in.(*ssa.UnOp); ok && u.Op == token.MUL {
			if ia, ok := u.X.(*ssa.IndexAddr); ok && ia.X == args {
				reads = append(reads, rd{u, ia.Index})
			}
		}
	})
	uses := func(in ssa.Instruction, v ssa.Value) bool { // content uses (len/cap only measure)
		switch t := in.(type) {
		case *ssa.BinOp:
			return (t.X == v || t.Y == v) && t.Op == token.ADD && isStringType(t.Type())
		case *ssa.Store:
			return t.Val == v
		case *ssa.Phi:
			for _, e := range t.Edges {
				if e == v {
					return true
				}
			}
		case ssa.CallInstruction:
			if b, ok := t.Common().Value.(*ssa.Builtin); ok && (b.Name() == "len" || b.Name() == "cap") {
				return false
			}
			for _, a := range t.Common().Args {
				if a == v {
					return true
				}
			}
		}
		return false
	}
	// loads that are only ever measured (len) do not carry content: exempt
	var contentReads []rd
	for _, rdx := range reads {
		has := false
		for _, ref := range *rdx.load.Referrers() {
			if uses(ref, rdx.load) {
				has = true
			}
		}
		if has {
			contentReads = append(contentReads, rdx)
		}
	}
	measured := len(reads) - len(contentReads)
	reads = contentReads
	// (1) every read is consumed: the value must also keep flowing into the result; we require a use on every path to the increment
	for _, rdx := range reads {
		// the value is conditionally used if some path from the load reaches a function exit or the loop back edge without a use
		reach := ReachFrom(rdx.load, false, func(in ssa.Instruction) bool { return uses(in, rdx.load) })
		for in := range reach {
			if uses(in, rdx.load) {
				continue
			}
			if isReturn(in) {
				return false, "element read at " + c.InstrPos(rdx.load) + " can be dropped (return reachable without using it)"
			}
			if in == ssa.Instruction(rdx.load) {
				return false, "element read at " + c.InstrPos(rdx.load) + " can be dropped (next iteration reachable without using it)"
			}
		}
	}
	return true, fmt.Sprintf("%d content reads, each consumed on every path; %d reads only measure the element", len(reads), measured)
}

// capDispatchRule: in the CAP handler each call that hands the capability
// list on is guarded only by argument-count tests and subcommand comparisons.
func (c *Ctx) capDispatchRule(rule string) {
	r, a := c.R, c.A
	h := a.IntTable["CAP"]
	if !r.Anchor(rule, "CAP handler in the internal table", h != nil) {
		return
	}
	r.Funcs[c.FuncKey(h)] = true
	line := ssa.Value(h.Params[len(h.Params)-1])
	seenSub := map[string]bool{}
	n := 0
	funcInstrs(h, func(in ssa.Instruction) {
		call, ok := in.(*ssa.Call)
		if !ok {
			return
		}
		callee := call.Call.StaticCallee()
		var tableKeys map[string]*ssa.Function
		var tableOK ssa.Value // the comma-ok result of the table lookup, an accepted guard
		if callee == nil && !call.Call.IsInvoke() {
			// table-driven: handler, ok := table[subcommand]; handler(conn, caps)
			if ex, isE := call.Call.Value.(*ssa.Extract); isE && ex.Index == 0 {
				if lk, isL := ex.Tuple.(*ssa.Lookup); isL && lk.CommaOk {
					if _, isArg := c.lineArgIndex(lk.Index, line); isArg {
						tableKeys = c.tableEntries(lk.X)
						for _, ref := range *lk.Referrers() {
							if e2, ok := ref.(*ssa.Extract); ok && e2.Index == 1 {
								tableOK = e2
							}
						}
					}
				}
			} else if lk, isL := call.Call.Value.(*ssa.Lookup); isL {
				if _, isArg := c.lineArgIndex(lk.Index, line); isArg {
					tableKeys = c.tableEntries(lk.X)
				}
			}
			if len(tableKeys) == 0 {
				return
			}
			ks := make([]string, 0, len(tableKeys))
			for k := range tableKeys {
				seenSub[k] = true
				ks = append(ks, k)
			}
			sort.Strings(ks)
			callee = tableKeys[ks[0]]
		}
		if callee == nil || callee.Package() != c.Client || callee.Signature.Recv() == nil {
			return
		}
		if rn := recvNamed(callee); rn == nil || rn.Obj().Name() != "Conn" {
			return
		}
		// a sub-handler takes the capability list
		takesList := false
		for i, arg := range call.Call.Args {
			if _, isSl := arg.Type().Underlying().(*types.Slice); isSl && i >= 1 {
				takesList = true
			}
			// ... or the reply itself, to take the list from
			if i >= 1 && arg == line {
				takesList = true
			}
		}
		if !takesList && tableKeys == nil {
			// ... or nothing at all (a refusal needs no list), when the call is selected by a subcommand comparison
			for _, cd := range CondsAt(call.Block()) {
				cd = unwrapNot(cd)
				if bo, isB := cd.V.(*ssa.BinOp); isB && (bo.Op == token.EQL || bo.Op == token.NEQ) && (bo.Op == token.EQL) == cd.True {
					other := bo.Y
					_, isK := constString(bo.X)
					if !isK {
						_, isK = constString(bo.Y)
						other = bo.X
					}
					if isK {
						if _, isArg := c.lineArgIndex(other, line); isArg && len(call.Call.Args) == 1 {
							takesList = true
						}
					}
				}
			}
		}
		if !takesList {
			return
		}
		n++
		ok2, why := true, ""
		for _, cd := range CondsAt(call.Block()) {
			cd = unwrapNot(cd)
			good := false
			if tableOK != nil && cd.V == tableOK {
				good = true
			}
			if bo, isB := cd.V.(*ssa.BinOp); isB && tableKeys != nil && (isNilConst(bo.X) || isNilConst(bo.Y)) {
				good = true // nil test of the looked-up handler
			}
			switch v := cd.V.(type) {
			case *ssa.Call:
				if f := v.Call.StaticCallee(); f != nil && f.Name() == c.nm("argslen") {
					good = true
				}
			case *ssa.BinOp:
				for _, side := range []ssa.Value{v.X, v.Y} {
					if lc, isC := side.(*ssa.Call); isC {
						if b, isB := lc.Call.Value.(*ssa.Builtin); isB && b.Name() == "len" {
							if fv, base := loadedField(lc.Call.Args[0]); fv != nil && fv.Name() == "Args" && base == line {
								good = true
							}
						}
					}
				}
				other := v.Y
				k, isK := constString(v.X)
				if !isK {
					k, isK = constString(v.Y)
					other = v.X
				}
				if isK && (v.Op == token.EQL || v.Op == token.NEQ) {
					if _, isArg := c.lineArgIndex(other, line); isArg {
						good = true
						if (v.Op == token.EQL) == cd.True {
							seenSub[k] = true
						}
					}
				}
			}
			if !good {
				ok2, why = false, "reached only under the condition at "+c.InstrPos(cd.If)+" ("+cd.V.String()+"), which is neither an argument-count test nor a subcommand comparison"
			}
		}
		if ok2 {
			why = "guarded only by argument-count tests and subcommand comparisons"
		}
		name := callee.Name()
		if tableKeys != nil {
			name = "table"
		}
		r.Add(rule, "cap-dispatch:"+name, c.InstrPos(call), c.FuncKey(h), "sub-handler "+name+" is reached for every reply with its subcommand", ok2, why)
	})
	r.Floor(rule, "sub-handler calls in the CAP handler", n, 1)
	for _, sub := range []string{"LS", "ACK", "NAK"} {
		r.Add(rule, "cap-subcommand:"+sub, c.Pos(h.Pos()), c.FuncKey(h), "a sub-handler is selected by subcommand "+sub, seenSub[sub], "comparison of the subcommand parameter with "+sub+" guarding a sub-handler call")
	}
}

// ---- the default-port decision, evaluated through helpers ----

type portFacts struct {
	sslKnown, ssl bool
	hpKnown, hp   bool // hasPort(Config.Server)
}

type penv struct {
	m      map[*ssa.Parameter]ssa.Value
	parent *penv
}

func (e *penv) resolve(v ssa.Value) (ssa.Value, *penv) {
	for e != nil {
		pr, ok := v.(*ssa.Parameter)
		if !ok {
			return v, e
		}
		b, ok := e.m[pr]
		if !ok {
			return v, e
		}
		v, e = b, e.parent
	}
	return v, nil
}

type addrForm struct {
	kind  string // server | const | join | other
	val   string
	facts portFacts
	desc  string
}

func (c *Ctx) addFacts(f portFacts, cds []Cond, env *penv) portFacts {
	for _, cd := range cds {
		cd = unwrapNot(cd)
		v, e2 := env.resolve(cd.V)
		if c.cfgFieldLoad(v, "SSL") {
			f.sslKnown, f.ssl = true, cd.True
			continue
		}
		if hc, ok := v.(*ssa.Call); ok && hc.Call.StaticCallee() != nil && hc.Call.StaticCallee().Name() == c.nm("hasPort") && len(hc.Call.Args) == 1 {
			arg, _ := e2.resolve(hc.Call.Args[0])
			if c.cfgFieldLoad(arg, "Server") {
				f.hpKnown, f.hp = true, cd.True
			}
		}
	}
	return f
}

func (c *Ctx) addrForms(v ssa.Value, env *penv, f portFacts, depth int) []addrForm {
	if depth > 8 {
		return []addrForm{{kind: "other", desc: "too deep"}}
	}
	v, env = env.resolve(v)
	if c.cfgFieldLoad(v, "Server") {
		return []addrForm{{kind: "server", facts: f}}
	}
	if k, ok := constString(v); ok {
		return []addrForm{{kind: "const", val: k, facts: f}}
	}
	switch t := v.(type) {
	case *ssa.Phi:
		var out []addrForm
		for i, e := range t.Edges {
			pred := t.Block().Preds[i]
			cds := CondsAt(pred)
			if cd, ok := edgeCond(pred, t.Block()); ok {
				cds = append(cds, cd)
			}
			out = append(out, c.addrForms(e, env, c.addFacts(f, cds, env), depth+1)...)
		}
		return out
	case *ssa.Call:
		if calleeName(&t.Call) == "net.JoinHostPort" && len(t.Call.Args) == 2 {
			var out []addrForm
			for _, x := range c.addrForms(t.Call.Args[0], env, f, depth+1) {
				for _, p := range c.addrForms(t.Call.Args[1], env, x.facts, depth+1) {
					if x.kind == "server" && p.kind == "const" {
						out = append(out, addrForm{kind: "join", val: p.val, facts: p.facts})
					} else {
						out = append(out, addrForm{kind: "other", desc: "JoinHostPort of " + x.kind + " and " + p.kind})
					}
				}
			}
			return out
		}
		callee := t.Call.StaticCallee()
		if callee != nil && c.InModuleFn(callee) && !t.Call.IsInvoke() {
			ne := &penv{m: map[*ssa.Parameter]ssa.Value{}, parent: env}
			for i, pr := range callee.Params {
				if i < len(t.Call.Args) {
					ne.m[pr] = t.Call.Args[i]
				}
			}
			var out []addrForm
			funcInstrs(callee, func(in ssa.Instruction) {
				if rt, ok := in.(*ssa.Return); ok && len(rt.Results) >= 1 {
					out = append(out, c.addrForms(retVal(rt, 0), ne, c.addFacts(f, CondsAt(rt.Block()), ne), depth+1)...)
				}
			})
			return out
		}
	}
	return []addrForm{{kind: "other", desc: v.String()}}
}

// serverStoreOK: the value stored to Config.Server is the configured address
// with port 6697 (SSL) / 6667 (plain) joined on exactly when it has none.
// keeps reports that the value is the unchanged address when it has a port.
func (c *Ctx) serverStoreOK(s *ssa.Store) (ok bool, why string, keeps bool) {
	forms := c.addrForms(s.Val, nil, c.addFacts(portFacts{}, CondsAt(s.Block()), nil), 0)
	ok = len(forms) > 0
	sawSSL, sawPlain := false, false
	for _, f := range forms {
		switch f.kind {
		case "join":
			want := "6667"
			if f.facts.ssl {
				want = "6697"
			}
			good := f.facts.sslKnown && f.facts.hpKnown && !f.facts.hp && f.val == want
			why += fmt.Sprintf("%q when SSL=%v(known=%v) noPort=%v; ", f.val, f.facts.ssl, f.facts.sslKnown, f.facts.hpKnown && !f.facts.hp)
			if !good {
				ok = false
			}
			if f.facts.ssl {
				sawSSL = true
			} else {
				sawPlain = true
			}
		case "server":
			if f.facts.hpKnown && f.facts.hp {
				keeps = true
				why += "unchanged when it has a port; "
			} else {
				ok = false
				why += "stored unchanged although it may lack a port; "
			}
		default:
			ok = false
			why += "unrecognised value " + f.kind + " " + f.desc + "; "
		}
	}
	c.portCover[0] = c.portCover[0] || sawSSL
	c.portCover[1] = c.portCover[1] || sawPlain
	return
}

// saslEncodingRule: arguments of Authenticate other than the mechanism name
// are "+" or EncodeToString(whole response).
func (c *Ctx) saslEncodingRule(rule string) {
	r, a := c.R, c.A
	authFn := c.Func(c.Client, "(*Conn).Authenticate")
	h := a.IntTable["AUTHENTICATE"]
	if !r.Anchor(rule, "(*Conn).Authenticate and the AUTHENTICATE handler", authFn != nil && h != nil) {
		return
	}
	region := c.Closure([]*ssa.Function{h}, func(from *ssa.Function, e Edge) bool {
		return e.Kind == EdgeCall && !e.Site.Common().IsInvoke() && e.Callee.Package() == c.Client && e.Callee != authFn
	})
	n := 0
	whole := func(v ssa.Value) (bool, string) {
		for _, o := range c.Origins(v) {
			switch t := o.(type) {
			case *ssa.Extract:
				if call, ok := t.Tuple.(*ssa.Call); ok && call.Call.IsInvoke() && t.Index == 0 {
					continue // result of the mechanism (Sasl.Next / Start)
				}
				return false, "encodes " + o.String()
			case *ssa.UnOp:
				if fv, _ := loadedField(t); fv != nil && fv.Pkg() == c.Client.Pkg {
					continue // the stored initial response
				}
				return false, "encodes " + o.String()
			case *ssa.Parameter:
				continue
			default:
				return false, "encodes " + o.String() + " (a part or a transformation of the response)"
			}
		}
		return true, "whole response"
	}
	for _, fn := range region.Order {
		if !c.InModuleFn(fn) {
			continue
		}
		for _, cs := range CallSites(fn) {
			if cs.Common().StaticCallee() != authFn || len(cs.Common().Args) < 2 {
				continue
			}
			n++
			okAll, why := true, ""
			var origins []ssa.Value
			for _, o := range c.Origins(cs.Common().Args[1]) {
				// an encoding method of a client-package record (the stored initial response): what it returns
				if mc, isMC := o.(*ssa.Call); isMC && !mc.Call.IsInvoke() && mc.Call.StaticCallee() != nil && mc.Call.StaticCallee() != authFn && c.InModuleFn(mc.Call.StaticCallee()) && mc.Call.StaticCallee().Package() == c.Client && mc.Call.StaticCallee().Blocks != nil {
					funcInstrs(mc.Call.StaticCallee(), func(y ssa.Instruction) {
						if rt, isR := y.(*ssa.Return); isR && len(rt.Results) == 1 {
							origins = append(origins, c.originsLocal(retVal(rt, 0))...)
						}
					})
					continue
				}
				origins = append(origins, o)
			}
			for _, o := range origins {
				if k, isK := constString(o); isK && k == "+" {
					why += "\"+\" "
					continue
				}
				// chunks of the encoded text are fine (that is what the spec asks for): look through slices of it
				for i := 0; i < 4; i++ {
					sl, isSl := o.(*ssa.Slice)
					if !isSl {
						break
					}
					os := c.Origins(sl.X)
					if len(os) != 1 {
						break
					}
					o = os[0]
				}
				call, isC := o.(*ssa.Call)
				if !isC || calleeName(&call.Call) != "(*encoding/base64.Encoding).EncodeToString" {
					okAll, why = false, "argument is "+o.String()+", not EncodeToString(response)"
					continue
				}
				if okW, w := whole(call.Call.Args[1]); !okW {
					okAll, why = false, w
				} else {
					why += "EncodeToString(whole response) "
				}
			}
			r.Add(rule, fmt.Sprintf("sasl-encoding:%s#%d", c.FuncKey(fn), n), c.InstrPos(cs), c.FuncKey(fn), "SASL data is the base64 of the complete response", okAll, why)
		}
	}
	r.Floor(rule, "Authenticate calls in the AUTHENTICATE exchange", n, 2)
}

// ownRenameRule: every tracker ReNick issued by a built-in handler is followed
// by the refresh of Config.Me from its result (guarded only by "result != nil"
// and, where the renamed nick is not the client's own by construction, by
// "old nick == Config.Me.Nick").
func (c *Ctx) ownRenameRule(rule string) {
	r, a := c.R, c.A
	var hs []*ssa.Function
	var names []string
	seen := map[*ssa.Function]bool{}
	for k := range a.IntTable {
		names = append(names, "i"+k)
	}
	for k := range a.StTable {
		names = append(names, "s"+k)
	}
	sort.Strings(names)
	for _, k := range names {
		h := a.StTable[k[1:]]
		if k[0] == 'i' {
			h = a.IntTable[k[1:]]
		}
		if h != nil && !seen[h] {
			seen[h] = true
			hs = append(hs, h)
		}
	}
	n := 0
	for _, h := range hs {
		for _, dc := range c.deepTrackerCalls(h, "ReNick") {
			n++
			res, _ := dc.Site.(ssa.Value)
			fn := dc.Site.Parent()
			var st *ssa.Store
			funcInstrs(fn, func(in ssa.Instruction) {
				s2, ok := in.(*ssa.Store)
				if !ok || !c.isFieldStore(in, a.CfgMe) {
					return
				}
				for _, o := range c.originsLocal(s2.Val) {
					if o == res {
						st = s2
					}
				}
			})
			ok, why := st != nil, "the result of ReNick is never stored to Config.Me: after a confirmed change of the client's own nick, Config.Me (read by the REGISTER handler) keeps the old nick"
			if st != nil {
				why = "Config.Me = result of ReNick when it succeeded"
				gotNonNil := false
				for _, cd := range CondsAt(st.Block()) {
					if cd.If != nil && !instrDominates(dc.Site, cd.If) {
						continue // conditions that already guard the rename itself
					}
					cd = unwrapNot(cd)
					bo, isB := cd.V.(*ssa.BinOp)
					good := false
					if isB && (bo.Op == token.NEQ || bo.Op == token.EQL) {
						if (bo.X == res && isNilConst(bo.Y)) || (bo.Y == res && isNilConst(bo.X)) {
							if (bo.Op == token.NEQ) == cd.True {
								good, gotNonNil = true, true
							}
						}
						// old nick == Config.Me.Nick
						isMeNick := func(v ssa.Value) bool { return c.meFieldLoad(v, "Nick") }
						if (bo.Op == token.EQL) == cd.True && (isMeNick(bo.X) || isMeNick(bo.Y)) {
							good = true
						}
					}
					if !good {
						ok, why = false, "the refresh of Config.Me depends on the condition at "+c.InstrPos(cd.If)+" ("+cd.V.String()+")"
					}
				}
				if ok && !gotNonNil {
					ok, why = false, "Config.Me is overwritten even when ReNick failed (nil result)"
				}
			}
			r.Add(rule, fmt.Sprintf("own-rename:%s#%d", c.FuncKey(h), n), c.InstrPos(dc.Site), c.FuncKey(h), "a rename applied to the tracker is mirrored in Config.Me when it concerns the client itself", ok, why)
		}
	}
	r.Floor(rule, "ReNick calls in built-in handlers", n, 3)
}

// capRole names a method of the capability-set type by what its signature
// says it is (the type and its methods are unexported in spirit and may be
// renamed): Add(...string), Has(string) bool, Intersect(*set), Slice()
// []string, Size() int. "" for anything else.
func (c *Ctx) capRole(fn *ssa.Function) string {
	if fn == nil {
		return ""
	}
	rn := recvNamed(fn)
	if rn == nil || rn != c.Named(c.Client, "capSet") {
		return ""
	}
	switch sig := sigString(fn); {
	case sig == "([]string...)()":
		return "Add"
	case sig == "(string)(bool)":
		return "Has"
	case sig == "()([]string)":
		return "Slice"
	case sig == "()(int)":
		return "Size"
	case fn.Signature.Params().Len() == 1 && fn.Signature.Results().Len() == 0 && namedOf(fn.Signature.Params().At(0).Type()) == rn:
		// a set operation with another set: an intersection only if it deletes exactly what the other set lacks
		if c.deletesWhatOtherLacks(fn) {
			return "Intersect"
		}
	}
	return ""
}

// deletesWhatOtherLacks: every delete in fn happens under "the other set does
// not have the element" (a false Has / comma-ok result) and there is one.
func (c *Ctx) deletesWhatOtherLacks(fn *ssa.Function) bool {
	n, bad := 0, false
	funcInstrs(fn, func(in ssa.Instruction) {
		call, ok := in.(*ssa.Call)
		if !ok {
			return
		}
		if b, isB := call.Call.Value.(*ssa.Builtin); !isB || b.Name() != "delete" {
			return
		}
		n++
		lacks := false
		for _, cd := range CondsAt(call.Block()) {
			cd = unwrapNot(cd)
			switch t := cd.V.(type) {
			case *ssa.Call:
				if cal := t.Call.StaticCallee(); cal != nil && sigString(cal) == "(string)(bool)" && len(t.Call.Args) == 2 && t.Call.Args[0] == ssa.Value(fn.Params[1]) {
					if !cd.True {
						lacks = true
					} else {
						bad = true
					}
				}
			case *ssa.Extract:
				if lk, isL := t.Tuple.(*ssa.Lookup); isL && t.Index == 1 && lk.CommaOk {
					if !cd.True {
						lacks = true
					} else {
						bad = true
					}
				}
			}
		}
		if !lacks {
			bad = true
		}
	})
	if n == 0 && len(fn.Params) >= 2 {
		// delegation: fn hands "other.Has" to a filter helper that deletes exactly what the predicate rejects
		okDel := false
		funcInstrs(fn, func(in ssa.Instruction) {
			call, ok := in.(*ssa.Call)
			if !ok || call.Call.IsInvoke() {
				return
			}
			h := call.Call.StaticCallee()
			if h == nil || !c.InModuleFn(h) || h.Blocks == nil || (h.Object() != nil && h.Object().Exported()) {
				return
			}
			for i, av := range call.Call.Args {
				mc, isMC := av.(*ssa.MakeClosure)
				if !isMC || len(mc.Bindings) != 1 || mc.Bindings[0] != ssa.Value(fn.Params[1]) || i >= len(h.Params) {
					continue
				}
				bf, _ := mc.Fn.(*ssa.Function)
				if bf == nil {
					continue
				}
				target := c.unthunk(bf)
				if target == nil || sigString(target) != "(string)(bool)" {
					continue
				}
				keep := h.Params[i]
				nd, badD := 0, false
				funcInstrs(h, func(y ssa.Instruction) {
					dc, isC := y.(*ssa.Call)
					if !isC {
						return
					}
					if b, isB := dc.Call.Value.(*ssa.Builtin); !isB || b.Name() != "delete" {
						return
					}
					nd++
					rejects := false
					for _, cd := range CondsAt(dc.Block()) {
						cd = unwrapNot(cd)
						if kc, isKC := cd.V.(*ssa.Call); isKC && kc.Call.Value == ssa.Value(keep) {
							if !cd.True {
								rejects = true
							} else {
								badD = true
							}
						}
					}
					if !rejects {
						badD = true
					}
				})
				if nd > 0 && !badD {
					okDel = true
				}
			}
		})
		return okDel
	}
	return n > 0 && !bad
}

// capAlwaysSendsRule: C19.R7.
func (c *Ctx) capAlwaysSendsRule(rule string, capFn *ssa.Function) {
	r, a := c.R, c.A
	var sends func(in ssa.Instruction, seen map[*ssa.Function]bool) bool
	sends = func(in ssa.Instruction, seen map[*ssa.Function]bool) bool {
		if _, isGo := in.(*ssa.Go); isGo {
			return false
		}
		if _, isDefer := in.(*ssa.Defer); isDefer {
			return false
		}
		cc := callOf(in)
		if cc == nil || cc.IsInvoke() {
			return false
		}
		cal := cc.StaticCallee()
		if cal == nil {
			return false
		}
		if cal == a.Raw {
			return true
		}
		if !c.InModuleFn(cal) || cal.Blocks == nil || seen[cal] || cal == capFn {
			return false
		}
		seen[cal] = true
		defer delete(seen, cal)
		ok, _ := AllPathsFromEntryPass(cal, func(x ssa.Instruction) bool { return sends(x, seen) })
		return ok
	}
	if len(capFn.Params) < 3 || len(capFn.Blocks) == 0 {
		r.Add(rule, "cap-signature", c.Pos(capFn.Pos()), c.FuncKey(capFn), "Cap(subcommand, capabilities...)", false, "unexpected signature")
		return
	}
	list := capFn.Params[len(capFn.Params)-1]
	starts := emptyListEdges(capFn, list)
	if len(starts) == 0 {
		if ok, why, pos := c.capSendsViaBuilder(capFn, list, func(x ssa.Instruction) bool { return sends(x, map[*ssa.Function]bool{}) }); ok {
			r.Add(rule, "cap-sends#1", pos, c.FuncKey(capFn), "Cap without a capability list always sends its line", true, why)
			return
		}
	}
	where := "the empty-list edge"
	if len(starts) == 0 {
		starts, where = []*ssa.BasicBlock{capFn.Blocks[0]}, "entry (no test of the list length)"
	}
	for i, sb := range starts {
		ok, bad := AllPathsPass(sb.Instrs[0], true, func(x ssa.Instruction) bool { return sends(x, map[*ssa.Function]bool{}) })
		why := "every path from " + where + " hands a line to Raw"
		if !ok {
			why = "from " + where + " the return at " + c.InstrPos(bad) + " is reached without a line handed to Raw"
		}
		r.Add(rule, fmt.Sprintf("cap-sends#%d", i+1), c.InstrPos(sb.Instrs[0]), c.FuncKey(capFn), "Cap without a capability list always sends its line", ok, why)
	}
}

// emptyListEdges: the successor blocks of the branches in fn that test
// len(list) against zero, on the side where the list is empty.
func emptyListEdges(fn *ssa.Function, list ssa.Value) []*ssa.BasicBlock {
	var starts []*ssa.BasicBlock
	for _, b := range fn.Blocks {
		if len(b.Instrs) == 0 {
			continue
		}
		iff, ok := b.Instrs[len(b.Instrs)-1].(*ssa.If)
		if !ok {
			continue
		}
		cd := unwrapNot(Cond{iff.Cond, true, iff})
		bo, isB := cd.V.(*ssa.BinOp)
		if !isB {
			continue
		}
		isLen := func(v ssa.Value) bool {
			cl, ok := v.(*ssa.Call)
			if !ok {
				return false
			}
			bi, ok := cl.Call.Value.(*ssa.Builtin)
			return ok && bi.Name() == "len" && len(cl.Call.Args) == 1 && cl.Call.Args[0] == list
		}
		var emptyWhenTrue bool
		switch {
		case isLen(bo.X) && isZero(bo.Y) && bo.Op == token.EQL:
			emptyWhenTrue = true
		case isLen(bo.X) && isZero(bo.Y) && (bo.Op == token.NEQ || bo.Op == token.GTR):
			emptyWhenTrue = false
		case isLen(bo.Y) && isZero(bo.X) && bo.Op == token.EQL:
			emptyWhenTrue = true
		case isLen(bo.Y) && isZero(bo.X) && (bo.Op == token.NEQ || bo.Op == token.LSS):
			emptyWhenTrue = false
		default:
			continue
		}
		if emptyWhenTrue == cd.True {
			starts = append(starts, b.Succs[0])
		} else {
			starts = append(starts, b.Succs[1])
		}
	}
	return starts
}

// capSendsViaBuilder: Cap has the form "for each line of build(..., list) send
// it": the loop over the builder's result is reached on every path, its body
// sends on every path, and on the empty-list edge the builder returns only
// slice literals with at least one element.
func (c *Ctx) capSendsViaBuilder(capFn *ssa.Function, list ssa.Value, sends func(ssa.Instruction) bool) (bool, string, string) {
	for _, b := range capFn.Blocks {
		if len(b.Instrs) == 0 || !c.IsLoopHeader(b) {
			continue
		}
		iff, ok := b.Instrs[len(b.Instrs)-1].(*ssa.If)
		if !ok {
			continue
		}
		bo, isB := iff.Cond.(*ssa.BinOp)
		if !isB || bo.Op != token.LSS {
			continue
		}
		ln, isL := bo.Y.(*ssa.Call)
		if !isL {
			continue
		}
		if bi, isBi := ln.Call.Value.(*ssa.Builtin); !isBi || bi.Name() != "len" {
			continue
		}
		built, isC := ln.Call.Args[0].(*ssa.Call)
		if !isC {
			continue
		}
		h := built.Call.StaticCallee()
		if h == nil || !c.InModuleFn(h) || h.Blocks == nil || built.Call.IsInvoke() {
			continue
		}
		// the counter starts at the first element
		first := false
		var ph *ssa.Phi
		if add, isAdd := bo.X.(*ssa.BinOp); isAdd && add.Op == token.ADD {
			if k, okK := constInt(add.Y); okK && k == 1 {
				ph, _ = add.X.(*ssa.Phi)
				if ph != nil {
					for i, e := range ph.Edges {
						if k0, ok0 := constInt(e); ok0 && k0 == -1 && !blockDom(b, b.Preds[i]) {
							first = true
						}
					}
				}
			}
		} else if ph, _ = bo.X.(*ssa.Phi); ph != nil {
			for i, e := range ph.Edges {
				if k0, ok0 := constInt(e); ok0 && k0 == 0 && !blockDom(b, b.Preds[i]) {
					first = true
				}
			}
		}
		if !first {
			continue
		}
		// every path through Cap reaches the loop
		if ok, _ := AllPathsFromEntryPass(capFn, func(x ssa.Instruction) bool { return x == ssa.Instruction(iff) }); !ok {
			continue
		}
		// the body sends before the next test
		body := b.Succs[0]
		if len(body.Instrs) == 0 {
			continue
		}
		seen := ReachFromFiltered(body.Instrs[0], true, sends, nil)
		bodyOK := true
		for in := range seen {
			if sends(in) {
				continue
			}
			if in == b.Instrs[0] {
				bodyOK = false
			}
			if _, isR := in.(*ssa.Return); isR {
				bodyOK = false
			}
		}
		if !bodyOK {
			continue
		}
		// the builder: non-empty on the empty-list edge
		j := -1
		for i, a := range built.Call.Args {
			if a == list {
				j = i
			}
		}
		if j < 0 || j >= len(h.Params) {
			continue
		}
		hs := emptyListEdges(h, h.Params[j])
		if len(hs) == 0 {
			continue
		}
		good := true
		for _, sb := range hs {
			for in := range ReachFrom(sb.Instrs[0], true, nil) {
				rt, isR := in.(*ssa.Return)
				if !isR {
					continue
				}
				if len(rt.Results) != 1 {
					good = false
					continue
				}
				sl, isS := retVal(rt, 0).(*ssa.Slice)
				if !isS {
					good = false
					continue
				}
				al, isA := sl.X.(*ssa.Alloc)
				if !isA || sl.Low != nil || sl.High != nil {
					good = false
					continue
				}
				if n, okN := arrayLen(al.Type()); !okN || n < 1 {
					good = false
				}
			}
		}
		if !good {
			continue
		}
		return true, "Cap sends every line " + c.FuncKey(h) + " builds, and for an empty list that is a literal of at least one line", c.InstrPos(built)
	}
	return false, "", ""
}

// capAddRule: C19.R8 - the set's Add records "-name" as name disabled and any
// other token as that token enabled, and nothing else.
func (c *Ctx) capAddRule(rule string) {
	r := c.R
	capT := c.Named(c.Client, "capSet")
	if !r.Anchor(rule, "capability set type", capT != nil) {
		return
	}
	var add *ssa.Function
	ms := c.SSA.MethodSets.MethodSet(types.NewPointer(capT))
	for i := 0; i < ms.Len(); i++ {
		if fn := c.SSA.MethodValue(ms.At(i)); fn != nil && c.capRole(fn) == "Add" {
			add = fn
		}
	}
	if !r.Anchor(rule, "the capability set's Add method", add != nil) {
		return
	}
	n := 0
	funcInstrs(add, func(in ssa.Instruction) {
		mu, ok := in.(*ssa.MapUpdate)
		if !ok {
			return
		}
		n++
		// the one-statement form: caps[TrimPrefix(tok, "-")] = !HasPrefix(tok, "-")
		if neg, isN := mu.Value.(*ssa.UnOp); isN && neg.Op == token.NOT {
			if hp, isC := neg.X.(*ssa.Call); isC && calleeName(&hp.Call) == "strings.HasPrefix" {
				if tp, isT := mu.Key.(*ssa.Call); isT && calleeName(&tp.Call) == "strings.TrimPrefix" && tp.Call.Args[0] == hp.Call.Args[0] {
					p1, ok1 := constString(hp.Call.Args[1])
					p2, ok2 := constString(tp.Call.Args[1])
					if ok1 && ok2 && p1 == "-" && p2 == "-" {
						n++
						r.Add(rule, fmt.Sprintf("cap-add#%d", n), c.InstrPos(mu), c.FuncKey(add), "Add records \"-name\" as name disabled and any other token as enabled", true, "caps[TrimPrefix(tok, \"-\")] = !HasPrefix(tok, \"-\")")
						return
					}
				}
			}
		}
		// the helper form: name, enabled := split(tok); caps[name] = enabled - judged at the helper's returns
		if ev, isEV := mu.Value.(*ssa.Extract); isEV {
			if ek, isEK := mu.Key.(*ssa.Extract); isEK && ek.Tuple == ev.Tuple {
				if hc, isHC := ev.Tuple.(*ssa.Call); isHC && !hc.Call.IsInvoke() && hc.Call.StaticCallee() != nil && c.InModuleFn(hc.Call.StaticCallee()) && len(hc.Call.Args) == 1 && len(hc.Call.StaticCallee().Params) == 1 {
					h := hc.Call.StaticCallee()
					tokP := ssa.Value(h.Params[0])
					funcInstrs(h, func(y ssa.Instruction) {
						rt, isR := y.(*ssa.Return)
						if !isR || len(rt.Results) <= ek.Index || len(rt.Results) <= ev.Index {
							return
						}
						n++
						key, valV := retVal(rt, ek.Index), retVal(rt, ev.Index)
						ok3, why3 := false, "the helper's answer is not a constant decided by HasPrefix(token, \"-\")"
						if kc, isK := valV.(*ssa.Const); isK && kc.Value != nil {
							val := kc.Value.String() == "true"
							pol, found := false, false
							for _, cd := range CondsAt(rt.Block()) {
								cd = unwrapNot(cd)
								if call, isC := cd.V.(*ssa.Call); isC && calleeName(&call.Call) == "strings.HasPrefix" && call.Call.Args[0] == tokP {
									if p, okP := constString(call.Call.Args[1]); okP && p == "-" {
										pol, found = cd.True, true
									}
								}
							}
							switch {
							case !found:
							case val && !pol && key == tokP:
								ok3, why3 = true, "token without '-' -> enabled under its own name"
							case !val && pol:
								if sl, isS := key.(*ssa.Slice); isS && sl.X == tokP && sl.High == nil {
									if k, okK := constInt(sl.Low); okK && k == 1 {
										ok3, why3 = true, "\"-name\" -> name disabled"
									}
								}
							}
						}
						r.Add(rule, fmt.Sprintf("cap-add#%d", n), c.InstrPos(rt), c.FuncKey(h), "Add records \"-name\" as name disabled and any other token as enabled", ok3, why3)
					})
					return
				}
			}
		}
		kc, isK := mu.Value.(*ssa.Const)
		if !isK || kc.Value == nil {
			r.Add(rule, fmt.Sprintf("cap-add#%d", n), c.InstrPos(mu), c.FuncKey(add), "a token is recorded as enabled (true) or disabled (false) by a constant", false, "stored value is computed: "+mu.Value.String())
			return
		}
		val := kc.Value.String() == "true"
		// the dominating test HasPrefix(tok, "-")
		var tok ssa.Value
		pol, found := false, false
		for _, cd := range CondsAt(mu.Block()) {
			cd = unwrapNot(cd)
			if call, isC := cd.V.(*ssa.Call); isC && calleeName(&call.Call) == "strings.HasPrefix" {
				if p, okP := constString(call.Call.Args[1]); okP && p == "-" {
					tok, pol, found = call.Call.Args[0], cd.True, true
				}
			}
		}
		ok2, why := false, ""
		switch {
		case !found:
			why = "not decided by HasPrefix(token, \"-\")"
		case val && !pol && mu.Key == tok:
			ok2, why = true, "token without '-' -> enabled under its own name"
		case !val && pol:
			if sl, isS := mu.Key.(*ssa.Slice); isS && sl.X == tok && sl.High == nil {
				if k, okK := constInt(sl.Low); okK && k == 1 {
					ok2, why = true, "\"-name\" -> name disabled"
				}
			}
			if !ok2 {
				why = "disabled under a key other than the token without its '-'"
			}
		default:
			why = fmt.Sprintf("value %v stored on the HasPrefix(token, \"-\") == %v edge under key %s", val, pol, mu.Key.String())
		}
		r.Add(rule, fmt.Sprintf("cap-add#%d", n), c.InstrPos(mu), c.FuncKey(add), "Add records \"-name\" as name disabled and any other token as enabled", ok2, why)
	})
	r.Floor(rule, "map updates in the capability set's Add", n, 2)
}

// ackReachesAuth: call sites of Authenticate in fn (used to keep functions that
// may authenticate out of the "says Cap(END)" wrappers).
func (c *Ctx) ackReachesAuth(fn, authFn *ssa.Function) []ssa.CallInstruction {
	var out []ssa.CallInstruction
	if fn == nil {
		return nil
	}
	for _, cs := range CallSites(fn) {
		if cs.Common().StaticCallee() == authFn {
			out = append(out, cs)
		}
	}
	return out
}

// capHasRule: C19.R9.
func (c *Ctx) capHasRule(rule string) {
	r := c.R
	capT := c.Named(c.Client, "capSet")
	if !r.Anchor(rule, "capability set type", capT != nil) {
		return
	}
	var has *ssa.Function
	ms := c.SSA.MethodSets.MethodSet(types.NewPointer(capT))
	for i := 0; i < ms.Len(); i++ {
		if fn := c.SSA.MethodValue(ms.At(i)); fn != nil && c.capRole(fn) == "Has" {
			has = fn
		}
	}
	if !r.Anchor(rule, "the capability set's Has method", has != nil) {
		return
	}
	n := 0
	funcInstrs(has, func(in ssa.Instruction) {
		rt, ok := in.(*ssa.Return)
		if !ok || len(rt.Results) != 1 {
			return
		}
		n++
		okR, why := true, "the map entry of the argument"
		for _, o := range c.originsLocal(retVal(rt, 0)) {
			if k, isK := o.(*ssa.Const); isK && k.Value != nil && k.Value.String() == "false" {
				continue
			}
			var lk *ssa.Lookup
			switch t := o.(type) {
			case *ssa.Lookup:
				lk = t
			case *ssa.Extract:
				lk, _ = t.Tuple.(*ssa.Lookup)
			}
			if lk == nil || lk.Index != ssa.Value(has.Params[1]) {
				okR, why = false, "answers with "+o.String()+", not with the entry of its own argument"
			}
		}
		r.Add(rule, fmt.Sprintf("cap-has#%d", n), c.InstrPos(rt), c.FuncKey(has), "Has answers with the map entry of its argument", okR, why)
	})
	loops := 0
	for _, b := range has.Blocks {
		if c.IsLoopHeader(b) {
			loops++
		}
	}
	r.Add(rule, "cap-has-no-search", c.Pos(has.Pos()), c.FuncKey(has), "Has does not search the set", loops == 0, fmt.Sprintf("%d loops", loops))
	r.Floor(rule, "returns of the capability set's Has", n, 1)
}

// trackerInstalledFreshRule: every tracker the client installs is a new one
// made for the nick the client has at that moment: each store of a non-nil
// value to the client's tracker field stores the result of state.NewTracker
// called, in the same function, with Config.Me.Nick. A kept tracker that is
// put back into service remembers the nick it was made for - a nick change
// made while tracking was off is lost, and every later own NICK line fails.
func (c *Ctx) trackerInstalledFreshRule(rule string) {
	r, a := c.R, c.A
	n := 0
	for _, fn := range c.clientFuncs() {
		funcInstrs(fn, func(in ssa.Instruction) {
			st, ok := in.(*ssa.Store)
			if !ok {
				return
			}
			fv, _ := fieldOf(st.Addr)
			if fv == nil || fv != a.St {
				return
			}
			if isNilConst(st.Val) {
				return
			}
			n++
			okS, why := true, "NewTracker(Config.Me.Nick)"
			for _, o := range c.originsLocal(st.Val) {
				for {
					if mi, isM := o.(*ssa.MakeInterface); isM {
						o = mi.X
					} else if ci, isCI := o.(*ssa.ChangeInterface); isCI {
						o = ci.X
					} else {
						break
					}
				}
				call, isC := o.(*ssa.Call)
				if !isC {
					okS, why = false, "installs "+o.String()+", not a tracker made here for the current nick"
					continue
				}
				if ok2, w2 := c.newTrackerForMe(call, nil, 0); !ok2 {
					okS, why = false, w2
				}
			}
			r.Add(rule, fmt.Sprintf("tracker-install:%s#%d", c.FuncKey(fn), n), c.InstrPos(st), c.FuncKey(fn), "an installed tracker is new and made for the client's current nick", okS, why)
		})
	}
	r.Floor(rule, "sites that install a tracker", n, 1)
}

// nothingAfterDisconnectedRule: in the teardown, once DISCONNECTED has been
// dispatched, nothing of the client is written and no function of the library
// is called: foreground DISCONNECTED handlers run inside the teardown and may
// have re-established the connection, so whatever the teardown "tidies up"
// afterwards (queues, capability sets, SASL state) belongs to the new
// connection.
func (c *Ctx) nothingAfterDisconnectedRule(rule string) {
	r, a := c.R, c.A
	n := 0
	for _, td := range []*ssa.Function{a.Teardown, a.TeardownCore} {
		if td == nil {
			continue
		}
		if td == a.TeardownCore && a.Teardown == a.TeardownCore && n > 0 {
			continue
		}
		for _, ed := range c.EventDispatches(td, a) {
			cs := ed.Site
			if ed.Cmd != "DISCONNECTED" {
				continue
			}
			n++
			bad := ""
			for in := range ReachFrom(cs, false, nil) {
				switch t := in.(type) {
				case *ssa.Store:
					if !c.allOriginsLocalAlloc(t.Addr, td) {
						bad = "store at " + c.InstrPos(t)
					}
				case *ssa.MapUpdate:
					bad = "map update at " + c.InstrPos(t)
				case ssa.CallInstruction:
					for _, e := range c.Callees(t) {
						if e.Callee != nil && c.InModuleFn(e.Callee) && e.Callee.Package() != c.Logging {
							bad = "call of " + c.FuncKey(e.Callee) + " at " + c.InstrPos(t)
						}
					}
				}
			}
			r.Add(rule, fmt.Sprintf("after-disconnected:%s#%d", c.FuncKey(td), n), c.InstrPos(cs), c.FuncKey(td), "after the DISCONNECTED dispatch the teardown only returns", bad == "", bad+" runs after DISCONNECTED handlers, which may have reconnected")
		}
	}
	r.Floor(rule, "DISCONNECTED dispatch in the teardown", n, 1)
}

// isCapListOf: v, in fn, is the capability list of the reply being handled: a
// slice parameter of fn (the caller split the reply), or strings.Fields of the
// Text() of fn's line parameter - taken here or by a helper that is handed
// that parameter.
func (c *Ctx) isCapListOf(v ssa.Value, fn *ssa.Function, depth int) bool {
	if depth > 2 {
		return false
	}
	if pr, ok := v.(*ssa.Parameter); ok && pr.Parent() == fn {
		_, isSl := pr.Type().Underlying().(*types.Slice)
		return isSl
	}
	call, ok := v.(*ssa.Call)
	if !ok || call.Call.IsInvoke() {
		return false
	}
	isLineParam := func(x ssa.Value) bool {
		pr, ok := x.(*ssa.Parameter)
		if !ok || pr.Parent() != fn {
			return false
		}
		pt, isP := pr.Type().Underlying().(*types.Pointer)
		if !isP {
			return false
		}
		nt, _ := pt.Elem().(*types.Named)
		return nt != nil && nt.Obj().Name() == "Line"
	}
	if calleeName(&call.Call) == "strings.Fields" {
		if tc, ok := call.Call.Args[0].(*ssa.Call); ok && !tc.Call.IsInvoke() && tc.Call.StaticCallee() != nil && tc.Call.StaticCallee().Name() == "Text" && len(tc.Call.Args) == 1 && isLineParam(tc.Call.Args[0]) {
			return true
		}
		return false
	}
	h := call.Call.StaticCallee()
	if h == nil || !c.InModuleFn(h) || h.Blocks == nil || len(call.Call.Args) != 1 || !isLineParam(call.Call.Args[0]) || len(h.Params) != 1 {
		return false
	}
	n, all := 0, true
	funcInstrs(h, func(in ssa.Instruction) {
		if rt, ok := in.(*ssa.Return); ok && len(rt.Results) == 1 {
			n++
			if !c.isCapListOf(retVal(rt, 0), h, depth+1) {
				all = false
			}
		}
	})
	return all && n > 0
}

// newTrackerForMe: call yields a tracker made by state.NewTracker for the
// nick of Config.Me: NewTracker(<Config.Me>.Nick) itself, or a helper of the
// client package every return of which is such a call on the record it is
// handed, called with Config.Me. me != nil stands for "the record" inside a
// helper (its parameter).
func (c *Ctx) newTrackerForMe(call *ssa.Call, me ssa.Value, depth int) (bool, string) {
	a := c.A
	if depth > 2 || call.Call.IsInvoke() || call.Call.StaticCallee() == nil {
		return false, "installs " + call.String() + ", not a tracker made here for the current nick"
	}
	isMe := func(v ssa.Value) bool {
		if me != nil {
			return v == me
		}
		f2, _ := loadedField(v)
		return f2 == a.CfgMe
	}
	cal := call.Call.StaticCallee()
	if cal.Package() == c.State && cal.Name() == "NewTracker" && len(call.Call.Args) == 1 {
		if f1, base := loadedField(call.Call.Args[0]); f1 != nil && isStringType(f1.Type()) && isMe(base) {
			return true, "NewTracker(Config.Me.Nick)"
		}
		return false, "the tracker is made for " + call.Call.Args[0].String() + ", not Config.Me's nick"
	}
	if !c.InModuleFn(cal) || cal.Package() != c.Client || cal.Blocks == nil {
		return false, "installs the result of " + calleeName(&call.Call) + ", not a tracker made here for the current nick"
	}
	// a helper: find the parameter that is handed Config.Me (or the record)
	var pm ssa.Value
	for i, av := range call.Call.Args {
		if isMe(av) && i < len(cal.Params) {
			pm = cal.Params[i]
		}
	}
	if pm == nil {
		return false, "the helper " + c.FuncKey(cal) + " is not handed Config.Me"
	}
	n, ok, why := 0, true, ""
	funcInstrs(cal, func(in ssa.Instruction) {
		rt, isR := in.(*ssa.Return)
		if !isR || len(rt.Results) != 1 {
			return
		}
		n++
		for _, o := range c.originsLocal(retVal(rt, 0)) {
			for {
				if mi, isM := o.(*ssa.MakeInterface); isM {
					o = mi.X
				} else if ci, isCI := o.(*ssa.ChangeInterface); isCI {
					o = ci.X
				} else {
					break
				}
			}
			c2, isC := o.(*ssa.Call)
			if !isC {
				ok, why = false, c.FuncKey(cal)+" returns "+o.String()
				continue
			}
			if ok2, w2 := c.newTrackerForMe(c2, pm, depth+1); !ok2 {
				ok, why = false, w2
			}
		}
	})
	if n == 0 {
		return false, c.FuncKey(cal) + " has no return"
	}
	return ok, why
}

// soleDelegate: fn does nothing but call one unexported method of its receiver
// (a plain call, outside any branch, that no other function makes): that
// method; otherwise nil.
func (c *Ctx) soleDelegate(fn *ssa.Function) *ssa.Function {
	if fn == nil || len(fn.Blocks) != 1 || len(fn.Params) == 0 {
		return nil
	}
	var only *ssa.Call
	n := 0
	other := false
	funcInstrs(fn, func(in ssa.Instruction) {
		switch t := in.(type) {
		case *ssa.Call:
			n++
			only = t
		case *ssa.Return, *ssa.DebugRef:
		default:
			other = true
		}
	})
	if n != 1 || other || only == nil || only.Call.IsInvoke() {
		return nil
	}
	h := only.Call.StaticCallee()
	if h == nil || !c.InModuleFn(h) || h.Package() != fn.Package() || h.Blocks == nil || (h.Object() != nil && h.Object().Exported()) || addrTaken(h) {
		return nil
	}
	if len(only.Call.Args) == 0 || only.Call.Args[0] != ssa.Value(fn.Params[0]) || len(c.staticCallers(h)) != 1 {
		return nil
	}
	return h
}
