package sa

import (
	"go/token"
	"go/types"
	"sort"
	"strings"

	"golang.org/x/tools/go/ssa"
)

// Structural resolution of UNEXPORTED identifiers. The rules name a number of
// unexported functions, types, fields and package-level tables of goirc. A
// maintainer may rename any of them without changing behaviour, so when a
// name is not found the construct is looked up by what it is: its type, its
// signature, or its place relative to exported API (which cannot be renamed
// without breaking users). nm(canonical) returns the identifier actually
// used in the tree under analysis.

func (p *Prog) nm(canon string) string {
	if p.names == nil {
		p.names = map[string]string{}
	}
	if v, ok := p.names[canon]; ok {
		return v
	}
	p.names[canon] = canon // recursion guard / default
	if v := p.findStructural(canon); v != "" {
		p.names[canon] = v
	}
	return p.names[canon]
}

func structOf(t types.Type) *types.Struct {
	if pt, ok := t.Underlying().(*types.Pointer); ok {
		t = pt.Elem()
	}
	st, _ := t.Underlying().(*types.Struct)
	return st
}

func namedOf(t types.Type) *types.Named {
	if pt, ok := t.Underlying().(*types.Pointer); ok {
		t = pt.Elem()
	}
	if pt, ok := t.(*types.Pointer); ok {
		t = pt.Elem()
	}
	n, _ := t.(*types.Named)
	return n
}

// typeByRole resolves the unexported named types.
func (p *Prog) typeByRole(canon string) *types.Named {
	cl, st := p.Client, p.State
	direct := func(pk *ssa.Package, n string) *types.Named {
		if tn := pk.Type(n); tn != nil {
			nn, _ := tn.Type().(*types.Named)
			return nn
		}
		return nil
	}
	switch canon {
	case "hSet":
		if n := direct(cl, "hSet"); n != nil {
			return n
		}
		// the type of the handler-set fields of Conn: an unexported struct type used by >= 3 fields
		conn := direct(cl, "Conn")
		if conn == nil {
			return nil
		}
		cs := structOf(conn)
		cnt := map[*types.Named]int{}
		for i := 0; cs != nil && i < cs.NumFields(); i++ {
			if n := namedOf(cs.Field(i).Type()); n != nil && n.Obj().Pkg() == cl.Pkg && !n.Obj().Exported() {
				if s2 := structOf(n); s2 != nil {
					hasMap, hasMu := false, false
					for j := 0; j < s2.NumFields(); j++ {
						if _, ok := s2.Field(j).Type().Underlying().(*types.Map); ok {
							hasMap = true
						}
						if ts := typeString(s2.Field(j).Type()); ts == "sync.RWMutex" || ts == "sync.Mutex" {
							hasMu = true
						}
					}
					if hasMap && hasMu {
						cnt[n]++
					}
				}
			}
		}
		for n, k := range cnt {
			if k >= 3 {
				return n
			}
		}
	case "hList":
		if n := direct(cl, "hList"); n != nil {
			return n
		}
		if hs := p.typeByRole("hSet"); hs != nil {
			s := structOf(hs)
			for i := 0; s != nil && i < s.NumFields(); i++ {
				if m, ok := s.Field(i).Type().Underlying().(*types.Map); ok {
					return namedOf(m.Elem())
				}
			}
		}
	case "hNode":
		if n := direct(cl, "hNode"); n != nil {
			return n
		}
		if hl := p.typeByRole("hList"); hl != nil {
			s := structOf(hl)
			for i := 0; s != nil && i < s.NumFields(); i++ {
				if n := namedOf(s.Field(i).Type()); n != nil && n != hl {
					return n
				}
			}
		}
	case "capSet":
		if n := direct(cl, "capSet"); n != nil {
			return n
		}
		if f := p.funcByName(cl, "(*Conn).SupportsCapability"); f != nil {
			var out *types.Named
			funcInstrs(f, func(in ssa.Instruction) {
				if fv, _ := loadedField(valueOf(in)); fv != nil {
					if n := namedOf(fv.Type()); n != nil && !n.Obj().Exported() {
						out = n
					}
				}
			})
			return out
		}
	case "stateTracker":
		if n := direct(st, "stateTracker"); n != nil {
			return n
		}
		if f := st.Func("NewTracker"); f != nil {
			return namedOf(f.Signature.Results().At(0).Type())
		}
	case "nick", "channel":
		if n := direct(st, canon); n != nil {
			return n
		}
		tr := p.typeByRole("stateTracker")
		if tr == nil {
			return nil
		}
		s := structOf(tr)
		var elems []*types.Named
		var me *types.Named
		for i := 0; s != nil && i < s.NumFields(); i++ {
			switch t := s.Field(i).Type().Underlying().(type) {
			case *types.Map:
				if n := namedOf(t.Elem()); n != nil {
					elems = append(elems, n)
				}
			case *types.Pointer:
				if n := namedOf(t); n != nil && n.Obj().Pkg() == st.Pkg {
					me = n
				}
			}
		}
		for _, e := range elems {
			if canon == "nick" && e == me {
				return e
			}
			if canon == "channel" && e != me {
				return e
			}
		}
	}
	return nil
}

func valueOf(in ssa.Instruction) ssa.Value {
	v, _ := in.(ssa.Value)
	return v
}

// funcByName is the plain name lookup (no structural fallback).
func (p *Prog) funcByName(pkg *ssa.Package, name string) *ssa.Function {
	if strings.HasPrefix(name, "(") {
		i := strings.Index(name, ").")
		recv, m := name[1:i], name[i+2:]
		ptr := strings.HasPrefix(recv, "*")
		recv = strings.TrimPrefix(recv, "*")
		tn := pkg.Type(recv)
		if tn == nil {
			return nil
		}
		var t types.Type = tn.Type()
		if ptr {
			t = types.NewPointer(t)
		}
		sel := p.SSA.MethodSets.MethodSet(t).Lookup(pkg.Pkg, m)
		if sel == nil {
			return nil
		}
		return p.SSA.MethodValue(sel)
	}
	return pkg.Func(name)
}

// methodsOf lists the source methods of the (pointer to the) named type.
func (p *Prog) methodsOf(n *types.Named) []*ssa.Function {
	var out []*ssa.Function
	if n == nil {
		return nil
	}
	ms := p.SSA.MethodSets.MethodSet(types.NewPointer(n))
	for i := 0; i < ms.Len(); i++ {
		if f := p.SSA.MethodValue(ms.At(i)); f != nil && f.Blocks != nil && f.Synthetic == "" {
			out = append(out, f)
		}
	}
	sort.Slice(out, func(i, j int) bool { return out[i].Name() < out[j].Name() })
	return out
}

func sigString(f *ssa.Function) string {
	s := f.Signature
	var ps, rs []string
	for i := 0; i < s.Params().Len(); i++ {
		ps = append(ps, typeString(s.Params().At(i).Type()))
	}
	for i := 0; i < s.Results().Len(); i++ {
		rs = append(rs, typeString(s.Results().At(i).Type()))
	}
	v := ""
	if s.Variadic() {
		v = "..."
	}
	return "(" + strings.Join(ps, ",") + v + ")(" + strings.Join(rs, ",") + ")"
}

// calleesOf lists the static module callees of fn in source order.
func (p *Prog) calleesOf(fn *ssa.Function) []*ssa.Function {
	var out []*ssa.Function
	if fn == nil {
		return nil
	}
	for _, cs := range CallSites(fn) {
		if c := cs.Common().StaticCallee(); c != nil && !cs.Common().IsInvoke() && p.InModuleFn(c) {
			out = append(out, c)
		}
	}
	return out
}

// funcByRole resolves unexported functions / methods.
func (p *Prog) funcByRole(canon string) *ssa.Function {
	cl, st := p.Client, p.State
	lp := modPath + "/client."
	switch canon {
	case "(*Conn).handle":
		// the unexported Conn method with the signature of Handle that adds to a handler set other than the
		// ones Handle / HandleBG use
		h := p.funcByName(cl, "(*Conn).Handle")
		if h == nil {
			return nil
		}
		conn := namedOf(h.Signature.Recv().Type())
		for _, f := range p.methodsOf(conn) {
			if f.Object() != nil && !f.Object().Exported() && sigString(f) == sigString(h) {
				return f
			}
		}
	case "(*Conn).dispatch":
		conn := p.Named(cl, "Conn")
		for _, f := range p.methodsOf(conn) {
			if f.Object() != nil && !f.Object().Exported() && sigString(f) == "(*"+lp+"Line)()" {
				// calls the set dispatcher on three sets
				n := 0
				for _, c := range p.calleesOf(f) {
					if rn := recvNamed(c); rn != nil && rn == p.typeByRole("hSet") {
						n++
					}
				}
				if n >= 3 {
					return f
				}
			}
		}
	case "(*hSet).dispatch":
		hs := p.typeByRole("hSet")
		for _, f := range p.methodsOf(hs) {
			if strings.HasSuffix(sigString(f), "Line)()") && f.Signature.Params().Len() == 2 {
				return f
			}
		}
	case "(*hSet).add":
		hs := p.typeByRole("hSet")
		for _, f := range p.methodsOf(hs) {
			if f.Signature.Results().Len() == 1 && typeString(f.Signature.Results().At(0).Type()) == lp+"Remover" {
				return f
			}
		}
	case "(*Conn).write":
		// the function the member goroutine hands each line received from the outbound queue to
		conn := p.Named(cl, "Conn")
		cs := structOf(conn)
		if cs == nil {
			return nil
		}
		out := uniqueField(cs, "chan string")
		for _, f := range p.methodsOf(conn) {
			for _, op := range ChanOps(f) {
				if op.Kind != "recv" || !p.ChanMayBe(op.Chan, out) {
					continue
				}
				v := recvValue(op)
				if v == nil || v.Referrers() == nil {
					continue
				}
				for _, ref := range *v.Referrers() {
					if call, ok := ref.(*ssa.Call); ok {
						if c := call.Call.StaticCallee(); c != nil && p.InModuleFn(c) && sigString(c) == "(string)(error)" {
							return c
						}
					}
				}
			}
		}
	case "splitMessage":
		if f := p.funcByName(cl, "(*Conn).Privmsg"); f != nil {
			for _, c := range p.calleesOf(f) {
				if sigString(c) == "(string,int)([]string)" {
					return c
				}
			}
		}
	case "indexFragment":
		if sm := p.funcByRole("splitMessage"); sm != nil {
			var out *ssa.Function
			reach := p.Closure([]*ssa.Function{sm}, func(from *ssa.Function, e Edge) bool { return e.Callee.Package() == cl })
			for _, c := range reach.Order {
				if c != sm && sigString(c) == "(string)(int)" {
					out = c
				}
			}
			return out
		}
	case "splitArgs":
		if f := p.funcByName(cl, "(*Conn).Cap"); f != nil {
			for _, c := range p.calleesOf(f) {
				if sigString(c) == "([]string,int)([]string)" {
					return c
				}
			}
		}
	case "parseUserHost":
		if f := cl.Func("ParseLine"); f != nil {
			reach := p.Closure([]*ssa.Function{f}, func(from *ssa.Function, e Edge) bool { return e.Callee.Package() == cl })
			for _, c := range reach.Order {
				if sigString(c) == "(string)(string,string,string,bool)" {
					return c
				}
			}
		}
	case "hasPort":
		for _, f := range p.ModFuncs {
			if f.Package() == cl && f.Parent() == nil && f.Signature.Recv() == nil && sigString(f) == "(string)(bool)" {
				// applied to Config.Server somewhere
				for _, cs := range p.staticCallers(f) {
					if fv, _ := loadedField(cs.Common().Args[0]); fv != nil && fv.Name() == "Server" {
						return f
					}
				}
			}
		}
	case "(*Line).argslen":
		line := p.Named(cl, "Line")
		for _, f := range p.methodsOf(line) {
			if f.Object() != nil && !f.Object().Exported() && sigString(f) == "(int)(bool)" {
				return f
			}
		}
	case "(*channel).parseModes", "(*nick).parseModes":
		tn := "channel"
		api := "(*stateTracker).ChannelModes"
		if strings.Contains(canon, "nick") {
			tn, api = "nick", "(*stateTracker).NickModes"
		}
		tr := p.typeByRole("stateTracker")
		want := p.typeByRole(tn)
		if tr == nil || want == nil {
			return nil
		}
		var apiFn *ssa.Function
		for _, f := range p.methodsOf(tr) {
			if "(*stateTracker)."+f.Name() == api {
				apiFn = f
			}
		}
		for _, c := range p.calleesOf(apiFn) {
			if rn := recvNamed(c); rn == want && c.Signature.Results().Len() == 0 && c.Signature.Params().Len() >= 1 && isStringType(c.Signature.Params().At(0).Type()) {
				return c
			}
		}
	}
	_ = st
	return nil
}

// fieldByRole resolves unexported struct fields: "Type.field".
func (p *Prog) fieldByRole(typ, field string) *types.Var {
	var n *types.Named
	switch typ {
	case "hSet", "hList", "hNode", "capSet", "stateTracker", "nick", "channel":
		n = p.typeByRole(typ)
	case "Conn":
		n = p.Named(p.Client, "Conn")
	}
	s := structOf(n)
	if s == nil {
		return nil
	}
	fieldsOfType := func(pred func(types.Type) bool) []*types.Var {
		var out []*types.Var
		for i := 0; i < s.NumFields(); i++ {
			if pred(s.Field(i).Type()) {
				out = append(out, s.Field(i))
			}
		}
		return out
	}
	one := func(fs []*types.Var) *types.Var {
		if len(fs) == 1 {
			return fs[0]
		}
		return nil
	}
	isMapTo := func(key string, elem *types.Named) func(types.Type) bool {
		return func(t types.Type) bool {
			m, ok := t.Underlying().(*types.Map)
			if !ok {
				return false
			}
			kOK := typeString(m.Key()) == key || (key == "*" && namedOf(m.Key()) != nil && !isStringType(m.Key()))
			return kOK && (elem == nil || namedOf(m.Elem()) == elem)
		}
	}
	switch typ + "." + field {
	case "hSet.set":
		return one(fieldsOfType(func(t types.Type) bool { _, ok := t.Underlying().(*types.Map); return ok }))
	case "hList.start", "hList.end", "hNode.next", "hNode.prev":
		// pointer-to-node link fields in declaration order: (start, end) / (next, prev)
		node := p.typeByRole("hNode")
		fs := fieldsOfType(func(t types.Type) bool { return namedOf(t) == node && node != nil })
		idx := map[string]int{"start": 0, "end": 1, "next": 0, "prev": 1}[field]
		// decide by use rather than order where possible: 'end'/'prev' is the one stored from ...; fall back to order
		if len(fs) == 2 {
			return fs[idx]
		}
	case "stateTracker.nicks":
		return one(fieldsOfType(isMapTo("string", p.typeByRole("nick"))))
	case "stateTracker.chans":
		return one(fieldsOfType(isMapTo("string", p.typeByRole("channel"))))
	case "stateTracker.me":
		nk := p.typeByRole("nick")
		return one(fieldsOfType(func(t types.Type) bool {
			_, isPtr := t.Underlying().(*types.Pointer)
			return isPtr && namedOf(t) == nk && nk != nil
		}))
	case "stateTracker.mu", "hSet.mu", "capSet.mu":
		return one(fieldsOfType(func(t types.Type) bool { ts := typeString(t); return ts == "sync.Mutex" || ts == "sync.RWMutex" }))
	case "nick.chans":
		return one(fieldsOfType(isMapTo("*", nil)))
	case "nick.lookup":
		return one(fieldsOfType(isMapTo("string", p.typeByRole("channel"))))
	case "channel.nicks":
		return one(fieldsOfType(isMapTo("*", nil)))
	case "channel.lookup":
		return one(fieldsOfType(isMapTo("string", p.typeByRole("nick"))))
	case "nick.nick", "channel.name":
		// the field the snapshot method copies into the exported Nick.Nick / Channel.Name
		exp, expField := "Nick", "Nick"
		if typ == "channel" {
			exp, expField = "Channel", "Name"
		}
		for _, f := range p.methodsOf(n) {
			if f.Name() != exp {
				continue
			}
			var out *types.Var
			funcInstrs(f, func(in ssa.Instruction) {
				st, ok := in.(*ssa.Store)
				if !ok {
					return
				}
				if dv, _ := fieldOf(st.Addr); dv != nil && dv.Name() == expField && dv.Exported() {
					if sv, _ := loadedField(st.Val); sv != nil {
						out = sv
					}
				}
			})
			return out
		}
	case "Conn.supportedCaps", "Conn.currCaps":
		api := "(*Conn).SupportsCapability"
		if field == "currCaps" {
			api = "(*Conn).HasCapability"
		}
		if f := p.funcByName(p.Client, api); f != nil {
			var out *types.Var
			funcInstrs(f, func(in ssa.Instruction) {
				if u, ok := in.(*ssa.UnOp); ok && u.Op == token.MUL {
					if fv, _ := fieldOf(u.X); fv != nil && namedOf(fv.Type()) == p.typeByRole("capSet") {
						out = fv
					}
				}
			})
			return out
		}
	}
	return nil
}

// findStructural maps a canonical unexported name to the identifier in use.
func (p *Prog) findStructural(canon string) string {
	switch canon {
	case "hSet", "hList", "hNode", "capSet", "stateTracker", "nick", "channel":
		if n := p.typeByRole(canon); n != nil {
			return n.Obj().Name()
		}
	case "argslen":
		if f := p.funcByRole("(*Line).argslen"); f != nil {
			return f.Name()
		}
	case "add":
		if f := p.funcByRole("(*hSet).add"); f != nil {
			return f.Name()
		}
	case "hasPort", "splitMessage", "splitArgs", "indexFragment", "parseUserHost":
		if p.Client.Func(canon) != nil {
			return canon
		}
		if f := p.funcByRole(canon); f != nil {
			return f.Name()
		}
	case "intHandlers", "stHandlers":
		if _, ok := p.Client.Members[canon].(*ssa.Global); ok {
			return canon
		}
		// the package-level handler table holding the REGISTER (internal) / JOIN (state) entry
		want := "REGISTER"
		if canon == "stHandlers" {
			want = "JOIN"
		}
		var names []string
		for n, m := range p.Client.Members {
			if g, ok := m.(*ssa.Global); ok {
				if pt, ok := g.Type().Underlying().(*types.Pointer); ok {
					if mt, ok := pt.Elem().Underlying().(*types.Map); ok && isStringType(mt.Key()) {
						names = append(names, n)
					}
				}
			}
		}
		sort.Strings(names)
		for _, n := range names {
			if tab := p.handlerTableNamed(n); tab[want] != nil {
				return n
			}
		}
	}
	return ""
}
