package sa

import (
	"fmt"
	"go/types"
	"sort"

	"golang.org/x/tools/go/ssa"
)

// ---- critical-section identity -------------------------------------------------
//
// acqState says which acquisition of one abstract lock covers an instruction:
// the Lock/RLock call that started the current hold (site), a hold inherited
// from the caller (entry), none, or an ambiguous join.

type acqState struct {
	site  ssa.Instruction
	entry bool
	top   bool
}

func (a acqState) held() bool { return a.site != nil || a.entry }

func meetAcq(a, b acqState) acqState {
	if a == b {
		return a
	}
	return acqState{top: true}
}

// acqFlow computes the acquisition covering each instruction of fn (state
// immediately before the instruction).
func (ls *Locksets) acqFlow(fn *ssa.Function, lock string) map[ssa.Instruction]acqState {
	out := map[ssa.Instruction]acqState{}
	if len(fn.Blocks) == 0 {
		return out
	}
	ent := acqState{}
	if e, ok := ls.Entry[fn]; ok && e[lock] != 0 {
		ent.entry = true
	}
	in := map[*ssa.BasicBlock]acqState{fn.Blocks[0]: ent}
	seen := map[*ssa.BasicBlock]bool{fn.Blocks[0]: true}
	work := []*ssa.BasicBlock{fn.Blocks[0]}
	for len(work) > 0 {
		b := work[0]
		work = work[1:]
		cur := in[b]
		for _, x := range b.Instrs {
			out[x] = cur
			if op, ok := ls.p.lockOpOf(x); ok && !op.Deferred && op.Obj == lock {
				switch op.Method {
				case "Lock", "RLock":
					cur = acqState{site: x}
				default:
					cur = acqState{}
				}
			}
		}
		for _, s := range b.Succs {
			if !seen[s] {
				seen[s] = true
				in[s] = cur
				work = append(work, s)
				continue
			}
			if nw := meetAcq(in[s], cur); nw != in[s] {
				in[s] = nw
				work = append(work, s)
			}
		}
	}
	return out
}

type critCtx struct {
	c     *Ctx
	ls    *Locksets
	lock  string
	flows map[*ssa.Function]map[ssa.Instruction]acqState
}

func (k *critCtx) state(in ssa.Instruction) acqState {
	fn := in.Parent()
	f, ok := k.flows[fn]
	if !ok {
		f = k.ls.acqFlow(fn, k.lock)
		k.flows[fn] = f
	}
	return f[in]
}

// resolve names the acquisition covering in when its function was entered
// through the call chain ctx (outermost first). "" = not held / ambiguous.
func (k *critCtx) resolve(in ssa.Instruction, ctx []ssa.CallInstruction) string {
	st := k.state(in)
	switch {
	case st.site != nil:
		return k.c.InstrPos(st.site)
	case st.entry && len(ctx) > 0:
		return k.resolve(ctx[len(ctx)-1], ctx[:len(ctx)-1])
	case st.entry:
		return "entry:" + k.c.FuncKey(in.Parent())
	}
	return ""
}

type fedLookup struct {
	lk  ssa.Instruction
	ctx []ssa.CallInstruction
}

// feeding lists the handler-set map lookups the value v is computed from,
// following loads of fields of looked-up objects, phis, results of module
// calls (into the callee) and parameters (back to the call site in ctx).
func (k *critCtx) feeding(v ssa.Value, ctx []ssa.CallInstruction, isSetMap func(ssa.Value) bool, seen map[ssa.Value]bool, depth int, out *[]fedLookup) {
	if v == nil || seen[v] || depth > 12 {
		return
	}
	seen[v] = true
	switch t := v.(type) {
	case *ssa.Lookup:
		if isSetMap(t.X) {
			*out = append(*out, fedLookup{t, append([]ssa.CallInstruction{}, ctx...)})
			return
		}
		k.feeding(t.X, ctx, isSetMap, seen, depth+1, out)
	case *ssa.Extract:
		if call, ok := t.Tuple.(*ssa.Call); ok {
			k.feedCall(call, t.Index, ctx, isSetMap, seen, depth, out)
			return
		}
		k.feeding(t.Tuple, ctx, isSetMap, seen, depth+1, out)
	case *ssa.Call:
		k.feedCall(t, 0, ctx, isSetMap, seen, depth, out)
	case *ssa.Phi:
		for _, e := range t.Edges {
			k.feeding(e, ctx, isSetMap, seen, depth+1, out)
		}
	case *ssa.UnOp:
		k.feeding(t.X, ctx, isSetMap, seen, depth+1, out)
	case *ssa.FieldAddr:
		k.feeding(t.X, ctx, isSetMap, seen, depth+1, out)
	case *ssa.IndexAddr:
		k.feeding(t.X, ctx, isSetMap, seen, depth+1, out)
	case *ssa.BinOp:
		k.feeding(t.X, ctx, isSetMap, seen, depth+1, out)
		k.feeding(t.Y, ctx, isSetMap, seen, depth+1, out)
	case *ssa.ChangeType:
		k.feeding(t.X, ctx, isSetMap, seen, depth+1, out)
	case *ssa.MakeInterface:
		k.feeding(t.X, ctx, isSetMap, seen, depth+1, out)
	case *ssa.TypeAssert:
		k.feeding(t.X, ctx, isSetMap, seen, depth+1, out)
	case *ssa.Alloc:
		if al, ok := cellOf(t); ok {
			for _, s := range cellStores(al) {
				k.feeding(s.Val, ctx, isSetMap, seen, depth+1, out)
			}
		}
	case *ssa.Parameter:
		if len(ctx) == 0 {
			return
		}
		cs := ctx[len(ctx)-1]
		fn := t.Parent()
		for i, pr := range fn.Params {
			if pr == t && i < len(cs.Common().Args) && cs.Common().StaticCallee() == fn {
				// back in the caller: a fresh visited set keyed by the shorter context
				k.feeding(cs.Common().Args[i], ctx[:len(ctx)-1], isSetMap, map[ssa.Value]bool{}, depth+1, out)
			}
		}
	}
}

func (k *critCtx) feedCall(call *ssa.Call, idx int, ctx []ssa.CallInstruction, isSetMap func(ssa.Value) bool, seen map[ssa.Value]bool, depth int, out *[]fedLookup) {
	callee := call.Call.StaticCallee()
	if callee == nil || !k.c.InModuleFn(callee) || len(ctx) > 3 {
		return
	}
	nctx := append(append([]ssa.CallInstruction{}, ctx...), call)
	funcInstrs(callee, func(in ssa.Instruction) {
		if rt, ok := in.(*ssa.Return); ok && idx < len(rt.Results) {
			k.feeding(retVal(rt, idx), nctx, isSetMap, map[ssa.Value]bool{}, depth+1, out)
		}
	})
}

// contextsOf lists the call chains under which fn runs with the lock held by
// a caller (outermost first); a function that takes the lock itself has the
// single empty context.
func (k *critCtx) contextsOf(fn *ssa.Function, depth int) [][]ssa.CallInstruction {
	if e, ok := k.ls.Entry[fn]; !ok || e[k.lock] == 0 || depth > 3 {
		return [][]ssa.CallInstruction{nil}
	}
	var out [][]ssa.CallInstruction
	for _, cs := range k.c.staticCallers(fn) {
		for _, up := range k.contextsOf(cs.Parent(), depth+1) {
			out = append(out, append(append([]ssa.CallInstruction{}, up...), cs))
		}
	}
	if len(out) == 0 {
		return [][]ssa.CallInstruction{nil}
	}
	return out
}

// c04Atomic adds R6 (node immutability) and R7 (lookup and mutation in one
// critical section) to the C04 report.
func (c *Ctx) c04Atomic(funcs []*ssa.Function, ls *Locksets, lock string, setVar *types.Var, guarded map[*types.Var]bool) {
	r := c.R
	r.Rule("R6", "a handler node's identity fields (every non-link field: the handler and the event name) are written only while the node is under construction: dispatch reads them from its snapshot without the lock, so a linked node never changes what it invokes")
	r.Rule("R7", "check-then-act is atomic: every mutation of the handler set (map update, list link fields) and every handler-set map lookup it is computed from or conditioned on lie in the same uninterrupted hold of the set's lock")
	hn, _ := c.Named(c.Client, "hNode").Underlying().(*types.Struct)
	ident := map[*types.Var]bool{}
	for i := 0; hn != nil && i < hn.NumFields(); i++ {
		f := hn.Field(i)
		if _, isPtr := f.Type().Underlying().(*types.Pointer); !guarded[f] && !isPtr {
			// links to other handler-set structures (next, prev, owning set) are list state; the rest says what the node invokes and under which name
			ident[f] = true
		}
	}
	r.Floor("R6", "identity fields of hNode", len(ident), 2)
	isSetMap := func(m ssa.Value) bool {
		fv, _ := loadedField(m)
		return fv == setVar
	}
	k := &critCtx{c: c, ls: ls, lock: lock, flows: map[*ssa.Function]map[ssa.Instruction]acqState{}}
	n6, n7 := 0, 0
	for _, fn := range funcs {
		if ls.Dead[fn] {
			continue
		}
		funcInstrs(fn, func(in ssa.Instruction) {
			var deps []ssa.Value
			what := ""
			switch t := in.(type) {
			case *ssa.Store:
				fa, ok := t.Addr.(*ssa.FieldAddr)
				if !ok {
					return
				}
				fv, base := fieldOf(fa)
				fresh := c.allOriginsLocalAlloc(base, fn)
				if ident[fv] {
					n6++
					r.Add("R6", "ident-store:"+c.FuncKey(fn)+":"+fv.Name(), c.InstrPos(in), c.FuncKey(fn), "identity field of a handler node is written only on a node allocated in this function", fresh,
						"store to "+fv.Name()+" of "+base.String()+" which is not (only) a local allocation: a node reachable from a dispatch snapshot would change its handler")
					return
				}
				if !guarded[fv] || fresh {
					return
				}
				what = "store:" + fv.Name()
				deps = []ssa.Value{base, t.Val}
			case *ssa.MapUpdate:
				if !isSetMap(t.Map) {
					return
				}
				what = "map-update"
				deps = []ssa.Value{t.Value}
			case *ssa.Call:
				if b, ok := t.Call.Value.(*ssa.Builtin); !ok || b.Name() != "delete" || !isSetMap(t.Call.Args[0]) {
					return
				}
				what = "map-delete"
			default:
				return
			}
			for _, cd := range CondsAt(in.Block()) {
				deps = append(deps, cd.V)
			}
			for ci, ctx := range k.contextsOf(fn, 0) {
				n7++
				mine := k.resolve(in, ctx)
				ok, why := true, "critical section "+mine
				if mine == "" {
					ok, why = false, "mutation is not inside an identified hold of the lock"
				}
				var fed []fedLookup
				for _, d := range deps {
					k.feeding(d, ctx, isSetMap, map[ssa.Value]bool{}, 0, &fed)
				}
				for _, f := range fed {
					theirs := k.resolve(f.lk, f.ctx)
					if theirs != mine {
						ok = false
						why = fmt.Sprintf("depends on the lookup at %s made in critical section %q, but runs in %q: the set can change in between", c.InstrPos(f.lk), theirs, mine)
					}
				}
				if ok {
					why += fmt.Sprintf("; %d feeding lookups in the same hold", len(fed))
				}
				r.Add("R7", fmt.Sprintf("atomic:%s:%s#ctx%d", c.FuncKey(fn), what, ci), c.InstrPos(in), c.FuncKey(fn), "mutation and the lookups it depends on share one critical section", ok, why)
			}
		})
	}
	r.Floor("R6", "identity-field stores checked", n6, 2)
	r.Floor("R7", "handler-set mutations checked", n7, 6)
}

// c04AllSets: R8 (handlers never get the dispatcher's shared line) and R9
// (every event is dispatched on all three sets on every path).
func (c *Ctx) c04AllSets() {
	r, a := c.R, c.A
	r.Rule("R8", "no handler receives the dispatcher's own *Line (= C15.R1): the background and foreground sets read Line.Cmd of that shared line later to choose their handlers, so a handler that could edit it would re-route the event to handlers registered under another name")
	r.Rule("R9", "every event reaches all three handler sets: on every path of Conn.dispatch there is a dispatch on the internal, on the background and on the foreground set (a closure or goroutine started for one of them dispatches on it on every one of its paths) - no condition decides whether a set's handlers run")
	if copyFn := c.Func(c.Client, "(*Line).Copy"); r.Anchor("R8", "(*Line).Copy", copyFn != nil) {
		c.perInvocationCopy("R8", copyFn)
	}
	r.Rule("R10", "the line the three sets choose their handlers by is never reused while a dispatch may still read it: every value sent on the inbound queue is deep-fresh (= C15.R3); the background set reads Line.Cmd on a detached goroutine after the event loop has moved on")
	c.freshParsedLineRule("R10")
	r.Rule("R12", "the lock that guards a handler set is the set's own, never a copy: no function of package client receives or copies by value a struct that contains a sync.Mutex or sync.RWMutex (shared with C14.R4)")
	c.noLockCopiesRule("R12", c.clientFuncs())
	r.Rule("R13", "a registration registers: every path through Handle, HandleBG and HandleFunc reaches the set's add (no 'already registered' shortcut that hands back another handler's Remover - closures of one function literal are different handlers)")
	c.registrationAddsRule("R13")
	r.Rule("R14", "each handler's goroutine runs that handler: a closure started by a go statement inside a loop captures no variable that lives outside the loop and is assigned inside it (under go.mod's 'go 1.13' the range variable is one cell for the whole loop - every goroutine would run the handler stored last)")
	c.loopCaptureRule("R14")
	r.Rule("R15", "each incoming event is dispatched: in the receive goroutine every accepted line is handed over by a blocking send before the next read (shared with C03.R1) - a line the reader deals with itself 'because the queue is full' (answering a PING from recv, say) never reaches the handlers registered for it")
	if pf := c.producerFrame(); r.Anchor("R15", "the receive goroutine that feeds the inbound queue", pf != nil) {
		c.handoverRule("R15", pf.Member)
	}
	r.Rule("R11", "registering or removing a handler takes no lock but the handler set's own: in everything Handle, HandleBG, HandleFunc and a Remover's Remove reach by plain calls, the only lock acquired is the set's and nothing waits (no channel operation, WaitGroup.Wait, Cond.Wait or Sleep: a handler may remove itself) (the teardown holds the connection mutex while it waits for a running handler, so a registration that touched it from inside a handler would deadlock the disconnect)")
	c.registrationLocksRule("R11")
	cd := a.ConnDispatch
	if !r.Anchor("R9", "Conn.dispatch", cd != nil) {
		return
	}
	var event func(in ssa.Instruction, set *types.Var, depth int) bool
	event = func(in ssa.Instruction, set *types.Var, depth int) bool {
		cs, ok := in.(ssa.CallInstruction)
		if !ok || depth > 3 {
			return false
		}
		cc := cs.Common()
		if cc.IsInvoke() {
			return false
		}
		if cc.StaticCallee() == a.SetDispatch && c.setFieldOf(cs) == set {
			return true
		}
		// a closure / module function that dispatches on the set on every one of its paths
		var f *ssa.Function
		if mc, isMC := cc.Value.(*ssa.MakeClosure); isMC {
			f, _ = mc.Fn.(*ssa.Function)
		} else if sc := cc.StaticCallee(); sc != nil && sc != a.SetDispatch && sc != cd && c.InModuleFn(sc) && sc.Package() == c.Client {
			f = sc
		}
		if f == nil || len(f.Blocks) == 0 {
			return false
		}
		okAll, _ := AllPathsFromEntryPass(f, func(x ssa.Instruction) bool { return event(x, set, depth+1) })
		return okAll
	}
	for _, set := range []*types.Var{a.Int, a.BG, a.FG} {
		if set == nil {
			continue
		}
		okAll, bad := AllPathsFromEntryPass(cd, func(x ssa.Instruction) bool { return event(x, set, 0) })
		why := "a dispatch on the " + c.setName(set) + " set lies on every path"
		if !okAll {
			why = "the return at " + c.InstrPos(bad) + " (or a path of the closure started for it) is reachable without dispatching on the " + c.setName(set) + " set"
		}
		r.Add("R9", "all-sets:"+c.setName(set), c.Pos(cd.Pos()), c.FuncKey(cd), "every event is dispatched on the "+c.setName(set)+" set", okAll, why)
	}
}

// registrationLocksRule: the registration / removal API acquires only the
// handler-set lock.
func (c *Ctx) registrationLocksRule(rule string) {
	r := c.R
	funcs := c.clientFuncs()
	acq := c.Acquires(funcs)
	own := c.lockFieldName(c.Client, "hSet")
	var apis []*ssa.Function
	for _, n := range []string{"(*Conn).Handle", "(*Conn).HandleBG", "(*Conn).HandleFunc", "(*hNode).Remove"} {
		if f := c.Func(c.Client, n); f != nil {
			apis = append(apis, f)
		}
	}
	r.Floor(rule, "registration / removal API functions", len(apis), 3)
	for _, f := range apis {
		var others []string
		for l := range acq[f] {
			if l != own {
				others = append(others, l)
			}
		}
		sort.Strings(others)
		r.Add(rule, "registration-locks:"+c.FuncKey(f), c.Pos(f.Pos()), c.FuncKey(f), "only the handler set's own lock is taken", len(others) == 0, fmt.Sprintf("also acquires %v", others))
		// ... and nothing else it reaches can wait: a handler may register or remove handlers - itself included
		var waits []string
		reach := c.Closure([]*ssa.Function{f}, func(from *ssa.Function, e Edge) bool { return e.Kind != EdgeGo })
		for _, g := range reach.Order {
			if !c.InModuleFn(g) {
				continue
			}
			for _, op := range ChanOps(g) {
				if op.Blocking {
					waits = append(waits, op.Kind+" at "+c.InstrPos(op.In))
				}
			}
			funcInstrs(g, func(in ssa.Instruction) {
				if _, isGo := in.(*ssa.Go); isGo {
					return
				}
				if cc := callOf(in); cc != nil {
					switch calleeName(cc) {
					case "(*sync.WaitGroup).Wait", "(*sync.Cond).Wait", "time.Sleep":
						waits = append(waits, calleeName(cc)+" at "+c.InstrPos(in))
					}
				}
			})
		}
		sort.Strings(waits)
		r.Add(rule, "registration-waits:"+c.FuncKey(f), c.Pos(f.Pos()), c.FuncKey(f), "registration and removal never wait for anything but the set's lock (a handler that removes itself, or a sibling that depends on it, would wait for ever)", len(waits) == 0, fmt.Sprintf("waits: %v", waits))
	}
}

// handlerKeysRule: C04.R1 (lower-cased keys on every string-keyed map of the
// handler set) and C05.R5 (dispatch walks a fresh snapshot built under the
// lock), under another property's rule id.
func (c *Ctx) handlerKeysRule(rule string) {
	r := c.R
	setVar := c.FieldVar(c.Client, "hSet", "set")
	if !r.Anchor(rule, "hSet.set", setVar != nil) {
		return
	}
	funcs := c.clientFuncs()
	memo := map[*types.Var]int{}
	n := 0
	for _, fn := range funcs {
		funcInstrs(fn, func(in ssa.Instruction) {
			var m, key ssa.Value
			switch t := in.(type) {
			case *ssa.Lookup:
				m, key = t.X, t.Index
			case *ssa.MapUpdate:
				m, key = t.Map, t.Key
			case *ssa.Call:
				if b, ok := t.Call.Value.(*ssa.Builtin); ok && b.Name() == "delete" {
					m, key = t.Call.Args[0], t.Call.Args[1]
				}
			}
			if m == nil {
				return
			}
			fv, base := loadedField(m)
			if fv == nil || (fv != setVar && !c.isHSetStringMap(fv, base)) {
				return
			}
			n++
			ok, why := c.normalised(key, memo)
			r.Add(rule, "key:"+c.FuncKey(fn)+":"+fv.Name()+":"+opName(in), c.InstrPos(in), c.FuncKey(fn), "every event-name-keyed map of the handler set uses lower-cased keys", ok, why)
		})
	}
	r.Floor(rule, "handler-set map operations", n, 4)
	c.snapshotRule(rule, c.ComputeLocksets(funcs), c.lockFieldName(c.Client, "hSet"))
}

// registrationAddsRule: C04.R13.
func (c *Ctx) registrationAddsRule(rule string) {
	r := c.R
	n := 0
	var isAdd func(in ssa.Instruction, seen map[*ssa.Function]bool) bool
	isAdd = func(in ssa.Instruction, seen map[*ssa.Function]bool) bool {
		if _, isGo := in.(*ssa.Go); isGo {
			return false
		}
		cc := callOf(in)
		if cc == nil || cc.IsInvoke() {
			return false
		}
		cal := cc.StaticCallee()
		if cal == nil || !c.InModuleFn(cal) {
			return false
		}
		if rn := recvNamed(cal); rn != nil && rn == c.A.HSet && cal.Name() == c.nm("add") {
			return true
		}
		if seen[cal] || cal.Package() != c.Client {
			return false
		}
		seen[cal] = true
		defer delete(seen, cal)
		ok, _ := AllPathsFromEntryPass(cal, func(x ssa.Instruction) bool { return isAdd(x, seen) })
		return ok
	}
	for _, name := range []string{"(*Conn).Handle", "(*Conn).HandleBG", "(*Conn).HandleFunc"} {
		f := c.Func(c.Client, name)
		if f == nil {
			continue
		}
		n++
		ok, bad := AllPathsFromEntryPass(f, func(x ssa.Instruction) bool { return isAdd(x, map[*ssa.Function]bool{}) })
		why := "every path adds the handler to its set"
		if !ok {
			why = "the return at " + c.InstrPos(bad) + " is reached without the handler having been added"
		}
		r.Add(rule, "registration-adds:"+c.FuncKey(f), c.Pos(f.Pos()), c.FuncKey(f), "a registration always adds the handler", ok, why)
	}
	r.Floor(rule, "registration API functions", n, 2)
}

// loopCaptureRule: every goroutine started inside a loop works on its own
// iteration's values: a closure started by a go statement in a loop captures
// no variable that lives outside the loop and is assigned inside it (the
// per-loop iteration variable of Go before 1.22 - go.mod says which - is one
// cell shared by all iterations: every goroutine then sees the last value).
// For the dispatcher that is "each handler runs once" turned into "the last
// handler runs n times".
func (c *Ctx) loopCaptureRule(rule string) {
	r := c.R
	n := 0
	for _, fn := range c.ModFuncs {
		if fn.Package() != c.Client && fn.Package() != c.State {
			continue
		}
		funcInstrs(fn, func(in ssa.Instruction) {
			g, ok := in.(*ssa.Go)
			if !ok || c.LoopDepth(g.Block()) == 0 {
				return
			}
			mc, ok := g.Call.Value.(*ssa.MakeClosure)
			if !ok {
				return
			}
			n++
			gd := c.LoopDepth(g.Block())
			bad := ""
			for _, b := range mc.Bindings {
				al, isA := b.(*ssa.Alloc)
				if !isA || c.LoopDepth(al.Block()) >= gd {
					continue
				}
				for _, ref := range *al.Referrers() {
					if st, isS := ref.(*ssa.Store); isS && st.Addr == ssa.Value(al) && st.Parent() == fn && c.LoopDepth(st.Block()) >= gd {
						bad = "captures " + al.Comment + ", one variable for the whole loop, assigned in the loop at " + c.InstrPos(st)
					}
				}
			}
			r.Add(rule, "loop-capture:"+c.FuncKey(fn), c.InstrPos(g), c.FuncKey(fn), "a goroutine started in a loop works on its own iteration's values", bad == "", bad)
		})
	}
	// no floor: where the per-handler goroutines are started is pinned by C16.R2; a dispatcher that starts them
	// through a named function has nothing to capture
	r.Add(rule, "loop-capture-examined", "-", "", "closures started as goroutines inside loops examined", true, fmt.Sprintf("%d", n))
}
