package sa

import (
	"fmt"
	"go/token"
	"go/types"
	"strings"

	"golang.org/x/tools/go/ssa"
)

// memVN value-numbers loads within one function: two loads with the same
// structural address and no possibly-modifying instruction on any path
// between them denote the same value; a load with a dominating store to the
// same address and nothing modifying in between denotes the stored value.
type memVN struct {
	p      *Prover
	fn     *ssa.Function
	key    map[*ssa.UnOp]string
	rep    map[*ssa.UnOp]*ssa.UnOp
	store  map[*ssa.UnOp]*ssa.Store
	byKey  map[string][]*ssa.UnOp
	stores map[string][]*ssa.Store
	info   map[string]*addrInfo
	reach  map[ssa.Instruction]map[ssa.Instruction]bool
}

type addrInfo struct {
	root    ssa.Value  // Alloc / Parameter / other pointer the address is rooted at
	field   *types.Var // top-level field (nil for element addresses)
	elem    types.Type // element type for index addresses
	isIndex bool
}

func (p *Prover) memOf(fn *ssa.Function) *memVN {
	if m, ok := p.mem[fn]; ok {
		return m
	}
	m := &memVN{p: p, fn: fn, key: map[*ssa.UnOp]string{}, rep: map[*ssa.UnOp]*ssa.UnOp{}, store: map[*ssa.UnOp]*ssa.Store{},
		byKey: map[string][]*ssa.UnOp{}, stores: map[string][]*ssa.Store{}, info: map[string]*addrInfo{}, reach: map[ssa.Instruction]map[ssa.Instruction]bool{}}
	p.mem[fn] = m
	// dominator-tree preorder so that dominating loads are numbered first
	var order []*ssa.BasicBlock
	var walk func(b *ssa.BasicBlock)
	walk = func(b *ssa.BasicBlock) {
		order = append(order, b)
		for _, d := range b.Dominees() {
			walk(d)
		}
	}
	if len(fn.Blocks) > 0 {
		walk(fn.Blocks[0])
	}
	for _, b := range order {
		for _, in := range b.Instrs {
			switch t := in.(type) {
			case *ssa.Store:
				if k, ai := m.addrKey(t.Addr); k != "" {
					m.stores[k] = append(m.stores[k], t)
					m.info[k] = ai
				}
			case *ssa.UnOp:
				if t.Op != token.MUL {
					continue
				}
				k, ai := m.addrKey(t.X)
				if k == "" {
					continue
				}
				m.key[t] = k
				m.info[k] = ai
				// reaching store: the latest dominating store to k with no clobber in between
				for i := len(m.stores[k]) - 1; i >= 0; i-- {
					s := m.stores[k][i]
					if instrDominates(s, t) && !m.clobbered(p, s, t, k) {
						m.store[t] = s
						break
					}
				}
				// representative: an earlier load of k that dominates with no clobber in between
				for i := len(m.byKey[k]) - 1; i >= 0; i-- {
					r := m.byKey[k][i]
					if instrDominates(r, t) && !m.clobbered(p, r, t, k) {
						m.rep[t] = r
						break
					}
				}
				if m.rep[t] == nil {
					m.byKey[k] = append(m.byKey[k], t)
				}
			}
		}
	}
	return m
}

// rep returns the representative of a load (or v itself).
func (p *Prover) rep(v ssa.Value) ssa.Value {
	u, ok := v.(*ssa.UnOp)
	if !ok || u.Op != token.MUL || u.Parent() == nil {
		return v
	}
	m := p.memOf(u.Parent())
	if r := m.rep[u]; r != nil {
		return r
	}
	return v
}

// reachingStore returns the store whose value the load (or its
// representative) certainly reads, if any.
func (p *Prover) reachingStore(u *ssa.UnOp) *ssa.Store {
	if u.Parent() == nil {
		return nil
	}
	m := p.memOf(u.Parent())
	if s := m.store[u]; s != nil {
		return s
	}
	return nil
}

// addrKey: structural key of an address expression.
func (m *memVN) addrKey(addr ssa.Value) (string, *addrInfo) {
	switch a := addr.(type) {
	case *ssa.FieldAddr:
		bk, root := m.ptrKey(a.X)
		if bk == "" {
			return "", nil
		}
		fv, _ := fieldOf(a)
		return bk + "." + fv.Name(), &addrInfo{root: root, field: fv}
	case *ssa.IndexAddr:
		bk, root := m.valKey(a.X)
		if bk == "" {
			return "", nil
		}
		ik := ""
		if k, ok := constInt(a.Index); ok {
			ik = fmt.Sprint(k)
		} else {
			ik = "%" + a.Index.Name()
		}
		var et types.Type
		switch t := a.X.Type().Underlying().(type) {
		case *types.Slice:
			et = t.Elem()
		case *types.Pointer:
			if ar, ok := t.Elem().Underlying().(*types.Array); ok {
				et = ar.Elem()
			}
		}
		return bk + "[" + ik + "]", &addrInfo{root: root, elem: et, isIndex: true}
	case *ssa.Alloc:
		if isStructAlloc(a) {
			return "", nil
		}
		return "cell:" + a.Name(), &addrInfo{root: a}
	}
	return "", nil
}

// ptrKey: key of a pointer value used as the base of a field address.
func (m *memVN) ptrKey(v ssa.Value) (string, ssa.Value) {
	switch t := v.(type) {
	case *ssa.Alloc:
		return "&" + t.Name(), t
	case *ssa.Parameter:
		return "p:" + t.Name(), t
	case *ssa.FreeVar:
		return "fv:" + t.Name(), t
	case *ssa.UnOp:
		if t.Op == token.MUL {
			r := t
			if rr := m.rep[t]; rr != nil {
				r = rr
			}
			if k, ok := m.key[r]; ok {
				return "(*" + k + "@" + r.Name() + ")", nil
			}
		}
	case *ssa.FieldAddr:
		k, ai := m.addrKey(t)
		if k != "" {
			return "&(" + k + ")", ai.root
		}
	}
	return "", nil
}

// valKey: key of a slice/array-pointer value used as the base of an index address.
func (m *memVN) valKey(v ssa.Value) (string, ssa.Value) {
	switch t := v.(type) {
	case *ssa.UnOp:
		if t.Op == token.MUL {
			r := t
			if rr := m.rep[t]; rr != nil {
				r = rr
			}
			if _, ok := m.key[r]; ok {
				return "v:" + r.Name(), nil
			}
		}
	case *ssa.Alloc:
		return "&" + t.Name(), t
	}
	if v.Name() != "" {
		return "v:" + v.Name(), nil
	}
	return "", nil
}

func (m *memVN) reachFrom(a ssa.Instruction) map[ssa.Instruction]bool {
	if r, ok := m.reach[a]; ok {
		return r
	}
	r := ReachFrom(a, false, nil)
	m.reach[a] = r
	return r
}

// clobbered: some instruction on a path from a to b may modify location k.
func (m *memVN) clobbered(p *Prover, a, b ssa.Instruction, k string) bool {
	ai := m.info[k]
	fromA := ReachFrom(a, false, func(in ssa.Instruction) bool { return in == b })
	for x := range fromA {
		if x == b {
			continue
		}
		if !m.mayWrite(p, x, k, ai) {
			continue
		}
		if m.reachFrom(x)[b] {
			return true
		}
	}
	// a cycle through b that does not pass a (b inside a loop that a precedes)
	fromB := ReachFrom(b, false, func(in ssa.Instruction) bool { return in == a })
	if fromB[b] {
		for x := range fromB {
			if x == a || x == b {
				continue
			}
			if m.mayWrite(p, x, k, ai) && m.reachFrom(x)[b] {
				return true
			}
		}
	}
	return false
}

var pureExternalPrefixes = []string{"strings.", "unicode.", "unicode/utf8.", "strconv.", "time.", "runtime.", "fmt.Sprint", "sort.", "encoding/base64.", "(time.", "(*time.", "(*runtime.", "(*strings.Replacer).Replace", "builtin."}

func isPureExternal(name string) bool {
	for _, pre := range pureExternalPrefixes {
		if strings.HasPrefix(name, pre) {
			return true
		}
	}
	return false
}

// mayWrite: instruction x may modify the location with key k.
func (m *memVN) mayWrite(p *Prover, x ssa.Instruction, k string, ai *addrInfo) bool {
	switch t := x.(type) {
	case *ssa.Store:
		k2, a2 := m.addrKey(t.Addr)
		if k2 == k {
			return true
		}
		if a2 == nil {
			// store through an unknown pointer: may alias anything of the same type unless the root is a non-escaped local
			if al, ok := ai.root.(*ssa.Alloc); ok && !m.escapedBefore(al, x) {
				return false
			}
			return true
		}
		if ai.isIndex {
			// element store may alias an element location of the same element type; keys differing
			// only in a constant index of the same base cannot alias
			if a2.isIndex && a2.elem != nil && ai.elem != nil && types.Identical(a2.elem, ai.elem) {
				return !sameBaseDifferentConstIndex(k, k2)
			}
			return false
		}
		if ai.field != nil && a2.field == ai.field {
			// same field of possibly the same object: alias unless both are rooted at distinct local allocations
			if r1, ok1 := ai.root.(*ssa.Alloc); ok1 {
				if r2, ok2 := a2.root.(*ssa.Alloc); ok2 && r1 != r2 {
					return false
				}
			}
			return true
		}
		if ai.field == nil && !ai.isIndex {
			return false // a local cell is only written through its own key
		}
		return false
	case *ssa.MapUpdate:
		return false
	case ssa.CallInstruction:
		cc := t.Common()
		if _, isB := cc.Value.(*ssa.Builtin); isB {
			if cc.Value.(*ssa.Builtin).Name() == "copy" {
				return ai.isIndex
			}
			if cc.Value.(*ssa.Builtin).Name() == "append" {
				return false // append writes beyond len or to fresh storage
			}
			return false
		}
		name := calleeName(cc)
		if isPureExternal(name) {
			return false
		}
		if strings.HasPrefix(name, modPath+"/logging.") {
			return false
		}
		if callee := cc.StaticCallee(); callee != nil && !cc.IsInvoke() && p.c.InModuleFn(callee) && p.readOnlyFn(callee) {
			return false
		}
		// a call can modify the location only if it can reach the root object
		if al, ok := ai.root.(*ssa.Alloc); ok {
			return m.escapedBefore(al, x) || passes(cc, al)
		}
		return true
	case *ssa.Send, *ssa.Go:
		return false
	}
	return false
}

func sameBaseDifferentConstIndex(k1, k2 string) bool {
	i1, i2 := strings.LastIndex(k1, "["), strings.LastIndex(k2, "[")
	if i1 < 0 || i2 < 0 || k1[:i1] != k2[:i2] {
		return false
	}
	a, b := k1[i1:], k2[i2:]
	return a != b && !strings.Contains(a, "%") && !strings.Contains(b, "%")
}

func passes(cc *ssa.CallCommon, al *ssa.Alloc) bool {
	for _, a := range cc.Args {
		if a == ssa.Value(al) {
			return true
		}
	}
	return cc.Value == ssa.Value(al)
}

// escapedBefore: the local allocation al has been handed to other code
// (call argument, stored, captured, boxed) by an instruction that can
// execute before x.
func (m *memVN) escapedBefore(al *ssa.Alloc, x ssa.Instruction) bool {
	for _, ref := range *al.Referrers() {
		var esc ssa.Instruction
		switch t := ref.(type) {
		case *ssa.Store:
			if t.Val == ssa.Value(al) {
				esc = t
			}
		case *ssa.MakeInterface, *ssa.MakeClosure, *ssa.Send:
			esc = t.(ssa.Instruction)
		case *ssa.MapUpdate:
			if t.Value == ssa.Value(al) {
				esc = t
			}
		case ssa.CallInstruction:
			if _, isB := t.Common().Value.(*ssa.Builtin); !isB {
				if callee := t.Common().StaticCallee(); callee != nil && !t.Common().IsInvoke() && m.p != nil && m.p.c.InModuleFn(callee) && m.p.readOnlyFn(callee) {
					continue // only reads through the pointer and keeps no copy
				}
				esc = t
			}
		case *ssa.Phi:
			return true
		}
		if esc == nil {
			continue
		}
		if esc == x || m.reachFrom(esc)[x] {
			return true
		}
	}
	return false
}
