package sa

import (
	"fmt"
	"go/token"

	"golang.org/x/tools/go/ssa"
)

// tableRange is one range loop over a package-level handler table, possibly
// inside a helper that received the table as an argument at call site Via.
type tableRange struct {
	Range *ssa.Range
	Fn    *ssa.Function
	Via   ssa.CallInstruction // nil when fn loads the table itself
}

// tableUses finds every use of the package-level table g outside init: range
// loops (directly, or in a module helper the table is passed to) and len()
// are accepted; any other use is returned in bad.
func (c *Ctx) tableUses(g *ssa.Global) (ranges []tableRange, bad []string) {
	var visit func(v ssa.Value, fn *ssa.Function, via ssa.CallInstruction, depth int)
	visit = func(v ssa.Value, fn *ssa.Function, via ssa.CallInstruction, depth int) {
		if v.Referrers() == nil {
			return
		}
		for _, ref := range *v.Referrers() {
			switch t := ref.(type) {
			case *ssa.DebugRef:
			case *ssa.Range:
				ranges = append(ranges, tableRange{t, fn, via})
			case *ssa.ChangeType:
				visit(t, fn, via, depth)
			case *ssa.Call:
				if b, ok := t.Call.Value.(*ssa.Builtin); ok && b.Name() == "len" {
					continue
				}
				callee := t.Call.StaticCallee()
				if callee == nil || !c.InModuleFn(callee) || depth >= 2 {
					bad = append(bad, "passed to "+calleeName(&t.Call)+" at "+c.InstrPos(t))
					continue
				}
				for i, arg := range t.Call.Args {
					if arg == v && i < len(callee.Params) {
						outer := via
						if outer == nil {
							outer = t
						}
						visit(callee.Params[i], callee, outer, depth+1)
					}
				}
			default:
				bad = append(bad, fmt.Sprintf("used by %T at %s", ref, c.InstrPos(ref)))
			}
		}
	}
	for _, fn := range c.ModFuncs {
		if fn.Package() != c.Client || fn.Name() == "init" {
			continue
		}
		funcInstrs(fn, func(in ssa.Instruction) {
			if u, ok := in.(*ssa.UnOp); ok && u.Op == token.MUL && u.X == ssa.Value(g) {
				visit(u, fn, nil, 0)
			}
		})
	}
	return
}

// registrationsOf lists the calls of the internal-set registration wrapper
// that receive a value ranged from tr.
func (c *Ctx) registrationsOf(tr tableRange, handle *ssa.Function) []*ssa.Call {
	var out []*ssa.Call
	seen := map[ssa.Value]bool{}
	var follow func(v ssa.Value, d int)
	follow = func(v ssa.Value, d int) {
		if seen[v] || d > 6 || v.Referrers() == nil {
			return
		}
		seen[v] = true
		for _, u := range *v.Referrers() {
			switch t := u.(type) {
			case *ssa.ChangeType, *ssa.MakeInterface, *ssa.ChangeInterface, *ssa.Phi:
				follow(t.(ssa.Value), d+1)
			case *ssa.Store:
				if al, ok := t.Addr.(*ssa.Alloc); ok {
					for _, lr := range *al.Referrers() {
						if ld, ok := lr.(*ssa.UnOp); ok && ld.Op == token.MUL {
							follow(ld, d+1)
						}
					}
				}
			case *ssa.Call:
				if t.Call.StaticCallee() == handle {
					out = append(out, t)
				}
			}
		}
	}
	for _, ref := range *tr.Range.Referrers() {
		if nx, ok := ref.(*ssa.Next); ok {
			for _, r2 := range *nx.Referrers() {
				if ex, ok := r2.(*ssa.Extract); ok && ex.Index == 2 {
					follow(ex, 0)
				}
			}
		}
	}
	return out
}

// permanentRegistrations: no Remover obtained by registering a handler of
// table g is ever invoked. Returns the violations found.
func (c *Ctx) permanentRegistrations(g *ssa.Global, handle *ssa.Function) (nRegs int, bad []string) {
	ranges, _ := c.tableUses(g)
	tainted := map[interface{}]bool{} // *types.Var fields
	seen := map[ssa.Value]bool{}
	var fwd func(v ssa.Value, via ssa.CallInstruction, d int)
	fwd = func(v ssa.Value, via ssa.CallInstruction, d int) {
		if v == nil || seen[v] || d > 12 || v.Referrers() == nil {
			return
		}
		seen[v] = true
		for _, u := range *v.Referrers() {
			switch t := u.(type) {
			case *ssa.DebugRef:
			case *ssa.ChangeType, *ssa.MakeInterface, *ssa.ChangeInterface, *ssa.Phi, *ssa.Slice:
				fwd(t.(ssa.Value), via, d+1)
			case *ssa.Store:
				if t.Val != v {
					continue
				}
				if fv, _ := fieldOf(t.Addr); fv != nil {
					tainted[fv] = true
					continue
				}
				switch a := t.Addr.(type) {
				case *ssa.Alloc:
					for _, lr := range *a.Referrers() {
						if ld, ok := lr.(*ssa.UnOp); ok && ld.Op == token.MUL {
							fwd(ld, via, d+1)
						}
					}
				case *ssa.IndexAddr:
					// element of a local array/slice (varargs / append lowering): the container carries it
					fwd(a.X, via, d+1)
					if al, ok := a.X.(*ssa.Alloc); ok {
						for _, lr := range *al.Referrers() {
							if sl, ok := lr.(*ssa.Slice); ok {
								fwd(sl, via, d+1)
							}
						}
					}
				}
			case *ssa.Return:
				if via != nil {
					if cv, ok := via.(ssa.Value); ok {
						fwd(cv, nil, d+1)
					}
				} else {
					for _, cs := range c.staticCallers(t.Parent()) {
						if cv, ok := cs.(ssa.Value); ok {
							fwd(cv, nil, d+1)
						}
					}
				}
			case *ssa.Extract:
				fwd(t, via, d+1)
			case ssa.CallInstruction:
				cc := t.Common()
				if cc.IsInvoke() && cc.Value == v && cc.Method.Name() == "Remove" {
					bad = append(bad, "the registration's Remover is invoked at "+c.InstrPos(t))
					continue
				}
				if b, ok := cc.Value.(*ssa.Builtin); ok && b.Name() == "append" {
					if cv, ok := t.(ssa.Value); ok {
						fwd(cv, via, d+1)
					}
					continue
				}
				if callee := cc.StaticCallee(); callee != nil && c.InModuleFn(callee) {
					if callee.Name() == "Remove" && len(cc.Args) > 0 && cc.Args[0] == v {
						bad = append(bad, "the registration's Remover is invoked at "+c.InstrPos(t))
						continue
					}
					for i, arg := range cc.Args {
						if arg == v && i < len(callee.Params) {
							fwd(callee.Params[i], nil, d+1)
						}
					}
				}
			}
		}
	}
	for _, tr := range ranges {
		for _, reg := range c.registrationsOf(tr, handle) {
			nRegs++
			fwd(reg, tr.Via, 0)
		}
	}
	if len(tainted) == 0 {
		return
	}
	// a Remove invoked on anything loaded from a field that may hold such a Remover
	for _, fn := range c.clientFuncs() {
		funcInstrs(fn, func(in ssa.Instruction) {
			cc := callOf(in)
			if cc == nil {
				return
			}
			var recv ssa.Value
			if cc.IsInvoke() && cc.Method.Name() == "Remove" {
				recv = cc.Value
			} else if f := cc.StaticCallee(); f != nil && f.Name() == "Remove" && f.Signature.Recv() != nil && len(cc.Args) > 0 {
				recv = cc.Args[0]
			}
			if recv == nil {
				return
			}
			vis := map[ssa.Value]bool{}
			var back func(v ssa.Value, d int)
			back = func(v ssa.Value, d int) {
				if v == nil || vis[v] || d > 10 {
					return
				}
				vis[v] = true
				if fv, _ := loadedField(v); fv != nil && tainted[fv] {
					bad = append(bad, "Remove at "+c.InstrPos(in)+" is invoked on a value loaded from "+fv.Name()+", which can hold the Remover of a built-in handler")
					return
				}
				switch t := v.(type) {
				case *ssa.UnOp:
					back(t.X, d+1)
				case *ssa.IndexAddr:
					back(t.X, d+1)
				case *ssa.FieldAddr:
					back(t.X, d+1)
				case *ssa.Extract:
					back(t.Tuple, d+1)
				case *ssa.Next:
					back(t.Iter, d+1)
				case *ssa.Range:
					back(t.X, d+1)
				case *ssa.Phi:
					for _, e := range t.Edges {
						back(e, d+1)
					}
				case *ssa.ChangeInterface:
					back(t.X, d+1)
				case *ssa.MakeInterface:
					back(t.X, d+1)
				case *ssa.Slice:
					back(t.X, d+1)
				case *ssa.Lookup:
					back(t.X, d+1)
				}
			}
			back(recv, 0)
		})
	}
	return
}
